"""tools/keep_seed.py <seed dir> <id> <prop for check> <verify txt> <detect log>: store a confirmed seeded change under /verif/seeded/<id>/"""
import json, os, re, shutil, sys
sd, sid, prop, vtxt, dlog = sys.argv[1:6]
dst = "/verif/seeded/%s" % sid
os.makedirs(dst, exist_ok=True)
shutil.copy(os.path.join(sd, "patch.diff"), dst)
shutil.copy(os.path.join(sd, "demo.py"), dst)
meta = json.load(open(os.path.join(sd, "meta.json")))
ver = open(vtxt).read() if os.path.exists(vtxt) else ""
det = open(dlog).read() if os.path.exists(dlog) else ""
m = re.search(r"test suite with change: (.*)", ver)
failed = re.findall(r"^FAILED (\S+)", ver, re.M)
baseline = [f for f in failed if any(x in f for x in ("plugin_test", "get_user_config_dir_path", "diff_quality_plugin_test"))]
out = {
    "property": meta.get("property"), "summary": meta.get("summary"), "needs_to_manifest": meta.get("needs_to_manifest"), "files": meta.get("files"),
    "author": "independent sub-agent given only the property text and a scratch worktree",
    "confirmed_by_coordinator": {
        "how": "tools/verify_seed.sh in a scratch git worktree of /repo: demo.py without the change, git apply patch.diff, demo.py with the change, whole test suite with the change",
        "demo_without_change": (re.search(r"demo without change: (.*)", ver) or [None, None])[1],
        "demo_with_change": (re.search(r"demo with change: (.*)", ver) or [None, None])[1],
        "test_suite_with_change": m.group(1) if m else None,
        "failed_tests_all_sandbox_baseline": (len(failed) == len(baseline)) if ver else None,
        "failed_tests": failed,
    },
    "detection": {
        "checked_with": "tools/try_seed.sh %s %s quick" % (sd, prop),
        "check": prop,
        "violation_lines": [l.strip() for l in det.splitlines() if l.startswith("VIOLATION") or l.strip().startswith("what:")][:8],
        "exit": (re.search(r"exit=(\d+)", det) or [None, None])[1],
    },
}
json.dump(out, open(os.path.join(dst, "meta.json"), "w"), indent=1)
print(sid, out["confirmed_by_coordinator"]["test_suite_with_change"], out["detection"]["exit"])
