#!/bin/bash
# tools/try_seed.sh <dir with patch.diff> <Cxx> [tier]  -- run a check against a scratch worktree of /repo with the seeded change applied
# (equivalent to `git -C /repo apply`, run, `git -C /repo checkout -- .`, but does not disturb other work using /repo)
set -u
SD="$1"; P="$2"; TIER="${3:-quick}"
WT=/tmp/seedrun/$$
mkdir -p /tmp/seedrun
git -C /repo worktree add --detach "$WT" HEAD >/dev/null 2>&1 || exit 2
trap 'git -C /repo worktree remove --force "$WT" >/dev/null 2>&1' EXIT
git -C "$WT" apply "$SD/patch.diff" || { echo "PATCH DOES NOT APPLY"; exit 3; }
cd /verif && VERIF_REPO="$WT" ./check "$P" --tier "$TIER" 2>&1 | cut -c1-400 | tail -25
echo "exit=${PIPESTATUS[0]}"
