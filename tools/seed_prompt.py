"""Print the prompt given to a seeding sub-agent for one property (only the property text + its scratch worktree)."""
import json, sys
pid = sys.argv[1]
wt = "/tmp/seed/%s" % pid
for l in open("/verif/properties.jsonl"):
    p = json.loads(l)
    if p["id"] == pid:
        break
print(f"""You are helping to evaluate a verification effort by playing the role of a developer who introduces a subtle regression.

Work ONLY inside the scratch git worktree {wt} (a checkout of the sqlfluff repository, a SQL linter written in Python). Do NOT read, list or modify /repo or /verif (anything you need is in the worktree). No network is available.

How to run code against your worktree: the `sqlfluff` package is installed in editable mode from another directory, so you MUST put the worktree first on the path:
  cd {wt} && PYTHONPATH={wt}/src /venv/bin/python ...
  (check with: PYTHONPATH={wt}/src /venv/bin/python -c "import sqlfluff; print(sqlfluff.__file__)" -> must print a path under {wt})
How to run tests: the machine is shared, so do NOT run the whole suite (the coordinator will run the full 10880-test suite on your final patches).
Run only the test directories that cover the modules you touch, never more than 3 workers and one pytest run at a time, e.g.
  cd {wt} && PYTHONPATH={wt}/src /venv/bin/python -m pytest -q -p no:cacheprovider -n 3 --timeout=900 test/core/parser test/core/linter 2>&1 | tail -15
Known failures of this sandbox on the unchanged code (ignore them): test/core/plugin_test.py (3), test/core/config/loader_test.py::test__config__get_user_config_dir_path (3), test/diff_quality_plugin_test.py (4).
The Rust extension (sqlfluffrs) is not installed; the Python lexer/parser are what runs.

The semantic property (this is all you are told about what the verification is supposed to guarantee):

  Title: {p['title']}
  Statement: {p['statement']}
  Quantified over: {p['quantifier']['text']}
  Code anchors (where the mechanism lives): {json.dumps(p['anchors'].get('mechanism', p['anchors']), ensure_ascii=False)}

Your task: produce TWO different, independent source changes (call them `a` and `b`) under {wt}/src/sqlfluff, each of which
  1. makes sqlfluff VIOLATE the property above for some input / configuration / schedule / fault / history,
  2. still imports and passes the existing test suite unedited (run the relevant test directories as described above and make an honest judgement that no other test depends on the changed behaviour -- grep the tests for the functions you touch; do not edit tests),
  3. is realistic: it should look like a plausible refactor, optimisation, off-by-one, wrong default, missed edge case or mis-ordered pair of statements that a reviewer could wave through -- not sabotage such as `if x == "magic"`,
  4. needs something SPECIFIC to manifest -- a particular interleaving, a crash or fault at a particular point, a multi-step sequence of operations, an unusual input or configuration, or two cooperating sites that each look fine alone. Ordinary everyday use (and the existing tests) must NOT expose it at once. Prefer changes at different mechanisms/sites for `a` and `b`.

For each change X in {{a, b}} deliver a directory {wt}/SEED/X/ containing:
  - patch.diff : `git diff` of the change against the worktree HEAD (source files only; must apply with `git apply` on a clean checkout),
  - demo.py    : a small self-contained program (run as `PYTHONPATH=<checkout>/src /venv/bin/python demo.py`) that exits 0 and prints PASS when the property holds (i.e. on the unchanged code) and exits 1 printing what went wrong when the change is applied. It must create any files it needs in a fresh temporary directory and clean up. It must not depend on the worktree path (take the code from PYTHONPATH).
  - meta.json  : {{"property": "{pid}", "summary": "...what the change does...", "needs_to_manifest": "...the specific input/fault/sequence needed...", "files": [...], "tests_run": "<command>", "tests_result": "<pytest summary line with the change applied>", "demo_without_change": "PASS", "demo_with_change": "<output>"}}
Leave the worktree itself CLEAN at the end (git checkout -- . ; the SEED directory is untracked and stays). Verify each patch once more from clean: `git apply SEED/X/patch.diff`, run demo.py (must fail), `git checkout -- .`, run demo.py (must pass).

If after a serious attempt you can only produce one qualifying change, deliver one and say so. Your final message should list, for each change, one line of summary and the test-suite summary line you observed.""")
