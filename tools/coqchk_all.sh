#!/bin/bash
# Re-check every compiled Properties library (and everything it depends on) with the independent checker coqchk; one line per library
# with its axiom summary.  (One coqchk process per library: a single process over all of them trips over equally named modules.)
cd /verif/coq || exit 2
for l in $(ls theories/Properties/*.vo | sed 's#theories/Properties/\(.*\)\.vo#\1#'); do
  r=$(timeout 900 coqchk -o -silent -Q theories SF -Q generated SFGen SF.Properties.$l 2>&1 | grep -E "Fatal|Axioms:|type-in-type|unsafe|positivity" | tr '\n' ' ')
  echo "SF.Properties.$l: $r"
done
