#!/bin/bash
# Re-check every compiled Properties library (and everything it depends on) with the independent checker; print the axiom summary.
cd /verif/coq || exit 2
libs=$(ls theories/Properties/*.vo | sed 's#theories/Properties/\(.*\)\.vo#SF.Properties.\1#')
timeout 3000 coqchk -o -silent -Q theories SF -Q generated SFGen $libs 2>&1 | tail -20
