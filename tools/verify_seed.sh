#!/bin/bash
# tools/verify_seed.sh <seed dir> <out file>: confirm a seeded change in a scratch worktree: patch applies, demo fails with it and passes without,
# the whole existing test suite still passes with it (baseline failures of this sandbox excepted). Low priority; removes the worktree afterwards.
SD="$1"; OUT="$2"; TESTS="${3:-test}"   # optional third argument: pytest selection (default: the whole suite)
WT=/tmp/seedverify/$$
mkdir -p /tmp/seedverify
git -C /repo worktree add --detach "$WT" HEAD >/dev/null 2>&1 || { echo "worktree failed" > "$OUT"; exit 2; }
trap 'git -C /repo worktree remove --force "$WT" >/dev/null 2>&1' EXIT
{
echo "seed: $SD"; echo "repo HEAD: $(git -C /repo rev-parse --short HEAD)"
cd "$WT"
PYTHONPATH="$WT/src" /venv/bin/python "$SD/demo.py" > /tmp/seedverify/$$.demo0 2>&1; echo "demo without change: exit=$? $(tail -1 /tmp/seedverify/$$.demo0 | cut -c1-200)"
if git apply "$SD/patch.diff"; then echo "patch applies: yes"; else echo "patch applies: NO"; exit 3; fi
PYTHONPATH="$WT/src" /venv/bin/python "$SD/demo.py" > /tmp/seedverify/$$.demo1 2>&1; echo "demo with change: exit=$? $(tail -1 /tmp/seedverify/$$.demo1 | cut -c1-200)"
PYTHONPATH="$WT/src" nice -n 19 timeout 7200 /venv/bin/python -m pytest -q -p no:cacheprovider -n 4 --timeout=900 $TESTS > /tmp/seedverify/$$.tests 2>&1
echo "pytest selection: $TESTS"
echo "test suite with change: $(tail -1 /tmp/seedverify/$$.tests)"
echo "failed tests:"; grep "^FAILED\|^ERROR" /tmp/seedverify/$$.tests | cut -c1-160
} > "$OUT" 2>&1
rm -f /tmp/seedverify/$$.*
