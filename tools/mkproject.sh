#!/bin/bash
# Rebuild coq/_CoqProject (header + every .v under theories/ and generated/) and Makefile.coq.
cd /verif/coq || exit 2
mkdir -p generated
{ cat _CoqProject.head; find theories generated -name '*.v' | LC_ALL=C sort; } > _CoqProject.new
if ! cmp -s _CoqProject.new _CoqProject 2>/dev/null || [ ! -f Makefile.coq ]; then
  mv _CoqProject.new _CoqProject
  coq_makefile -f _CoqProject -o Makefile.coq >/dev/null 2>&1
else
  rm -f _CoqProject.new
fi
