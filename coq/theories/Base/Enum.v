(* Enumerators used by exhaustive small-scope correspondence checks (executed with vm_compute). *)
From SF Require Import Base.Prelude.

Fixpoint strings_of_len {A} (alpha : list A) (n : nat) : list (list A) :=
  match n with
  | 0 => [[]]
  | S k => flat_map (fun c => map (cons c) (strings_of_len alpha k)) alpha
  end.

Definition strings_upto {A} (alpha : list A) (n : nat) : list (list A) :=
  flat_map (strings_of_len alpha) (seq 0 (S n)).
