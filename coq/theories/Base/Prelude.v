(* Shared imports and small text/list utilities.  Stdlib only. *)
From Coq Require Export List Arith ZArith NArith Bool Lia.
From Coq Require Export ZifyBool ZifyNat ZifyN.
Export ListNotations.

(* Text is a list of Unicode code points. *)
Definition cp := N.
Definition text := list cp.
Definition nl : cp := 10%N.

Definition is_nl (c : cp) : bool := N.eqb c nl.

Fixpoint count_nl (s : text) : nat :=
  match s with
  | [] => 0
  | c :: r => if is_nl c then S (count_nl r) else count_nl r
  end.

(* The text after the last newline (the whole text when there is none). *)
Fixpoint last_line (s : text) : text :=
  match s with
  | [] => []
  | c :: r => if Nat.eqb (count_nl r) 0 then (if is_nl c then r else c :: r) else last_line r
  end.

Fixpoint text_eqb (a b : text) : bool :=
  match a, b with
  | [], [] => true
  | x :: a', y :: b' => N.eqb x y && text_eqb a' b'
  | _, _ => false
  end.

Lemma text_eqb_eq a b : text_eqb a b = true <-> a = b.
Proof.
  revert b; induction a as [|x a IH]; intros [|y b]; cbn [text_eqb]; split; intros H;
    try reflexivity; try discriminate.
  - apply andb_true_iff in H as [H1 H2]. apply N.eqb_eq in H1. apply IH in H2. congruence.
  - inversion H; subst. apply andb_true_iff; split; [apply N.eqb_refl | apply IH; reflexivity].
Qed.

(* Result type with one error kind per Python exception class we distinguish. *)
Inductive ekind := EAssert | EIndex | EValue | EKey | ESQLParse | ESQLLex | ESkipFile | ETemplater | EFuel | ERuntime.
Inductive res (A : Type) := Ok (a : A) | Err (e : ekind).
Arguments Ok {A} a.
Arguments Err {A} e.

Definition bind {A B} (r : res A) (f : A -> res B) : res B :=
  match r with Ok a => f a | Err e => Err e end.

Notation "'do' x <- r ; k" := (bind r (fun x => k)) (at level 200, x pattern, r at level 100, k at level 200).

(* sum of a list of nat *)
Fixpoint sum_nat (l : list nat) : nat := match l with [] => 0 | x :: r => x + sum_nat r end.

Lemma count_nl_app a b : count_nl (a ++ b) = count_nl a + count_nl b.
Proof. induction a as [|c a IH]; cbn [count_nl app]; [reflexivity|]. destruct (is_nl c); lia. Qed.
