(* Decoder for the compact numeric encoding the translators use for large tables (Coq's list notation parses long literals in
   quadratic time; a string literal is read in linear time).  Format: decimal numbers separated by ',', lists separated by ';',
   entries separated by '|'.   "1;2,3|4;" = [[[1];[2;3]]; [[4];[]]] *)
From SF Require Import Base.Prelude.
From Coq Require Import String Ascii.

Definition digit_of (a : ascii) : option N :=
  let n := N_of_ascii a in if (48 <=? n)%N && (n <=? 57)%N then Some (n - 48)%N else None.

(* state: finished entries (reversed), finished lists of current entry (reversed), finished numbers of current list (reversed),
   current number if any *)
Fixpoint dec (s : string) (es : list (list (list N))) (ls : list (list N)) (ns : list N) (cur : option N)
  : list (list (list N)) :=
  let close_n := match cur with Some n => n :: ns | None => ns end in
  match s with
  | EmptyString => rev (rev (rev close_n :: ls) :: es)
  | String a r =>
      match digit_of a with
      | Some d => dec r es ls ns (Some (match cur with Some n => n * 10 + d | None => d end)%N)
      | None =>
          if Ascii.eqb a ","%char then dec r es ls close_n None
          else if Ascii.eqb a ";"%char then dec r es (rev close_n :: ls) [] None
          else (* '|' or anything else: entry separator *) dec r (rev (rev close_n :: ls) :: es) [] [] None
      end
  end.

Definition decode (s : string) : list (list (list N)) :=
  match s with EmptyString => [] | _ => dec s [] [] [] None end.

Definition as_graph (l : list (list (list N))) : list (N * list N) :=
  map (fun e => match e with [k] :: succs :: _ => (k, succs) | [k] :: [] => (k, []) | _ => (0%N, []) end) l.

Definition as_pairs (l : list (list (list N))) : list (list N * list N) :=
  map (fun e => match e with a :: b :: _ => (a, b) | a :: [] => (a, []) | [] => ([], []) end) l.

Definition as_list (l : list (list (list N))) : list N :=
  match l with (ns :: _) :: _ => ns | _ => [] end.

Example decode_ex : decode "1;2,3|4;|10;7" = [[[1];[2;3]]; [[4];[]]; [[10];[7]]]%N.
Proof. reflexivity. Qed.
