(* Stable insertion sort (models Python's sorted(key=...), which is stable). *)
From SF Require Import Base.Prelude.
From Coq Require Export Sorting.Sorted Sorting.Permutation.

Section Sort.
  Context {A : Type} (leb : A -> A -> bool).

  (* x came earlier in the input than everything in l: put it before the first y with x <= y *)
  Fixpoint insert (x : A) (l : list A) : list A :=
    match l with
    | [] => [x]
    | y :: r => if leb x y then x :: l else y :: insert x r
    end.

  Fixpoint ssort (l : list A) : list A :=
    match l with
    | [] => []
    | x :: r => insert x (ssort r)
    end.

  Definition le (a b : A) : Prop := leb a b = true.

  Hypothesis leb_total : forall a b, leb a b = true \/ leb b a = true.
  Hypothesis leb_trans : forall a b c, leb a b = true -> leb b c = true -> leb a c = true.

  Lemma insert_perm x l : Permutation (x :: l) (insert x l).
  Proof.
    induction l as [|y r IH]; cbn [insert]; [apply Permutation_refl|].
    destruct (leb x y); [apply Permutation_refl|].
    eapply Permutation_trans; [apply perm_swap|]. apply perm_skip. exact IH.
  Qed.

  Lemma ssort_perm l : Permutation l (ssort l).
  Proof.
    induction l as [|x r IH]; cbn [ssort]; [apply Permutation_refl|].
    eapply Permutation_trans; [apply perm_skip; exact IH|apply insert_perm].
  Qed.

  Lemma insert_sorted x l : StronglySorted le l -> StronglySorted le (insert x l).
  Proof.
    induction l as [|y r IH]; intros Hs; cbn [insert].
    - constructor; [constructor|constructor].
    - inversion Hs as [|? ? Hr Hall]; subst.
      destruct (leb x y) eqn:E.
      + constructor; [exact Hs|]. constructor; [exact E|].
        eapply Forall_impl; [|exact Hall]. intros z Hz. eapply leb_trans; [exact E|exact Hz].
      + constructor; [apply IH; exact Hr|].
        assert (Hyx : le y x) by (destruct (leb_total x y) as [H|H]; [congruence|exact H]).
        eapply Permutation_Forall; [apply insert_perm|]. constructor; assumption.
  Qed.

  Lemma ssort_sorted l : StronglySorted le (ssort l).
  Proof. induction l as [|x r IH]; cbn [ssort]; [constructor|apply insert_sorted; exact IH]. Qed.

  Lemma ssort_in x l : In x (ssort l) <-> In x l.
  Proof.
    split; intros H.
    - eapply Permutation_in; [apply Permutation_sym, ssort_perm|exact H].
    - eapply Permutation_in; [apply ssort_perm|exact H].
  Qed.
End Sort.
