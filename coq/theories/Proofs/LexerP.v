From SF Require Import Base.Prelude Model.Lexer.

Section LexP.
  Variables (n : nat) (mt : nat -> list (list nat)) (lastm : nat -> list nat).

  (* oracle well-formedness: elements are non-empty and stay inside the text *)
  Definition els_ok (p : nat) (els : list nat) : Prop := Forall (fun l => 0 < l) els /\ p + sum_nat els <= n.
  Hypothesis mt_ok : forall p els, p < n -> In els (mt p) -> els_ok p els.
  Hypothesis last_ok : forall p, p < n -> els_ok p (lastm p).

  Lemma first_match_in ms els : first_match ms = Some els -> In els ms /\ els <> [].
  Proof.
    induction ms as [|m r IH]; cbn [first_match]; [discriminate|]. destruct m as [|x m'].
    - intros H. destruct (IH H). split; [right; assumption|assumption].
    - intros H. inversion H; subst. split; [left; reflexivity|discriminate].
  Qed.

  Lemma sum_pos els : els <> [] -> Forall (fun l => 0 < l) els -> 0 < sum_nat els.
  Proof. destruct els as [|x r]; [congruence|]. intros _ H. inversion H; subst. cbn [sum_nat]. lia. Qed.

  Lemma sum_app a b : sum_nat (a ++ b) = sum_nat a + sum_nat b.
  Proof. induction a as [|x a IH]; cbn [app sum_nat]; lia. Qed.

  (* invariant: acc are positive lengths summing to p *)
  Definition inv (p : nat) (acc : list nat) : Prop := Forall (fun l => 0 < l) acc /\ sum_nat acc = p /\ p <= n.

  Lemma lex_match_inv fuel : forall p acc p' acc',
    inv p acc -> lex_match n mt fuel p acc = Ok (p', acc') -> inv p' acc' /\ p <= p'.
  Proof.
    induction fuel as [|f IH]; intros p acc p' acc' Hi H; cbn [lex_match] in H; [discriminate|].
    destruct (n <=? p) eqn:En; [inversion H; subst; split; [exact Hi|lia]|].
    apply Nat.leb_gt in En.
    destruct (first_match (mt p)) as [els|] eqn:Ef; [|inversion H; subst; split; [exact Hi|lia]].
    destruct (first_match_in _ _ Ef) as [Hin Hne]. destruct (mt_ok p els En Hin) as [Hpos Hb].
    destruct Hi as [Ha [Hs Hp]].
    destruct (IH (p + sum_nat els) (acc ++ els) p' acc') as [Hi' Hle]; [|exact H|split; [exact Hi'|lia]].
    split; [apply Forall_app; split; assumption|]. split; [rewrite sum_app; lia|lia].
  Qed.

  (* enough fuel: S n iterations, each consuming at least one character *)
  Lemma lex_match_total fuel : forall p acc, inv p acc -> n - p < fuel -> exists r, lex_match n mt fuel p acc = Ok r.
  Proof.
    induction fuel as [|f IH]; intros p acc Hi Hf; [lia|]. cbn [lex_match].
    destruct (n <=? p) eqn:En; [eauto|]. apply Nat.leb_gt in En.
    destruct (first_match (mt p)) as [els|] eqn:Ef; [|eauto].
    destruct (first_match_in _ _ Ef) as [Hin Hne]. destruct (mt_ok p els En Hin) as [Hpos Hb].
    pose proof (sum_pos els Hne Hpos). destruct Hi as [Ha [Hs Hp]].
    apply IH; [|lia]. split; [apply Forall_app; split; assumption|]. split; [rewrite sum_app; lia|lia].
  Qed.

  Theorem lex_inv fuel : forall p acc els,
    inv p acc -> lex n mt lastm fuel p acc = Ok els -> Forall (fun l => 0 < l) els /\ sum_nat els = n.
  Proof.
    induction fuel as [|f IH]; intros p acc els Hi H; cbn [lex] in H; [discriminate|].
    destruct (lex_match n mt (S n) p acc) as [[p1 acc1]|e] eqn:Em; [|discriminate].
    destruct (lex_match_inv _ _ _ _ _ Hi Em) as [[Ha [Hs Hp]] Hle].
    destruct (p1 <? n) eqn:El.
    - apply Nat.ltb_lt in El. destruct (lastm p1) as [|x r] eqn:Elast; [discriminate|].
      destruct (last_ok p1 El) as [Hpos Hb]. rewrite Elast in Hpos, Hb.
      assert (Hi2 : inv (p1 + sum_nat (x :: r)) (acc1 ++ x :: r)).
      { split; [apply Forall_app; split; assumption|]. split; [rewrite sum_app; lia|exact Hb]. }
      apply (IH _ _ _ Hi2 H).
    - apply Nat.ltb_ge in El. inversion H; subst. split; [exact Ha|lia].
  Qed.

  (* totality: if wherever the table matchers give up the last resort yields something, lex never panics and never runs out of
     fuel with fuel = S n *)
  Hypothesis last_total : forall p, p < n -> first_match (mt p) = None -> lastm p <> [].

  Theorem lex_total fuel : forall p acc, inv p acc -> n - p < fuel -> exists els, lex n mt lastm fuel p acc = Ok els.
  Proof.
    induction fuel as [|f IH]; intros p acc Hi Hf; [lia|]. cbn [lex].
    destruct (lex_match_total (S n) p acc Hi) as [[p1 acc1] Em]; [lia|]. rewrite Em.
    destruct (lex_match_inv _ _ _ _ _ Hi Em) as [[Ha [Hs Hp]] Hle].
    destruct (p1 <? n) eqn:El; [|eauto]. apply Nat.ltb_lt in El.
    (* lex_match stopped at p1 < n, so no table matcher matches there *)
    assert (Hnone : first_match (mt p1) = None).
    { clear - Em El. revert p acc Em. generalize (S n) as fu. induction fu as [|fu IHf]; intros p acc Em; cbn [lex_match] in Em; [discriminate|].
      destruct (n <=? p) eqn:En; [inversion Em; subst; apply Nat.leb_le in En; lia|].
      destruct (first_match (mt p)) as [els|] eqn:Ef; [eapply IHf; exact Em|inversion Em; subst; exact Ef]. }
    pose proof (last_total p1 El Hnone) as Hl. destruct (lastm p1) as [|x r] eqn:Elast; [congruence|].
    destruct (last_ok p1 El) as [Hpos Hb]. rewrite Elast in Hpos, Hb.
    pose proof (sum_pos (x :: r) ltac:(discriminate) Hpos).
    apply IH; [|lia]. split; [apply Forall_app; split; assumption|]. split; [rewrite sum_app; lia|lia].
  Qed.
End LexP.

Lemma slices_tile els : forall idx, Forall (fun l => 0 < l) els -> tiles idx (idx + sum_nat els) (slices idx els).
Proof.
  induction els as [|l r IH]; intros idx H; cbn [slices tiles sum_nat]; [lia|].
  inversion H; subst. split; [reflexivity|]. split; [lia|]. replace (idx + (l + sum_nat r)) with ((idx + l) + sum_nat r) by lia. apply IH; assumption.
Qed.
