From SF Require Import Base.Prelude Model.JinjaFast.

Theorem no_marker_all_data s : has_marker s = false -> data_prefix s = (s, []).
Proof.
  induction s as [|a r IH]; [reflexivity|]. cbn [has_marker data_prefix]. intros H.
  apply orb_false_iff in H as [H1 H2]. rewrite H1, (IH H2). reflexivity.
Qed.

(* conversely a marker stops the data token early: the fast-path condition is exactly "the whole file is one data token" *)
Theorem marker_stops_data s : has_marker s = true -> exists d rest, data_prefix s = (d, rest) /\ rest <> [] /\ s = d ++ rest.
Proof.
  induction s as [|a r IH]; [discriminate|]. cbn [has_marker data_prefix]. intros H.
  destruct (starts_marker (a :: r)) eqn:E.
  - exists [], (a :: r). repeat split. discriminate.
  - cbn [orb] in H. destruct (IH H) as [d [rest [E1 [E2 E3]]]]. rewrite E1. exists (a :: d), rest. repeat split; [exact E2|].
    cbn [app]. rewrite <- E3. reflexivity.
Qed.

Theorem fast_path_sound s : has_marker s = false -> render_data true (fst (data_prefix s)) = s /\ snd (data_prefix s) = [].
Proof. intros H. rewrite (no_marker_all_data s H). split; reflexivity. Qed.

(* ---- newline normalisation: the output has no CR, and CR-free text is untouched (so it is idempotent) *)
Lemma normalise_no_cr_aux n : forall s, length s <= n -> has_cr (normalise_newlines s) = false.
Proof.
  unfold has_cr. induction n as [|n IH]; intros s Hl.
  - destruct s; [reflexivity|cbn in Hl; lia].
  - destruct s as [|c r]; [reflexivity|]. cbn [length] in Hl. cbn [normalise_newlines].
    destruct (N.eqb c 13) eqn:Ec.
    + cbn [existsb]. cbn [N.eqb Pos.eqb orb]. destruct r as [|d r']; [reflexivity|]. cbn [length] in Hl.
      destruct (N.eqb d 10); apply IH; cbn [length]; lia.
    + cbn [existsb]. rewrite N.eqb_sym, Ec. cbn [orb]. apply IH. lia.
Qed.
Theorem normalise_no_cr s : has_cr (normalise_newlines s) = false.
Proof. apply (normalise_no_cr_aux (length s)). lia. Qed.

Theorem normalise_id_without_cr s : has_cr s = false -> normalise_newlines s = s.
Proof.
  unfold has_cr. induction s as [|c r IH]; [reflexivity|]. cbn [existsb normalise_newlines]. intros H.
  apply orb_false_iff in H as [H1 H2]. rewrite N.eqb_sym, H1. rewrite (IH H2). reflexivity.
Qed.

Corollary normalise_idempotent s : normalise_newlines (normalise_newlines s) = normalise_newlines s.
Proof. apply normalise_id_without_cr, normalise_no_cr. Qed.
