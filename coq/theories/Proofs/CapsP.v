(* Lemmas about Model/Caps.v (C15: capitalisation fixes change only letter case). *)
From SF Require Import Base.Prelude Model.Caps.

(* ------------------------------------------------------------------------------------------------------------------ *)
(* Character level *)

Ltac n_cases :=
  repeat (match goal with |- context [N.leb ?a ?b] => destruct (N.leb_spec a b) end; cbn [andb orb negb] in *).

Lemma lo_up c : lo (up c) = lo c.
Proof. unfold lo, up, is_upper, is_lower. n_cases; lia. Qed.

Lemma lo_lo c : lo (lo c) = lo c.
Proof. unfold lo, is_upper. n_cases; lia. Qed.

Lemma lo_95 c : N.eqb (lo c) 95 = N.eqb c 95.
Proof.
  unfold lo, is_upper. n_cases; try reflexivity.
  destruct (N.eqb_spec (c + 32) 95), (N.eqb_spec c 95); try reflexivity; lia.
Qed.

(* ------------------------------------------------------------------------------------------------------------------ *)
(* The property of a transform: same length, same text up to ASCII letter case. *)

Definition case_rel (a b : text) : Prop := length b = length a /\ lower b = lower a.
Definition case_only (f : text -> text) : Prop := forall s, length (f s) = length s /\ lower (f s) = lower s.

Lemma case_rel_refl a : case_rel a a.
Proof. split; reflexivity. Qed.
Lemma case_rel_trans a b c : case_rel a b -> case_rel b c -> case_rel a c.
Proof. intros [H1 H2] [H3 H4]. split; congruence. Qed.

Lemma map_pointwise (f g : cp -> cp) (s : text) : (forall c, f (g c) = f c) -> map f (map g s) = map f s.
Proof. intros H. rewrite map_map. apply map_ext. exact H. Qed.

Lemma upper_case_only : case_only upper.
Proof. intros s. unfold upper, lower. split; [apply map_length | apply map_pointwise, lo_up]. Qed.

Lemma lower_case_only : case_only lower.
Proof. intros s. unfold lower. split; [apply map_length | apply map_pointwise, lo_lo]. Qed.

Lemma capitalise_case_only : case_only capitalise.
Proof.
  intros [|c r]; cbn [capitalise]; [split; reflexivity|].
  destruct (lower_case_only r) as [Hl Hc]. split.
  - cbn [length]. rewrite Hl. reflexivity.
  - unfold lower in *. cbn [map]. rewrite lo_up, Hc. reflexivity.
Qed.

Lemma runs_first_case_only f : (forall c, lo (f c) = lo c) ->
  forall s prev, length (runs_first f prev s) = length s /\ lower (runs_first f prev s) = lower s.
Proof.
  intros Hf. induction s as [|c r IH]; intros prev; cbn [runs_first]; [split; reflexivity|].
  destruct (IH (is_alnum c)) as [Hl Hc]. split.
  - cbn [length]. rewrite Hl. reflexivity.
  - unfold lower in *. cbn [map]. rewrite Hc. f_equal.
    destruct (is_alnum c && negb prev); [apply Hf | reflexivity].
Qed.

Lemma pascal_case_only : case_only pascal.
Proof. intros s. apply runs_first_case_only. exact lo_up. Qed.

Lemma camel_case_only : case_only camel.
Proof. intros s. apply runs_first_case_only. exact lo_lo. Qed.

Lemma apply_policy_case_only p : case_only_policy p = true -> case_only (apply_policy p).
Proof.
  destruct p; cbn [case_only_policy apply_policy]; intros H; try discriminate.
  - exact upper_case_only.
  - exact lower_case_only.
  - exact capitalise_case_only.
  - exact pascal_case_only.
  - exact camel_case_only.
Qed.

Lemma case_rel_apply p s : case_only_policy p = true -> case_rel s (apply_policy p s).
Proof. intros H. exact (apply_policy_case_only p H s). Qed.

(* snake is not case-only: aB -> a_b, a1 -> a_1 *)
Lemma snake_not_case_only : ~ case_only snake.
Proof. intros H. destruct (H [97; 66]%N) as [Hl _]. vm_compute in Hl. discriminate. Qed.

Lemma snake_witness : snake [97; 66]%N = [97; 95; 98]%N /\ snake [99; 111; 108; 49]%N = [99; 111; 108; 95; 49]%N.
Proof. split; vm_compute; reflexivity. Qed.

(* what snake does do: it changes letter case and inserts underscores, nothing else *)
Definition us_rel (a b : text) : Prop := drop_us (lower b) = drop_us (lower a).

Lemma drop_us_lower s : drop_us (lower s) = lower (drop_us s).
Proof.
  induction s as [|c r IH]; [reflexivity|]. unfold drop_us, lower in *. cbn [map filter].
  rewrite lo_95. destruct (N.eqb c 95); cbn [negb map]; rewrite IH; reflexivity.
Qed.

Lemma drop_us_app a b : drop_us (a ++ b) = drop_us a ++ drop_us b.
Proof. unfold drop_us. apply filter_app. Qed.

Lemma drop_us_snake_ins s : forall prev, drop_us (snake_ins prev s) = drop_us s.
Proof.
  induction s as [|c r IH]; intros prev; cbn [snake_ins]; [reflexivity|].
  rewrite drop_us_app, IH.
  destruct (match prev with Some p => snake_gap p c | None => false end); unfold drop_us; cbn [filter];
    [change (N.eqb 95 95) with true; cbn [negb]|]; destruct (negb (N.eqb c 95)); reflexivity.
Qed.

Lemma lower_lower s : lower (lower s) = lower s.
Proof. apply lower_case_only. Qed.

Lemma snake_us_rel s : us_rel s (snake s).
Proof.
  unfold us_rel, snake. destruct (str_isupper s); rewrite lower_lower; [reflexivity|].
  rewrite !drop_us_lower, drop_us_snake_ins. reflexivity.
Qed.

Lemma case_rel_us_rel a b : case_rel a b -> us_rel a b.
Proof. intros [_ H]. unfold us_rel. rewrite H. reflexivity. Qed.

Lemma apply_policy_us_rel p s : us_rel s (apply_policy p s).
Proof.
  destruct p; try (apply case_rel_us_rel, case_rel_apply; reflexivity).
  apply snake_us_rel.
Qed.

Lemma us_rel_refl a : us_rel a a.
Proof. reflexivity. Qed.
Lemma us_rel_trans a b c : us_rel a b -> us_rel b c -> us_rel a c.
Proof. unfold us_rel. congruence. Qed.

(* ------------------------------------------------------------------------------------------------------------------ *)
(* The `consistent` inference *)

Lemma refute_extended raw r p : basic_policy p = false -> pmem p (refute raw r) = true.
Proof.
  intros Hp. unfold refute.
  destruct (first_letter_is_lowercase raw);
    [ destruct (negb (text_eqb raw (lower raw)))
    | destruct (negb (text_eqb raw (upper raw))); destruct (negb (text_eqb raw (capitalise raw))) ];
    destruct p; try discriminate Hp; reflexivity.
Qed.

Lemma refute_mono raw r p : pmem p r = true -> pmem p (refute raw r) = true.
Proof.
  intros Hp. unfold refute, pmem in *.
  destruct (first_letter_is_lowercase raw);
    [ destruct (negb (text_eqb raw (lower raw)))
    | destruct (negb (text_eqb raw (upper raw))); destruct (negb (text_eqb raw (capitalise raw))) ];
    cbn [app existsb]; rewrite Hp; rewrite ?orb_true_r; reflexivity.
Qed.

Definition mem_ok (m : memory) : Prop := match latest m with Some p => basic_policy p = true | None => True end.

Lemma mem0_ok : mem_ok mem0.
Proof. exact I. Qed.

Lemma filter_head_not_refuted rc opts c l :
  filter (fun c => negb (pmem c rc)) opts = c :: l -> pmem c rc = false.
Proof.
  intros H. assert (Hin : In c (filter (fun c => negb (pmem c rc)) opts)) by (rewrite H; left; reflexivity).
  apply filter_In in Hin as [_ Hn]. destruct (pmem c rc); [discriminate | reflexivity].
Qed.

(* what a returned fix looks like *)
Definition fix_ok (cap : cap_policy) (raw : text) (fx : option (policy * text)) : Prop :=
  match fx with
  | None => True
  | Some (p, fixed) =>
      fixed = apply_policy p raw /\ fixed <> raw /\
      match cap with Consistent => basic_policy p = true | Explicit q => p = q end
  end.

Lemma handle_segment_spec cap opts skip m raw :
  mem_ok m ->
  mem_ok (fst (handle_segment cap opts skip m raw)) /\ fix_ok cap raw (snd (handle_segment cap opts skip m raw)).
Proof.
  intros Hm. unfold handle_segment.
  destruct (skip raw); [split; [exact Hm | exact I]|].
  destruct raw as [|c0 raw0]; [split; [exact Hm | exact I]|].
  set (raw := c0 :: raw0). set (rc := refute raw (refuted m)).
  assert (Hdecide : forall m' p, mem_ok m' ->
            match cap with Consistent => basic_policy p = true | Explicit q => p = q end ->
            let r := (if text_eqb (apply_policy p raw) raw then (m', None) else (m', Some (p, apply_policy p raw))) in
            mem_ok (fst r) /\ fix_ok cap raw (snd r)).
  { intros m' p Hm' Hp. cbv zeta. destruct (text_eqb (apply_policy p raw) raw) eqn:E; cbn [fst snd]; split; try exact Hm'; try exact I.
    cbn [fix_ok]. split; [reflexivity|]. split; [|exact Hp].
    intros Heq. apply text_eqb_eq in Heq. congruence. }
  destruct cap as [|q].
  - destruct (filter (fun c => negb (pmem c rc)) opts) as [|c l] eqn:E.
    + apply Hdecide; [exact Hm|]. unfold mem_ok in Hm. destruct (latest m); [exact Hm | reflexivity].
    + cbn [fst snd]. split; [|exact I]. unfold mem_ok. cbn [latest].
      apply filter_head_not_refuted in E. destruct (basic_policy c) eqn:B; [reflexivity|].
      unfold rc in E. rewrite (refute_extended raw (refuted m) c B) in E. discriminate.
  - destruct (negb (pmem q rc)); [split; [exact Hm | exact I]|].
    apply Hdecide; [exact Hm | reflexivity].
Qed.

(* consistent_policy_choice: the concrete policy of a `consistent` fix is upper, lower or capitalise *)
Lemma consistent_policy_choice opts skip m raw m' p fixed :
  mem_ok m -> handle_segment Consistent opts skip m raw = (m', Some (p, fixed)) ->
  basic_policy p = true /\ fixed = apply_policy p raw /\ mem_ok m'.
Proof.
  intros Hm H. destruct (handle_segment_spec Consistent opts skip m raw Hm) as [H1 H2].
  rewrite H in H1, H2. cbn [fst snd fix_ok] in H1, H2. destruct H2 as (Ha & _ & Hb). auto.
Qed.

(* an explicit policy never fixes with another one *)
Lemma explicit_policy_choice q opts skip m raw m' p fixed :
  handle_segment (Explicit q) opts skip m raw = (m', Some (p, fixed)) -> p = q /\ fixed = apply_policy q raw.
Proof.
  unfold handle_segment. destruct (skip raw); [discriminate|]. destruct raw as [|c0 raw0]; [discriminate|].
  destruct (negb (pmem q _)); [discriminate|].
  destruct (text_eqb _ _); [discriminate|]. intros H. inversion H; subst. split; reflexivity.
Qed.

(* ------------------------------------------------------------------------------------------------------------------ *)
(* The crawl and the fix loop, for a generic relation on raws *)

Lemma Forall2_refl {A} (R : A -> A -> Prop) : (forall a, R a a) -> forall l, Forall2 R l l.
Proof. intros HR. induction l; constructor; auto. Qed.

Lemma Forall2_trans {A} (R : A -> A -> Prop) : (forall a b c, R a b -> R b c -> R a c) ->
  forall l1 l2 l3, Forall2 R l1 l2 -> Forall2 R l2 l3 -> Forall2 R l1 l3.
Proof.
  intros HR l1 l2 l3 H12. revert l3. induction H12 as [|a b l1 l2 Hab _ IH]; intros l3 H23; inversion H23; subst; constructor.
  - eapply HR; eassumption.
  - apply IH. assumption.
Qed.

Section Generic.
  Variable R : text -> text -> Prop.
  Hypothesis R_refl : forall a, R a a.
  Hypothesis R_trans : forall a b c, R a b -> R b c -> R a c.
  Variable cap : cap_policy.
  Hypothesis R_basic : forall p s, basic_policy p = true -> R s (apply_policy p s).
  Hypothesis R_cap : match cap with Explicit q => forall s, R s (apply_policy q s) | Consistent => True end.
  Variable opts : list policy.
  Variable skip : text -> bool.
  Variable target : nat -> token -> bool.

  Definition tok_rel (a b : token) : Prop := t_kind b = t_kind a /\ R (t_raw a) (t_raw b).

  Lemma tok_rel_refl a : tok_rel a a.
  Proof. split; [reflexivity | apply R_refl]. Qed.
  Lemma tok_rel_trans a b c : tok_rel a b -> tok_rel b c -> tok_rel a c.
  Proof. intros [H1 H2] [H3 H4]. split; [congruence | eapply R_trans; eassumption]. Qed.

  Lemma fix_ok_R raw fx : fix_ok cap raw fx -> match fx with Some (_, raw') => R raw raw' | None => True end.
  Proof.
    destruct fx as [[p fixed]|]; [|trivial]. cbn [fix_ok]. intros (Ha & _ & Hb). subst fixed.
    destruct cap as [|q]; [apply R_basic; exact Hb | subst p; apply R_cap].
  Qed.

  Lemma crawl_rel toks : forall i m, mem_ok m ->
    Forall2 tok_rel toks (crawl cap opts skip target i m toks)
    /\ (forall j t, nth_error toks j = Some t -> target (i + j) t = false ->
                    nth_error (crawl cap opts skip target i m toks) j = Some t).
  Proof.
    induction toks as [|t r IH]; intros i m Hm; cbn [crawl].
    - split; [constructor | intros [|j] t H; discriminate H].
    - destruct (target i t) eqn:Ht.
      + destruct (handle_segment_spec cap opts skip m (t_raw t) Hm) as [Hm' Hfx].
        destruct (handle_segment cap opts skip m (t_raw t)) as [m' fx]. cbn [fst snd] in Hm', Hfx.
        destruct (IH (S i) m' Hm') as [IH1 IH2]. split.
        * constructor; [|exact IH1]. apply fix_ok_R in Hfx.
          destruct fx as [[p raw']|]; [split; [reflexivity | exact Hfx] | apply tok_rel_refl].
        * intros [|j] t' Hn Htg; cbn [nth_error] in *.
          -- inversion Hn; subst t'. rewrite Nat.add_0_r in Htg. congruence.
          -- apply IH2; [exact Hn|]. rewrite <- Htg. f_equal. lia.
      + destruct (IH (S i) m Hm) as [IH1 IH2]. split.
        * constructor; [apply tok_rel_refl | exact IH1].
        * intros [|j] t' Hn Htg; cbn [nth_error] in *; [exact Hn|].
          apply IH2; [exact Hn|]. rewrite <- Htg. f_equal. lia.
  Qed.

  Lemma fix_pass_rel toks :
    Forall2 tok_rel toks (fix_pass cap opts skip target toks)
    /\ (forall j t, nth_error toks j = Some t -> target j t = false ->
                    nth_error (fix_pass cap opts skip target toks) j = Some t).
  Proof. unfold fix_pass. apply (crawl_rel toks 0 mem0 mem0_ok). Qed.

  Lemma fix_loop_rel loops : forall toks,
    Forall2 tok_rel toks (fix_loop cap opts skip target loops toks)
    /\ (forall j t, nth_error toks j = Some t -> target j t = false ->
                    nth_error (fix_loop cap opts skip target loops toks) j = Some t).
  Proof.
    induction loops as [|k IH]; intros toks; cbn [fix_loop].
    - split; [apply Forall2_refl, tok_rel_refl | auto].
    - destruct (fix_pass_rel toks) as [P1 P2]. destruct (IH (fix_pass cap opts skip target toks)) as [L1 L2]. split.
      + eapply Forall2_trans; [exact tok_rel_trans | exact P1 | exact L1].
      + intros j t Hn Ht. apply L2; [apply P2; assumption | exact Ht].
  Qed.
End Generic.

(* ------------------------------------------------------------------------------------------------------------------ *)
(* Instances *)

Definition cap_case_only (cap : cap_policy) : bool :=
  match cap with Consistent => true | Explicit p => case_only_policy p end.

Definition tok_case_rel := tok_rel case_rel.
Definition tok_us_rel := tok_rel us_rel.

Lemma basic_is_case_only p : basic_policy p = true -> case_only_policy p = true.
Proof. destruct p; intros H; try discriminate; reflexivity. Qed.

Theorem caps_fix_case_only cap opts skip target loops toks :
  cap_case_only cap = true ->
  Forall2 tok_case_rel toks (fix_loop cap opts skip target loops toks)
  /\ (forall j t, nth_error toks j = Some t -> target j t = false ->
                  nth_error (fix_loop cap opts skip target loops toks) j = Some t).
Proof.
  intros Hcap. apply fix_loop_rel.
  - exact case_rel_refl.
  - exact case_rel_trans.
  - intros p s Hp. apply case_rel_apply, basic_is_case_only, Hp.
  - destruct cap as [|q]; [exact I|]. intros s. apply case_rel_apply. exact Hcap.
Qed.

(* every policy, snake included: only case and underscores *)
Theorem caps_fix_case_and_underscores cap opts skip target loops toks :
  Forall2 tok_us_rel toks (fix_loop cap opts skip target loops toks)
  /\ (forall j t, nth_error toks j = Some t -> target j t = false ->
                  nth_error (fix_loop cap opts skip target loops toks) j = Some t).
Proof.
  apply fix_loop_rel.
  - exact us_rel_refl.
  - exact us_rel_trans.
  - intros p s _. apply apply_policy_us_rel.
  - destruct cap as [|q]; [exact I|]. intros s. apply apply_policy_us_rel.
Qed.

(* the single-replace frame of one crawl: same number of tokens, same kinds, untargeted and skipped tokens untouched *)
Theorem crawl_frame cap opts skip target i m toks :
  map t_kind (crawl cap opts skip target i m toks) = map t_kind toks
  /\ (forall j t, nth_error toks j = Some t -> (target (i + j) t = false \/ skip (t_raw t) = true) ->
                  nth_error (crawl cap opts skip target i m toks) j = Some t).
Proof.
  revert i m. induction toks as [|t r IH]; intros i m; cbn [crawl].
  - split; [reflexivity | intros [|j] t H; discriminate H].
  - destruct (target i t) eqn:Ht.
    + destruct (handle_segment cap opts skip m (t_raw t)) as [m' fx] eqn:E.
      destruct (IH (S i) m') as [IH1 IH2]. split.
      * cbn [map]. rewrite IH1. destruct fx as [[p raw']|]; reflexivity.
      * intros [|j] t' Hn Htg; cbn [nth_error] in *.
        -- inversion Hn; subst t'. rewrite Nat.add_0_r in Htg. destruct Htg as [Htg|Htg]; [congruence|].
           unfold handle_segment in E. rewrite Htg in E. inversion E; subst. reflexivity.
        -- apply IH2; [exact Hn|]. replace (S i + j) with (i + S j) by lia. exact Htg.
    + destruct (IH (S i) m) as [IH1 IH2]. split.
      * cbn [map]. rewrite IH1. reflexivity.
      * intros [|j] t' Hn Htg; cbn [nth_error] in *; [exact Hn|].
        apply IH2; [exact Hn|]. replace (S i + j) with (i + S j) by lia. exact Htg.
Qed.

(* the snake policy refutes the case-only statement for the whole fix *)
Lemma snake_fix_refuted :
  exists opts skip target toks,
    ~ Forall2 tok_case_rel toks (fix_loop (Explicit PSnake) opts skip target 1 toks).
Proof.
  exists [PUpper; PLower; PPascal; PCapitalise; PSnake; PCamel], (fun _ => false), (fun _ _ => true), [mkTok 0 [97; 66]%N].
  intros H. inversion H as [|a b l1 l2 Hab Hrest]; subst. destruct Hab as [_ [Hlen _]]. vm_compute in Hlen. discriminate.
Qed.
