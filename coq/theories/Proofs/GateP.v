From SF Require Import Base.Prelude Model.Gate.

Lemma count_pos p f : (0 <? count p f) = existsb p f.
Proof.
  unfold count. induction f as [|v f IH]; cbn [filter existsb]; [reflexivity|].
  destruct (p v); cbn [length orb]; [reflexivity|exact IH].
Qed.

Lemma sumf_pos g fs : (0 <? sumf g fs) = existsb (fun f => 0 <? g f) fs.
Proof.
  induction fs as [|f fs IH]; cbn [sumf existsb]; [reflexivity|].
  rewrite <- IH. destruct (Nat.ltb_spec 0 (g f)); destruct (Nat.ltb_spec 0 (sumf g fs));
    destruct (Nat.ltb_spec 0 (g f + sumf g fs)); try reflexivity; lia.
Qed.

Lemma pos_add a b : (0 <? a + b) = (0 <? a) || (0 <? b).
Proof. destruct (Nat.ltb_spec 0 a); destruct (Nat.ltb_spec 0 b); destruct (Nat.ltb_spec 0 (a + b)); try reflexivity; lia. Qed.

Lemma existsb_or {A} (p q : A -> bool) l : existsb (fun x => p x || q x) l = existsb p l || existsb q l.
Proof.
  induction l as [|x l IH]; cbn [existsb]; [reflexivity|]. rewrite IH.
  destruct (p x), (q x), (existsb p l), (existsb q l); reflexivity.
Qed.

Lemma existsb_and_const {A} (c : bool) (p : A -> bool) l : existsb (fun x => c && p x) l = c && existsb p l.
Proof. destruct c; cbn [andb]; [reflexivity|]. induction l as [|x l IH]; cbn [existsb]; [reflexivity|exact IH]. Qed.

Lemma existsb_ext' {A} (p q : A -> bool) l : (forall x, p x = q x) -> existsb p l = existsb q l.
Proof. intros H. induction l as [|x l IH]; cbn [existsb]; [reflexivity|]. rewrite H, IH. reflexivity. Qed.

Lemma b2e_max a b : Nat.max (b2e a) (b2e b) = b2e (a || b).
Proof. destruct a, b; reflexivity. Qed.

(* ---- lint ---- *)
Theorem lint_exit_spec_lemma fs skipped skip_fail :
  lint_exit fs false skipped skip_fail = b2e (spec_lint_fail fs || ((0 <? skipped) && skip_fail)).
Proof.
  unfold lint_exit, spec_lint_fail. rewrite sumf_pos. f_equal. f_equal.
  apply existsb_ext'. intros f. apply count_pos.
Qed.

Theorem lint_nofail_lemma fs skipped skip_fail : lint_exit fs true skipped skip_fail = 0.
Proof. reflexivity. Qed.

(* ---- fix by paths ---- *)
Lemma file_fail_eq f feu :
  (negb feu && (0 <? filtered_tp f)) || ((0 <? unfixable_lint f) || (negb feu && (0 <? discard_count f)))
  = existsb (remains_unfixable f feu) f || (negb feu && existsb (fun v => is_tp v && visible v) f).
Proof.
  unfold filtered_tp, unfixable_lint, discard_count, remains_unfixable, fixes_discarded.
  rewrite !count_pos.
  set (c := 0 <? unfiltered_tp f).
  replace (0 <? (if c then count (fun v => fixable v && negb (v_ign v) && negb (v_warn v)) f else 0))
    with (c && existsb (fun v => fixable v && negb (v_ign v) && negb (v_warn v)) f)
    by (destruct c; cbn [andb]; [rewrite count_pos; reflexivity|reflexivity]).
  set (T := existsb (fun v => is_tp v && visible v) f).
  rewrite andb_assoc. rewrite <- (existsb_and_const (negb feu && c)).
  rewrite <- existsb_or.
  replace (existsb (fun x => is_lint x && negb (fixable x) && visible x
                             || negb feu && c && (fixable x && negb (v_ign x) && negb (v_warn x))) f)
    with (existsb (fun v => is_lint v && visible v && (negb (fixable v) || negb feu && c)) f).
  - apply orb_comm.
  - apply existsb_ext'. intros v. unfold fixable, visible.
    destruct (is_lint v), (v_fixable v), (v_ign v), (v_warn v), feu, c; reflexivity.
Qed.

Theorem paths_fix_exit_spec_lemma fs feu skipped skip_fail :
  paths_fix_exit fs feu skipped skip_fail = b2e (spec_fix_fail fs feu || ((0 <? skipped) && skip_fail)).
Proof.
  unfold paths_fix_exit, paths_fix_exit_with, unparsable_exit, spec_fix_fail.
  replace (if feu then 0 else b2e (0 <? sumf filtered_tp fs)) with (b2e (negb feu && (0 <? sumf filtered_tp fs)))
    by (destruct feu; reflexivity).
  replace (0 <? sumf unfixable_lint fs + (if feu then 0 else sumf discard_count fs))
    with ((0 <? sumf unfixable_lint fs) || (negb feu && (0 <? sumf discard_count fs)))
    by (destruct feu; cbn [negb andb]; [rewrite Nat.add_0_r, orb_false_r; reflexivity|rewrite pos_add; reflexivity]).
  rewrite !b2e_max. f_equal. f_equal.
  rewrite !sumf_pos. rewrite <- !existsb_and_const, <- !existsb_or.
  apply existsb_ext'. intros f. apply file_fail_eq.
Qed.

(* F15: before the repair, warning-level fixable violations in a file with a (suppressed) parse error made fix exit 1 *)
Theorem warnings_fail_f15_lemma :
  exists fs, paths_fix_exit_with discard_count_f15 fs false 0 false = 1 /\ spec_fix_fail fs false = false
             /\ spec_lint_fail fs = false.
Proof. exists [[mkVS KPrs false true false; mkVS KLint true false true]]. vm_compute. repeat split. Qed.

(* warnings and suppressed violations never cause a failing exit *)
Theorem warnings_never_fail_lemma fs feu :
  (forall f v, In f fs -> In v f -> v_ign v = true \/ v_warn v = true) ->
  lint_exit fs false 0 false = 0 /\ paths_fix_exit fs feu 0 false = 0.
Proof.
  intros H.
  assert (V : forall f, In f fs -> forall (p : vsum -> bool), existsb (fun v => p v && visible v) f = false).
  { intros f Hf p. apply not_true_is_false. intros E. apply existsb_exists in E as [v [Hv Ev]].
    apply andb_true_iff in Ev as [_ Ev]. unfold visible in Ev. apply andb_true_iff in Ev as [E1 E2].
    destruct (H f v Hf Hv) as [G|G]; rewrite G in *; discriminate. }
  rewrite lint_exit_spec_lemma, paths_fix_exit_spec_lemma. cbn [Nat.ltb Nat.leb andb]. rewrite !orb_false_r.
  assert (L : spec_lint_fail fs = false).
  { unfold spec_lint_fail. apply not_true_is_false. intros E. apply existsb_exists in E as [f [Hf E]].
    assert (X : existsb visible f = false) by (rewrite <- (V f Hf (fun _ => true)); apply existsb_ext'; reflexivity).
    congruence. }
  assert (F : spec_fix_fail fs feu = false).
  { unfold spec_fix_fail. apply not_true_is_false. intros E. apply existsb_exists in E as [f [Hf E]].
    apply orb_true_iff in E as [E|E].
    - apply existsb_exists in E as [v [Hv Ev]]. unfold remains_unfixable in Ev.
      apply andb_true_iff in Ev as [Ev _]. apply andb_true_iff in Ev as [_ Ev]. unfold visible in Ev.
      apply andb_true_iff in Ev as [E1 E2]. destruct (H f v Hf Hv) as [G|G]; rewrite G in *; discriminate.
    - apply andb_true_iff in E as [_ E]. rewrite (V f Hf is_tp) in E. discriminate. }
  rewrite L, F. split; reflexivity.
Qed.

(* ---- stdin fix vs paths fix (single file) ---- *)
Theorem stdin_exit_agrees_partial_lemma f feu :
  (fixes_discarded f feu = true -> existsb (fun v => fixable v && visible v) f = false) ->
  fst (stdin_fix f feu) = paths_fix_exit [f] feu 0 false.
Proof.
  intros Hno. rewrite paths_fix_exit_spec_lemma. cbn [Nat.ltb Nat.leb andb]. rewrite orb_false_r.
  unfold stdin_fix, spec_fix_fail, unparsable_exit. cbn [fst existsb sumf]. rewrite orb_false_r, Nat.add_0_r.
  rewrite <- file_fail_eq. unfold discard_count, fixes_discarded, filtered_tp in *.
  rewrite !count_pos.
  set (c := 0 <? unfiltered_tp f) in *.
  set (TM := existsb (fun v => is_tmp v && visible v) f).
  set (TP := existsb (fun v => is_tp v && visible v) f).
  set (U := 0 <? unfixable_lint f).
  assert (Himp : TM = true -> TP = true).
  { intros E. apply existsb_exists in E as [v [Hv Ev]]. apply andb_true_iff in Ev as [E1 E2].
    apply existsb_exists. exists v. split; [exact Hv|]. unfold is_tp, is_tmp in *. destruct (v_kind v); try discriminate. rewrite E2. reflexivity. }
  assert (FXeq : existsb (fun v => fixable v && visible v) f = existsb (fun v => fixable v && negb (v_ign v) && negb (v_warn v)) f)
    by (apply existsb_ext'; intros v; unfold visible; rewrite andb_assoc; reflexivity).
  rewrite FXeq in Hno.
  destruct feu; cbn [negb andb orb] in *.
  - destruct U; reflexivity.
  - destruct c; cbn [andb] in *.
    + rewrite count_pos, (Hno eq_refl). destruct TM eqn:ETM; [rewrite (Himp eq_refl); reflexivity|destruct U, TP; reflexivity].
    + destruct TM eqn:ETM; [rewrite (Himp eq_refl); reflexivity|destruct U, TP; reflexivity].
Qed.

(* F6 (open): stdin computes "unfixable" before the fixes are discarded *)
Theorem stdin_exit_f6_lemma :
  exists f, fst (stdin_fix f false) = 0 /\ paths_fix_exit [f] false 0 false = 1.
Proof. exists [mkVS KPrs false true false; mkVS KLint true false false]. vm_compute. split; reflexivity. Qed.

(* F17 (repaired): with --FIX-EVEN-UNPARSABLE and an unsuppressed templating error the old stdin code failed *)
Theorem stdin_exit_f17_lemma :
  exists f, stdin_fix_f17 f true = 1 /\ paths_fix_exit [f] true 0 false = 0 /\ fst (stdin_fix f true) = 0.
Proof. exists [mkVS KTmp false false false]. vm_compute. repeat split. Qed.

(* the write decision of stdin equals the one of paths (F18 repaired) *)
Theorem stdin_write_agrees_lemma f feu :
  snd (stdin_fix f feu) = paths_written f feu true.
Proof.
  unfold stdin_fix, paths_written, fixes_discarded. cbn [snd]. rewrite andb_true_r. f_equal.
  destruct feu; cbn [negb andb orb]; [reflexivity|].
  destruct (Nat.eqb_spec (unfiltered_tp f) 0) as [E|E]; destruct (Nat.ltb_spec 0 (unfiltered_tp f)); try reflexivity; lia.
Qed.

Theorem stdin_write_f18_lemma :
  exists f, stdin_use_fixed_f18 f false = false /\ paths_written f false true = true.
Proof. exists [mkVS KLint true false true]. vm_compute. split; reflexivity. Qed.

(* ---- C18 gates ---- *)
Theorem paths_gate_lemma f feu changed :
  paths_written f feu changed = true -> feu = true \/ (forall v, In v f -> is_tp v = false).
Proof.
  unfold paths_written. intros H. apply andb_true_iff in H as [H _]. apply andb_true_iff in H as [H _].
  apply orb_true_iff in H as [H|H]; [left; exact H|right].
  apply Nat.eqb_eq in H. intros v Hv. destruct (is_tp v) eqn:E; [|reflexivity].
  exfalso. assert (P : 0 <? unfiltered_tp f = true).
  { unfold unfiltered_tp. rewrite count_pos. apply existsb_exists. exists v. split; assumption. }
  rewrite H in P. discriminate.
Qed.

Theorem stdin_gate_lemma f feu :
  snd (stdin_fix f feu) = true -> feu = true \/ (forall v, In v f -> is_tp v = false).
Proof.
  unfold stdin_fix, fixes_discarded. cbn [snd]. intros H. apply andb_true_iff in H as [H _].
  apply negb_true_iff in H. apply andb_false_iff in H as [H|H].
  - left. destruct feu; [reflexivity|discriminate].
  - right. intros v Hv. destruct (is_tp v) eqn:E; [|reflexivity]. exfalso.
    assert (P : 0 <? unfiltered_tp f = true).
    { unfold unfiltered_tp. rewrite count_pos. apply existsb_exists. exists v. split; assumption. }
    congruence.
Qed.

Theorem api_gate_lemma f feu :
  api_should_fix f feu = true -> feu = true \/ (forall v, In v f -> is_tp v = false).
Proof.
  unfold api_should_fix. intros H. apply orb_true_iff in H as [H|H]; [left; exact H|right].
  apply Nat.eqb_eq in H. intros v Hv. destruct (is_tp v) eqn:E; [|reflexivity]. exfalso.
  assert (P : 0 <? unfiltered_tp f = true).
  { unfold unfiltered_tp. rewrite count_pos. apply existsb_exists. exists v. split; assumption. }
  rewrite H in P. discriminate.
Qed.

(* F5: before the repair a suppressed parse/templating error let the API rewrite the text *)
Theorem api_gate_f5_lemma :
  exists f, api_should_fix_f5 f false = true /\ exists v, In v f /\ is_tp v = true.
Proof.
  exists [mkVS KPrs false true false; mkVS KLint true false false]. split; [vm_compute; reflexivity|].
  eexists. split; [left; reflexivity|reflexivity].
Qed.

(* all three entry points take the same write/no-write decision *)
Theorem gate_agreement_lemma f feu :
  api_should_fix f feu = negb (fixes_discarded f feu).
Proof.
  unfold api_should_fix, fixes_discarded. destruct feu; cbn [negb andb orb]; [reflexivity|].
  destruct (Nat.eqb_spec (unfiltered_tp f) 0) as [E|E]; destruct (Nat.ltb_spec 0 (unfiltered_tp f)); try reflexivity; lia.
Qed.

Example gate_example :
  let f := [mkVS KPrs false true false; mkVS KLint true false false; mkVS KLint false false true] in
  paths_fix_exit [f] false 0 false = 1 /\ fst (stdin_fix f false) = 0 /\ lint_exit [f] false 0 false = 1
  /\ paths_written f false true = false /\ paths_fix_exit [f] true 0 false = 0.
Proof. vm_compute. repeat split. Qed.
