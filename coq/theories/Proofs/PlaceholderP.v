(* Lemmas about Model/Placeholder.v: what the placeholder loop renders and how its slices tile source and output. *)
From SF Require Import Base.Prelude Model.Placeholder.

(* ---- specification vocabulary ---- *)

(* the finditer oracle: matches are sorted, non-overlapping, inside the string (empty matches allowed) *)
Fixpoint spans_ok (pos : nat) (ms : list pmatch) (n : nat) : Prop :=
  match ms with
  | [] => pos <= n
  | m :: r => pos <= pm_start m /\ pm_start m <= pm_stop m /\ spans_ok (pm_stop m) r n
  end.

(* the pieces of the source outside the matches: before the first, between consecutive ones, after the last *)
Fixpoint gaps (src : text) (pos : nat) (ms : list pmatch) : list text :=
  match ms with
  | [] => [pslice src pos (length src)]
  | m :: r => pslice src pos (pm_start m) :: gaps src (pm_stop m) r
  end.

(* g0 ++ x1 ++ g1 ++ ... ++ xn ++ gn *)
Fixpoint interleave (gs xs : list text) : text :=
  match gs, xs with
  | g :: gs', x :: xs' => g ++ x ++ interleave gs' xs'
  | g :: _, [] => g
  | [], _ => []
  end.

Definition matched (src : text) (ms : list pmatch) : list text :=
  map (fun m => pslice src (pm_start m) (pm_stop m)) ms.

Definition unnamed (m : pmatch) : bool := match pm_name m with None => true | Some _ => false end.
Definition count_unnamed (ms : list pmatch) : nat := length (filter unnamed ms).

Section Spec.
  Variable ctx : text -> option text.

  (* the parameter name of every match, threading the counter *)
  Fixpoint names (cnt : nat) (ms : list pmatch) : list text :=
    match ms with
    | [] => []
    | m :: r => fst (param_name cnt m) :: names (snd (param_name cnt m)) r
    end.

  Fixpoint repls (cnt : nat) (ms : list pmatch) : list text :=
    match ms with
    | [] => []
    | m :: r => replacement ctx (fst (param_name cnt m)) m :: repls (snd (param_name cnt m)) r
    end.

  Lemma pslice_nil s a b : b <= a -> pslice s a b = [].
  Proof. intros H. unfold pslice. replace (b - a) with 0 by lia. reflexivity. Qed.

  Lemma ph_out_gen : forall ms src pos tpl cnt,
    fst (fst (ph_loop ctx src pos tpl cnt ms)) = interleave (gaps src pos ms) (repls cnt ms).
  Proof.
    induction ms as [|m r IH]; intros src pos tpl cnt; cbn [ph_loop gaps repls interleave].
    - destruct (pos <? length src) eqn:E; cbn [fst]; [reflexivity|].
      apply Nat.ltb_ge in E. rewrite pslice_nil by exact E. reflexivity.
    - destruct (param_name cnt m) as [nm c'] eqn:Ep. cbn [fst snd].
      specialize (IH src (pm_stop m)
        (tpl + (Z.of_nat (pm_start m) - Z.of_nat pos) + Z.of_nat (length (replacement ctx nm m)))%Z c').
      destruct (ph_loop ctx src (pm_stop m) _ c' r) as [[out ts] rs]. cbn [fst] in *. rewrite IH. reflexivity.
  Qed.

  Lemma spans_ok_le : forall ms pos n, spans_ok pos ms n -> pos <= n.
  Proof.
    induction ms as [|m r IH]; intros pos n H; cbn [spans_ok] in H; [exact H|].
    destruct H as [H1 [H2 H3]]. apply IH in H3. lia.
  Qed.

  Lemma skipn_skipn_ (s : text) : forall a b, skipn a (skipn b s) = skipn (b + a) s.
  Proof.
    induction s as [|c s IH]; intros a b; [rewrite !skipn_nil; reflexivity|].
    destruct b as [|b]; cbn [skipn Nat.add]; [reflexivity|apply IH].
  Qed.

  Lemma skipn_split (s : text) a b : a <= b -> b <= length s -> skipn a s = pslice s a b ++ skipn b s.
  Proof.
    intros H1 H2. unfold pslice. rewrite <- (firstn_skipn (b - a) (skipn a s)) at 1. f_equal.
    rewrite skipn_skipn_. f_equal. lia.
  Qed.

  Lemma src_gen : forall ms src pos, spans_ok pos ms (length src) ->
    skipn pos src = interleave (gaps src pos ms) (matched src ms).
  Proof.
    induction ms as [|m r IH]; intros src pos H; cbn [spans_ok gaps matched map interleave] in *.
    - unfold pslice. rewrite firstn_all2; [reflexivity|]. rewrite skipn_length. lia.
    - destruct H as [H1 [H2 H3]]. pose proof (spans_ok_le _ _ _ H3) as H4.
      rewrite (skipn_split src pos (pm_start m)) by lia.
      rewrite (skipn_split src (pm_start m) (pm_stop m)) by lia.
      rewrite (IH src (pm_stop m) H3). reflexivity.
  Qed.

  (* the i-th match is named by its param_name group, or by 1 + the number of unnamed matches before it *)
  Lemma names_gen : forall ms cnt i m, nth_error ms i = Some m ->
    nth_error (names cnt ms) i =
      Some (match pm_name m with Some n => n | None => dec (cnt + count_unnamed (firstn i ms)) end).
  Proof.
    induction ms as [|m0 r IH]; intros cnt i m H; [destruct i; discriminate|].
    destruct i as [|i]; cbn [nth_error names firstn] in *.
    - inversion H; subst. unfold param_name, count_unnamed. destruct (pm_name m); cbn [fst filter length]; [reflexivity|].
      rewrite Nat.add_0_r. reflexivity.
    - rewrite (IH _ i m H). unfold count_unnamed. cbn [filter]. unfold param_name, unnamed at 2.
      destruct (pm_name m0); cbn [snd length]; [reflexivity|].
      destruct (pm_name m); [reflexivity|]. do 2 f_equal. lia.
  Qed.

  Lemma repls_names : forall ms cnt, repls cnt ms = map (fun p => replacement ctx (fst p) (snd p)) (combine (names cnt ms) ms).
  Proof. induction ms as [|m r IH]; intros cnt; cbn [repls names combine map fst snd]; [reflexivity|]. rewrite IH. reflexivity. Qed.

  Theorem placeholder_render_lemma : forall src ms, spans_ok 0 ms (length src) ->
    ph_out ctx src ms = interleave (gaps src 0 ms) (repls 1 ms)
    /\ src = interleave (gaps src 0 ms) (matched src ms)
    /\ repls 1 ms = map (fun p => replacement ctx (fst p) (snd p)) (combine (names 1 ms) ms)
    /\ (forall i m, nth_error ms i = Some m ->
          nth_error (names 1 ms) i =
            Some (match pm_name m with Some n => n | None => dec (1 + count_unnamed (firstn i ms)) end)).
  Proof.
    intros src ms H. split; [|split; [|split]].
    - unfold ph_out, ph_process. apply ph_out_gen.
    - rewrite <- (src_gen ms src 0 H). reflexivity.
    - apply repls_names.
    - intros i m Hi. apply names_gen. exact Hi.
  Qed.

  (* ---- slices ---- *)

  Fixpoint ztiles (l : list (Z * Z)) (from to : Z) : Prop :=
    match l with
    | [] => from = to
    | (a, b) :: r => a = from /\ (a <= b)%Z /\ ztiles r b to
    end.

  Definition zslice (s : text) (p : Z * Z) : text := pslice s (Z.to_nat (fst p)) (Z.to_nat (snd p)).

  (* raw slices: source_idx is the running sum of the lengths of the raws before it *)
  Fixpoint idx_chain (pos : nat) (rs : list rslice) : Prop :=
    match rs with
    | [] => True
    | r :: rest => rs_idx r = pos /\ idx_chain (pos + length (rs_raw r)) rest
    end.

  Lemma pslice_len s a b : a <= b -> b <= length s -> length (pslice s a b) = b - a.
  Proof. intros H1 H2. unfold pslice. rewrite firstn_length, skipn_length. lia. Qed.

  Lemma pslice_mid (pre mid post : text) :
    pslice (pre ++ mid ++ post) (length pre) (length pre + length mid) = mid.
  Proof.
    unfold pslice. rewrite skipn_app, skipn_all, Nat.sub_diag. cbn [skipn app].
    replace (length pre + length mid - length pre) with (length mid + 0) by lia.
    rewrite firstn_app_2. cbn [firstn]. apply app_nil_r.
  Qed.

  Lemma ph_loop_tiles : forall ms src pos tpl cnt pre out ts rs,
    spans_ok pos ms (length src) -> Z.of_nat (length pre) = tpl ->
    ph_loop ctx src pos tpl cnt ms = (out, ts, rs) ->
    ztiles (map ts_src ts) (Z.of_nat pos) (Z.of_nat (length src))
    /\ ztiles (map ts_tpl ts) tpl (tpl + Z.of_nat (length out))%Z
    /\ Forall (fun t => ts_templated t = false -> zslice src (ts_src t) = zslice (pre ++ out) (ts_tpl t)) ts
    /\ concat (map rs_raw rs) = skipn pos src
    /\ idx_chain pos rs
    /\ map rs_templated rs = map ts_templated ts.
  Proof.
    induction ms as [|m r IH]; intros src pos tpl cnt pre out ts rs Hs Hp E; cbn [ph_loop spans_ok] in *.
    - destruct (pos <? length src) eqn:El; inversion E; subst out ts rs; clear E; cbn [map ztiles concat idx_chain].
      + apply Nat.ltb_lt in El.
        assert (Hl : length (pslice src pos (length src)) = length src - pos) by (apply pslice_len; lia).
        split; [repeat split; lia|]. split; [repeat split; lia|]. split; [|split; [|split]].
        * constructor; [|constructor]. intros _. unfold zslice. cbn [ts_src ts_tpl fst snd].
          rewrite <- Hp. rewrite !Nat2Z.id.
          replace (Z.to_nat (Z.of_nat (length pre) + (Z.of_nat (length src) - Z.of_nat pos)))
            with (length pre + length (pslice src pos (length src))) by lia.
          rewrite <- (app_nil_r (pslice src pos (length src))) at 2. symmetry. apply pslice_mid.
        * rewrite app_nil_r. unfold pslice. apply firstn_all2. rewrite skipn_length. lia.
        * cbn [rs_idx]. split; reflexivity.
        * reflexivity.
      + apply Nat.ltb_ge in El. assert (pos = length src) by lia. subst pos.
        split; [reflexivity|]. split; [cbn [length]; lia|]. split; [constructor|].
        split; [rewrite skipn_all; reflexivity|]. split; [exact I|reflexivity].
    - destruct Hs as [H1 [H2 H3]]. pose proof (spans_ok_le _ _ _ H3) as H4.
      destruct (param_name cnt m) as [nm c'] eqn:Ep.
      set (lit := pslice src pos (pm_start m)) in *.
      set (repl := replacement ctx nm m) in *.
      set (lll := (Z.of_nat (pm_start m) - Z.of_nat pos)%Z) in *.
      destruct (ph_loop ctx src (pm_stop m) (tpl + lll + Z.of_nat (length repl))%Z c' r) as [[out' ts'] rs'] eqn:Er.
      inversion E; subst out ts rs; clear E.
      assert (Hlit : length lit = pm_start m - pos) by (apply pslice_len; lia).
      destruct (IH src (pm_stop m) (tpl + lll + Z.of_nat (length repl))%Z c' (pre ++ lit ++ repl) out' ts' rs' H3)
        as [T1 [T2 [T3 [T4 [T5 T6]]]]]; [rewrite !app_length; lia|exact Er|].
      cbn [map ztiles ts_src ts_tpl concat rs_raw idx_chain rs_idx rs_templated ts_templated].
      split; [repeat split; try lia; exact T1|]. split; [|split; [|split; [|split]]].
      + split; [reflexivity|]. split; [lia|]. split; [reflexivity|]. split; [lia|].
        rewrite !app_length. replace (tpl + Z.of_nat (length lit + (length repl + length out')))%Z
          with (tpl + lll + Z.of_nat (length repl) + Z.of_nat (length out'))%Z by lia. exact T2.
      + constructor; [|constructor].
        * intros _. unfold zslice. cbn [ts_src ts_tpl fst snd]. rewrite <- Hp. rewrite !Nat2Z.id.
          replace (Z.to_nat (Z.of_nat (length pre) + lll)) with (length pre + length lit) by lia.
          symmetry. apply pslice_mid.
        * intros Hc. discriminate Hc.
        * replace (pre ++ lit ++ repl ++ out') with ((pre ++ lit ++ repl) ++ out') by (rewrite <- !app_assoc; reflexivity).
          exact T3.
      + rewrite T4. rewrite (skipn_split src pos (pm_start m)) by lia.
        rewrite (skipn_split src (pm_start m) (pm_stop m)) by lia. reflexivity.
      + split; [reflexivity|]. rewrite Hlit. replace (pos + (pm_start m - pos)) with (pm_start m) by lia.
        split; [reflexivity|]. rewrite pslice_len by lia. replace (pm_start m + (pm_stop m - pm_start m)) with (pm_stop m) by lia.
        exact T5.
      + rewrite T6. reflexivity.
  Qed.

  Theorem placeholder_slices_tile_lemma : forall src ms, spans_ok 0 ms (length src) ->
    let out := ph_out ctx src ms in
    let ts := ph_tslices ctx src ms in
    let rs := ph_rslices ctx src ms in
    ztiles (map ts_src ts) 0 (Z.of_nat (length src))
    /\ ztiles (map ts_tpl ts) 0 (Z.of_nat (length out))
    /\ Forall (fun t => ts_templated t = false -> zslice src (ts_src t) = zslice out (ts_tpl t)) ts
    /\ concat (map rs_raw rs) = src
    /\ idx_chain 0 rs
    /\ map rs_templated rs = map ts_templated ts.
  Proof.
    intros src ms H. unfold ph_out, ph_tslices, ph_rslices, ph_process.
    destruct (ph_loop ctx src 0 0%Z 1 ms) as [[out ts] rs] eqn:E. cbn [fst snd].
    destruct (ph_loop_tiles ms src 0 0%Z 1 [] out ts rs H eq_refl E) as [T1 [T2 [T3 [T4 [T5 T6]]]]].
    cbn [app skipn] in *. repeat split; assumption.
  Qed.
End Spec.
