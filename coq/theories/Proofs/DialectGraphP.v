From SF Require Import Base.Prelude Model.DialectGraph.

Lemma nmemN_In n l : nmemN n l = true <-> In n l.
Proof.
  unfold nmemN. rewrite existsb_exists. split.
  - intros [x [Hx E]]. apply N.eqb_eq in E. subst. exact Hx.
  - intros H. exists n. split; [exact H|apply N.eqb_refl].
Qed.

Theorem closed_check_sound g root visited dangling :
  closed_check g root visited dangling = true ->
  forall n, path g root n -> In n visited /\ (entry g n <> None \/ (In n dangling /\ entry g n = None)).
Proof.
  unfold closed_check. intros H.
  apply andb_true_iff in H as [H Hd]. apply andb_true_iff in H as [Hr Hv].
  rewrite forallb_forall in Hv, Hd.
  assert (Hin : forall n, path g root n -> In n visited).
  { intros n P. induction P as [|b c succs P IH E Hc].
    - apply nmemN_In; exact Hr.
    - specialize (Hv b IH). rewrite E in Hv. rewrite forallb_forall in Hv. apply nmemN_In. apply Hv; exact Hc. }
  intros n P. split; [apply Hin; exact P|].
  specialize (Hv n (Hin n P)). destruct (entry g n) as [s|] eqn:E.
  - left. discriminate.
  - right. split; [apply nmemN_In; exact Hv|reflexivity].
Qed.

Corollary closed_no_dangling g root visited :
  closed_check g root visited [] = true -> forall n, path g root n -> entry g n <> None.
Proof.
  intros H n P. destruct (closed_check_sound g root visited [] H n P) as [_ [E|[[] _]]]. exact E.
Qed.

(* ---- the trie-based checker computes the same boolean *)
From Coq Require Import FMapPositive MSetPositive.

Lemma key_inj a b : key a = key b -> a = b.
Proof. unfold key. intros H. rewrite <- (N.pos_pred_succ a), <- (N.pos_pred_succ b). rewrite H. reflexivity. Qed.

Lemma map_of_find g n : PositiveMap.find (key n) (map_of g) = entry g n.
Proof.
  unfold entry. induction g as [|[k v] r IH]; cbn [map_of find fst snd].
  - apply PositiveMap.gempty.
  - destruct (N.eqb_spec k n) as [->|Hne].
    + rewrite PositiveMap.gss. reflexivity.
    + rewrite PositiveMap.gso; [exact IH|]. intros E. apply key_inj in E. congruence.
Qed.

Lemma set_of_mem l n : PositiveSet.mem (key n) (set_of l) = nmemN n l.
Proof.
  unfold nmemN. induction l as [|x r IH]; cbn [set_of existsb].
  - reflexivity.
  - destruct (N.eqb_spec n x) as [->|Hne]; cbn [orb].
    + apply PositiveSet.mem_spec. apply PositiveSet.add_spec. left. reflexivity.
    + rewrite <- IH. apply Bool.eq_true_iff_eq. rewrite !PositiveSet.mem_spec, PositiveSet.add_spec.
      split; [intros [E|H]; [apply key_inj in E; congruence|exact H] | intros H; right; exact H].
Qed.

Lemma forallb_ext' {A} (f g : A -> bool) l : (forall x, f x = g x) -> forallb f l = forallb g l.
Proof. intros H. induction l as [|x r IH]; cbn [forallb]; [reflexivity|]. rewrite H, IH. reflexivity. Qed.

Theorem closed_check_fast_eq g root visited dangling :
  closed_check_fast g root visited dangling = closed_check g root visited dangling.
Proof.
  unfold closed_check_fast, closed_check. rewrite set_of_mem. f_equal; [f_equal|].
  - apply forallb_ext'. intros n. rewrite map_of_find. destruct (entry g n) as [succs|].
    + apply forallb_ext'. intros s. apply set_of_mem.
    + apply set_of_mem.
  - apply forallb_ext'. intros n. rewrite map_of_find. reflexivity.
Qed.

Corollary closed_fast_no_dangling g root visited :
  closed_check_fast g root visited [] = true -> forall n, path g root n -> entry g n <> None.
Proof. rewrite closed_check_fast_eq. apply closed_no_dangling. Qed.

Corollary closed_fast_up_to_listed g root visited dangling :
  closed_check_fast g root visited dangling = true ->
  forall n, path g root n -> entry g n <> None \/ In n dangling.
Proof.
  rewrite closed_check_fast_eq. intros H n P.
  destruct (closed_check_sound g root visited dangling H n P) as [_ [E|[D _]]]; [left; exact E|right; exact D].
Qed.
