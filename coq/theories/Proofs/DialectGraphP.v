From SF Require Import Base.Prelude Model.DialectGraph.

Lemma nmemN_In n l : nmemN n l = true <-> In n l.
Proof.
  unfold nmemN. rewrite existsb_exists. split.
  - intros [x [Hx E]]. apply N.eqb_eq in E. subst. exact Hx.
  - intros H. exists n. split; [exact H|apply N.eqb_refl].
Qed.

Theorem closed_check_sound g root visited dangling :
  closed_check g root visited dangling = true ->
  forall n, path g root n -> In n visited /\ (entry g n <> None \/ (In n dangling /\ entry g n = None)).
Proof.
  unfold closed_check. intros H.
  apply andb_true_iff in H as [H Hd]. apply andb_true_iff in H as [Hr Hv].
  rewrite forallb_forall in Hv, Hd.
  assert (Hin : forall n, path g root n -> In n visited).
  { intros n P. induction P as [|b c succs P IH E Hc].
    - apply nmemN_In; exact Hr.
    - specialize (Hv b IH). rewrite E in Hv. rewrite forallb_forall in Hv. apply nmemN_In. apply Hv; exact Hc. }
  intros n P. split; [apply Hin; exact P|].
  specialize (Hv n (Hin n P)). destruct (entry g n) as [s|] eqn:E.
  - left. discriminate.
  - right. split; [apply nmemN_In; exact Hv|reflexivity].
Qed.

Corollary closed_no_dangling g root visited :
  closed_check g root visited [] = true -> forall n, path g root n -> entry g n <> None.
Proof.
  intros H n P. destruct (closed_check_sound g root visited [] H n P) as [_ [E|[[] _]]]. exact E.
Qed.
