From SF Require Import Base.Prelude Model.ParseOpt.

Section LMP.
  Variables (idx max_idx : nat) (has_terms : bool) (next_code : nat -> nat) (term_at : nat -> bool) (nseg : nat).
  Hypothesis Hidx : idx < max_idx.

  Notation go := (lm_go idx max_idx has_terms next_code term_at nseg).

  (* "simple() is complete": an option that pruning drops would not have matched anything (its match is zero-length) *)
  Definition prune_safe (opts : list outcome) : Prop := forall o, In o opts -> o_keep o = false -> o_stop o <= idx.

  Lemma go_prune opts : prune_safe opts -> forall best, go (filter o_keep opts) best = go opts best.
  Proof.
    induction opts as [|o rest IH]; intros Hs best; cbn [filter lm_go]; [reflexivity|].
    assert (Hrest : prune_safe rest) by (intros x Hx; apply Hs; right; exact Hx).
    destruct (o_keep o) eqn:Ek.
    - cbn [lm_go]. destruct (o_truthy o && (o_stop o =? max_idx)); [reflexivity|].
      destruct (_ <? olen idx o) eqn:Eb; [|apply IH; exact Hrest].
      pose proof (IH Hrest (Some o)) as IHo.
      destruct (filter o_keep rest) as [|f1 fr] eqn:Ef.
      + destruct rest as [|r1 rest']; [reflexivity|]. destruct (has_terms && _); [reflexivity|].
        cbn [lm_go] in IHo. exact IHo.
      + destruct rest as [|r1 rest']; [discriminate Ef|]. destruct (has_terms && _); [reflexivity|]. exact IHo.
    - assert (Hz : o_stop o <= idx) by (apply Hs; [left; reflexivity|exact Ek]).
      assert (E1 : (o_stop o =? max_idx) = false) by (apply Nat.eqb_neq; lia).
      rewrite E1, andb_false_r.
      assert (E2 : ((match best with Some b => olen idx b | None => 0 end) <? olen idx o) = false).
      { apply Nat.ltb_ge. unfold olen at 1. lia. }
      rewrite E2. apply IH; exact Hrest.
  Qed.

  Theorem prune_sound opts :
    prune_safe opts ->
    longest_match idx max_idx has_terms next_code term_at nseg true opts
    = longest_match idx max_idx has_terms next_code term_at nseg false opts.
  Proof.
    intros Hs. unfold longest_match. destruct opts as [|o rest]; [reflexivity|].
    cbn [orb]. destruct (idx =? max_idx); [reflexivity|].
    destruct (filter o_keep (o :: rest)) as [|f1 fr] eqn:Ef.
    - rewrite <- (go_prune (o :: rest) Hs None). rewrite Ef. reflexivity.
    - rewrite <- Ef. apply go_prune; exact Hs.
  Qed.
End LMP.

(* without completeness pruning changes the result *)
Lemma prune_unsound_example :
  longest_match 0 5 false (fun n => n) (fun _ => false) 5 true [{| o_stop := 2; o_truthy := true; o_keep := false; o_id := 0 |}]
  <> longest_match 0 5 false (fun n => n) (fun _ => false) 5 false [{| o_stop := 2; o_truthy := true; o_keep := false; o_id := 0 |}].
Proof. vm_compute. discriminate. Qed.

Section CacheP.
  Variables (K C V : Type) (keq : K -> K -> bool) (f : K -> C -> V).
  Hypothesis keq_spec : forall a b, keq a b = true <-> a = b.

  (* every cached value is what a fresh match would give for every context that is going to ask for that key *)
  Definition cache_ok (m : list (K * V)) (reqs : list (K * C)) : Prop :=
    forall k c v, In (k, c) reqs -> lookup K V keq m k = Some v -> v = f k c.
  (* requests with the same key agree (the part of the context the key omits does not influence the match) *)
  Definition key_determines (reqs : list (K * C)) : Prop :=
    forall k c c', In (k, c) reqs -> In (k, c') reqs -> f k c = f k c'.

  Theorem cache_transparent m reqs :
    cache_ok m reqs -> key_determines reqs -> run_cached K C V keq f m reqs = run_fresh K C V f reqs.
  Proof.
    revert m. induction reqs as [|[k c] r IH]; intros m Hm Hk; cbn [run_cached run_fresh map fst snd]; [reflexivity|].
    assert (Hk' : key_determines r) by (intros k1 c1 c2 H1 H2; apply Hk; right; assumption).
    destruct (lookup K V keq m k) as [v|] eqn:El.
    - f_equal; [apply (Hm k c v); [left; reflexivity|exact El]|].
      apply IH; [|exact Hk']. intros k1 c1 v1 H1 H2. apply (Hm k1 c1 v1); [right; exact H1|exact H2].
    - f_equal. apply IH; [|exact Hk'].
      intros k1 c1 v1 H1 H2. cbn [lookup] in H2. destruct (keq k k1) eqn:E.
      + apply keq_spec in E. subst k1. inversion H2; subst. apply Hk; [left; reflexivity|right; exact H1].
      + apply (Hm k1 c1 v1); [right; exact H1|exact H2].
  Qed.
End CacheP.

(* when the omitted context does matter, a hit returns a stale answer *)
Lemma cache_not_transparent_example :
  run_cached nat nat nat Nat.eqb (fun k c => k + c) [] [(1, 0); (1, 5)] <> run_fresh nat nat nat (fun k c => k + c) [(1, 0); (1, 5)].
Proof. vm_compute. discriminate. Qed.
