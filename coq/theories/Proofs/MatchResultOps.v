(* The two combinators every grammar uses to build results (MatchResult.wrap, MatchResult.append) keep the certificate:
   wrapping a certified result, or appending two certified classed results, gives a certified result, hence (apply_lossless) a
   result on which apply succeeds and is lossless. *)
From SF Require Import Base.Prelude Base.Sort Model.MatchResult Proofs.MatchResultP.

Lemma wf_nonzero_class_irrelevant n s e c c' ins ch :
  (e - s =? 0) = false -> wf_b n (MR s e c ins ch) = wf_b n (MR s e c' ins ch).
Proof. intros H. cbn [wf_b]. rewrite H. reflexivity. Qed.

Lemma wf_nonzero_stop n s e c ins ch : (e - s =? 0) = false -> wf_b n (MR s e c ins ch) = true -> e <= n.
Proof.
  intros H Hwf. cbn [wf_b] in Hwf. rewrite H in Hwf. apply andb_true_iff in Hwf as [Hle _]. apply Nat.leb_le in Hle. exact Hle.
Qed.

(* wrap with no extra inserts (how every BaseSegment.match and every classed grammar element wraps its content) *)
Theorem wrap_keeps_certificate n m outer m' :
  wf_b n m = true -> wrap m outer [] = Ok m' -> wf_b n m' = true.
Proof.
  destruct m as [s e c ins ch]. unfold wrap, mlen. cbn [mstart mstop mins mcls mch is_nil].
  intros Hwf. destruct ((e - s =? 0) && is_nil ins) eqn:Ez.
  - intros H; inversion H; subst; exact Hwf.
  - destruct c as [k|]; unfold mk.
    + destruct (e - s =? 0) eqn:Ees; cbn [andb orb]; [discriminate|].
      intros H; inversion H; subst m'; clear H.
      pose proof (wf_nonzero_stop _ _ _ _ _ _ Ees Hwf) as Hen.
      apply Nat.eqb_neq in Ees.
      remember (MR s e (Some k) ins ch) as m0 eqn:Em0.
      assert (Hs0 : mstart m0 = s) by (subst m0; reflexivity). assert (He0 : mstop m0 = e) by (subst m0; reflexivity).
      cbn [wf_b]. destruct (e - s =? 0) eqn:Ees2; [apply Nat.eqb_eq in Ees2; lia|].
      cbn [map app]. rewrite Hs0, He0. cbn [ssort insert cwalk].
      rewrite Hwf. cbn [negb andb].
      destruct (e <? s) eqn:E1; [apply Nat.ltb_lt in E1; lia|].
      rewrite Nat.ltb_irrefl. rewrite Nat.eqb_refl.
      replace (s <=? e) with true by (symmetry; apply Nat.leb_le; lia).
      rewrite Nat.leb_refl. cbn [andb]. apply andb_true_iff. split; apply Nat.leb_le; lia.
    + destruct (e - s =? 0) eqn:Ees.
      * cbn [andb orb]. destruct ch; cbn [is_nil negb orb]; discriminate.
      * cbn [andb]. intros H; inversion H; subst m'; clear H. rewrite app_nil_r.
        rewrite <- Hwf. apply wf_nonzero_class_irrelevant. exact Ees.
Qed.

(* append of two certified, classed, non-empty results that do not overlap (Sequence / AnyNumberOf / Delimited accumulate matched
   elements this way): the result holds them as its two children and is certified *)
Theorem append_classed_keeps_certificate n a b ka kb m' :
  wf_b n a = true -> wf_b n b = true -> mcls a = Some ka -> mcls b = Some kb ->
  0 < mlen a -> 0 < mlen b ->
  append a b [] = Ok m' -> wf_b n m' = true /\ mstart m' = mstart a /\ mstop m' = mstop b /\ mch m' = [a; b].
Proof.
  destruct a as [sa ea ca ia cha]. destruct b as [sb eb cb ib chb]. unfold mlen. cbn [mstart mstop mcls mins mch].
  intros Ha Hb -> -> La Lb. unfold append, mlen. cbn [mstart mstop mcls mins mch].
  replace (ea - sa =? 0) with false by (symmetry; apply Nat.eqb_neq; lia).
  replace (eb - sb =? 0) with false by (symmetry; apply Nat.eqb_neq; lia). cbn [andb].
  destruct (ea <=? sb) eqn:Eo; [|discriminate]. apply Nat.leb_le in Eo.
  cbn [fst snd app]. unfold mk. cbn [is_nil negb orb].
  replace (eb - sa =? 0) with false by (symmetry; apply Nat.eqb_neq; lia). cbn [andb].
  intros H; inversion H; subst m'; clear H. cbn [mstart mstop mch]. repeat split; try reflexivity.
  assert (Hebn : eb <= n).
  { eapply wf_nonzero_stop; [|exact Hb]. apply Nat.eqb_neq; lia. }
  remember (MR sa ea (Some ka) ia cha) as a0 eqn:Ea0. remember (MR sb eb (Some kb) ib chb) as b0 eqn:Eb0.
  assert (Hsa : mstart a0 = sa) by (subst a0; reflexivity). assert (Hea : mstop a0 = ea) by (subst a0; reflexivity).
  assert (Hsb : mstart b0 = sb) by (subst b0; reflexivity). assert (Heb : mstop b0 = eb) by (subst b0; reflexivity).
  cbn [wf_b]. replace (eb - sa =? 0) with false by (symmetry; apply Nat.eqb_neq; lia).
  cbn [map app]. rewrite Hsa, Hea, Hsb, Heb. cbn [ssort insert]. unfold ckey_leb at 1. cbn [fst].
  replace (sa <=? sb) with true by (symmetry; apply Nat.leb_le; lia).
  cbn [cwalk]. rewrite Ha, Hb. cbn [negb andb].
  rewrite Nat.ltb_irrefl.
  replace (eb <? sa) with false by (symmetry; apply Nat.ltb_ge; lia).
  rewrite Nat.eqb_refl.
  replace (sa <=? ea) with true by (symmetry; apply Nat.leb_le; lia).
  replace (ea <=? eb) with true by (symmetry; apply Nat.leb_le; lia). cbn [andb].
  replace (sa =? sb) with false by (symmetry; apply Nat.eqb_neq; lia). cbn [negb andb].
  destruct (sb <? ea) eqn:E1; [apply Nat.ltb_lt in E1; lia|].
  replace (eb <? sb) with false by (symmetry; apply Nat.ltb_ge; lia).
  assert (Hmx : (if ea <? sb then sb else ea) = sb).
  { destruct (ea <? sb) eqn:E2; [reflexivity|]. apply Nat.ltb_ge in E2. lia. }
  rewrite Hmx. rewrite Nat.eqb_refl.
  replace (sb <=? eb) with true by (symmetry; apply Nat.leb_le; lia).
  rewrite Nat.leb_refl. cbn [andb].
  apply andb_true_iff. split; apply Nat.leb_le; lia.
Qed.

(* and therefore apply succeeds on it and returns exactly the tokens of both parts and of the gap between them *)
Corollary append_classed_lossless n a b ka kb m' :
  wf_b n a = true -> wf_b n b = true -> mcls a = Some ka -> mcls b = Some kb -> 0 < mlen a -> 0 < mlen b ->
  append a b [] = Ok m' -> exists ts, apply n m' = Ok ts /\ tokens_of_l ts = seq (mstart a) (mstop b - mstart a).
Proof.
  intros Ha Hb Ca Cb La Lb Happ.
  destruct (append_classed_keeps_certificate n a b ka kb m' Ha Hb Ca Cb La Lb Happ) as [Hwf [Hs [He _]]].
  destruct (apply_lossless n m' Hwf) as [ts [H1 H2]]. exists ts. split; [exact H1|]. rewrite H2. unfold mlen. rewrite Hs, He. reflexivity.
Qed.
