From SF Require Import Base.Prelude Base.Sort Model.Dedup.

Lemma sig_eqb_eq a b : sig_eqb a b = true <-> a = b.
Proof.
  destruct a as [[[a1 a2] a3] a4], b as [[[b1 b2] b3] b4]. cbn [sig_eqb]. split.
  - intros H. repeat (apply andb_true_iff in H as [H ?]). f_equal; [f_equal; [f_equal|]|]; apply Nat.eqb_eq; assumption.
  - intros H. inversion H; subst. rewrite !Nat.eqb_refl. reflexivity.
Qed.

Lemma mem_seen s seen : existsb (sig_eqb s) seen = true <-> In s seen.
Proof.
  rewrite existsb_exists. split.
  - intros [x [Hx E]]. apply sig_eqb_eq in E. subst. exact Hx.
  - intros H. exists s. split; [exact H|apply sig_eqb_eq; reflexivity].
Qed.

Lemma dedup_seen_spec : forall l seen,
  NoDup (map signature (dedup_seen seen l))
  /\ (forall w, In w (dedup_seen seen l) -> In w l /\ ~ In (signature w) seen)
  /\ (forall v, In v l -> In (signature v) seen \/ exists w, In w (dedup_seen seen l) /\ signature w = signature v).
Proof.
  induction l as [|v r IH]; intros seen; cbn [dedup_seen].
  - split; [constructor|]. split; [intros w []|intros v []].
  - destruct (existsb (sig_eqb (signature v)) seen) eqn:E.
    + apply mem_seen in E. destruct (IH seen) as [N [S C]].
      split; [exact N|]. split.
      * intros w Hw. destruct (S w Hw). split; [right; assumption|assumption].
      * intros x [<-|Hx]; [left; exact E|apply C; exact Hx].
    + assert (Hn : ~ In (signature v) seen) by (intros H; apply mem_seen in H; congruence).
      destruct (IH (signature v :: seen)) as [N [S C]].
      split; [|split].
      * cbn [map]. constructor; [|exact N]. intros Hin. apply in_map_iff in Hin as [w [Ew Hw]].
        destruct (S w Hw) as [_ Hns]. apply Hns. left. symmetry. exact Ew.
      * intros w [<-|Hw]; [split; [left; reflexivity|exact Hn]|].
        destruct (S w Hw) as [H1 H2]. split; [right; exact H1|]. intros H; apply H2; right; exact H.
      * intros x [<-|Hx]; [right; exists v; split; [left; reflexivity|reflexivity]|].
        destruct (C x Hx) as [[Hs|Hs]|[w [Hw Ew]]].
        -- right. exists v. split; [left; reflexivity|exact Hs].
        -- left; exact Hs.
        -- right. exists w. split; [right; exact Hw|exact Ew].
Qed.

Lemma pos_leb_total a b : pos_leb a b = true \/ pos_leb b a = true.
Proof. unfold pos_leb. lia. Qed.
Lemma pos_leb_trans a b c : pos_leb a b = true -> pos_leb b c = true -> pos_leb a c = true.
Proof. unfold pos_leb. lia. Qed.

Theorem dedup_sort_spec l :
  NoDup (map signature (dedup_sort l))
  /\ StronglySorted (le pos_leb) (dedup_sort l)
  /\ (forall w, In w (dedup_sort l) -> In w l)
  /\ (forall v, In v l -> exists w, In w (dedup_sort l) /\ signature w = signature v).
Proof.
  unfold dedup_sort. destruct (dedup_seen_spec l []) as [N [S C]].
  split; [|split; [|split]].
  - eapply Permutation_NoDup; [|exact N]. apply Permutation_map. apply ssort_perm.
  - apply ssort_sorted; [apply pos_leb_total|apply pos_leb_trans].
  - intros w Hw. apply (proj1 (ssort_in pos_leb _ _)) in Hw. apply S in Hw. tauto.
  - intros v Hv. destruct (C v Hv) as [[]|[w [Hw E]]]. exists w. split; [apply (ssort_in pos_leb); exact Hw|exact E].
Qed.

(* the first occurrence is the one that survives *)
Lemma dedup_first : forall l seen v r, l = v :: r -> ~ In (signature v) seen -> In v (dedup_seen seen l).
Proof.
  intros l seen v r -> Hn. cbn [dedup_seen].
  destruct (existsb (sig_eqb (signature v)) seen) eqn:E; [apply mem_seen in E; contradiction|left; reflexivity].
Qed.

(* two passes of one source violation (same source signature, different templated position) collapse *)
Example loop_passes_collapse :
  dedup_sort [mkViol 1 3 5 7 100; mkViol 2 1 1 0 10; mkViol 1 3 5 7 200; mkViol 1 3 5 8 300]
  = [mkViol 2 1 1 0 10; mkViol 1 3 5 7 100; mkViol 1 3 5 8 300].
Proof. vm_compute. reflexivity. Qed.
