From SF Require Import Base.Prelude Base.Sort Model.NoQa.

Lemma filter_filter {A} (f g : A -> bool) l : filter f (filter g l) = filter (fun x => g x && f x) l.
Proof.
  induction l as [|x l IH]; cbn [filter]; [reflexivity|].
  destruct (g x); cbn [filter andb]; [destruct (f x); rewrite IH; reflexivity|exact IH].
Qed.

Lemma filter_nil_neg {A} (f : A -> bool) l : filter f l = [] -> filter (fun v => negb (f v)) l = l.
Proof.
  induction l as [|x l IH]; cbn [filter]; [reflexivity|].
  destruct (f x); [discriminate|]. intros H. cbn [negb]. rewrite IH by exact H. reflexivity.
Qed.

(* ---- single-line pass ---- *)
Lemma sl_pass_fst : forall ds vs used,
  fst (sl_pass ds vs used) = filter (fun v => negb (existsb (fun d => sl_match d v) ds)) vs.
Proof.
  induction ds as [|d r IH]; intros vs used; cbn [sl_pass existsb].
  - cbn [fst negb]. induction vs as [|v vs IHv]; cbn [filter]; [reflexivity|]. rewrite <- IHv. reflexivity.
  - assert (E : forall used', fst (sl_pass r (filter (fun v => negb (sl_match d v)) vs) used')
                = filter (fun v => negb (sl_match d v || existsb (fun d0 => sl_match d0 v) r)) vs).
    { intros used'. rewrite IH, filter_filter. apply filter_ext. intros v. rewrite negb_orb. reflexivity. }
    destruct (filter (sl_match d) vs) eqn:F.
    + rewrite <- (E used). rewrite (filter_nil_neg _ _ F). reflexivity.
    + apply E.
Qed.

(* ---- range pass ---- *)
Lemma last_opt_ne {A} : forall (l : list A) (x : A), exists z, last_opt (x :: l) = Some z.
Proof.
  induction l as [|y l IH]; intros x; [exists x; reflexivity|].
  destruct (IH y) as [z Hz]. exists z. cbn [last_opt] in *. exact Hz.
Qed.

Lemma last_opt_cons {A} (x : A) l : last_opt (x :: l) = match last_opt l with Some y => Some y | None => Some x end.
Proof.
  destruct l as [|y l]; [reflexivity|].
  destruct (last_opt_ne l y) as [z Hz]. rewrite Hz. cbn [last_opt] in *. exact Hz.
Qed.

Lemma last_opt_none {A} (l : list A) : last_opt l = None -> l = [].
Proof. induction l as [|x l IH]; [reflexivity|]. rewrite last_opt_cons. destruct (last_opt l); discriminate. Qed.

Definition lle := le line_leb.

Lemma filter_all_beyond line r :
  Forall (fun e => line < d_line e) r -> filter (fun d0 => d_line d0 <=? line) r = [].
Proof.
  induction r as [|e r IH]; intros H; [reflexivity|]. inversion H; subst. cbn [filter].
  destruct (Nat.leb_spec (d_line e) line); [lia|]. apply IH; assumption.
Qed.

Lemma scan_spec : forall rel line ig0 last0 used,
  StronglySorted lle rel -> Forall (fun d => is_plain d = false) rel ->
  fst (fst (scan rel line ig0 last0 used)) =
  match last_opt (filter (fun d => d_line d <=? line) rel) with
  | Some d => is_disable d
  | None => ig0
  end.
Proof.
  induction rel as [|d r IH]; intros line ig0 last0 used Hs Hp; cbn [scan filter].
  - reflexivity.
  - inversion Hs as [|? ? Hsr Hd]; subst. inversion Hp as [|? ? Hpd Hpr]; subst.
    destruct (Nat.ltb_spec line (d_line d)) as [Hlt|Hge].
    + (* break: everything later is also beyond line *)
      destruct (Nat.leb_spec (d_line d) line); [lia|].
      assert (F : filter (fun d0 => d_line d0 <=? line) r = []).
      { apply filter_all_beyond. eapply Forall_impl; [|exact Hd].
        intros e He. unfold lle, le, line_leb in He. lia. }
      rewrite F. reflexivity.
    + destruct (Nat.leb_spec (d_line d) line); [|lia].
      rewrite last_opt_cons.
      unfold is_plain in Hpd.
      destruct (d_action d) eqn:A; [discriminate| |].
      * rewrite IH by assumption. destruct (last_opt _); [reflexivity|]. unfold is_disable. rewrite A. reflexivity.
      * rewrite IH by assumption. destruct (last_opt _); [reflexivity|]. unfold is_disable. rewrite A. reflexivity.
Qed.

Lemma line_leb_total a b : line_leb a b = true \/ line_leb b a = true.
Proof. unfold line_leb. lia. Qed.
Lemma line_leb_trans a b c : line_leb a b = true -> line_leb b c = true -> line_leb a c = true.
Proof. unfold line_leb. lia. Qed.

Lemma range_pass_fst cov : forall ds vs used,
  Forall (fun d => is_plain d = false) ds ->
  fst (range_pass cov ds vs used) = filter (fun v => negb (hidden_range cov ds v)) vs.
Proof.
  intros ds vs. induction vs as [|v r IH]; intros used Hp; cbn [range_pass filter]; [reflexivity|].
  set (rel := ssort line_leb (filter (fun d => cov d v) ds)).
  assert (Hs : StronglySorted lle rel) by (apply ssort_sorted; [apply line_leb_total|apply line_leb_trans]).
  assert (Hpr : Forall (fun d => is_plain d = false) rel).
  { apply Forall_forall. intros d Hd. apply (proj1 (ssort_in line_leb _ _)) in Hd.
    apply filter_In in Hd as [Hd _]. rewrite Forall_forall in Hp. apply Hp; exact Hd. }
  pose proof (scan_spec rel (n_line v) false None used Hs Hpr) as S.
  assert (Hrel : hidden_range cov ds v = fst (fst (scan rel (n_line v) false None used))).
  { rewrite S. unfold hidden_range, most_recent.
    replace (filter (fun d => negb (is_plain d) && cov d v) ds) with (filter (fun d => cov d v) ds); [reflexivity|].
    apply filter_ext_in. intros d Hd. rewrite Forall_forall in Hp. rewrite (Hp d Hd). reflexivity. }
  destruct (scan rel (n_line v) false None used) as [[ig last] used1]. cbn [fst] in Hrel. rewrite Hrel.
  destruct ig; cbn [negb].
  - apply IH; exact Hp.
  - specialize (IH used1 Hp). destruct (range_pass cov ds r used1) as [out used2]. cbn [fst] in *. rewrite IH. reflexivity.
Qed.

(* ---- the whole mask ---- *)
Lemma existsb_filter {A} (p f : A -> bool) l : existsb f (filter p l) = existsb (fun x => p x && f x) l.
Proof.
  induction l as [|x l IH]; cbn [filter existsb]; [reflexivity|].
  destruct (p x); cbn [existsb andb]; rewrite IH; reflexivity.
Qed.

Theorem mask_with_fst cov ds vs :
  fst (mask_with cov ds vs)
  = filter (fun v => negb (hidden_single ds v) && negb (hidden_range cov ds v)) vs.
Proof.
  unfold mask_with.
  pose proof (sl_pass_fst (filter is_plain ds) vs []) as H1.
  destruct (sl_pass (filter is_plain ds) vs []) as [vs1 u1]. cbn [fst] in H1.
  rewrite range_pass_fst.
  - rewrite H1, filter_filter. apply filter_ext. intros v. f_equal.
    + unfold hidden_single. rewrite existsb_filter. reflexivity.
    + f_equal. unfold hidden_range, most_recent. rewrite filter_filter.
      replace (filter (fun x => negb (is_plain x) && (negb (is_plain x) && cov x v)) ds)
        with (filter (fun d => negb (is_plain d) && cov d v) ds); [reflexivity|].
      apply filter_ext. intros d. destruct (is_plain d); reflexivity.
  - apply Forall_forall. intros d Hd. apply filter_In in Hd as [_ Hd]. apply negb_true_iff; exact Hd.
Qed.

Lemma hidden_range_ext ds v (c1 c2 : directive -> violn -> bool) :
  (forall d, In d ds -> c1 d v = c2 d v) -> hidden_range c1 ds v = hidden_range c2 ds v.
Proof.
  intros H. unfold hidden_range, most_recent.
  replace (filter (fun d => negb (is_plain d) && c1 d v) ds) with (filter (fun d => negb (is_plain d) && c2 d v) ds); [reflexivity|].
  apply filter_ext_in. intros d Hd. rewrite (H d Hd). reflexivity.
Qed.

Theorem mask_spec_lemma ds vs :
  fst (mask ds vs) = filter (fun v => negb (hidden_spec ds v)) vs.
Proof.
  unfold mask. rewrite mask_with_fst. apply filter_ext. intros v.
  unfold hidden_spec. rewrite negb_orb. reflexivity.
Qed.

(* The defect repaired by the fix commit (F1): if "covers" treats an empty rule tuple like "no rules given", a range
   directive naming only non-excepted rules hides every rule. Kept as a regression witness about that alternative. *)
Definition covers_falsy (d : directive) (v : violn) : bool :=
  match d_rules d with None => true | Some [] => true | Some rs => mem (n_code v) rs end.
Theorem falsy_covers_refuted_lemma :
  exists ds vs, fst (mask_with covers_falsy ds vs) <> filter (fun v => negb (hidden_spec ds v)) vs.
Proof. exists [mkDir 0 1 (Some []) Disable], [mkV 1 2]. vm_compute. discriminate. Qed.

Example mask_example :
  let ds := [mkDir 0 1 (Some [0]) Disable; mkDir 1 2 None Plain; mkDir 2 3 (Some [0]) Enable] in
  mask ds [mkV 0 1; mkV 1 1; mkV 1 2; mkV 0 2; mkV 0 3; mkV 0 4] = ([mkV 1 1; mkV 0 3; mkV 0 4], [2; 2; 0; 2; 1]).
Proof.
  vm_compute; reflexivity.
Qed.
