From SF Require Import Base.Prelude Model.Glob Model.RuleSelect Proofs.GlobP.

Lemma tmem_In x l : tmem x l = true <-> In x l.
Proof.
  unfold tmem. rewrite existsb_exists. split.
  - intros [y [Hy E]]. apply text_eqb_eq in E. subst. exact Hy.
  - intros H. exists x. split; [exact H|apply text_eqb_eq; reflexivity].
Qed.

(* r is matched by selector list sel *)
Definition matches (reg : register) (sel : list text) (c : text) : Prop :=
  exists r, In r sel /\
    ((exists cs, lookup reg r = Some cs /\ In c cs)
     \/ (lookup reg r = None /\ exists k cs, In k (keys reg) /\ gsem (parse_pat r) k /\ lookup reg k = Some cs /\ In c cs)).

Lemma expand_matches reg sel c : In c (expand reg sel) <-> matches reg sel c.
Proof.
  unfold expand, matches. rewrite in_concat. split.
  - intros [l [Hl Hc]]. apply in_map_iff in Hl as [r [E Hr]]. subst l. exists r. split; [exact Hr|].
    unfold expand1 in Hc. destruct (lookup reg r) as [cs|] eqn:L.
    + left. exists cs. split; [reflexivity|exact Hc].
    + right. split; [reflexivity|]. apply in_concat in Hc as [l [Hl Hc]]. apply in_map_iff in Hl as [k [E Hk]]. subst l.
      destruct (fnmatch k r) eqn:F; [|destruct Hc].
      destruct (lookup reg k) as [cs|] eqn:Lk; [|destruct Hc].
      exists k, cs. repeat split; try assumption. apply gmatch_correct. exact F.
  - intros [r [Hr H]]. exists (expand1 reg r). split; [apply in_map; exact Hr|].
    unfold expand1. destruct H as [[cs [L Hc]]|[L [k [cs [Hk [G [Lk Hc]]]]]]].
    + rewrite L. exact Hc.
    + rewrite L. apply in_concat. exists (if fnmatch k r then odflt (lookup reg k) else []).
      split; [apply in_map_iff; exists k; split; [reflexivity|exact Hk]|].
      unfold fnmatch. apply gmatch_correct in G. rewrite G, Lk. exact Hc.
Qed.

Theorem select_spec_lemma reg allow deny c :
  In c (select reg allow deny) <->
  In c (codes reg) /\ matches reg (match allow with [] => codes reg | _ => allow end) c /\ ~ matches reg deny c.
Proof.
  unfold select. rewrite filter_In, andb_true_iff, negb_true_iff.
  rewrite tmem_In, expand_matches. split.
  - intros [H1 [H2 H3]]. repeat split; try assumption. intros M. apply expand_matches, tmem_In in M. congruence.
  - intros [H1 [H2 H3]]. repeat split; try assumption.
    destruct (tmem c (expand reg deny)) eqn:E; [|reflexivity]. exfalso. apply H3. apply expand_matches, tmem_In. exact E.
Qed.

(* a code always selects itself *)
Lemma lookup_code reg c : In c (codes reg) -> lookup reg c = Some [c].
Proof. intros H. unfold lookup, is_code. apply tmem_In in H. rewrite H. reflexivity. Qed.

Theorem empty_selection_is_all reg c : In c (codes reg) -> In c (select reg [] []).
Proof.
  intros H. apply select_spec_lemma. split; [exact H|]. split.
  - exists c. split; [exact H|]. left. exists [c]. split; [apply lookup_code; exact H|left; reflexivity].
  - intros [r [[] _]].
Qed.

(* comma splitting: every produced reference is non-empty and has no surrounding whitespace *)
Lemma split_commas_nonempty s : forall x, In x (split_commas s) -> x <> [].
Proof. unfold split_commas. intros x H. apply filter_In in H as [_ H]. destruct x; [discriminate|discriminate]. Qed.
