From SF Require Import Base.Prelude Base.Sort Model.Gate Model.Runner.

(* Two strongly sorted lists that are permutations of each other, under a total preorder that is antisymmetric on the
   elements present, are equal. *)
Section SortedUnique.
  Context {A : Type} (leb : A -> A -> bool).
  Notation le := (le leb).

  Lemma sorted_perm_eq : forall l l' : list A,
    (forall a b, In a l -> In b l -> leb a b = true -> leb b a = true -> a = b) ->
    StronglySorted le l -> StronglySorted le l' -> Permutation l l' -> l = l'.
  Proof.
    induction l as [|x l IH]; intros l' Hanti Hs Hs' Hp.
    - apply Permutation_nil in Hp. subst; reflexivity.
    - destruct l' as [|y l']; [apply Permutation_sym, Permutation_nil in Hp; discriminate|].
      inversion Hs as [|? ? Hsl Hx]; subst. inversion Hs' as [|? ? Hsl' Hy]; subst.
      assert (Exy : x = y).
      { assert (Hyin : In y (x :: l)) by (eapply Permutation_in; [apply Permutation_sym; exact Hp|left; reflexivity]).
        assert (Hxin : In x (y :: l')) by (eapply Permutation_in; [exact Hp|left; reflexivity]).
        destruct Hyin as [->|Hyl]; [reflexivity|]. destruct Hxin as [->|Hxl']; [reflexivity|].
        rewrite Forall_forall in Hx, Hy.
        apply Hanti; [left; reflexivity|right; exact Hyl|apply Hx; exact Hyl|apply Hy; exact Hxl']. }
      subst y. f_equal. apply IH; [|exact Hsl|exact Hsl'|eapply Permutation_cons_inv; exact Hp].
      intros a b Ha Hb. apply Hanti; right; assumption.
  Qed.
End SortedUnique.

Lemma records_of_perm l l' : Permutation l l' -> Permutation (records_of l) (records_of l').
Proof.
  induction 1 as [|o l l' _ IH|a b l|l1 l2 l3 _ IH1 _ IH2]; cbn [records_of].
  - constructor.
  - destruct o as [p v t|p|p]; [constructor; exact IH|exact IH|exact IH].
  - destruct a as [p v t|p|p], b as [p' v' t'|p'|p']; try apply Permutation_refl; apply perm_swap.
  - eapply Permutation_trans; eassumption.
Qed.

Lemma writes_of_perm l l' : Permutation l l' -> Permutation (writes_of l) (writes_of l').
Proof.
  induction 1 as [|o l l' _ IH|a b l|l1 l2 l3 _ IH1 _ IH2]; cbn [writes_of].
  - constructor.
  - destruct o as [p v [t|]|p|p]; [constructor; exact IH|exact IH|exact IH|exact IH].
  - destruct a as [p v [t|]|p|p], b as [p' v' [t'|]|p'|p']; try apply Permutation_refl; apply perm_swap.
  - eapply Permutation_trans; eassumption.
Qed.

Lemma viols_of_perm l l' : Permutation l l' -> viols_of l = viols_of l'.
Proof.
  induction 1 as [|o l l' _ IH|a b l|l1 l2 l3 _ IH1 _ IH2]; cbn [viols_of]; try lia.
  - destruct o; lia.
  - destruct a, b; lia.
Qed.

Lemma skipped_of_perm l l' : Permutation l l' -> skipped_of l = skipped_of l'.
Proof.
  induction 1 as [|o l l' _ IH|a b l|l1 l2 l3 _ IH1 _ IH2]; cbn [skipped_of]; try lia.
  - destruct o; lia.
  - destruct a, b; lia.
Qed.

Lemma records_paths l : forall r, In r (records_of l) -> In (fst r) (map o_path l).
Proof.
  induction l as [|o l IH]; intros r; cbn [records_of map]; [tauto|].
  destruct o as [p v t|p|p]; cbn [o_path].
  - intros [<-|H]; [left; reflexivity|right; apply IH; exact H].
  - intros H; right; apply IH; exact H.
  - intros H; right; apply IH; exact H.
Qed.

Lemma records_nodup l : NoDup (map o_path l) -> NoDup (map fst (records_of l)).
Proof.
  induction l as [|o l IH]; cbn [map records_of]; intros H; [constructor|].
  inversion H as [|? ? Hn Hr]; subst.
  destruct o as [p v t|p|p]; cbn [o_path] in *; [|apply IH; exact Hr|apply IH; exact Hr].
  cbn [map fst]. constructor; [|apply IH; exact Hr].
  intros Hin. apply in_map_iff in Hin as [r [E Hin]]. apply records_paths in Hin. rewrite E in Hin. contradiction.
Qed.

Lemma writes_paths l : forall r, In r (writes_of l) -> In (fst r) (map o_path l).
Proof.
  induction l as [|o l IH]; intros r; cbn [writes_of map]; [tauto|].
  destruct o as [p v [t|]|p|p]; cbn [o_path].
  - intros [<-|H]; [left; reflexivity|right; apply IH; exact H].
  - intros H; right; apply IH; exact H.
  - intros H; right; apply IH; exact H.
  - intros H; right; apply IH; exact H.
Qed.

Lemma writes_nodup l : NoDup (map o_path l) -> NoDup (map fst (writes_of l)).
Proof.
  induction l as [|o l IH]; cbn [map writes_of]; intros H; [constructor|].
  inversion H as [|? ? Hn Hr]; subst.
  destruct o as [p v [t|]|p|p]; cbn [o_path] in *; try (apply IH; exact Hr).
  cbn [map fst]. constructor; [|apply IH; exact Hr].
  intros Hin. apply in_map_iff in Hin as [r [E Hin]]. apply writes_paths in Hin. rewrite E in Hin. contradiction.
Qed.

Lemma nodup_fst_anti {B} (l : list (nat * B)) : NoDup (map fst l) ->
  forall a b, In a l -> In b l -> (fst a <=? fst b) = true -> (fst b <=? fst a) = true -> a = b.
Proof.
  intros Hn a b Ha Hb H1 H2. assert (E : fst a = fst b) by lia.
  clear H1 H2. induction l as [|x l IH]; [destruct Ha|].
  cbn [map] in Hn. inversion Hn as [|? ? Hx Hl]; subst.
  destruct Ha as [->|Ha], Hb as [->|Hb]; [reflexivity| | |apply IH; assumption].
  - exfalso. apply Hx. rewrite E. apply in_map; exact Hb.
  - exfalso. apply Hx. rewrite <- E. apply in_map; exact Ha.
Qed.

Lemma rec_leb_total a b : rec_leb a b = true \/ rec_leb b a = true. Proof. unfold rec_leb; lia. Qed.
Lemma rec_leb_trans a b c : rec_leb a b = true -> rec_leb b c = true -> rec_leb a c = true. Proof. unfold rec_leb; lia. Qed.
Lemma wr_leb_total a b : wr_leb a b = true \/ wr_leb b a = true. Proof. unfold wr_leb; lia. Qed.
Lemma wr_leb_trans a b c : wr_leb a b = true -> wr_leb b c = true -> wr_leb a c = true. Proof. unfold wr_leb; lia. Qed.

Theorem aggregate_perm_lemma l l' :
  Permutation l l' -> NoDup (map o_path l) -> aggregate l = aggregate l'.
Proof.
  intros Hp Hn. unfold aggregate.
  rewrite (viols_of_perm _ _ Hp), (skipped_of_perm _ _ Hp). f_equal.
  - apply (sorted_perm_eq rec_leb).
    + intros a b Ha Hb. apply (proj1 (ssort_in rec_leb _ _)) in Ha. apply (proj1 (ssort_in rec_leb _ _)) in Hb.
      apply (nodup_fst_anti (records_of l)); [apply records_nodup; exact Hn|exact Ha|exact Hb].
    + apply ssort_sorted; [apply rec_leb_total|apply rec_leb_trans].
    + apply ssort_sorted; [apply rec_leb_total|apply rec_leb_trans].
    + eapply Permutation_trans; [apply Permutation_sym, ssort_perm|].
      eapply Permutation_trans; [apply records_of_perm; exact Hp|apply ssort_perm].
  - apply (sorted_perm_eq wr_leb).
    + intros a b Ha Hb. apply (proj1 (ssort_in wr_leb _ _)) in Ha. apply (proj1 (ssort_in wr_leb _ _)) in Hb.
      apply (nodup_fst_anti (writes_of l)); [apply writes_nodup; exact Hn|exact Ha|exact Hb].
    + apply ssort_sorted; [apply wr_leb_total|apply wr_leb_trans].
    + apply ssort_sorted; [apply wr_leb_total|apply wr_leb_trans].
    + eapply Permutation_trans; [apply Permutation_sym, ssort_perm|].
      eapply Permutation_trans; [apply writes_of_perm; exact Hp|apply ssort_perm].
Qed.

(* ---- size gates ---- *)
Theorem byte_skip_spec_lemma limit size : byte_skip limit size = true <-> 0 < limit /\ limit < size.
Proof. unfold byte_skip. lia. Qed.

Theorem byte_skipped_not_processed_lemma bl cl path size chars lint :
  byte_skip bl size = true -> process_file bl cl path size chars lint = OSkipped path.
Proof. intros H. unfold process_file. rewrite H. reflexivity. Qed.

Theorem char_skipped_never_linted_or_written_lemma bl cl path size chars lint :
  char_skip cl chars = true ->
  match process_file bl cl path size chars lint with
  | OLinted _ v w => v = [] /\ w = None
  | OSkipped _ => True
  | OFailed _ => False
  end.
Proof. intros H. unfold process_file. destruct (byte_skip bl size); [exact I|]. rewrite H. split; reflexivity. Qed.

Theorem within_limits_processed_lemma bl cl path size chars lint :
  byte_skip bl size = false -> char_skip cl chars = false ->
  process_file bl cl path size chars lint = OLinted path (fst lint) (snd lint).
Proof. intros H1 H2. unfold process_file. rewrite H1, H2. reflexivity. Qed.

(* F7 (open finding): a file over the character limit is not counted as skipped *)
Theorem char_skip_counted_refuted_lemma :
  exists bl cl path size chars lint,
    char_skip cl chars = true /\ process_file bl cl path size chars lint <> process_file_spec bl cl path size chars lint.
Proof. exists 0, 3, 7, 10, 10, ([], None). split; [reflexivity|]. vm_compute. discriminate. Qed.

Theorem skip_fail_exit_lemma a : agg_lint_exit a true = b2e ((0 <? a_viol a) || (0 <? a_skipped a)).
Proof. unfold agg_lint_exit. rewrite andb_true_r. reflexivity. Qed.

Theorem skip_nofail_exit_lemma a : agg_lint_exit a false = b2e (0 <? a_viol a).
Proof. unfold agg_lint_exit. rewrite andb_false_r, orb_false_r. reflexivity. Qed.

Example aggregate_example :
  let a := OLinted 2 [mkVS KLint true false false] (Some [65]%N) in
  let b := OSkipped 1 in let c := OLinted 0 [] None in
  aggregate [a; b; c] = aggregate [c; a; b] /\ a_skipped (aggregate [a; b; c]) = 1 /\ NoDup (map o_path [a; b; c]).
Proof. split; [vm_compute; reflexivity|split; [reflexivity|]]. repeat constructor; cbn; intuition discriminate. Qed.
