From SF Require Import Base.Prelude Model.LexTable.

Lemma first_char_covered c s : 0 < ws_len (c :: s) \/ 0 < nl_len (c :: s) \/ 0 < last_len (c :: s).
Proof.
  unfold ws_len, last_len. cbn [prefix_len].
  destruct (last_char c) eqn:L; [right; right; lia|].
  unfold last_char in L.
  destruct (N.eqb_spec c 9) as [->|N9]; [left; vm_compute; lia|].
  destruct (N.eqb_spec c 10) as [->|N10]; [right; left; vm_compute; lia|].
  destruct (N.eqb_spec c 32) as [->|N32]; [left; vm_compute; lia|].
  discriminate L.
Qed.

Theorem some_matcher_progresses (t : table) (lr : text) :
  table_ok t lr = true ->
  has_matcher t name_ws tpl_ws = true /\ has_matcher t name_nl tpl_nl = true /\ lr = tpl_last
  /\ forall s, s <> [] -> 0 < ws_len s \/ 0 < nl_len s \/ 0 < last_len s.
Proof.
  unfold table_ok. intros H.
  apply andb_true_iff in H as [H H3]. apply andb_true_iff in H as [H1 H2].
  apply text_eqb_eq in H3.
  repeat split; try assumption.
  intros [|c s] Hs; [congruence|]. apply first_char_covered.
Qed.

(* the last-resort matcher never claims a character the whitespace/newline matchers need, and always stops: its match is a
   prefix, so the remaining text is strictly shorter whenever any of the three matched *)
Lemma prefix_len_le p s : prefix_len p s <= length s.
Proof. induction s as [|c s IH]; cbn [prefix_len length]; [lia|]. destruct (p c); lia. Qed.
