From SF Require Import Base.Prelude Model.SqlSem.

Theorem st01_preserves rho e : eval rho (st01 e) = eval rho e.
Proof.
  destruct e; try reflexivity. destruct els as [e'|]; [|reflexivity]. cbn [st01].
  destruct (is_null_lit e') eqn:E; [|reflexivity]. destruct e'; try discriminate. destruct v; try discriminate.
  cbn [eval]. induction whens as [|[c r] rest IH]; [reflexivity|]. destruct (truthy (eval rho c)); [reflexivity|exact IH].
Qed.

Lemma expr_eqb_eval rho a b : expr_eqb a b = true -> eval rho a = eval rho b.
Proof.
  destruct a, b; cbn [expr_eqb]; try discriminate.
  - destruct v, v0; cbn [value_eqb]; try discriminate; intros H; cbn [eval]; try reflexivity.
    + apply Z.eqb_eq in H. congruence.
    + apply Nat.eqb_eq in H. congruence.
  - intros H. apply Nat.eqb_eq in H. subst. reflexivity.
Qed.

Theorem st02_preserves rho e : eval rho (st02 e) = eval rho e.
Proof.
  destruct e; try reflexivity. cbn [st02].
  destruct whens as [|[c y] rest]; [reflexivity|]. destruct rest as [|w2 ws]; [|destruct c; reflexivity].
  destruct c; try reflexivity. destruct els as [x'|]; [|reflexivity].
  destruct (expr_eqb c x') eqn:E; [|reflexivity]. pose proof (expr_eqb_eval rho _ _ E) as Hx.
  cbn [eval]. rewrite <- Hx. destruct (eval rho c) eqn:Ec; cbn [truthy vbool Z.eqb negb]; try reflexivity.
  destruct (eval rho y); reflexivity.
Qed.

Theorem st04_preserves rho e : eval rho (st04 e) = eval rho e.
Proof.
  destruct e; try reflexivity. destruct els as [e'|]; [|reflexivity]. destruct e'; try reflexivity.
  cbn [st04 eval]. induction whens as [|[c r] rest IH]; cbn [app]; [reflexivity|].
  destruct (truthy (eval rho c)); [reflexivity|exact IH].
Qed.

Theorem cv02_preserves rho e : eval rho (cv02 e) = eval rho e.
Proof.
  destruct e; try reflexivity. cbn [cv02 eval]. destruct (eval rho e1); try reflexivity. destruct (eval rho e2); reflexivity.
Qed.
