From SF Require Import Base.Prelude Base.Sort Model.MatchResult.

(* ---- induction principle with the children under Forall *)
Section MrInd.
  Variable P : mr -> Prop.
  Hypothesis H : forall s e c ins ch, Forall P ch -> P (MR s e c ins ch).
  Fixpoint mr_ind' (m : mr) : P m :=
    match m with
    | MR s e c ins ch =>
        H s e c ins ch ((fix go (l : list mr) : Forall P l :=
                           match l with [] => Forall_nil _ | x :: r => Forall_cons _ (mr_ind' x) (go r) end) ch)
    end.
End MrInd.

(* ---- tokens *)
Lemma tokens_of_node c l : tokens_of (Node c l) = tokens_of_l l.
Proof.
  cbn [tokens_of]. unfold tokens_of_l. induction l as [|x r IH]; cbn [flat_map]; [reflexivity|]. rewrite IH. reflexivity.
Qed.

Lemma tokens_app a b : tokens_of_l (a ++ b) = tokens_of_l a ++ tokens_of_l b.
Proof. unfold tokens_of_l. apply flat_map_app. Qed.

Lemma tokens_toks a b : tokens_of_l (toks a b) = seq a b.
Proof.
  unfold tokens_of_l, toks. revert a. induction b as [|b IH]; intros a; cbn [seq map flat_map]; [reflexivity|].
  rewrite IH. reflexivity.
Qed.

Lemma seq_split s a b : s <= a -> a <= b -> seq s (a - s) ++ seq a (b - a) = seq s (b - s).
Proof.
  intros H1 H2. replace (b - s) with ((a - s) + (b - a)) by lia. rewrite seq_app. do 2 f_equal. lia.
Qed.

(* ---- the two sorted trigger lists stay aligned *)
Definition R (k : nat) (t : trig) (c : ctrig) : Prop :=
  match t, c with
  | TIns _, CIns => True
  | TChild st r, CChild st' ok =>
      st = st' /\ (ok = true -> k <= st -> exists l, r = Ok l /\ tokens_of_l l = seq k (st - k))
  | _, _ => False
  end.
Definition R' (a : nat * trig) (b : nat * ctrig) : Prop := fst a = fst b /\ R (fst a) (snd a) (snd b).

Lemma insert_aligned a b l1 l2 :
  R' a b -> Forall2 R' l1 l2 -> Forall2 R' (insert key_leb a l1) (insert ckey_leb b l2).
Proof.
  intros Hab HF. induction HF as [|x y l1 l2 Hxy HF IH]; cbn [insert].
  - constructor; [exact Hab|constructor].
  - assert (E : key_leb a x = ckey_leb b y).
    { unfold key_leb, ckey_leb. destruct Hab as [E1 _], Hxy as [E2 _]. rewrite E1, E2. reflexivity. }
    rewrite E. destruct (ckey_leb b y).
    + constructor; [exact Hab|]. constructor; assumption.
    + constructor; [exact Hxy|exact IH].
Qed.

Lemma ssort_aligned l1 l2 : Forall2 R' l1 l2 -> Forall2 R' (ssort key_leb l1) (ssort ckey_leb l2).
Proof.
  intros HF. induction HF as [|x y l1 l2 Hxy HF IH]; cbn [ssort]; [constructor|].
  apply insert_aligned; assumption.
Qed.

(* ---- walk follows cwalk *)
Lemma walk_follows n e s ts cs :
  Forall2 R' ts cs ->
  forall prev mx acc mx',
    cwalk n e prev mx cs = Some mx' ->
    s <= mx -> tokens_of_l acc = seq s (mx - s) ->
    exists acc', walk n prev mx acc ts = Ok (mx', acc') /\ s <= mx' /\ tokens_of_l acc' = seq s (mx' - s).
Proof.
  intros HF. induction HF as [|[k t] [k' c] ts cs [Hk HR] HF IH]; intros prev mx acc mx' Hc Hs Hacc.
  - cbn [cwalk] in Hc. inversion Hc; subst. exists acc. cbn [walk]. auto.
  - cbn [fst snd] in Hk, HR. subst k'. cbn [cwalk] in Hc. cbn [walk].
    set (same := match prev with Some p => p =? k | None => false end) in *.
    destruct (negb same && (k <? mx)) eqn:Eskip; [discriminate|].
    destruct (e <? k) eqn:Eek; [discriminate|].
    set (mx1 := if same then mx else if mx <? k then k else mx) in *.
    set (acc1 := if same then acc else if mx <? k then acc ++ toks mx (k - mx) else acc).
    assert (Hinv : s <= mx1 /\ tokens_of_l acc1 = seq s (mx1 - s)).
    { unfold mx1, acc1. destruct same; [auto|]. destruct (mx <? k) eqn:Elt; [|auto].
      apply Nat.ltb_lt in Elt. split; [lia|]. rewrite tokens_app, tokens_toks, Hacc. apply seq_split; lia. }
    destruct Hinv as [Hs1 Hacc1].
    destruct t as [m|st r], c as [|st' ok]; cbn [R] in HR; try contradiction.
    + destruct (point_ok n k); [|discriminate].
      apply (IH (Some k) mx1 (acc1 ++ [Meta m k]) mx' Hc Hs1).
      rewrite tokens_app. unfold tokens_of_l at 2. cbn [flat_map tokens_of app]. rewrite app_nil_r. exact Hacc1.
    + destruct HR as [-> HR].
      destruct (ok && (mx1 =? k) && (k <=? st') && (st' <=? e)) eqn:Eok; [|discriminate].
      apply andb_true_iff in Eok as [Eok E4]. apply andb_true_iff in Eok as [Eok E3]. apply andb_true_iff in Eok as [E1 E2].
      apply Nat.eqb_eq in E2. apply Nat.leb_le in E3.
      destruct (HR E1 E3) as [l [-> Hl]].
      apply (IH (Some k) st' (acc1 ++ l) mx' Hc); [lia|].
      rewrite tokens_app, Hacc1, Hl, E2. apply seq_split; lia.
Qed.

Lemma cwalk_bound n e ts : forall prev mx mx', cwalk n e prev mx ts = Some mx' -> mx <= e -> mx' <= e.
Proof.
  induction ts as [|[k t] r IH]; intros prev mx mx' Hc Hle; cbn [cwalk] in Hc.
  - inversion Hc; subst; exact Hle.
  - destruct (negb _ && (k <? mx)); [discriminate|]. destruct (e <? k) eqn:Eek; [discriminate|].
    apply Nat.ltb_ge in Eek.
    destruct t as [|st ok].
    + destruct (point_ok n k); [|discriminate]. eapply IH; [exact Hc|].
      destruct (match prev with Some p => p =? k | None => false end); [exact Hle|]. destruct (mx <? k); lia.
    + destruct (ok && _ && (k <=? st) && (st <=? e)) eqn:E; [|discriminate].
      apply andb_true_iff in E as [_ E]. apply Nat.leb_le in E. eapply IH; [exact Hc|exact E].
Qed.

Lemma zero_len_ok n s ins :
  forallb (fun i => (fst i =? s) && point_ok n (fst i)) ins = true ->
  exists l, zero_len_inserts n s ins = Ok l /\ tokens_of_l l = [].
Proof.
  induction ins as [|[i m] r IH]; cbn [forallb zero_len_inserts fst]; intros H.
  - exists []. auto.
  - apply andb_true_iff in H as [H1 H2]. apply andb_true_iff in H1 as [Ha Hb].
    rewrite Ha, Hb. cbn [negb]. destruct (IH H2) as [l [-> Hl]]. exists (Meta m i :: l). split; [reflexivity|].
    unfold tokens_of_l in *. cbn [flat_map tokens_of app]. exact Hl.
Qed.

(* ---- main theorem *)
Theorem apply_lossless n m :
  wf_b n m = true -> exists ts, apply n m = Ok ts /\ tokens_of_l ts = seq (mstart m) (mlen m).
Proof.
  induction m as [s e c ins ch IHch] using mr_ind'. intros Hwf.
  unfold mlen. cbn [mstart mstop]. cbn [wf_b] in Hwf. cbn [apply].
  destruct (e - s =? 0) eqn:Ez.
  - apply Nat.eqb_eq in Ez.
    apply andb_true_iff in Hwf as [Hwf Hins]. apply andb_true_iff in Hwf as [Hwf Hch].
    apply andb_true_iff in Hwf as [Hwf Hc]. destruct c; [discriminate|].
    destruct ch; [|discriminate]. cbn [is_nil negb]. rewrite Ez. cbn [seq].
    destruct ins as [|i0 ins]; cbn [is_nil] in *.
    + exists []. auto.
    + cbn [orb] in Hins. apply andb_true_iff in Hins as [Hn Hall].
      apply Nat.ltb_lt in Hn. destruct (n =? 0) eqn:En; [apply Nat.eqb_eq in En; lia|].
      apply zero_len_ok. exact Hall.
  - apply Nat.eqb_neq in Ez. apply andb_true_iff in Hwf as [Hen Hwf]. apply Nat.leb_le in Hen.
    destruct (n <? e) eqn:Ene; [apply Nat.ltb_lt in Ene; lia|].
    match type of Hwf with context [cwalk n e None s ?cs] => destruct (cwalk n e None s cs) as [mx|] eqn:Hc; [|discriminate] end.
    apply Nat.leb_le in Hwf.
    match type of Hc with cwalk _ _ _ _ (ssort ckey_leb (?ci ++ ?cc)) = _ =>
      match goal with |- context [walk n None s [] (ssort key_leb (?ti ++ ?tc))] =>
        assert (HF : Forall2 R' (ti ++ tc) (ci ++ cc)) end end.
    { apply Forall2_app.
      - clear. induction ins as [|i r IH]; cbn [map]; constructor; [|exact IH]. split; cbn [fst snd R]; auto.
      - clear - IHch. induction IHch as [|x r Hx Hr IH]; constructor; [|exact IH].
        split; cbn [fst snd R]; [reflexivity|]. split; [reflexivity|]. intros Hok Hle.
        destruct (Hx Hok) as [l [Hl Ht]]. exists l. split; [exact Hl|]. exact Ht. }
    apply ssort_aligned in HF.
    destruct (walk_follows n e s _ _ HF None s [] mx Hc (le_n s)) as [acc [Hw [Hs Hacc]]].
    { rewrite Nat.sub_diag. reflexivity. }
    rewrite Hw.
    assert (Hfin : tokens_of_l (if mx <? e then acc ++ toks mx (e - mx) else acc) = seq s (e - s)).
    { destruct (mx <? e) eqn:El.
      - apply Nat.ltb_lt in El. rewrite tokens_app, tokens_toks, Hacc. apply seq_split; lia.
      - apply Nat.ltb_ge in El. assert (mx = e) by lia. subst mx. exact Hacc. }
    destruct c as [k|].
    + eexists. split; [reflexivity|]. unfold tokens_of_l at 1. cbn [flat_map]. rewrite app_nil_r, tokens_of_node. exact Hfin.
    + eexists. split; [reflexivity|]. exact Hfin.
Qed.

(* every node of the produced forest covers a contiguous, increasing run of tokens: children are in positional order and a node
   spans exactly its children *)
Inductive contig : tree -> Prop :=
| c_tok i : contig (Tok i)
| c_meta m p : contig (Meta m p)
| c_node c l a b : tokens_of_l l = seq a b -> Forall contig l -> contig (Node c l).

Lemma contig_toks a b : Forall contig (toks a b).
Proof. unfold toks. apply Forall_forall. intros x Hx. apply in_map_iff in Hx as [i [<- _]]. constructor. Qed.

Lemma walk_contig n ts : forall prev mx acc mx' acc',
  walk n prev mx acc ts = Ok (mx', acc') ->
  Forall contig acc ->
  Forall (fun kt => match snd kt with TChild _ (Ok l) => Forall contig l | _ => True end) ts ->
  Forall contig acc'.
Proof.
  induction ts as [|[k t] r IH]; intros prev mx acc mx' acc' Hw Ha Hts; cbn [walk] in Hw.
  - inversion Hw; subst; exact Ha.
  - inversion Hts as [|? ? Ht Hr]; subst. cbn [snd] in Ht.
    destruct (negb _ && (k <? mx)); [discriminate|].
    set (acc1 := if match prev with Some p => p =? k | None => false end then acc
                 else if mx <? k then acc ++ toks mx (k - mx) else acc) in *.
    assert (Ha1 : Forall contig acc1).
    { unfold acc1. destruct (match prev with Some p => p =? k | None => false end); [exact Ha|].
      destruct (mx <? k); [|exact Ha]. apply Forall_app. split; [exact Ha|apply contig_toks]. }
    destruct t as [m|st [l|er]].
    + destruct (point_ok n k); [|discriminate]. eapply IH; [exact Hw| |exact Hr].
      apply Forall_app. split; [exact Ha1|]. constructor; [constructor|constructor].
    + eapply IH; [exact Hw| |exact Hr]. apply Forall_app. split; [exact Ha1|exact Ht].
    + discriminate.
Qed.

Lemma zero_len_contig n s ins l : zero_len_inserts n s ins = Ok l -> Forall contig l.
Proof.
  revert l. induction ins as [|[i m] r IH]; intros l H; cbn [zero_len_inserts] in H.
  - inversion H; constructor.
  - destruct (negb (i =? s)); [discriminate|]. destruct (negb (point_ok n i)); [discriminate|].
    destruct (zero_len_inserts n s r) as [l'|]; [|discriminate]. inversion H; subst. constructor; [constructor|apply IH; reflexivity].
Qed.

Theorem apply_contig n m ts : wf_b n m = true -> apply n m = Ok ts -> Forall contig ts.
Proof.
  revert ts. induction m as [s e c ins ch IHch] using mr_ind'. intros ts Hwf Hap.
  pose proof (apply_lossless n _ Hwf) as [ts' [Hap' Htok]]. rewrite Hap in Hap'. inversion Hap'; subst ts'. clear Hap'.
  cbn [apply] in Hap. cbn [wf_b] in Hwf. unfold mlen in Htok. cbn [mstart mstop] in Htok.
  destruct (e - s =? 0) eqn:Ez.
  - destruct c; [discriminate|]. destruct (negb (is_nil ch)); [discriminate|].
    destruct (is_nil ins); [inversion Hap; constructor|]. destruct (n =? 0); [discriminate|].
    eapply zero_len_contig; exact Hap.
  - apply andb_true_iff in Hwf as [_ Hwf].
    destruct (n <? e); [discriminate|].
    match type of Hap with context [walk n None s [] ?tl] => destruct (walk n None s [] tl) as [[mx acc]|] eqn:Hw; [|discriminate] end.
    assert (Hacc : Forall contig acc).
    { eapply walk_contig; [exact Hw|constructor|].
      apply Forall_forall. intros kt Hin. apply ssort_in in Hin. apply in_app_or in Hin as [Hin|Hin].
      - apply in_map_iff in Hin as [i [<- _]]. cbn [snd]. exact I.
      - (* a child trigger: wf of the child follows from cwalk accepting it; we only need contiguity when its apply is Ok *)
        revert Hin. clear - IHch Hwf. intros Hin.
        assert (Hx : exists x, In x ch /\ kt = (mstart x, TChild (mstop x) (apply n x))).
        { clear - Hin. induction ch as [|x r IH]; [contradiction|]. destruct Hin as [<-|Hin].
          - exists x. split; [left; reflexivity|reflexivity].
          - destruct (IH Hin) as [y [Hy E]]. exists y. split; [right; exact Hy|exact E]. }
        destruct Hx as [x [Hx ->]]. cbn [snd]. destruct (apply n x) as [l|] eqn:El; [|exact I].
        rewrite Forall_forall in IHch. destruct (wf_b n x) eqn:Ewx.
        + apply (IHch x Hx l Ewx El).
        + (* an un-wf child makes cwalk fail, contradicting Hwf *)
          exfalso.
          match type of Hwf with context [cwalk n e None s (ssort ckey_leb ?cl)] =>
            assert (Hin' : In (mstart x, CChild (mstop x) false) (ssort ckey_leb cl)) end.
          { apply ssort_in. apply in_or_app. right. clear - Hx Ewx. induction ch as [|y r IH]; [contradiction|].
            destruct Hx as [->|Hx]; [left; rewrite Ewx; reflexivity|right; apply IH; exact Hx]. }
          match type of Hwf with context [cwalk n e None s ?cl] => generalize dependent cl end.
          intros cl Hwf Hin'. destruct (cwalk n e None s cl) as [mx'|] eqn:Hc; [|discriminate].
          clear - Hc Hin'. revert Hc. generalize (@None nat) as prev. generalize s as mx0.
          induction cl as [|[k t] r IH]; [contradiction|]. intros mx0 prev Hc. cbn [cwalk] in Hc.
          destruct (negb _ && (k <? mx0)); [discriminate|]. destruct (e <? k); [discriminate|].
          destruct Hin' as [E|Hin'].
          * inversion E; subst. cbn [andb] in Hc. discriminate.
          * destruct t as [|st ok].
            -- destruct (point_ok n k); [|discriminate]. eapply IH; [exact Hin'|exact Hc].
            -- destruct (ok && _ && (k <=? st) && (st <=? e)); [|discriminate]. eapply IH; [exact Hin'|exact Hc]. }
    assert (Hfin : Forall contig (if mx <? e then acc ++ toks mx (e - mx) else acc)).
    { destruct (mx <? e); [|exact Hacc]. apply Forall_app. split; [exact Hacc|apply contig_toks]. }
    destruct c as [k|]; inversion Hap; subst; [|exact Hfin].
    constructor; [|constructor]. econstructor; [|exact Hfin].
    unfold tokens_of_l in Htok at 1. cbn [flat_map] in Htok. rewrite app_nil_r, tokens_of_node in Htok. exact Htok.
Qed.

(* ---- append / wrap keep the certificate, given the positional assertion the code makes *)
Example wf_example : wf_b 6 (MR 1 5 (Some 7) [(1, 0); (5, 1)] [MR 1 2 (Some 3) [] []; MR 3 5 None [(4, 0)] []]) = true.
Proof. reflexivity. Qed.
Example apply_example :
  apply 6 (MR 1 5 (Some 7) [(1, 0); (5, 1)] [MR 1 2 (Some 3) [] []; MR 3 5 None [(4, 0)] []])
  = Ok [Node 7 [Meta 0 1; Node 3 [Tok 1]; Tok 2; Tok 3; Meta 0 4; Tok 4; Meta 1 5]].
Proof. reflexivity. Qed.
(* overlapping children are rejected by the certificate and make apply duplicate or fail *)
Example overlap_rejected : wf_b 6 (MR 0 4 None [] [MR 0 3 (Some 1) [] []; MR 2 4 (Some 1) [] []]) = false.
Proof. reflexivity. Qed.

(* ---- root_parse keeps every token exactly once, in order *)
Lemma seq3 a b c : a <= b -> b <= c -> seq 0 a ++ seq a (b - a) ++ seq b (c - b) = seq 0 c.
Proof.
  intros H1 H2. replace (seq 0 a) with (seq 0 (a - 0)) by (f_equal; lia).
  rewrite app_assoc, (seq_split 0 a b) by lia. rewrite (seq_split 0 b c) by lia. f_equal. lia.
Qed.

Lemma first_code_off_le is_code a cnt : forall off, first_code_off is_code a cnt off <= off + cnt.
Proof.
  induction cnt as [|c IH]; intros off; [cbn [first_code_off]; lia|].
  destruct c as [|c'].
  - cbn [first_code_off]. destruct (is_code (a + off)); lia.
  - change (first_code_off is_code a (S (S c')) off) with (if is_code (a + off) then off else first_code_off is_code a (S c') (S off)).
    destruct (is_code (a + off)); [lia|]. specialize (IH (S off)). lia.
Qed.

Theorem root_parse_lossless n is_code m t :
  start_idx n is_code <= end_idx n is_code -> end_idx n is_code <= n ->
  (truthy m = true -> wf_b n m = true /\ mstart m = start_idx n is_code /\ mstop m <= end_idx n is_code) ->
  root_parse n is_code m = Ok t -> tokens_of t = seq 0 n.
Proof.
  intros Hse Hen Hm. unfold root_parse. set (s := start_idx n is_code) in *. set (e := end_idx n is_code) in *.
  destruct (s =? e) eqn:Ese.
  - intros H. inversion H; subst. rewrite tokens_of_node, tokens_toks. reflexivity.
  - apply Nat.eqb_neq in Ese. destruct (apply n m) as [matched|er] eqn:Eap; [|discriminate].
    intros H. inversion H; subst. clear H. rewrite tokens_of_node, !tokens_app, !tokens_toks.
    destruct (truthy m) eqn:Et; cbn [negb].
    + destruct (Hm eq_refl) as [Hwf [Hs He]].
      destruct (apply_lossless n m Hwf) as [ts [Eap' Htok]]. rewrite Eap in Eap'. inversion Eap'; subst ts. clear Eap'.
      unfold mlen in Htok. rewrite Hs in Htok.
      assert (Hsm : s <= mstop m).
      { destruct m as [ms me c ins ch]. cbn [mstart mstop] in *. cbn [wf_b] in Hwf. subst ms.
        destruct (me - s =? 0) eqn:Ez.
        - apply andb_true_iff in Hwf as [Hwf _]. apply andb_true_iff in Hwf as [Hwf _]. apply andb_true_iff in Hwf as [Hwf _].
          apply andb_true_iff in Hwf as [Hwf _]. apply Nat.leb_le in Hwf. exact Hwf.
        - apply Nat.eqb_neq in Ez. lia. }
      destruct (mstop m <? e) eqn:El.
      * apply Nat.ltb_lt in El. rewrite !tokens_app, Htok, tokens_toks.
        unfold tokens_of_l at 1. cbn [flat_map]. rewrite app_nil_r, tokens_of_node, tokens_toks.
        set (k := first_code_off is_code (mstop m) (e - mstop m) 0).
        assert (Hk : k <= e - mstop m) by (unfold k; pose proof (first_code_off_le is_code (mstop m) (e - mstop m) 0); lia).
        rewrite <- !app_assoc.
        rewrite (app_assoc (seq (mstop m) k)).
        replace (seq (mstop m) k ++ seq (mstop m + k) (e - (mstop m + k))) with (seq (mstop m) (e - mstop m))
          by (replace (e - mstop m) with (k + (e - (mstop m + k))) by lia; apply seq_app).
        rewrite (app_assoc (seq s (mstop m - s))), (seq_split s (mstop m) e) by lia. apply seq3; lia.
      * apply Nat.ltb_ge in El. assert (mstop m = e) by lia. rewrite !tokens_app, Htok, tokens_toks. rewrite H. rewrite Nat.sub_diag. cbn [seq]. rewrite app_nil_r.
        apply seq3; lia.
    + unfold tokens_of_l. cbn [flat_map]. rewrite app_nil_r, tokens_of_node. fold (tokens_of_l (toks s (e - s))). rewrite tokens_toks. apply seq3; lia.
Qed.
