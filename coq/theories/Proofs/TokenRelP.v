From SF Require Import Base.Prelude Model.TokenRel.

Lemma texts_eqb_eq a b : texts_eqb a b = true <-> a = b.
Proof.
  revert b. induction a as [|x a IH]; intros [|y b]; cbn [texts_eqb]; split; intros H; try reflexivity; try discriminate.
  - apply andb_true_iff in H as [H1 H2]. apply text_eqb_eq in H1. apply IH in H2. congruence.
  - inversion H; subst. apply andb_true_iff. split; [apply text_eqb_eq; reflexivity|apply IH; reflexivity].
Qed.

Lemma ws_only_refl a : ws_only a a.
Proof. split; [reflexivity|intros c; reflexivity]. Qed.
Lemma ws_only_sym a b : ws_only a b -> ws_only b a.
Proof. intros [H1 H2]. split; [symmetry; exact H1|intros c; symmetry; apply H2]. Qed.
Lemma ws_only_trans a b c : ws_only a b -> ws_only b c -> ws_only a c.
Proof. intros [H1 H2] [H3 H4]. split; [congruence|intros x; rewrite H2; apply H4]. Qed.

Theorem ws_only_b_sound a b : ws_only_b a b = true <-> ws_only a b.
Proof.
  unfold ws_only_b, ws_only. rewrite andb_true_iff, texts_eqb_eq, forallb_forall. split; intros [H1 H2]; (split; [exact H1|]).
  - intros c. destruct (in_dec text_dec c (comments a ++ comments b)) as [Hin|Hn].
    + apply Nat.eqb_eq. apply H2. exact Hin.
    + assert (~ In c (comments a) /\ ~ In c (comments b)) as [Ha Hb] by (split; intros X; apply Hn; apply in_or_app; auto).
      rewrite (proj1 (count_occ_not_In text_dec _ _) Ha), (proj1 (count_occ_not_In text_dec _ _) Hb). reflexivity.
  - intros c _. apply Nat.eqb_eq. apply H2.
Qed.

Theorem toks_eqb_eq a b : toks_eqb a b = true <-> a = b.
Proof.
  revert b. induction a as [|[x k] a IH]; intros [|[y j] b]; cbn [toks_eqb]; split; intros H; try reflexivity; try discriminate.
  - apply andb_true_iff in H as [H H3]. apply andb_true_iff in H as [H1 H2]. apply text_eqb_eq in H1. apply Nat.eqb_eq in H2.
    apply IH in H3. congruence.
  - inversion H; subst. rewrite !andb_true_iff. repeat split; [apply text_eqb_eq; reflexivity|apply Nat.eqb_refl|apply IH; reflexivity].
Qed.
