From SF Require Import Base.Prelude Base.Sort Model.Patch.

Definition kle := le key_leb.
Definition noconf (a b : patch) : Prop := conflict a b = false.

Lemma key_leb_total a b : key_leb a b = true \/ key_leb b a = true.
Proof. unfold key_leb. lia. Qed.
Lemma key_leb_trans a b c : key_leb a b = true -> key_leb b c = true -> key_leb a c = true.
Proof. unfold key_leb. lia. Qed.

Lemma kle_start a b : kle a b -> p_start a <= p_start b.
Proof. unfold kle, le, key_leb. lia. Qed.

(* ---------- merge ---------- *)

Lemma SS_app_one (l : list patch) p :
  StronglySorted kle l -> (forall m, In m l -> kle m p) -> StronglySorted kle (l ++ [p]).
Proof.
  induction l as [|x l IH]; intros Hs Hall; cbn [app].
  - constructor; constructor.
  - inversion Hs as [|? ? Hl Hx]; subst. constructor.
    + apply IH; [exact Hl|]. intros m Hm. apply Hall. right; exact Hm.
    + apply Forall_app; split; [exact Hx|]. constructor; [apply Hall; left; reflexivity|constructor].
Qed.

Lemma FOP_app_one (l : list patch) p :
  ForallOrdPairs noconf l -> (forall m, In m l -> noconf m p) -> ForallOrdPairs noconf (l ++ [p]).
Proof.
  induction l as [|x l IH]; intros Hf Hall; cbn [app].
  - constructor; constructor.
  - inversion Hf as [|? ? Hx Hl]; subst. constructor.
    + apply Forall_app; split; [exact Hx|]. constructor; [apply Hall; left; reflexivity|constructor].
    + apply IH; [exact Hl|]. intros m Hm. apply Hall. right; exact Hm.
Qed.

Definition MInv (merged : list patch) : Prop :=
  StronglySorted kle merged /\ ForallOrdPairs noconf merged.

Lemma merge_step_in merged p m : In m (merge_step merged p) -> In m merged \/ m = p.
Proof.
  unfold merge_step. destruct (existsb _ merged); [tauto|]. destruct (existsb _ merged); [tauto|].
  intros H. apply in_app_or in H as [H|[H|[]]]; [left; exact H|right; symmetry; exact H].
Qed.

Lemma merge_step_inv merged p :
  MInv merged -> (forall m, In m merged -> kle m p) -> MInv (merge_step merged p).
Proof.
  intros [Hs Hf] Hall. unfold merge_step.
  destruct (existsb (same_dedupe p) merged); [split; assumption|].
  destruct (existsb (fun e => conflict e p) merged) eqn:E; [split; assumption|].
  split; [apply SS_app_one; assumption|]. apply FOP_app_one; [exact Hf|].
  intros m Hm. unfold noconf. destruct (conflict m p) eqn:C; [|reflexivity].
  assert (existsb (fun e => conflict e p) merged = true) by (apply existsb_exists; exists m; split; assumption).
  congruence.
Qed.

Lemma fold_merge_inv : forall xs merged,
  StronglySorted kle xs -> (forall m x, In m merged -> In x xs -> kle m x) -> MInv merged ->
  MInv (fold_left merge_step xs merged) /\
  (forall m, In m (fold_left merge_step xs merged) -> In m merged \/ In m xs).
Proof.
  induction xs as [|x xs IH]; intros merged Hs Hle Hinv; cbn [fold_left].
  - split; [exact Hinv|]. intros m Hm; left; exact Hm.
  - inversion Hs as [|? ? Hxs Hx]; subst.
    destruct (IH (merge_step merged x)) as [I1 I2].
    + exact Hxs.
    + intros m y Hm Hy. apply merge_step_in in Hm as [Hm| ->].
      * apply Hle; [exact Hm|right; exact Hy].
      * rewrite Forall_forall in Hx. apply Hx; exact Hy.
    + apply merge_step_inv; [exact Hinv|]. intros m Hm. apply Hle; [exact Hm|left; reflexivity].
    + split; [exact I1|]. intros m Hm. apply I2 in Hm as [Hm|Hm].
      * apply merge_step_in in Hm as [Hm| ->]; [left; exact Hm|right; left; reflexivity].
      * right; right; exact Hm.
Qed.

Theorem merge_ok bufs :
  StronglySorted kle (merge bufs) /\ ForallOrdPairs noconf (merge bufs) /\
  (forall m, In m (merge bufs) -> In m (concat bufs)).
Proof.
  unfold merge.
  destruct (fold_merge_inv (ssort key_leb (concat bufs)) []) as [[H1 H2] H3].
  - apply ssort_sorted; [apply key_leb_total|apply key_leb_trans].
  - intros m x [].
  - split; constructor.
  - split; [exact H1|]. split; [exact H2|]. intros m Hm. apply H3 in Hm as [[]|Hm].
    apply (ssort_in key_leb). exact Hm.
Qed.

(* no two merged patches are duplicates of each other *)
Lemma noconf_same_slice_text a b : noconf a b -> same_slice a b = true -> p_text a = p_text b.
Proof.
  unfold noconf, conflict. intros H S. rewrite S in H. apply negb_false_iff in H.
  apply text_eqb_eq; exact H.
Qed.

Lemma same_slice_sym a b : same_slice a b = same_slice b a.
Proof. unfold same_slice. rewrite (Nat.eqb_sym (p_start a)), (Nat.eqb_sym (p_stop a)). reflexivity. Qed.

(* ---------- apply ---------- *)

Definition wfp (n : nat) (p : patch) : Prop := p_start p <= p_stop p /\ p_stop p <= n.

Lemma piece_patch ps src p :
  ForallOrdPairs noconf ps -> In p ps -> piece ps src (p_start p, p_stop p) = p_text p.
Proof.
  intros Hf Hin. unfold piece.
  destruct (find (fun q => sl_eqb (p_start q, p_stop q) (p_start p, p_stop p)) ps) as [q|] eqn:F.
  - apply find_some in F as [Hq Heq].
    assert (S : same_slice q p = true) by exact Heq.
    destruct (ForallOrdPairs_In Hf q p Hq Hin) as [-> |[H|H]]; [reflexivity| |].
    + apply noconf_same_slice_text; assumption.
    + symmetry. apply noconf_same_slice_text; [exact H|rewrite same_slice_sym; exact S].
  - exfalso. apply (find_none _ _ F p) in Hin. unfold sl_eqb in Hin. cbn [fst snd] in Hin.
    rewrite !Nat.eqb_refl in Hin. discriminate.
Qed.

Lemma piece_raw ps src a b :
  (forall q, In q ps -> ~ (p_start q = a /\ p_stop q = b)) -> piece ps src (a, b) = substr src a b.
Proof.
  intros H. unfold piece.
  destruct (find (fun p => sl_eqb (p_start p, p_stop p) (a, b)) ps) as [q|] eqn:F; [|reflexivity].
  apply find_some in F as [Hq Heq]. unfold sl_eqb in Heq. cbn [fst snd] in Heq.
  exfalso. apply (H q Hq). lia.
Qed.

Lemma substr_empty src a b : b <= a -> substr src a b = [].
Proof. intros H. unfold substr. replace (b - a) with 0 by lia. reflexivity. Qed.

Lemma substr_to_end src a : substr src a (length src) = skipn a src.
Proof.
  unfold substr. apply firstn_all2. rewrite skipn_length. lia.
Qed.

(* Main lemma: with no source-only slices the slicer+builder compute the splice of the applied patches. *)
Lemma build_loop_spec src ps :
  ForallOrdPairs noconf ps ->
  forall r pre idx,
    ps = pre ++ r ->
    StronglySorted kle r ->
    (forall q, In q pre -> p_start q < idx \/ p_stop q <= idx) ->
    Forall (wfp (length src)) r ->
    idx <= length src ->
    concat (map (piece ps src) (slice_loop r [] idx (length src)))
    = splice_from idx src (applied_from idx r).
Proof.
  intros Hf. induction r as [|p r IH]; intros pre idx Hps Hs Hpre Hwf Hidx.
  - cbn [slice_loop applied_from splice_from].
    destruct (Nat.ltb_spec idx (length src)) as [Hlt|Hge].
    + cbn [map concat]. rewrite app_nil_r. rewrite piece_raw; [apply substr_to_end|].
      intros q Hq [E1 E2]. rewrite app_nil_r in Hps. subst pre.
      destruct (Hpre q Hq); lia.
    + cbn [map concat]. symmetry. apply skipn_all2. exact Hge.
  - inversion Hs as [|? ? Hsr Hp]; subst. inversion Hwf as [|? ? [Hp1 Hp2] Hwfr]; subst.
    cbn [slice_loop pop_so applied_from].
    assert (Hin : In p (pre ++ p :: r)) by (apply in_or_app; right; left; reflexivity).
    assert (Hnext : forall idx', (forall q, In q (pre ++ [p]) -> p_start q < idx' \/ p_stop q <= idx') ->
              idx' <= length src ->
              concat (map (piece (pre ++ p :: r) src) (slice_loop r [] idx' (length src)))
              = splice_from idx' src (applied_from idx' r)).
    { intros idx' H1 H2. apply (IH (pre ++ [p]) idx'); [rewrite <- app_assoc; reflexivity|exact Hsr|exact H1|exact Hwfr|exact H2]. }
    destruct (Nat.ltb_spec (p_start p) idx) as [Hskip|Hnoskip].
    + (* skipped patch *)
      destruct (Nat.ltb_spec idx (p_start p)); [lia|]. cbn [app].
      apply Hnext; [|exact Hidx].
      intros q Hq. apply in_app_or in Hq as [Hq|[<-|[]]]; [apply Hpre; exact Hq|left; exact Hskip].
    + cbn [splice_from].
      assert (Hrest : concat (map (piece (pre ++ p :: r) src) (slice_loop r [] (p_stop p) (length src)))
                      = splice_from (p_stop p) src (applied_from (p_stop p) r)).
      { apply Hnext; [|exact Hp2].
        intros q Hq. apply in_app_or in Hq as [Hq|[<-|[]]]; [|right; lia].
        destruct (Hpre q Hq); [left; lia|right; lia]. }
      destruct (Nat.ltb_spec idx (p_start p)) as [Hgap|Hnogap].
      * cbn [app map concat]. rewrite Hrest. rewrite piece_patch by assumption.
        rewrite piece_raw; [reflexivity|].
        intros q Hq [E1 E2]. apply in_app_or in Hq as [Hq|[<-|Hq]].
        -- destruct (Hpre q Hq); lia.
        -- lia.
        -- rewrite Forall_forall in Hp. apply Hp in Hq. apply kle_start in Hq. lia.
      * cbn [app map concat]. rewrite Hrest. rewrite piece_patch by assumption.
        rewrite substr_empty by lia. reflexivity.
Qed.

Lemma applied_chain : forall ps idx n, Forall (wfp n) ps -> chain idx (applied_from idx ps).
Proof.
  induction ps as [|p r IH]; intros idx n Hwf; cbn [applied_from]; [exact I|].
  inversion Hwf as [|? ? [H1 H2] Hr]; subst.
  destruct (Nat.ltb_spec (p_start p) idx); [apply (IH idx n); exact Hr|].
  cbn [chain]. repeat split; [assumption|assumption|apply (IH _ n); exact Hr].
Qed.

Lemma applied_sub : forall ps idx p, In p (applied_from idx ps) -> In p ps.
Proof.
  induction ps as [|q r IH]; intros idx p; cbn [applied_from]; [tauto|].
  destruct (p_start q <? idx); [intros H; right; eapply IH; exact H|].
  intros [-> |H]; [left; reflexivity|right; eapply IH; exact H].
Qed.

Theorem apply_exact_lemma bufs src :
  Forall (wfp (length src)) (concat bufs) ->
  let ps := merge bufs in
  let applied := applied_from 0 ps in
  fix_source ps [] src = splice_from 0 src applied
  /\ chain 0 applied
  /\ (forall p, In p applied -> In p ps)
  /\ ForallOrdPairs noconf ps.
Proof.
  intros Hwf ps applied.
  destruct (merge_ok bufs) as [Hs [Hf Hin]].
  assert (Hwf' : Forall (wfp (length src)) ps).
  { apply Forall_forall. intros p Hp. rewrite Forall_forall in Hwf. apply Hwf, Hin, Hp. }
  split; [|split; [|split]].
  - unfold fix_source, build, slice_source.
    apply (build_loop_spec src ps Hf ps [] 0); [reflexivity|exact Hs|intros q []|exact Hwf'|lia].
  - apply (applied_chain ps 0 (length src)); exact Hwf'.
  - apply applied_sub.
  - exact Hf.
Qed.

(* Without the merge step two zero-length patches at one point with different text make the first
   apply twice (the `source_patches is None` API path). *)
Example unmerged_double_apply :
  let a := mkPatch 1 1 [88]%N in let b := mkPatch 1 1 [89]%N in
  fix_source [a; b] [] [97; 98]%N = [97; 88; 88; 98]%N /\ fix_source (merge [[a; b]]) [] [97; 98]%N = [97; 88; 98]%N.
Proof. split; vm_compute; reflexivity. Qed.

(* non-vacuity: a concrete merged set with an applied and a dropped patch *)
Example apply_example :
  let bufs := [[mkPatch 1 3 [88]%N; mkPatch 4 4 [90]%N]; [mkPatch 2 5 [89]%N; mkPatch 1 3 [88]%N]] in
  merge bufs = [mkPatch 1 3 [88]%N; mkPatch 4 4 [90]%N]
  /\ fix_source (merge bufs) [] [97;98;99;100;101;102]%N = [97;88;100;90;101;102]%N.
Proof. split; vm_compute; reflexivity. Qed.

Lemma noconf_meaning a b : noconf a b ->
  (p_start a = p_start b /\ p_stop a = p_stop b /\ p_text a = p_text b)
  \/ Nat.min (p_stop a) (p_stop b) <= Nat.max (p_start a) (p_start b).
Proof.
  unfold noconf, conflict. destruct (same_slice a b) eqn:S.
  - intros H. apply negb_false_iff, text_eqb_eq in H. unfold same_slice in S. left. repeat split; [lia|lia|exact H].
  - destruct ((p_start a =? p_stop a) && (p_stop a =? p_start b) && (p_start b =? p_stop b)) eqn:Z.
    + intros H. right. lia.
    + intros H. right. lia.
Qed.
