(* Lemmas about Model/Config.v (C27). *)
From SF Require Import Base.Prelude Model.Config.

Lemma text_eqb_refl a : text_eqb a a = true.
Proof. apply text_eqb_eq. reflexivity. Qed.

Lemma text_eqb_false a b : text_eqb a b = false <-> a <> b.
Proof.
  split.
  - intros H E. apply text_eqb_eq in E. congruence.
  - intros H. destruct (text_eqb a b) eqn:E; [|reflexivity]. apply text_eqb_eq in E. contradiction.
Qed.

Lemma text_eq_dec (a b : text) : {a = b} + {a <> b}.
Proof. destruct (text_eqb a b) eqn:E; [left; apply text_eqb_eq; exact E | right; apply text_eqb_false; exact E]. Qed.

Lemma path_eqb_eq a b : path_eqb a b = true <-> a = b.
Proof.
  revert b; induction a as [|x a IH]; intros [|y b]; cbn [path_eqb]; split; intros H; try reflexivity; try discriminate.
  - apply andb_true_iff in H as [H1 H2]. apply text_eqb_eq in H1. apply IH in H2. congruence.
  - inversion H; subst. apply andb_true_iff; split; [apply text_eqb_refl | apply IH; reflexivity].
Qed.

Lemma NoDup_app_one {A} (l : list A) a : NoDup l -> ~ In a l -> NoDup (l ++ [a]).
Proof.
  induction l as [|x l IH]; intros Hn Hi; cbn [app].
  - constructor; [intros []|constructor].
  - inversion Hn; subst. constructor.
    + intros H. apply in_app_or in H as [H|[H|[]]]; [contradiction|]. apply Hi. left. symmetry. exact H.
    + apply IH; [assumption|]. intros H. apply Hi. right. exact H.
Qed.

Section WithValues.
Variable V : Type.

Notation cfg := (cfg V).
Notation dict := (dict V).
Notation dget := (dget V).
Notation dset := (dset V).
Notation merge := (merge V).
Notation nested_combine := (nested_combine V).
Notation lookup := (lookup V).
Notation kind_at := (kind_at V).
Notation kind_of := (kind_of V).

(* ---------------------------------------------------------------------------------------------------------------- *)
(* induction principle for the nested type *)
Lemma cfg_ind2 (P : cfg -> Prop) :
  (forall v, P (Leaf v)) ->
  (forall l, Forall (fun kx => P (snd kx)) l -> P (Dict l)) ->
  forall c, P c.
Proof.
  intros HL HD. fix IH 1. intros [v|l]; [apply HL|]. apply HD.
  induction l as [|[k x] l IHl]; constructor; [apply IH | exact IHl].
Qed.

(* well-formed = what a Python dict is: distinct keys at every level *)
Inductive wf : cfg -> Prop :=
| wf_leaf v : wf (Leaf v)
| wf_dict l : NoDup (map fst l) -> Forall (fun kx => wf (snd kx)) l -> wf (Dict l).

Definition wfd (d : dict) : Prop := wf (Dict d).

Lemma wfd_nil : wfd [].
Proof. constructor; constructor. Qed.

Lemma wfd_cons_inv k x l : wfd ((k, x) :: l) -> ~ In k (map fst l) /\ wf x /\ wfd l.
Proof.
  intros H. inversion H as [|? Hn Hf]; subst. cbn [map fst] in Hn. inversion Hn; subst. inversion Hf; subst.
  split; [assumption|]. split; [assumption|]. constructor; assumption.
Qed.

(* ---------------------------------------------------------------------------------------------------------------- *)
(* dget / dset *)
Lemma dget_dset_same k x d : dget k (dset k x d) = Some x.
Proof.
  induction d as [|[k' y] d IH]; cbn [Config.dset Config.dget].
  - rewrite text_eqb_refl. reflexivity.
  - destruct (text_eqb k k') eqn:E; cbn [Config.dget]; rewrite E; [reflexivity | exact IH].
Qed.

Lemma dget_dset_other k k' x d : k <> k' -> dget k' (dset k x d) = dget k' d.
Proof.
  intros Hne. induction d as [|[k2 y] d IH]; cbn [Config.dset Config.dget].
  - destruct (text_eqb k' k) eqn:E; [apply text_eqb_eq in E; congruence | reflexivity].
  - destruct (text_eqb k k2) eqn:E; cbn [Config.dget].
    + apply text_eqb_eq in E; subst k2.
      destruct (text_eqb k' k) eqn:E2; [apply text_eqb_eq in E2; congruence | reflexivity].
    + destruct (text_eqb k' k2); [reflexivity | exact IH].
Qed.

Lemma dget_none_notin k d : dget k d = None <-> ~ In k (map fst d).
Proof.
  induction d as [|[k' y] d IH]; cbn [Config.dget map fst In]; [tauto|].
  destruct (text_eqb k k') eqn:E.
  - apply text_eqb_eq in E; subst. split; [discriminate | intros H; exfalso; apply H; left; reflexivity].
  - apply text_eqb_false in E. rewrite IH. split; [intros H [H1|H1]; [congruence | contradiction] | tauto].
Qed.

Lemma dset_keys_in k x d : In k (map fst d) -> map fst (dset k x d) = map fst d.
Proof.
  induction d as [|[k' y] d IH]; cbn [Config.dset map fst In]; [tauto|].
  intros H. destruct (text_eqb k k') eqn:E; cbn [map fst]; [reflexivity|].
  apply text_eqb_false in E. f_equal. apply IH. destruct H as [H|H]; [congruence | exact H].
Qed.

Lemma dset_keys_notin k x d : ~ In k (map fst d) -> dset k x d = d ++ [(k, x)].
Proof.
  induction d as [|[k' y] d IH]; cbn [Config.dset map fst In app]; [reflexivity|].
  intros H. destruct (text_eqb k k') eqn:E.
  - apply text_eqb_eq in E. subst. exfalso; apply H; left; reflexivity.
  - f_equal. apply IH. tauto.
Qed.

Lemma dset_keys_nodup k x d : NoDup (map fst d) -> NoDup (map fst (dset k x d)).
Proof.
  intros H. destruct (in_dec text_eq_dec k (map fst d)) as [Hi|Hn].
  - rewrite dset_keys_in by exact Hi. exact H.
  - rewrite dset_keys_notin by exact Hn. rewrite map_app. cbn [map fst].
    apply NoDup_app_one; assumption.
Qed.

(* ---------------------------------------------------------------------------------------------------------------- *)
(* merge: unfolding *)
Lemma merge_nil r : merge r [] = Ok r.
Proof. reflexivity. Qed.

Lemma merge_cons r k x l :
  merge r ((k, x) :: l) =
  match dget k r with
  | Some (Dict rk) =>
      match x with
      | Dict xs => do rk' <- merge rk xs; merge (dset k (Dict rk') r) l
      | Leaf _ => Err EValue
      end
  | _ => merge (dset k x r) l
  end.
Proof.
  unfold Config.merge. cbn [merge_cfg]. destruct (dget k r) as [[v|rk]|]; try reflexivity.
  destruct x as [v|xs]; reflexivity.
Qed.

(* lookups below the first key depend on the first key's entry only *)
Definition lookup_in (o : option cfg) (p' : list key) : option cfg :=
  match p' with
  | [] => o
  | _ => match o with Some (Dict s) => lookup p' s | _ => None end
  end.

Lemma lookup_cons k p' d : lookup (k :: p') d = lookup_in (dget k d) p'.
Proof. destruct p'; reflexivity. Qed.

Lemma kind_at_nil d : kind_at [] d = None.
Proof. reflexivity. Qed.

Lemma kind_at_empty p : kind_at p [] = None.
Proof.
  destruct p as [|k p']; [reflexivity|]. unfold Config.kind_at. rewrite lookup_cons. cbn [Config.dget].
  destruct p'; reflexivity.
Qed.

Definition over (a b : option (option V)) : option (option V) := match a with Some k => Some k | None => b end.

(* keys of r that the merged dict does not mention are untouched *)
Lemma merge_dget_other k : forall l r R, dget k l = None -> merge r l = Ok R -> dget k R = dget k r.
Proof.
  induction l as [|[k2 x2] l IH]; intros r R Hnk H1.
  - rewrite merge_nil in H1. inversion H1; reflexivity.
  - cbn [Config.dget] in Hnk. destruct (text_eqb k k2) eqn:E2; [discriminate|]. apply text_eqb_false in E2.
    rewrite merge_cons in H1.
    destruct (dget k2 r) as [[v|rk]|].
    + apply IH in H1; [|exact Hnk]. rewrite H1. apply dget_dset_other. congruence.
    + destruct x2 as [v|xs]; [discriminate|]. destruct (merge rk xs) as [rk'|e]; [|discriminate]. cbn [bind] in H1.
      apply IH in H1; [|exact Hnk]. rewrite H1. apply dget_dset_other. congruence.
    + apply IH in H1; [|exact Hnk]. rewrite H1. apply dget_dset_other. congruence.
Qed.

(* What merge does, observed at a path: the merged-in dict wins wherever it has anything. *)
Lemma merge_kind_cfg : forall c, wf c -> forall d, c = Dict d -> forall r R,
  merge r d = Ok R -> forall p, kind_at p R = over (kind_at p d) (kind_at p r).
Proof.
  induction c as [v|l IHc] using cfg_ind2; intros Hwf d Hd; [discriminate|]. inversion Hd; subst d; clear Hd.
  induction l as [|[k x] l IHl]; intros r R HR p.
  - rewrite merge_nil in HR. inversion HR; subst. rewrite kind_at_empty. reflexivity.
  - apply wfd_cons_inv in Hwf as (Hnk & Hwx & Hwl). inversion IHc as [|? ? Hx Hl]; subst. cbn [snd] in Hx.
    specialize (IHl Hl Hwl).
    rewrite merge_cons in HR.
    destruct p as [|k0 p']; [reflexivity|].
    unfold Config.kind_at. rewrite !lookup_cons. cbn [Config.dget].
    destruct (text_eqb k0 k) eqn:E.
    + apply text_eqb_eq in E; subst k0.
      assert (Hl0 : forall r1 R1, merge r1 l = Ok R1 -> dget k R1 = dget k r1).
      { intros r1 R1 H1. apply (merge_dget_other k l r1 R1); [apply dget_none_notin; exact Hnk | exact H1]. }
      destruct (dget k r) as [[v|rk]|] eqn:Er.
      * apply Hl0 in HR. rewrite HR, dget_dset_same.
        destruct p' as [|k1 p'']; [reflexivity|]. cbn [lookup_in].
        destruct x as [vx|xs]; [reflexivity|]. cbn [option_map over].
        destruct (option_map kind_of (lookup (k1 :: p'') xs)); reflexivity.
      * destruct x as [vx|xs]; [discriminate|]. destruct (merge rk xs) as [rk'|e] eqn:Em; [|discriminate]. cbn [bind] in HR.
        apply Hl0 in HR. rewrite HR, dget_dset_same.
        destruct p' as [|k1 p'']; [reflexivity|]. cbn [lookup_in].
        specialize (Hx Hwx xs eq_refl rk rk' Em (k1 :: p'')). exact Hx.
      * apply Hl0 in HR. rewrite HR, dget_dset_same.
        destruct p' as [|k1 p'']; [reflexivity|]. cbn [lookup_in].
        destruct x as [vx|xs]; [reflexivity|]. cbn [option_map over].
        destruct (option_map kind_of (lookup (k1 :: p'') xs)); reflexivity.
    + apply text_eqb_false in E.
      assert (Hstep : forall r1, merge r1 l = Ok R -> dget k0 r1 = dget k0 r ->
                option_map kind_of (lookup_in (dget k0 R) p') =
                over (option_map kind_of (lookup_in (dget k0 l) p')) (option_map kind_of (lookup_in (dget k0 r) p'))).
      { intros r1 H1 H2. specialize (IHl r1 R H1 (k0 :: p')). unfold Config.kind_at in IHl. rewrite !lookup_cons in IHl.
        rewrite IHl, H2. reflexivity. }
      destruct (dget k r) as [[v|rk]|].
      * apply Hstep in HR; [exact HR|]. apply dget_dset_other. congruence.
      * destruct x as [vx|xs]; [discriminate|]. destruct (merge rk xs) as [rk'|e]; [|discriminate]. cbn [bind] in HR.
        apply Hstep in HR; [exact HR|]. apply dget_dset_other. congruence.
      * apply Hstep in HR; [exact HR|]. apply dget_dset_other. congruence.
Qed.


Lemma merge_kind r d R p : wfd d -> merge r d = Ok R -> kind_at p R = over (kind_at p d) (kind_at p r).
Proof. intros Hw H. exact (merge_kind_cfg (Dict d) Hw d eq_refl r R H p). Qed.

(* the only exception nested_combine raises is its ValueError *)
Lemma merge_err_cfg : forall c d, c = Dict d -> forall r e, merge r d = Err e -> e = EValue.
Proof.
  induction c as [v|l IHc] using cfg_ind2; intros d Hd; [discriminate|]. inversion Hd; subst d; clear Hd.
  induction l as [|[k x] l IHl]; intros r e HR.
  - rewrite merge_nil in HR. discriminate.
  - inversion IHc as [|? ? Hx Hl]; subst. cbn [snd] in Hx. specialize (IHl Hl).
    rewrite merge_cons in HR. destruct (dget k r) as [[v|rk]|].
    + eapply IHl; exact HR.
    + destruct x as [vx|xs]; [inversion HR; reflexivity|].
      destruct (merge rk xs) as [rk'|e'] eqn:Em; cbn [bind] in HR.
      * eapply IHl; exact HR.
      * inversion HR; subst. eapply (Hx xs eq_refl); exact Em.
    + eapply IHl; exact HR.
Qed.

Lemma merge_err r d e : merge r d = Err e -> e = EValue.
Proof. intros H. exact (merge_err_cfg (Dict d) d eq_refl r e H). Qed.

(* a conflict: the merged-in dict has a *value* where the accumulated dict has a *section* *)
Definition conflict (r d : dict) : Prop := exists p v, kind_at p d = Some (Some v) /\ kind_at p r = Some None.

Lemma kind_cons_same k p' x l (d := (k, x) :: l) : kind_at (k :: p') d = option_map kind_of (lookup_in (Some x) p').
Proof. unfold Config.kind_at. rewrite lookup_cons. subst d. cbn [Config.dget]. rewrite text_eqb_refl. reflexivity. Qed.

Lemma kind_cons_other k k0 p' x l : k0 <> k -> kind_at (k0 :: p') ((k, x) :: l) = kind_at (k0 :: p') l.
Proof.
  intros H. unfold Config.kind_at. rewrite !lookup_cons. cbn [Config.dget].
  apply text_eqb_false in H. rewrite H. reflexivity.
Qed.

Lemma kind_dset_other k k0 p' x r : k0 <> k -> kind_at (k0 :: p') (dset k x r) = kind_at (k0 :: p') r.
Proof.
  intros H. unfold Config.kind_at. rewrite !lookup_cons. rewrite dget_dset_other by congruence. reflexivity.
Qed.

Lemma kind_some_in k0 p' l o : kind_at (k0 :: p') l = Some o -> In k0 (map fst l).
Proof.
  unfold Config.kind_at. rewrite lookup_cons. intros H.
  destruct (in_dec text_eq_dec k0 (map fst l)) as [Hi|Hn]; [exact Hi|].
  apply dget_none_notin in Hn. rewrite Hn in H. destruct p'; discriminate.
Qed.

Lemma merge_conflict_cfg : forall c, wf c -> forall d, c = Dict d -> forall r,
  (merge r d = Err EValue <-> conflict r d).
Proof.
  induction c as [v|l IHc] using cfg_ind2; intros Hwf d Hd; [discriminate|]. inversion Hd; subst d; clear Hd.
  induction l as [|[k x] l IHl]; intros r.
  - rewrite merge_nil. split; [discriminate|]. intros (p & v & H1 & _). rewrite kind_at_empty in H1. discriminate.
  - apply wfd_cons_inv in Hwf as (Hnk & Hwx & Hwl). inversion IHc as [|? ? Hx Hl]; subst. cbn [snd] in Hx.
    specialize (IHl Hl Hwl). specialize (Hx Hwx).
    (* a conflict with the tail l, seen from r updated at k, is a conflict seen from r *)
    assert (Htail : forall y, conflict (dset k y r) l <-> (exists p v, kind_at p l = Some (Some v) /\ kind_at p r = Some None)).
    { intros y. split; intros (p & v & H1 & H2); exists p, v; (split; [exact H1|]);
        (destruct p as [|k0 p']; [rewrite kind_at_empty in H1 || (cbn in H1; discriminate)|]);
        pose proof (kind_some_in _ _ _ _ H1) as Hin;
        assert (k0 <> k) by (intros ->; contradiction).
      - rewrite kind_dset_other in H2 by assumption. exact H2.
      - rewrite kind_dset_other by assumption. exact H2. }
    assert (Hfromtail : forall p v, kind_at p l = Some (Some v) -> kind_at p ((k, x) :: l) = Some (Some v)).
    { intros p v H1. destruct p as [|k0 p']; [cbn in H1; discriminate|].
      pose proof (kind_some_in _ _ _ _ H1) as Hin. rewrite kind_cons_other; [exact H1|]. intros ->; contradiction. }
    rewrite merge_cons. split.
    + (* Err -> conflict *)
      intros HR. destruct (dget k r) as [[v|rk]|] eqn:Er.
      * apply IHl in HR. apply Htail in HR as (p & v' & H1 & H2). exists p, v'. split; [apply Hfromtail; exact H1 | exact H2].
      * destruct x as [vx|xs].
        -- exists [k], vx. split; [rewrite kind_cons_same; reflexivity|].
           unfold Config.kind_at. cbn [Config.lookup]. rewrite Er. reflexivity.
        -- destruct (merge rk xs) as [rk'|e'] eqn:Em; cbn [bind] in HR.
           ++ apply IHl in HR. apply Htail in HR as (p & v' & H1 & H2). exists p, v'. split; [apply Hfromtail; exact H1 | exact H2].
           ++ pose proof (merge_err _ _ _ Em); subst e'. apply (Hx xs eq_refl) in Em as (p & v' & H1 & H2).
              destruct p as [|k1 p'']; [cbn in H1; discriminate|].
              exists (k :: k1 :: p''), v'. split.
              ** rewrite kind_cons_same. exact H1.
              ** unfold Config.kind_at. rewrite lookup_cons, Er. exact H2.
      * apply IHl in HR. apply Htail in HR as (p & v' & H1 & H2). exists p, v'. split; [apply Hfromtail; exact H1 | exact H2].
    + (* conflict -> Err *)
      intros (p & v & H1 & H2). destruct p as [|k0 p']; [cbn in H1; discriminate|].
      destruct (text_eq_dec k0 k) as [->|Hne].
      * rewrite kind_cons_same in H1. unfold Config.kind_at in H2. rewrite lookup_cons in H2.
        destruct (dget k r) as [[vr|rk]|] eqn:Er.
        -- destruct p'; cbn in H2; discriminate.
        -- destruct x as [vx|xs]; [reflexivity|].
           destruct p' as [|k1 p'']; [cbn in H1; discriminate|]. cbn [lookup_in] in H1, H2.
           assert (Hc : conflict rk xs) by (exists (k1 :: p''), v; split; assumption).
           apply (Hx xs eq_refl) in Hc. rewrite Hc. reflexivity.
        -- destruct p'; cbn in H2; discriminate.
      * rewrite kind_cons_other in H1 by exact Hne.
        assert (Hc : forall y, merge (dset k y r) l = Err EValue).
        { intros y. apply IHl. apply Htail. exists (k0 :: p'), v. split; assumption. }
        destruct (dget k r) as [[vr|rk]|]; [apply Hc| |apply Hc].
        destruct x as [vx|xs]; [reflexivity|]. destruct (merge rk xs) as [rk'|e'] eqn:Em; cbn [bind]; [apply Hc|].
        pose proof (merge_err _ _ _ Em); subst e'. reflexivity.
Qed.

Lemma merge_conflict r d : wfd d -> (merge r d = Err EValue <-> conflict r d).
Proof. intros Hw. exact (merge_conflict_cfg (Dict d) Hw d eq_refl r). Qed.

Lemma merge_ok_iff r d : wfd d -> ((exists R, merge r d = Ok R) <-> ~ conflict r d).
Proof.
  intros Hw. split.
  - intros [R HR] Hc. apply merge_conflict in Hc; [|exact Hw]. congruence.
  - intros Hn. destruct (merge r d) as [R|e] eqn:E; [exists R; reflexivity|].
    pose proof (merge_err _ _ _ E); subst e. apply merge_conflict in E; [contradiction|exact Hw].
Qed.


(* ---------------------------------------------------------------------------------------------------------------- *)
(* merge keeps dicts well-formed *)
Lemma wfd_dset k x d : wfd d -> wf x -> wfd (dset k x d).
Proof.
  intros Hd Hx. inversion Hd as [|? Hn Hf]; subst. constructor; [apply dset_keys_nodup; exact Hn|].
  clear Hn Hd. induction d as [|[k' y] d IH]; cbn [Config.dset].
  - constructor; [exact Hx|constructor].
  - inversion Hf; subst. destruct (text_eqb k k'); constructor; try assumption. apply IH; assumption.
Qed.

Lemma wfd_dget k d x : wfd d -> dget k d = Some x -> wf x.
Proof.
  intros Hd. inversion Hd as [|? Hn Hf]; subst. clear Hn Hd. induction d as [|[k' y] d IH]; cbn [Config.dget]; [discriminate|].
  inversion Hf; subst. destruct (text_eqb k k'); [intros H; inversion H; subst; assumption | apply IH; assumption].
Qed.

Lemma merge_wf_cfg : forall c, wf c -> forall d, c = Dict d -> forall r R, wfd r -> merge r d = Ok R -> wfd R.
Proof.
  induction c as [v|l IHc] using cfg_ind2; intros Hwf d Hd; [discriminate|]. inversion Hd; subst d; clear Hd.
  induction l as [|[k x] l IHl]; intros r R Hr HR.
  - rewrite merge_nil in HR. inversion HR; subst; exact Hr.
  - apply wfd_cons_inv in Hwf as (Hnk & Hwx & Hwl). inversion IHc as [|? ? Hx Hl]; subst. cbn [snd] in Hx.
    specialize (IHl Hl Hwl). rewrite merge_cons in HR.
    destruct (dget k r) as [[v|rk]|] eqn:Er.
    + eapply IHl; [|exact HR]. apply wfd_dset; assumption.
    + destruct x as [vx|xs]; [discriminate|]. destruct (merge rk xs) as [rk'|e] eqn:Em; [|discriminate]. cbn [bind] in HR.
      eapply IHl; [|exact HR]. apply wfd_dset; [assumption|].
      eapply (Hx Hwx xs eq_refl rk rk'); [|exact Em]. eapply wfd_dget; eassumption.
    + eapply IHl; [|exact HR]. apply wfd_dset; assumption.
Qed.

Lemma merge_wf r d R : wfd r -> wfd d -> merge r d = Ok R -> wfd R.
Proof. intros Hr Hd H. exact (merge_wf_cfg (Dict d) Hd d eq_refl r R Hr H). Qed.

(* top-level keys stay distinct whatever is merged in *)
Lemma merge_nodup : forall d r R, NoDup (map fst r) -> merge r d = Ok R -> NoDup (map fst R).
Proof.
  induction d as [|[k x] l IH]; intros r R Hr HR.
  - rewrite merge_nil in HR. inversion HR; subst; exact Hr.
  - rewrite merge_cons in HR. destruct (dget k r) as [[v|rk]|].
    + eapply IH; [|exact HR]. apply dset_keys_nodup; exact Hr.
    + destruct x as [vx|xs]; [discriminate|]. destruct (merge rk xs) as [rk'|e]; [|discriminate]. cbn [bind] in HR.
      eapply IH; [|exact HR]. apply dset_keys_nodup; exact Hr.
    + eapply IH; [|exact HR]. apply dset_keys_nodup; exact Hr.
Qed.

(* merging into a dict with disjoint keys is appending: in particular `nested_combine(d)` copies d *)
Lemma merge_disjoint : forall l acc, NoDup (map fst l) -> (forall k, In k (map fst l) -> ~ In k (map fst acc)) ->
  merge acc l = Ok (acc ++ l).
Proof.
  induction l as [|[k x] l IH]; intros acc Hn Hd.
  - rewrite merge_nil, app_nil_r. reflexivity.
  - cbn [map fst] in Hn. inversion Hn as [|? ? Hk Hn']; subst. rewrite merge_cons.
    assert (Hka : ~ In k (map fst acc)) by (apply Hd; left; reflexivity).
    pose proof Hka as Hka'. apply dget_none_notin in Hka'. rewrite Hka'. rewrite dset_keys_notin by exact Hka.
    rewrite IH; [rewrite <- app_assoc; reflexivity | exact Hn' |].
    intros k2 H2 H3. rewrite map_app in H3. apply in_app_or in H3 as [H3|[H3|[]]].
    + eapply Hd; [right; exact H2 | exact H3].
    + cbn [fst] in H3. subst k2. contradiction.
Qed.

Lemma merge_into_empty d : NoDup (map fst d) -> merge [] d = Ok d.
Proof. intros H. rewrite merge_disjoint; [reflexivity | exact H | intros k _ []]. Qed.

(* ---------------------------------------------------------------------------------------------------------------- *)
(* nested_combine *)
Definition combine_from (acc : res dict) (ds : list dict) : res dict :=
  fold_left (fun acc d => do r <- acc; merge r d) ds acc.

Lemma nested_combine_eq ds : nested_combine ds = combine_from (Ok []) ds.
Proof. reflexivity. Qed.

Lemma combine_from_err e ds : combine_from (Err e) ds = Err e.
Proof. induction ds as [|d ds IH]; [reflexivity|]. cbn [combine_from fold_left bind]. exact IH. Qed.

Lemma combine_from_cons r d ds : combine_from (Ok r) (d :: ds) = combine_from (merge r d) ds.
Proof. reflexivity. Qed.

Lemma combine_from_app acc l1 l2 : combine_from acc (l1 ++ l2) = combine_from (combine_from acc l1) l2.
Proof. unfold combine_from. apply fold_left_app. Qed.

Lemma combine_from_wf : forall ds r R, wfd r -> Forall wfd ds -> combine_from (Ok r) ds = Ok R -> wfd R.
Proof.
  induction ds as [|d ds IH]; intros r R Hr Hds H.
  - inversion H; subst; exact Hr.
  - inversion Hds; subst. rewrite combine_from_cons in H. destruct (merge r d) as [r1|e] eqn:Em.
    + eapply IH; [|eassumption|exact H]. apply (merge_wf r d r1 Hr); [assumption | exact Em].
    + rewrite combine_from_err in H. discriminate.
Qed.

Lemma nested_combine_wf ds R : Forall wfd ds -> nested_combine ds = Ok R -> wfd R.
Proof. intros Hds H. eapply combine_from_wf; [apply wfd_nil | exact Hds | exact H]. Qed.

Lemma combine_from_nodup : forall ds r R, NoDup (map fst r) -> combine_from (Ok r) ds = Ok R -> NoDup (map fst R).
Proof.
  induction ds as [|d ds IH]; intros r R Hr H.
  - inversion H; subst; exact Hr.
  - rewrite combine_from_cons in H. destruct (merge r d) as [r1|e] eqn:Em.
    + eapply IH; [|exact H]. eapply merge_nodup; eassumption.
    + rewrite combine_from_err in H. discriminate.
Qed.

Lemma nested_combine_nodup ds R : nested_combine ds = Ok R -> NoDup (map fst R).
Proof. intros H. apply (combine_from_nodup ds [] R); [constructor | exact H]. Qed.

Lemma nested_combine_err ds e : nested_combine ds = Err e -> e = EValue.
Proof.
  rewrite nested_combine_eq. generalize (@nil (key * cfg)) as r. induction ds as [|d ds IH]; intros r H; [discriminate|].
  rewrite combine_from_cons in H. destruct (merge r d) as [r1|e1] eqn:Em.
  - eapply IH; exact H.
  - rewrite combine_from_err in H. inversion H; subst. eapply merge_err; exact Em.
Qed.

Notation last_some := (@last_some (option V)).

Lemma last_some_app {A} (l1 l2 : list (option A)) :
  Config.last_some (l1 ++ l2) = match Config.last_some l2 with Some a => Some a | None => Config.last_some l1 end.
Proof.
  induction l1 as [|o l1 IH]; cbn [app Config.last_some].
  - destruct (Config.last_some l2); reflexivity.
  - rewrite IH. destruct (Config.last_some l2); reflexivity.
Qed.

(* combine_rightmost, from any accumulated dict *)
Lemma combine_from_kind : forall ds r R p, Forall wfd ds -> combine_from (Ok r) ds = Ok R ->
  kind_at p R = over (last_some (map (kind_at p) ds)) (kind_at p r).
Proof.
  induction ds as [|d ds IH]; intros r R p Hds H.
  - inversion H; subst. reflexivity.
  - inversion Hds; subst. rewrite combine_from_cons in H. destruct (merge r d) as [r1|e] eqn:Em.
    + rewrite (IH r1 R p) by assumption. rewrite (merge_kind r d r1 p) by assumption.
      cbn [map Config.last_some]. destruct (last_some (map (kind_at p) ds)); [reflexivity|].
      cbn [over]. reflexivity.
    + rewrite combine_from_err in H. discriminate.
Qed.

Theorem combine_rightmost ds R p : Forall wfd ds -> nested_combine ds = Ok R ->
  kind_at p R = last_some (map (kind_at p) ds).
Proof.
  intros Hds H. rewrite (combine_from_kind ds [] R p Hds H). rewrite kind_at_empty.
  destruct (last_some (map (kind_at p) ds)); reflexivity.
Qed.

(* when does nested_combine raise: exactly when some dict sets a value at a path that the dicts before it, combined, hold
   as a section *)
Theorem combine_error_iff ds : Forall wfd ds ->
  (nested_combine ds = Err EValue <->
   exists ds1 d ds2 p v, ds = ds1 ++ d :: ds2 /\ kind_at p d = Some (Some v) /\ last_some (map (kind_at p) ds1) = Some None).
Proof.
  intros Hds. rewrite nested_combine_eq.
  (* generalise over the accumulated prefix *)
  assert (G : forall ds pre r, Forall wfd pre -> Forall wfd ds -> nested_combine pre = Ok r ->
            (combine_from (Ok r) ds = Err EValue <->
             exists ds1 d ds2 p v, ds = ds1 ++ d :: ds2 /\ kind_at p d = Some (Some v) /\
                                   last_some (map (kind_at p) (pre ++ ds1)) = Some None)).
  { clear ds Hds. induction ds as [|d ds IH]; intros pre r Hpre Hds Hr.
    - split; [discriminate|]. intros (ds1 & d & ds2 & p & v & H & _). destruct ds1; discriminate.
    - inversion Hds as [|? ? Hd Hds']; subst. rewrite combine_from_cons.
      destruct (merge r d) as [r1|e] eqn:Em.
      + assert (Hr1 : nested_combine (pre ++ [d]) = Ok r1).
        { rewrite nested_combine_eq, combine_from_app. rewrite <- nested_combine_eq, Hr. cbn. exact Em. }
        rewrite (IH (pre ++ [d]) r1); [| apply Forall_app; split; [exact Hpre | constructor; [exact Hd|constructor]] | exact Hds' | exact Hr1].
        split.
        * intros (ds1 & d' & ds2 & p & v & H1 & H2 & H3). exists (d :: ds1), d', ds2, p, v.
          split; [cbn [app]; congruence|]. split; [exact H2|]. rewrite <- app_assoc in H3. exact H3.
        * intros (ds1 & d' & ds2 & p & v & H1 & H2 & H3). destruct ds1 as [|d0 ds1].
          -- cbn [app] in H1. inversion H1; subst d' ds2. rewrite app_nil_r in H3.
             exfalso. assert (Hc : conflict r d).
             { exists p, v. split; [exact H2|]. rewrite (combine_rightmost pre r p Hpre Hr). exact H3. }
             apply merge_conflict in Hc; [congruence | exact Hd].
          -- cbn [app] in H1. inversion H1; subst d0 ds. exists ds1, d', ds2, p, v.
             split; [reflexivity|]. split; [exact H2|]. rewrite <- app_assoc. exact H3.
      + pose proof (merge_err _ _ _ Em); subst e. rewrite combine_from_err. split; [|reflexivity]. intros _.
        apply merge_conflict in Em as (p & v & H1 & H2); [|exact Hd].
        exists [], d, ds, p, v. split; [reflexivity|]. split; [exact H1|]. rewrite app_nil_r.
        rewrite <- (combine_rightmost pre r p Hpre Hr). exact H2. }
  specialize (G ds [] [] (Forall_nil _) Hds eq_refl). exact G.
Qed.

(* ---- staged combination ---- *)
(* (1) left-nested stages, as load_config_at_path and load_config_file do: exactly the flat combination, errors included *)
Theorem combine_assoc_prefix l1 l2 :
  nested_combine (l1 ++ l2) = do r <- nested_combine l1; nested_combine (r :: l2).
Proof.
  rewrite !nested_combine_eq, combine_from_app. destruct (combine_from (Ok []) l1) as [r|e] eqn:E; cbn [bind].
  - rewrite nested_combine_eq, combine_from_cons. rewrite merge_into_empty; [reflexivity|]. eapply nested_combine_nodup. exact E.
  - apply combine_from_err.
Qed.

(* (2) a stage in the middle, as load_config_up_to_path (one dict per directory) and FluffConfig.__init__ do: every path
   shows the same thing as in the flat combination *)
Theorem combine_assoc_obs l1 l2 l3 m R R' p :
  Forall wfd l1 -> Forall wfd l2 -> Forall wfd l3 ->
  nested_combine l2 = Ok m -> nested_combine (l1 ++ m :: l3) = Ok R -> nested_combine (l1 ++ l2 ++ l3) = Ok R' ->
  kind_at p R = kind_at p R'.
Proof.
  intros H1 H2 H3 Hm HR HR'.
  assert (Hwm : wfd m) by exact (nested_combine_wf l2 m H2 Hm).
  rewrite (combine_rightmost (l1 ++ m :: l3) R p); [| apply Forall_app; split; [exact H1 | constructor; assumption] | exact HR].
  rewrite (combine_rightmost (l1 ++ l2 ++ l3) R' p); [| apply Forall_app; split; [exact H1 | apply Forall_app; split; assumption] | exact HR'].
  rewrite !map_app. cbn [map]. rewrite !last_some_app. cbn [Config.last_some].
  rewrite (combine_rightmost l2 m p H2 Hm).
  destruct (last_some (map (kind_at p) l3)); [reflexivity|].
  destruct (last_some (map (kind_at p) l2)); reflexivity.
Qed.


(* ---------------------------------------------------------------------------------------------------------------- *)
(* (3) a stage in the middle, exactly: when the flat combination succeeds, combining a middle segment first gives the very
   same dict (same values, same key order).  The converse fails (Properties/C27.v has the example): a stage can succeed
   where the flat combination raises. *)

(* what nested_combine computes for one key: old entry (if any) joined with the new value *)
Definition join (o : option cfg) (x : cfg) : res cfg :=
  match o with
  | Some (Dict rk) =>
      match x with
      | Dict xs => do rk' <- merge rk xs; Ok (Dict rk')
      | Leaf _ => Err EValue
      end
  | _ => Ok x
  end.

Lemma merge_cons_join r k x l : merge r ((k, x) :: l) = do y <- join (dget k r) x; merge (dset k y r) l.
Proof.
  rewrite merge_cons. unfold join. destruct (dget k r) as [[v|rk]|]; try reflexivity.
  destruct x as [v|xs]; [reflexivity|]. destruct (merge rk xs); reflexivity.
Qed.

Lemma merge_app : forall l1 l2 r, merge r (l1 ++ l2) = do r1 <- merge r l1; merge r1 l2.
Proof.
  induction l1 as [|[k x] l1 IH]; intros l2 r; [reflexivity|]. cbn [app]. rewrite !merge_cons_join.
  destruct (join (dget k r) x) as [y|e]; cbn [bind]; [apply IH | reflexivity].
Qed.

Lemma dset_dset_same k y y0 d : dset k y (dset k y0 d) = dset k y d.
Proof.
  induction d as [|[k' w] d IH]; cbn [Config.dset].
  - rewrite text_eqb_refl. reflexivity.
  - destruct (text_eqb k k') eqn:E; cbn [Config.dset]; rewrite E; [reflexivity | rewrite IH; reflexivity].
Qed.

Lemma dset_comm k k2 y z d : k <> k2 -> In k (map fst d) -> dset k2 z (dset k y d) = dset k y (dset k2 z d).
Proof.
  intros Hne. induction d as [|[k' w] d IH]; cbn [map fst In]; [tauto|]. intros Hin. cbn [Config.dset].
  destruct (text_eqb k k') eqn:E1.
  - apply text_eqb_eq in E1; subst k'. cbn [Config.dset].
    destruct (text_eqb k2 k) eqn:E2; [apply text_eqb_eq in E2; congruence|]. cbn [Config.dset]. rewrite text_eqb_refl. reflexivity.
  - apply text_eqb_false in E1. destruct Hin as [Hin|Hin]; [congruence|]. cbn [Config.dset].
    destruct (text_eqb k2 k') eqn:E2; cbn [Config.dset].
    + apply text_eqb_false in E1. rewrite E1. reflexivity.
    + apply text_eqb_false in E1. rewrite E1. rewrite IH by exact Hin. reflexivity.
Qed.

Lemma dset_in_keys k y d : In k (map fst (dset k y d)).
Proof.
  destruct (in_dec text_eq_dec k (map fst d)) as [Hi|Hn].
  - rewrite dset_keys_in by exact Hi. exact Hi.
  - rewrite dset_keys_notin by exact Hn. rewrite map_app. apply in_or_app. right. left. reflexivity.
Qed.

Lemma dset_keys_mono k k2 y d : In k (map fst d) -> In k (map fst (dset k2 y d)).
Proof.
  intros H. destruct (in_dec text_eq_dec k2 (map fst d)) as [Hi|Hn].
  - rewrite dset_keys_in by exact Hi. exact H.
  - rewrite dset_keys_notin by exact Hn. rewrite map_app. apply in_or_app. left. exact H.
Qed.

(* frame: a key that is already present and that l does not mention can be rewritten before or after merging l *)
Lemma merge_frame k y : forall l X R, In k (map fst X) -> dget k l = None -> merge X l = Ok R ->
  merge (dset k y X) l = Ok (dset k y R).
Proof.
  induction l as [|[k2 x2] l IH]; intros X R Hin Hnk H.
  - rewrite merge_nil in *. inversion H; reflexivity.
  - cbn [Config.dget] in Hnk. destruct (text_eqb k k2) eqn:E; [discriminate|]. apply text_eqb_false in E.
    rewrite merge_cons_join in *. rewrite dget_dset_other by exact E.
    destruct (join (dget k2 X) x2) as [z|e]; [|discriminate]. cbn [bind] in *.
    rewrite dset_comm by assumption. apply IH; [apply dset_keys_mono; exact Hin | exact Hnk | exact H].
Qed.

Lemma wfd_tail_dget k x l : wfd ((k, x) :: l) -> dget k l = None.
Proof. intros H. apply wfd_cons_inv in H as (Hn & _ & _). apply dget_none_notin. exact Hn. Qed.

(* G: what the merged result holds at a key of the merged-in dict *)
Lemma merge_dget_in k : forall A r R xold, wfd A -> merge r A = Ok R -> dget k A = Some xold ->
  exists yold, join (dget k r) xold = Ok yold /\ dget k R = Some yold.
Proof.
  induction A as [|[k1 x1] A IH]; intros r R xold Hw H Hk; [discriminate|].
  pose proof (wfd_tail_dget _ _ _ Hw) as Hnk. apply wfd_cons_inv in Hw as (_ & _ & Hw').
  rewrite merge_cons_join in H. cbn [Config.dget] in Hk. destruct (text_eqb k k1) eqn:E.
  - apply text_eqb_eq in E; subst k1. inversion Hk; subst x1.
    destruct (join (dget k r) xold) as [y|e]; [|discriminate]. cbn [bind] in H. exists y. split; [reflexivity|].
    rewrite (merge_dget_other k A _ R Hnk H). apply dget_dset_same.
  - apply text_eqb_false in E. destruct (join (dget k1 r) x1) as [y1|e]; [|discriminate]. cbn [bind] in H.
    destruct (IH _ _ _ Hw' H Hk) as (yold & H1 & H2). exists yold. split; [|exact H2].
    rewrite dget_dset_other in H1 by congruence. exact H1.
Qed.

(* U: replacing the value of one key of the merged-in dict *)
Lemma merge_update k xnew : forall A r R xold, wfd A -> merge r A = Ok R -> dget k A = Some xold ->
  merge r (dset k xnew A) = do y <- join (dget k r) xnew; Ok (dset k y R).
Proof.
  induction A as [|[k1 x1] A IH]; intros r R xold Hw H Hk; [discriminate|].
  pose proof (wfd_tail_dget _ _ _ Hw) as Hnk. apply wfd_cons_inv in Hw as (_ & _ & Hw').
  rewrite merge_cons_join in H. cbn [Config.dget] in Hk. cbn [Config.dset]. destruct (text_eqb k k1) eqn:E.
  - apply text_eqb_eq in E; subst k1. rewrite merge_cons_join.
    destruct (join (dget k r) x1) as [y1|e1]; [|discriminate]. cbn [bind] in H.
    destruct (join (dget k r) xnew) as [y|e]; [|reflexivity]. cbn [bind].
    rewrite <- (dset_dset_same k y y1 r). apply merge_frame; [apply dset_in_keys | exact Hnk | exact H].
  - apply text_eqb_false in E. rewrite merge_cons_join.
    destruct (join (dget k1 r) x1) as [y1|e1]; [|discriminate]. cbn [bind] in *.
    rewrite (IH _ _ _ Hw' H Hk). rewrite dget_dset_other by congruence. reflexivity.
Qed.

Lemma merge_assoc_cfg : forall c, wf c -> forall b, c = Dict b -> forall r a r1 r2,
  wfd a -> merge r a = Ok r1 -> merge r1 b = Ok r2 ->
  exists ab, merge a b = Ok ab /\ merge r ab = Ok r2.
Proof.
  induction c as [v|l IHc] using cfg_ind2; intros Hwf b Hb; [discriminate|]. inversion Hb; subst b; clear Hb.
  induction l as [|[k x] l IHl]; intros r a r1 r2 Hwa Ha Hb.
  - rewrite merge_nil in Hb. inversion Hb; subst. exists a. split; [reflexivity | exact Ha].
  - apply wfd_cons_inv in Hwf as (Hnk & Hwx & Hwl). inversion IHc as [|? ? Hx Hl]; subst. cbn [snd] in Hx.
    specialize (IHl Hl Hwl). specialize (Hx Hwx).
    rewrite merge_cons_join in Hb. destruct (join (dget k r1) x) as [y'|e] eqn:Ej; [|discriminate]. cbn [bind] in Hb.
    (* the single-entry step *)
    assert (SE : exists z, join (dget k a) x = Ok z /\ wf z /\ merge r (dset k z a) = Ok (dset k y' r1)).
    { destruct (dget k a) as [xa|] eqn:Eka.
      - destruct (merge_dget_in k a r r1 xa Hwa Ha Eka) as (yold & Hj & Hr1).
        pose proof (wfd_dget _ _ _ Hwa Eka) as Hwxa.
        rewrite Hr1 in Ej. destruct xa as [va|as_].
        + (* a value in a *)
          assert (Hnd : join (dget k r) (Leaf va) = Ok (Leaf va) /\ yold = Leaf va /\ forall w, join (dget k r) w = Ok w).
          { unfold join in Hj |- *. destruct (dget k r) as [[vr|rr]|]; [| discriminate |]; inversion Hj; auto. }
          destruct Hnd as (_ & -> & Hany). cbn [join] in Ej. inversion Ej; subst y'.
          exists x. split; [reflexivity|]. split; [exact Hwx|].
          rewrite (merge_update k x a r r1 _ Hwa Ha Eka), Hany. reflexivity.
        + (* a section in a *)
          destruct (dget k r) as [[vr|rr]|] eqn:Ekr.
          * cbn [join] in Hj. inversion Hj; subst yold. cbn [join] in Ej |- *.
            destruct x as [vx|xs]; [discriminate|]. destruct (merge as_ xs) as [m2|e] eqn:Em; [|discriminate]. cbn [bind] in Ej.
            inversion Ej; subst y'. exists (Dict m2). split; [reflexivity|].
            split; [eapply merge_wf; [exact Hwxa | exact Hwx | exact Em]|].
            rewrite (merge_update k (Dict m2) a r r1 _ Hwa Ha Eka), Ekr. reflexivity.
          * cbn [join] in Hj. destruct (merge rr as_) as [m1|e] eqn:Em1; [|discriminate]. cbn [bind] in Hj.
            inversion Hj; subst yold. cbn [join] in Ej |- *.
            destruct x as [vx|xs]; [discriminate|]. destruct (merge m1 xs) as [m2|e] eqn:Em2; [|discriminate]. cbn [bind] in Ej.
            inversion Ej; subst y'.
            destruct (Hx xs eq_refl rr as_ m1 m2 Hwxa Em1 Em2) as (axs & Hax & Hrax).
            rewrite Hax. cbn [bind]. exists (Dict axs). split; [reflexivity|].
            split; [eapply merge_wf; [exact Hwxa | exact Hwx | exact Hax]|].
            rewrite (merge_update k (Dict axs) a r r1 _ Hwa Ha Eka), Ekr. cbn [join]. rewrite Hrax. reflexivity.
          * cbn [join] in Hj. inversion Hj; subst yold. cbn [join] in Ej |- *.
            destruct x as [vx|xs]; [discriminate|]. destruct (merge as_ xs) as [m2|e] eqn:Em; [|discriminate]. cbn [bind] in Ej.
            inversion Ej; subst y'. exists (Dict m2). split; [reflexivity|].
            split; [eapply merge_wf; [exact Hwxa | exact Hwx | exact Em]|].
            rewrite (merge_update k (Dict m2) a r r1 _ Hwa Ha Eka), Ekr. reflexivity.
      - (* k is new in a *)
        exists x. split; [reflexivity|]. split; [exact Hwx|].
        pose proof Eka as Hn. apply dget_none_notin in Hn. rewrite dset_keys_notin by exact Hn.
        rewrite merge_app, Ha. cbn [bind]. rewrite merge_cons_join, Ej. reflexivity. }
    destruct SE as (z & Hz & Hwz & Hm).
    destruct (IHl r (dset k z a) (dset k y' r1) r2 (wfd_dset k z a Hwa Hwz) Hm Hb) as (ab & Hab & Hrab).
    exists ab. split; [|exact Hrab]. rewrite merge_cons_join, Hz. exact Hab.
Qed.

Lemma merge_assoc r a b r1 r2 : wfd a -> wfd b -> merge r a = Ok r1 -> merge r1 b = Ok r2 ->
  exists ab, merge a b = Ok ab /\ merge r ab = Ok r2.
Proof. intros Ha Hb. exact (merge_assoc_cfg (Dict b) Hb b eq_refl r a r1 r2 Ha). Qed.

Lemma combine_from_stage : forall l2 r r', Forall wfd l2 -> combine_from (Ok r) l2 = Ok r' ->
  exists m, nested_combine l2 = Ok m /\ merge r m = Ok r'.
Proof.
  induction l2 as [|b l IH] using rev_ind; intros r r' Hw H.
  - inversion H; subst. exists []. split; reflexivity.
  - apply Forall_app in Hw as [Hwl Hwb]. inversion Hwb as [|? ? Hb _]; subst.
    rewrite combine_from_app in H. destruct (combine_from (Ok r) l) as [r1|e] eqn:E1.
    + destruct (IH r r1 Hwl E1) as (m1 & Hm1 & Hr1). cbn in H.
      destruct (merge_assoc r m1 b r1 r' (nested_combine_wf l m1 Hwl Hm1) Hb Hr1 H) as (ab & Hab & Hrab).
      exists ab. split; [|exact Hrab]. rewrite nested_combine_eq, combine_from_app, <- nested_combine_eq, Hm1. cbn. exact Hab.
    + cbn in H. discriminate.
Qed.

Theorem combine_assoc l1 l2 l3 R : Forall wfd l2 -> nested_combine (l1 ++ l2 ++ l3) = Ok R ->
  exists m, nested_combine l2 = Ok m /\ nested_combine (l1 ++ m :: l3) = Ok R.
Proof.
  intros Hw H. rewrite nested_combine_eq, !combine_from_app in H.
  destruct (combine_from (Ok []) l1) as [r|e] eqn:E1; [|rewrite !combine_from_err in H; discriminate].
  destruct (combine_from (Ok r) l2) as [r'|e] eqn:E2; [|rewrite combine_from_err in H; discriminate].
  destruct (combine_from_stage l2 r r' Hw E2) as (m & Hm & Hrm). exists m. split; [exact Hm|].
  rewrite nested_combine_eq, combine_from_app, E1, combine_from_cons, Hrm. exact H.
Qed.


(* ---------------------------------------------------------------------------------------------------------------- *)
(* set_value and the inline directives *)
Notation set_value := (set_value V).
Notation inline_effect := (inline_effect V).
Notation inline_over := (inline_over V).

Lemma is_prefix_nil_r p : is_prefix p [] = is_nil p.
Proof. destruct p; reflexivity. Qed.

Lemma kind_in_some x p' : p' <> [] -> option_map kind_of (lookup_in (Some x) p') =
  match x with Dict s => kind_at p' s | Leaf _ => None end.
Proof. intros H. destruct p' as [|k p'']; [congruence|]. destruct x; reflexivity. Qed.

Lemma set_value_cons2 k k1 r v d :
  set_value (k :: k1 :: r) v d =
  match dget k d with
  | None => do s <- set_value (k1 :: r) v []; Ok (dset k (Dict s) d)
  | Some (Dict s0) => do s <- set_value (k1 :: r) v s0; Ok (dset k (Dict s) d)
  | Some (Leaf _) => Err ERuntime
  end.
Proof. reflexivity. Qed.

Lemma rec_insert_cons2 k k1 r v d :
  rec_insert V (k :: k1 :: r) v d =
  match dget k d with
  | None => do s <- rec_insert V (k1 :: r) v []; Ok (dset k (Dict s) d)
  | Some (Dict s0) => do s <- rec_insert V (k1 :: r) v s0; Ok (dset k (Dict s) d)
  | Some (Leaf _) => Err EAssert
  end.
Proof. reflexivity. Qed.

Lemma set_value_kind : forall q v d d' p, set_value q v d = Ok d' -> p <> [] ->
  kind_at p d' = inline_effect p (q, v) (kind_at p d).
Proof.
  induction q as [|k rest IH]; intros v d d' p H Hp; [discriminate|].
  destruct p as [|k0 p']; [congruence|]. clear Hp.
  unfold Config.inline_effect. cbn [is_prefix].
  destruct (text_eq_dec k k0) as [->|Hne].
  2:{ assert (E1 : text_eqb k k0 = false) by (apply text_eqb_false; exact Hne).
      assert (E2 : text_eqb k0 k = false) by (apply text_eqb_false; congruence).
      rewrite E1, E2. cbn [andb].
      assert (Hd : exists y, d' = dset k y d).
      { destruct rest as [|k1 rest'].
        - cbn [Config.set_value] in H. inversion H. eexists; reflexivity.
        - rewrite set_value_cons2 in H. destruct (dget k d) as [[vv|s0]|]; [discriminate| |].
          + destruct (set_value (k1 :: rest') v s0); [|discriminate]. inversion H. eexists; reflexivity.
          + destruct (set_value (k1 :: rest') v []); [|discriminate]. inversion H. eexists; reflexivity. }
      destruct Hd as [y ->]. apply kind_dset_other. congruence. }
  rewrite text_eqb_refl. cbn [andb].
  destruct rest as [|k1 rest'].
  - (* q = [k0] *)
    cbn [Config.set_value] in H. inversion H; subst d'. clear H. cbn [is_prefix]. rewrite is_prefix_nil_r.
    unfold Config.kind_at at 1. rewrite lookup_cons, dget_dset_same.
    destruct p' as [|k2 p'']; reflexivity.
  - assert (Hs : exists s0 s, set_value (k1 :: rest') v s0 = Ok s /\ d' = dset k0 (Dict s) d /\
                 forall p2, p2 <> [] -> kind_at (k0 :: p2) d = kind_at p2 s0).
    { rewrite set_value_cons2 in H. destruct (dget k0 d) as [[vv|s0]|] eqn:Ek; [discriminate| |].
      - destruct (set_value (k1 :: rest') v s0) as [s|] eqn:Es; [|discriminate]. inversion H. exists s0, s.
        split; [exact Es|]. split; [reflexivity|]. intros p2 Hp2. unfold Config.kind_at at 1.
        rewrite lookup_cons, Ek. apply (kind_in_some (Dict s0)). exact Hp2.
      - destruct (set_value (k1 :: rest') v []) as [s|] eqn:Es; [|discriminate]. inversion H. exists [], s.
        split; [exact Es|]. split; [reflexivity|]. intros p2 Hp2. unfold Config.kind_at at 1.
        rewrite lookup_cons, Ek, kind_at_empty. destruct p2; [congruence|reflexivity]. }
    destruct Hs as (s0 & s & Hs & -> & Hbefore).
    unfold Config.kind_at at 1. rewrite lookup_cons, dget_dset_same.
    destruct p' as [|k2 p''].
    + reflexivity.
    + rewrite (kind_in_some (Dict s)) by discriminate. rewrite (IH v s0 s (k2 :: p'') Hs) by discriminate.
      rewrite Hbefore by discriminate. reflexivity.
Qed.

Lemma fold_res_err {A B} (f : A -> B -> res A) l e :
  fold_left (fun acc b => do a <- acc; f a b) l (Err e) = Err e.
Proof. induction l as [|b l IH]; [reflexivity|]. cbn [fold_left bind]. exact IH. Qed.

Section WithCoerce.
Variable coerce : text -> V.

Lemma parse_inline_nonempty line p raw : parse_inline line = Ok (Some (p, raw)) -> p <> [].
Proof.
  unfold parse_inline. destruct (negb _); [discriminate|].
  destruct (split_colon_separated_string _) as [[[|k [|k2 ks]] v]|]; intros H; inversion H; discriminate.
Qed.

Lemma process_raw_kind raw : forall d E p, p <> [] -> process_raw_file_for_config V coerce d raw = Ok E ->
  kind_at p E = inline_over p (inline_settings V coerce raw) (kind_at p d).
Proof.
  unfold process_raw_file_for_config, inline_settings, Config.inline_over.
  induction (splitlines raw) as [|line lines IH]; intros d E p Hp H.
  - inversion H; reflexivity.
  - cbn [fold_left bind flat_map] in *. rewrite fold_left_app.
    destruct (is_inline_line line).
    + unfold process_inline_config in H. destruct (parse_inline line) as [[[q rawv]|]|e] eqn:Epi; cbn [bind] in H.
      * destruct (set_value q (coerce rawv) d) as [d1|e] eqn:Es.
        -- cbn [fold_left]. rewrite (IH d1 E p Hp H). f_equal. apply set_value_kind; assumption.
        -- rewrite fold_res_err in H. discriminate.
      * cbn [fold_left]. apply IH; assumption.
      * rewrite fold_res_err in H. discriminate.
    + cbn [fold_left]. apply IH; assumption.
Qed.

(* ---------------------------------------------------------------------------------------------------------------- *)
(* loaders produce well-formed dicts *)
Lemma rec_insert_wf : forall ks v d d', wfd d -> rec_insert V ks v d = Ok d' -> wfd d'.
Proof.
  induction ks as [|k rest IH]; intros v d d' Hd H; [discriminate|].
  destruct rest as [|k1 rest'].
  - cbn [rec_insert] in H. inversion H; subst. apply wfd_dset; [exact Hd | constructor].
  - rewrite rec_insert_cons2 in H. destruct (dget k d) as [[vv|s0]|] eqn:Ek; [discriminate| |].
    + destruct (rec_insert V (k1 :: rest') v s0) as [s|] eqn:Es; [|discriminate]. inversion H; subst.
      apply wfd_dset; [exact Hd|]. eapply IH; [|exact Es]. eapply wfd_dget; eassumption.
    + destruct (rec_insert V (k1 :: rest') v []) as [s|] eqn:Es; [|discriminate]. inversion H; subst.
      apply wfd_dset; [exact Hd|]. eapply IH; [|exact Es]. apply wfd_nil.
Qed.

Lemma records_wf recs d : records_to_nested_dict V recs = Ok d -> wfd d.
Proof.
  unfold records_to_nested_dict. generalize wfd_nil. generalize (@nil (key * cfg)) as d0.
  induction recs as [|[ks v] recs IH]; intros d0 H0 H.
  - inversion H; subst; exact H0.
  - cbn [fold_left bind fst snd] in H. destruct (rec_insert V ks v d0) as [d1|e] eqn:E1.
    + eapply IH; [|exact H]. eapply rec_insert_wf; eassumption.
    + rewrite fold_res_err in H. discriminate.
Qed.

Lemma load_toml_wf d d' : wfd d -> load_toml V d = Ok d' -> wfd d'.
Proof.
  unfold load_toml. intros Hd. destruct (dget rules_key d) as [[v|rs]|]; [discriminate| |intros H; inversion H; subst; exact Hd].
  destruct (records_to_nested_dict V _) as [rs'|] eqn:E; [|discriminate]. cbn [bind]. intros H; inversion H; subst.
  apply wfd_dset; [exact Hd|]. eapply records_wf. exact E.
Qed.

Definition content_wf (c : fcontent V) : Prop := match c with FToml d => wfd d | FIni _ => True end.
Definition fs_wf (f : fsys V) : Prop :=
  Forall (fun pf => Forall (fun nc => content_wf (snd nc)) (snd pf)) f.

Lemma load_file_wf name c d : content_wf c -> load_file V coerce name c = Ok d -> wfd d.
Proof.
  unfold load_file. intros Hc. destruct (text_eqb name pyproject); destruct c as [i|t]; try discriminate.
  - apply load_toml_wf. exact Hc.
  - unfold load_ini. apply records_wf.
Qed.

Lemma assoc_path_in {A} p (l : list (path * A)) a : assoc_path p l = Some a -> In (p, a) l.
Proof.
  induction l as [|[q b] l IH]; cbn [assoc_path]; [discriminate|]. destruct (path_eqb p q) eqn:E.
  - apply path_eqb_eq in E; subst. intros H; inversion H; subst. left; reflexivity.
  - intros H. right. apply IH. exact H.
Qed.
Lemma assoc_text_in {A} k (l : list (text * A)) a : assoc_text k l = Some a -> In (k, a) l.
Proof.
  induction l as [|[q b] l IH]; cbn [assoc_text]; [discriminate|]. destruct (text_eqb k q) eqn:E.
  - apply text_eqb_eq in E; subst. intros H; inversion H; subst. left; reflexivity.
  - intros H. right. apply IH. exact H.
Qed.

Lemma fs_wf_file f p files name c : fs_wf f -> assoc_path p f = Some files -> assoc_text name files = Some c -> content_wf c.
Proof.
  intros Hf H1 H2. apply assoc_path_in in H1. apply assoc_text_in in H2. unfold fs_wf in Hf. rewrite Forall_forall in Hf.
  specialize (Hf _ H1). cbn [snd] in Hf. rewrite Forall_forall in Hf. exact (Hf _ H2).
Qed.

End WithCoerce.


(* ---------------------------------------------------------------------------------------------------------------- *)
(* the loader: every stage is the combination of its layers *)
Section Loader.
Variable coerce : text -> V.
Notation load_at := (load_config_at_path V coerce).
Notation dir_layers := (dir_layers V coerce).
Notation okind := (okind V).

Lemma sequence_ok {A} : forall (l : list (res A)) ls, sequence l = Ok ls -> l = map Ok ls.
Proof.
  induction l as [|r l IH]; intros ls H; cbn [sequence] in H.
  - inversion H; reflexivity.
  - destruct r as [a|e]; [|discriminate]. cbn [bind] in H. destruct (sequence l) as [t|e] eqn:E; [|discriminate].
    inversion H; subst. cbn [map]. f_equal. apply IH. reflexivity.
Qed.

Lemma okind_map_ok p ls : map (okind p) (map Ok ls) = map (kind_at p) ls.
Proof. rewrite map_map. reflexivity. Qed.

Definition layer_files (files : list (text * fcontent V)) (names : list text) : list (res dict) :=
  flat_map (fun fname => match assoc_text fname files with
                         | Some c => [load_file V coerce fname c]
                         | None => []
                         end) names.

Lemma at_path_fold files : forall names pre acc d,
  nested_combine pre = Ok acc ->
  fold_left (fun acc fname => do configs <- acc;
                              match assoc_text fname files with
                              | Some c => load_config_file V coerce fname c configs
                              | None => Ok configs
                              end) names (Ok acc) = Ok d ->
  exists ls, sequence (layer_files files names) = Ok ls /\ nested_combine (pre ++ ls) = Ok d.
Proof.
  induction names as [|fname names IH]; intros pre acc d Hpre H.
  - inversion H; subst. exists []. split; [reflexivity|]. rewrite app_nil_r. exact Hpre.
  - cbn [fold_left bind] in H. unfold layer_files. cbn [flat_map]. fold (layer_files files names).
    destruct (assoc_text fname files) as [c|].
    + unfold load_config_file in H. destruct (load_file V coerce fname c) as [raw|e] eqn:El; cbn [bind] in H.
      * destruct (nested_combine [acc; raw]) as [acc'|e] eqn:Ec.
        -- assert (Hpre' : nested_combine (pre ++ [raw]) = Ok acc').
           { rewrite combine_assoc_prefix, Hpre. exact Ec. }
           destruct (IH (pre ++ [raw]) acc' d Hpre' H) as (ls & Hs & Hc).
           exists (raw :: ls). split.
           ++ cbn [app sequence bind]. rewrite Hs. reflexivity.
           ++ rewrite <- app_assoc in Hc. exact Hc.
        -- rewrite fold_res_err in H. discriminate.
      * rewrite fold_res_err in H. discriminate.
    + cbn [app]. apply (IH pre acc d Hpre H).
Qed.

Lemma dir_layers_eq f pth :
  dir_layers f pth = match assoc_path (dir_of V f pth) f with
                     | None => [Err ERuntime]
                     | Some files => layer_files files filename_options
                     end.
Proof. reflexivity. Qed.

Lemma at_path_layers f pth d : load_at f pth = Ok d ->
  exists ls, sequence (dir_layers f pth) = Ok ls /\ nested_combine ls = Ok d.
Proof.
  rewrite dir_layers_eq. unfold load_config_at_path, dir_of.
  destruct (assoc_path (if is_dir V f pth then pth else removelast pth) f) as [files|]; [|discriminate].
  intros H. apply (at_path_fold files filename_options [] [] d eq_refl H).
Qed.

Lemma layer_files_wf files : Forall (fun nc => content_wf (snd nc)) files ->
  forall names, Forall (fun r => forall d, r = Ok d -> wfd d) (layer_files files names).
Proof.
  intros Hf. induction names as [|fname names IH]; [constructor|]. unfold layer_files. cbn [flat_map].
  destruct (assoc_text fname files) as [c|] eqn:E; [|exact IH]. cbn [app]. constructor; [|exact IH].
  intros d Hd. apply assoc_text_in in E. rewrite Forall_forall in Hf. specialize (Hf _ E).
  eapply load_file_wf; eassumption.
Qed.

Lemma dir_layers_wf f pth : fs_wf f -> Forall (fun r => forall d, r = Ok d -> wfd d) (dir_layers f pth).
Proof.
  intros Hf. rewrite dir_layers_eq. destruct (assoc_path (dir_of V f pth) f) as [files|] eqn:E.
  - apply layer_files_wf. apply assoc_path_in in E. unfold fs_wf in Hf. rewrite Forall_forall in Hf. exact (Hf _ E).
  - constructor; [discriminate|constructor].
Qed.

Lemma Forall_map_ok ls : Forall (fun r : res dict => forall d, r = Ok d -> wfd d) (map Ok ls) -> Forall wfd ls.
Proof.
  induction ls as [|d ls IH]; intros H; [constructor|]. inversion H; subst. constructor; [auto | apply IH; assumption].
Qed.

Lemma at_path_kind f pth d : fs_wf f -> load_at f pth = Ok d ->
  wfd d /\ forall p, kind_at p d = last_some (map (okind p) (dir_layers f pth)).
Proof.
  intros Hf H. destruct (at_path_layers f pth d H) as (ls & Hs & Hc).
  apply sequence_ok in Hs. pose proof (dir_layers_wf f pth Hf) as Hw. rewrite Hs in Hw. apply Forall_map_ok in Hw.
  split; [eapply nested_combine_wf; eassumption|]. intros p. rewrite Hs, okind_map_ok.
  apply combine_rightmost; assumption.
Qed.

Lemma last_some_groups {A} (gs : list (list (option A))) :
  Config.last_some (map (@Config.last_some A) gs) = Config.last_some (concat gs).
Proof.
  induction gs as [|g gs IH]; [reflexivity|]. cbn [map concat Config.last_some]. rewrite last_some_app, IH. reflexivity.
Qed.

Lemma sequence_at_kind f : fs_wf f -> forall paths ds, sequence (map (load_at f) paths) = Ok ds ->
  Forall wfd ds /\
  forall p, map (kind_at p) ds = map (@Config.last_some (option V)) (map (fun q => map (okind p) (dir_layers f q)) paths).
Proof.
  intros Hf. induction paths as [|q paths IH]; intros ds H; cbn [map sequence] in H.
  - inversion H; subst. split; [constructor | reflexivity].
  - destruct (load_at f q) as [d|e] eqn:Eq; [|discriminate]. cbn [bind] in H.
    destruct (sequence (map (load_at f) paths)) as [t|e] eqn:Et; [|discriminate]. inversion H; subst.
    destruct (IH t eq_refl) as [Hw Hk]. destruct (at_path_kind f q d Hf Eq) as [Hwd Hkd].
    split; [constructor; assumption|]. intros p. cbn [map]. rewrite Hkd, Hk. reflexivity.
Qed.

Lemma load_extra_kind f extra ec : fs_wf f -> load_extra V coerce f extra = Ok ec ->
  wfd ec /\ forall p, kind_at p ec = last_some (map (okind p) (extra_layers V coerce f extra)).
Proof.
  intros Hf H. destruct extra as [x|].
  - split.
    + unfold load_extra in H. destruct (is_dir V f x); [discriminate|].
      destruct (file_at V f (removelast x) (last x [])) as [c|] eqn:Ef; [|discriminate].
      unfold file_at in Ef. destruct (assoc_path (removelast x) f) as [files|] eqn:Ea; [|discriminate].
      eapply load_file_wf; [|exact H]. eapply fs_wf_file; eassumption.
    + intros p. unfold extra_layers. rewrite H. cbn [map Config.okind Config.last_some].
      destruct (kind_at p ec); reflexivity.
  - cbn in H. inversion H; subst. split; [apply wfd_nil|]. intros p. rewrite kind_at_empty. reflexivity.
Qed.

Lemma up_to_kind f e pth extra ign configs : fs_wf f ->
  load_config_up_to_path V coerce f e pth extra ign = Ok configs ->
  wfd configs /\ forall p, kind_at p configs = last_some (map (okind p) (file_layers V coerce f e pth extra ign)).
Proof.
  intros Hf H. unfold load_config_up_to_path in H. unfold file_layers.
  destruct ign.
  - cbn [bind] in H. destruct (load_extra V coerce f extra) as [ec|e0] eqn:Ee; [|discriminate]. cbn [bind app] in H.
    destruct (load_extra_kind f extra ec Hf Ee) as [Hwe Hke].
    assert (Hws : Forall wfd [[]; []; ec]).
    { constructor; [apply wfd_nil|]. constructor; [apply wfd_nil|]. constructor; [exact Hwe|constructor]. }
    split; [eapply nested_combine_wf; eassumption|]. intros p.
    rewrite (combine_rightmost _ configs p Hws H). cbn [map Config.last_some app]. rewrite !kind_at_empty, Hke.
    destruct (last_some (map (okind p) (extra_layers V coerce f extra))); reflexivity.
  - set (P1 := removelast (tl (iter_intermediate_paths V f pth (e_home e)))) in *.
    set (P2 := iter_intermediate_paths V f pth (e_cwd e)) in *.
    destruct (load_user_appdir_config V coerce f e) as [ua|e0] eqn:Eua; [|discriminate]. cbn [bind] in H.
    destruct (load_at f (e_home e)) as [u|e0] eqn:Eu; [|discriminate]. cbn [bind] in H.
    destruct (sequence (map (load_at f) P1)) as [parents|e0] eqn:Ep; [|discriminate]. cbn [bind] in H.
    destruct (sequence (map (load_at f) P2)) as [stack|e0] eqn:Es; [|discriminate]. cbn [bind] in H.
    destruct (load_extra V coerce f extra) as [ec|e0] eqn:Ee; [|discriminate]. cbn [bind] in H.
    destruct (load_extra_kind f extra ec Hf Ee) as [Hwe Hke].
    destruct (at_path_kind f (e_home e) u Hf Eu) as [Hwu Hku].
    destruct (sequence_at_kind f Hf P1 parents Ep) as [Hwp Hkp].
    destruct (sequence_at_kind f Hf P2 stack Es) as [Hws Hks].
    assert (Hua : wfd ua /\ forall p, kind_at p ua = last_some (map (okind p)
                    (let d := user_config_dir V f e in if is_dir V f d then dir_layers f d else []))).
    { unfold load_user_appdir_config in Eua. cbn zeta in *. destruct (is_dir V f (user_config_dir V f e)).
      - apply at_path_kind; assumption.
      - inversion Eua; subst. split; [apply wfd_nil|]. intros p. rewrite kind_at_empty. reflexivity. }
    destruct Hua as [Hwua Hkua].
    assert (Hall : Forall wfd ([ua; u] ++ parents ++ stack ++ [ec])).
    { apply Forall_app; split; [constructor; [exact Hwua|]; constructor; [exact Hwu|constructor]|]. apply Forall_app; split; [exact Hwp|].
      apply Forall_app; split; [exact Hws|]. constructor; [exact Hwe|constructor]. }
    split; [eapply nested_combine_wf; eassumption|]. intros p.
    rewrite (combine_rightmost _ configs p Hall H).
    rewrite !map_app. cbn [map]. rewrite Hkp, Hks, Hkua, Hku, Hke.
    rewrite !flat_map_concat_map, !concat_map.
    set (g1 := map (okind p) (let d := user_config_dir V f e in if is_dir V f d then dir_layers f d else [])).
    set (g2 := map (okind p) (dir_layers f (e_home e))).
    set (G1 := map (map (okind p)) (map (dir_layers f) P1)).
    set (G2 := map (map (okind p)) (map (dir_layers f) P2)).
    set (g3 := map (okind p) (extra_layers V coerce f extra)).
    replace (map (fun q => map (okind p) (dir_layers f q)) P1) with G1 by (unfold G1; rewrite map_map; reflexivity).
    replace (map (fun q => map (okind p) (dir_layers f q)) P2) with G2 by (unfold G2; rewrite map_map; reflexivity).
    change ([last_some g1; last_some g2]) with (map last_some [g1; g2]).
    change ([last_some g3]) with (map last_some [g3]).
    rewrite <- !map_app. rewrite last_some_groups. f_equal. rewrite !concat_app. cbn [concat app].
    rewrite !app_nil_r, <- !app_assoc. reflexivity.
Qed.

End Loader.


(* ---------------------------------------------------------------------------------------------------------------- *)
Section Final.
Variable coerce : text -> V.
Variable is_none : V -> bool.
Notation load_at := (load_config_at_path V coerce).
Notation file_config := (file_config V coerce is_none).
Notation inline_config := (inline_config V coerce is_none).
Notation run := (run V coerce is_none).
Notation run_c := (run_c V coerce is_none).
Notation file_config_c := (file_config_c V coerce is_none).

Lemma single_wf k (x : cfg) : wf x -> wfd [(k, x)].
Proof. intros H. constructor; [constructor; [intros []|constructor]|]. constructor; [exact H|constructor]. Qed.

Lemma core_wrap_wf ov : wfd ov -> wfd (core_wrap V ov).
Proof. intros H. destruct ov as [|a l]; [apply wfd_nil|]. apply single_wf. exact H. Qed.

Lemma configs_or_empty_wf c : wfd c -> wfd (configs_or_empty V c).
Proof. intros H. destruct c as [|a l]; [|exact H]. apply single_wf. apply wfd_nil. Qed.

(* PRECEDENCE *)
Lemma precedence_inline f e rt sf E :
  fs_wf f -> wfd (r_defaults V rt) -> wfd (r_overrides V rt) ->
  inline_config f e rt sf = Ok E ->
  exists configs,
    load_config_up_to_path V coerce f e (fst sf) (r_extra V rt) (r_ignore_local V rt) = Ok configs /\
    forall p, p <> [] -> kind_at p E = spec_kind V coerce f e rt sf (is_nil configs) p.
Proof.
  intros Hf Hd Ho H. unfold Config.inline_config, from_path in H.
  destruct (load_config_up_to_path V coerce f e (fst sf) (r_extra V rt) (r_ignore_local V rt)) as [configs|e0] eqn:Eu;
    [|discriminate]. cbn [bind] in H.
  destruct (fluff_init V (r_defaults V rt) configs (r_overrides V rt)) as [c0|e0] eqn:Ei; [|discriminate]. cbn [bind] in H.
  destruct (dialect_check V is_none false c0) as [[]|e0]; [|discriminate]. cbn [bind] in H.
  exists configs. split; [reflexivity|]. intros p Hp.
  rewrite (process_raw_kind coerce (snd sf) c0 E p Hp H). unfold spec_kind. f_equal.
  destruct (up_to_kind coerce f e (fst sf) (r_extra V rt) (r_ignore_local V rt) configs Hf Eu) as [Hwc Hkc].
  unfold fluff_init in Ei.
  assert (Hw3 : Forall wfd [r_defaults V rt; configs_or_empty V configs; core_wrap V (r_overrides V rt)]).
  { constructor; [exact Hd|]. constructor; [apply configs_or_empty_wf; exact Hwc|].
    constructor; [apply core_wrap_wf; exact Ho | constructor]. }
  rewrite (combine_rightmost _ c0 p Hw3 Ei). cbn [map]. rewrite !last_some_app.
  destruct configs as [|c cs].
  - reflexivity.
  - cbn [is_nil configs_or_empty]. rewrite Hkc. cbn [Config.last_some].
    destruct (kind_at p (core_wrap V (r_overrides V rt))); [reflexivity|].
    destruct (last_some (map (okind V p) _)); reflexivity.
Qed.

Lemma file_config_inline f e rt sf E : file_config f e rt sf = Ok E -> inline_config f e rt sf = Ok E.
Proof.
  unfold Config.file_config. destruct (inline_config f e rt sf) as [c|e0]; [|discriminate]. cbn [bind].
  destruct (verify_dialect V is_none c) as [[]|e0]; [|discriminate]. cbn [bind]. exact (fun H => H).
Qed.

Theorem precedence f e rt sf E :
  fs_wf f -> wfd (r_defaults V rt) -> wfd (r_overrides V rt) ->
  file_config f e rt sf = Ok E ->
  exists configs,
    load_config_up_to_path V coerce f e (fst sf) (r_extra V rt) (r_ignore_local V rt) = Ok configs /\
    forall p, p <> [] -> kind_at p E = spec_kind V coerce f e rt sf (is_nil configs) p.
Proof. intros Hf Hd Ho H. apply precedence_inline; try assumption. apply file_config_inline. exact H. Qed.

(* the dialect requirement, in terms of what is observed at core:dialect *)
Lemma verify_dialect_ok c :
  verify_dialect V is_none c = if dialect_ok V is_none (kind_at [core; dialect_key] c) then Ok tt else Err ERuntime.
Proof.
  unfold verify_dialect, Config.kind_at. destruct (lookup [core; dialect_key] c) as [[v|l]|]; cbn [option_map Config.kind_of dialect_ok];
    [destruct (is_none v)|..]; reflexivity.
Qed.

(* the repaired load_raw_file_and_config: the file is accepted exactly when its EFFECTIVE config (inline directives included)
   has a dialect *)
Theorem dialect_after_inline f e rt sf E :
  fs_wf f -> wfd (r_defaults V rt) -> wfd (r_overrides V rt) ->
  inline_config f e rt sf = Ok E ->
  exists configs,
    load_config_up_to_path V coerce f e (fst sf) (r_extra V rt) (r_ignore_local V rt) = Ok configs /\
    file_config f e rt sf =
      if dialect_ok V is_none (spec_kind V coerce f e rt sf (is_nil configs) [core; dialect_key]) then Ok E else Err ERuntime.
Proof.
  intros Hf Hd Ho H. destruct (precedence_inline f e rt sf E Hf Hd Ho H) as (configs & Hu & Hk).
  exists configs. split; [exact Hu|]. unfold Config.file_config. rewrite H. cbn [bind].
  rewrite verify_dialect_ok, (Hk [core; dialect_key]) by discriminate.
  destruct (dialect_ok V is_none _); reflexivity.
Qed.

(* path and string pipelines agree: linting the file by path = building the file's base config (no dialect demanded yet) and
   linting its text as a string on it *)
Theorem path_is_string_pipeline f e rt sf :
  file_config f e rt sf = do base <- from_path V coerce is_none f e rt false (fst sf); string_lint_config V coerce is_none base (snd sf).
Proof.
  unfold Config.file_config, Config.inline_config, string_lint_config, string_config.
  destruct (from_path V coerce is_none f e rt false (fst sf)); reflexivity.
Qed.

(* ISOLATION: the config of a file is determined by the directories it is read from (and its own text) *)
Lemma is_dir_agree f f' q : assoc_path q f = assoc_path q f' -> is_dir V f q = is_dir V f' q.
Proof. unfold is_dir. intros ->. reflexivity. Qed.

Lemma load_at_agree f f' q : assoc_path q f = assoc_path q f' ->
  assoc_path (dir_of V f q) f = assoc_path (dir_of V f q) f' -> load_at f q = load_at f' q.
Proof.
  intros H1 H2. unfold load_config_at_path. unfold dir_of in H2. rewrite <- (is_dir_agree f f' q H1), H2. reflexivity.
Qed.

Lemma iter_agree f f' inner outer : assoc_path inner f = assoc_path inner f' ->
  iter_intermediate_paths V f inner outer = iter_intermediate_paths V f' inner outer.
Proof. intros H. unfold iter_intermediate_paths. rewrite (is_dir_agree f f' inner H). reflexivity. Qed.

Lemma In_removelast {A} (x : A) l : In x (removelast l) -> In x l.
Proof.
  induction l as [|a l IH]; [intros []|]. cbn [removelast]. destruct l as [|b l]; [intros []|].
  intros [H|H]; [left; exact H | right; apply IH; exact H].
Qed.
Lemma In_tl {A} (x : A) l : In x (tl l) -> In x l.
Proof. destruct l; [intros [] | intros H; right; exact H]. Qed.

Theorem isolation f f' e rt sf :
  (forall q, In q (relevant V f e (r_extra V rt) (fst sf)) -> assoc_path q f = assoc_path q f') ->
  file_config f e rt sf = file_config f' e rt sf.
Proof.
  intros Hag. unfold Config.file_config, Config.inline_config, from_path. f_equal. f_equal. f_equal.
  unfold relevant in Hag.
  set (cross := cross_dir e) in *.
  set (I1 := iter_intermediate_paths V f (fst sf) (e_home e)) in *.
  set (I2 := iter_intermediate_paths V f (fst sf) (e_cwd e)) in *.
  set (ups := e_home e :: user_config_dir V f e :: I1 ++ I2) in *.
  change ([cross; fst sf] ++ ups ++ map (dir_of V f) ups ++ match r_extra V rt with Some x => [x; removelast x] | None => [] end)
    with (cross :: fst sf :: (ups ++ map (dir_of V f) ups ++ match r_extra V rt with Some x => [x; removelast x] | None => [] end)) in Hag.
  assert (Hcross : assoc_path cross f = assoc_path cross f') by (apply Hag; left; reflexivity).
  assert (Hpth : assoc_path (fst sf) f = assoc_path (fst sf) f') by (apply Hag; right; left; reflexivity).
  assert (Hups : forall q, In q ups -> load_at f q = load_at f' q /\ is_dir V f q = is_dir V f' q).
  { intros q Hq.
    assert (H1 : assoc_path q f = assoc_path q f') by (apply Hag; right; right; apply in_or_app; left; exact Hq).
    split; [|apply is_dir_agree; exact H1]. apply load_at_agree; [exact H1|].
    apply Hag. right; right. apply in_or_app; right. apply in_or_app; left. apply in_map. exact Hq. }
  assert (Hucd : user_config_dir V f e = user_config_dir V f' e).
  { unfold user_config_dir. fold cross. rewrite (is_dir_agree f f' cross Hcross). reflexivity. }
  assert (HI1 : iter_intermediate_paths V f' (fst sf) (e_home e) = I1) by (symmetry; apply iter_agree; exact Hpth).
  assert (HI2 : iter_intermediate_paths V f' (fst sf) (e_cwd e) = I2) by (symmetry; apply iter_agree; exact Hpth).
  assert (Hextra : load_extra V coerce f (r_extra V rt) = load_extra V coerce f' (r_extra V rt)).
  { unfold load_extra. destruct (r_extra V rt) as [x|]; [|reflexivity].
    assert (Hx : assoc_path x f = assoc_path x f').
    { apply Hag. right; right. apply in_or_app; right. apply in_or_app; right. left; reflexivity. }
    assert (Hx' : assoc_path (removelast x) f = assoc_path (removelast x) f').
    { apply Hag. right; right. apply in_or_app; right. apply in_or_app; right. right; left; reflexivity. }
    rewrite (is_dir_agree f f' x Hx). unfold file_at. rewrite Hx'. reflexivity. }
  unfold load_config_up_to_path. rewrite HI1, HI2, <- Hextra. fold I1 I2.
  assert (Hua : load_user_appdir_config V coerce f e = load_user_appdir_config V coerce f' e).
  { unfold load_user_appdir_config. rewrite <- Hucd.
    destruct (Hups (user_config_dir V f e)) as [H1 H2]; [right; left; reflexivity|]. rewrite H1, H2. reflexivity. }
  assert (Hhome : load_at f (e_home e) = load_at f' (e_home e)) by (apply Hups; left; reflexivity).
  assert (Hp1 : map (load_at f) (removelast (tl I1)) = map (load_at f') (removelast (tl I1))).
  { apply map_ext_in. intros q Hq. apply Hups. right; right. apply in_or_app; left.
    apply In_tl. apply In_removelast. exact Hq. }
  assert (Hp2 : map (load_at f) I2 = map (load_at f') I2).
  { apply map_ext_in. intros q Hq. apply Hups. right; right. apply in_or_app; right. exact Hq. }
  rewrite Hua, Hhome, Hp1, Hp2. reflexivity.
Qed.

(* a run is file-by-file: the result for a file does not depend on which other files are linted, or in what order *)
Lemma run_nth f e rt files i :
  nth_error (run f e rt files) i = option_map (file_config f e rt) (nth_error files i).
Proof. unfold Config.run. apply nth_error_map. Qed.

Lemma run_app f e rt l1 l2 : run f e rt (l1 ++ l2) = run f e rt l1 ++ run f e rt l2.
Proof. unfold Config.run. apply map_app. Qed.

(* ---------------------------------------------------------------------------------------------------------------- *)
(* the functools caches are transparent: threading them through a run changes no result *)
Definition cache_ok (f : fsys V) (c : caches V) : Prop :=
  (forall q d, assoc_path q (c_file V c) = Some d ->
     exists content, file_at V f (removelast q) (last q []) = Some content /\ load_file V coerce (last q []) content = Ok d)
  /\ (forall q d, assoc_path q (c_dir V c) = Some d -> load_at f q = Ok d).

Lemma cache_ok_empty f : cache_ok f (mkCaches [] []).
Proof. split; intros q d H; discriminate. Qed.

Lemma path_eqb_refl p : path_eqb p p = true.
Proof. apply path_eqb_eq. reflexivity. Qed.

Lemma assoc_path_cons_inv {A} q p (a : A) l b : assoc_path q ((p, a) :: l) = Some b -> (q = p /\ a = b) \/ assoc_path q l = Some b.
Proof.
  cbn [assoc_path]. destruct (path_eqb q p) eqn:E; [|intros H; right; exact H].
  apply path_eqb_eq in E. intros H; inversion H; subst. left; split; reflexivity.
Qed.

Lemma load_file_c_ok f p name content c : cache_ok f c -> file_at V f p name = Some content ->
  exists c', load_file_c V coerce p name content c = (load_file V coerce name content, c') /\ cache_ok f c'.
Proof.
  intros [Hc1 Hc2] Hf. unfold load_file_c. destruct (assoc_path (p ++ [name]) (c_file V c)) as [d|] eqn:E.
  - destruct (Hc1 _ _ E) as (content' & H1 & H2). rewrite removelast_last, last_last in H1. rewrite last_last in H2.
    rewrite Hf in H1. inversion H1; subst content'. exists c. rewrite H2. split; [reflexivity | split; assumption].
  - destruct (load_file V coerce name content) as [d|e0] eqn:El.
    + eexists. split; [reflexivity|]. split; cbn [c_file c_dir]; [|exact Hc2].
      intros q d' Hq. apply assoc_path_cons_inv in Hq as [[-> ->]|Hq]; [|apply Hc1; exact Hq].
      exists content. rewrite removelast_last, last_last. split; assumption.
    + exists c. split; [reflexivity | split; assumption].
Qed.

Definition at_step (files : list (text * fcontent V)) (acc : res dict) (fname : text) : res dict :=
  do configs <- acc;
  match assoc_text fname files with
  | Some c => load_config_file V coerce fname c configs
  | None => Ok configs
  end.

Lemma load_at_unfold f q :
  load_at f q = match assoc_path (dir_of V f q) f with
                | None => Err ERuntime
                | Some files => fold_left (at_step files) filename_options (@Ok dict [])
                end.
Proof. reflexivity. Qed.

Lemma at_step_err files l e0 : fold_left (at_step files) l (Err e0) = Err e0.
Proof. induction l as [|b l IH]; [reflexivity|]. cbn [fold_left]. exact IH. Qed.

Lemma at_path_files_c_ok f p files : assoc_path p f = Some files -> forall names configs c, cache_ok f c ->
  exists c', at_path_files_c V coerce p files names configs c = (fold_left (at_step files) names (Ok configs), c') /\ cache_ok f c'.
Proof.
  intros Hp. induction names as [|fname names IH]; intros configs c Hc.
  - exists c. split; [reflexivity | exact Hc].
  - cbn [at_path_files_c fold_left]. unfold at_step at 2. cbn [bind].
    destruct (assoc_text fname files) as [content|] eqn:Ea; [|apply IH; exact Hc].
    assert (Hfa : file_at V f p fname = Some content) by (unfold file_at; rewrite Hp; exact Ea).
    destruct (load_file_c_ok f p fname content c Hc Hfa) as (c1 & H1 & Hc1).
    unfold mbind at 1. rewrite H1. unfold load_config_file.
    destruct (load_file V coerce fname content) as [raw|e0]; cbn [bind].
    + unfold mbind at 1, mlift. destruct (nested_combine [configs; raw]) as [configs'|e0].
      * apply IH. exact Hc1.
      * exists c1. rewrite at_step_err. split; [reflexivity | exact Hc1].
    + exists c1. rewrite at_step_err. split; [reflexivity | exact Hc1].
Qed.

Lemma load_at_c_ok f q c : cache_ok f c ->
  exists c', load_config_at_path_c V coerce f q c = (load_at f q, c') /\ cache_ok f c'.
Proof.
  intros Hc. unfold load_config_at_path_c. destruct (assoc_path q (c_dir V c)) as [d|] eqn:E.
  - destruct Hc as [Hc1 Hc2]. rewrite (Hc2 _ _ E). exists c. split; [reflexivity | split; assumption].
  - rewrite load_at_unfold. unfold dir_of. set (p := if is_dir V f q then q else removelast q).
    destruct (assoc_path p f) as [files|] eqn:Ep; [|exists c; split; [reflexivity | exact Hc]].
    destruct (at_path_files_c_ok f p files Ep filename_options [] c Hc) as (c1 & H1 & Hc1). rewrite H1.
    destruct (fold_left (at_step files) filename_options (@Ok dict [])) as [d|e0] eqn:Ed.
    + eexists. split; [reflexivity|]. destruct Hc1 as [Ha Hb]. split; cbn [c_file c_dir]; [exact Ha|].
      intros q' d' Hq. apply assoc_path_cons_inv in Hq as [[-> ->]|Hq]; [|apply Hb; exact Hq].
      rewrite load_at_unfold. unfold dir_of. fold p. rewrite Ep. exact Ed.
    + exists c1. split; [reflexivity | exact Hc1].
Qed.

Lemma msequence_at_ok f : forall paths c, cache_ok f c ->
  exists c', msequence V (map (load_config_at_path_c V coerce f) paths) c = (sequence (map (load_at f) paths), c') /\ cache_ok f c'.
Proof.
  induction paths as [|q paths IH]; intros c Hc.
  - exists c. split; [reflexivity | exact Hc].
  - cbn [map msequence sequence]. destruct (load_at_c_ok f q c Hc) as (c1 & H1 & Hc1). unfold mbind at 1. rewrite H1.
    destruct (load_at f q) as [d|e0]; cbn [bind]; [|exists c1; split; [reflexivity | exact Hc1]].
    destruct (IH c1 Hc1) as (c2 & H2 & Hc2). unfold mbind at 1. rewrite H2.
    destruct (sequence (map (load_at f) paths)) as [t|e0]; cbn [bind]; exists c2; (split; [reflexivity | exact Hc2]).
Qed.

Lemma load_extra_c_ok f extra c : cache_ok f c ->
  exists c', load_extra_c V coerce f extra c = (load_extra V coerce f extra, c') /\ cache_ok f c'.
Proof.
  intros Hc. unfold load_extra_c, load_extra. destruct extra as [x|]; [|exists c; split; [reflexivity | exact Hc]].
  destruct (is_dir V f x); [exists c; split; [reflexivity | exact Hc]|].
  destruct (file_at V f (removelast x) (last x [])) as [content|] eqn:Ef; [|exists c; split; [reflexivity | exact Hc]].
  apply load_file_c_ok; assumption.
Qed.

Lemma up_to_c_ok f e pth extra ign c : cache_ok f c ->
  exists c', load_config_up_to_path_c V coerce f e pth extra ign c = (load_config_up_to_path V coerce f e pth extra ign, c')
             /\ cache_ok f c'.
Proof.
  intros Hc. unfold load_config_up_to_path_c, load_config_up_to_path. destruct ign.
  - unfold mbind at 1, mret at 1. unfold mbind at 1, mret at 1. unfold mbind at 1, mret at 1. unfold mbind at 1, mret at 1.
    cbn [bind]. destruct (load_extra_c_ok f extra c Hc) as (c1 & H1 & Hc1). unfold mbind at 1. rewrite H1.
    destruct (load_extra V coerce f extra) as [ec|e0]; cbn [bind]; exists c1; (split; [reflexivity | exact Hc1]).
  - match goal with |- exists c', mbind V ?m ?k c = _ /\ _ =>
      assert (Hua : exists c1, m c = (load_user_appdir_config V coerce f e, c1) /\ cache_ok f c1) end.
    { unfold load_user_appdir_config. cbn zeta. destruct (is_dir V f (user_config_dir V f e)).
      - apply load_at_c_ok; exact Hc.
      - exists c. split; [reflexivity | exact Hc]. }
    destruct Hua as (c1 & H1 & Hc1). unfold mbind at 1. rewrite H1.
    destruct (load_user_appdir_config V coerce f e) as [ua|e0]; cbn [bind]; [|exists c1; split; [reflexivity | exact Hc1]].
    destruct (load_at_c_ok f (e_home e) c1 Hc1) as (c2 & H2 & Hc2). unfold mbind at 1. rewrite H2.
    destruct (load_at f (e_home e)) as [u|e0]; cbn [bind]; [|exists c2; split; [reflexivity | exact Hc2]].
    destruct (msequence_at_ok f (removelast (tl (iter_intermediate_paths V f pth (e_home e)))) c2 Hc2) as (c3 & H3 & Hc3).
    unfold mbind at 1. rewrite H3.
    destruct (sequence (map (load_at f) (removelast (tl (iter_intermediate_paths V f pth (e_home e)))))) as [ps|e0]; cbn [bind];
      [|exists c3; split; [reflexivity | exact Hc3]].
    destruct (msequence_at_ok f (iter_intermediate_paths V f pth (e_cwd e)) c3 Hc3) as (c4 & H4 & Hc4).
    unfold mbind at 1. rewrite H4.
    destruct (sequence (map (load_at f) (iter_intermediate_paths V f pth (e_cwd e)))) as [st|e0]; cbn [bind];
      [|exists c4; split; [reflexivity | exact Hc4]].
    destruct (load_extra_c_ok f extra c4 Hc4) as (c5 & H5 & Hc5). unfold mbind at 1. rewrite H5.
    destruct (load_extra V coerce f extra) as [ec|e0]; cbn [bind]; exists c5; (split; [reflexivity | exact Hc5]).
Qed.

Lemma file_config_c_ok f e rt sf c : cache_ok f c ->
  exists c', file_config_c f e rt sf c = (file_config f e rt sf, c') /\ cache_ok f c'.
Proof.
  intros Hc. unfold Config.file_config_c, Config.file_config, Config.inline_config, from_path.
  destruct (up_to_c_ok f e (fst sf) (r_extra V rt) (r_ignore_local V rt) c Hc) as (c1 & H1 & Hc1).
  unfold mbind. rewrite H1.
  destruct (load_config_up_to_path V coerce f e (fst sf) (r_extra V rt) (r_ignore_local V rt)) as [configs|e0]; cbn [bind].
  - unfold mlift. exists c1. split; [|exact Hc1]. destruct (fluff_init V _ configs _) as [c0|e0]; [|reflexivity]. cbn [bind].
    destruct (dialect_check V is_none false c0) as [[]|e0]; [|reflexivity]. cbn [bind].
    destruct (process_raw_file_for_config V coerce c0 (snd sf)) as [c2|e0]; [|reflexivity]. cbn [bind].
    destruct (verify_dialect V is_none c2) as [[]|e0]; reflexivity.
  - exists c1. split; [reflexivity | exact Hc1].
Qed.

Theorem cache_transparent f e rt : forall files c, cache_ok f c ->
  exists c', run_c f e rt files c = (run f e rt files, c') /\ cache_ok f c'.
Proof.
  induction files as [|sf files IH]; intros c Hc.
  - exists c. split; [reflexivity | exact Hc].
  - cbn [Config.run_c]. destruct (file_config_c_ok f e rt sf c Hc) as (c1 & H1 & Hc1). rewrite H1.
    destruct (IH c1 Hc1) as (c2 & H2 & Hc2). rewrite H2. exists c2. split; [reflexivity | exact Hc2].
Qed.

End Final.


(* ---------------------------------------------------------------------------------------------------------------- *)
(* the boolean well-formedness checks are sound *)
Lemma nodupb_sound l : nodupb l = true -> NoDup l.
Proof.
  induction l as [|k r IH]; intros H; [constructor|]. cbn [nodupb] in H. apply andb_true_iff in H as [H1 H2].
  constructor; [|apply IH; exact H2]. intros Hin. apply negb_true_iff in H1.
  assert (existsb (text_eqb k) r = true) by (apply existsb_exists; exists k; split; [exact Hin | apply text_eqb_refl]).
  congruence.
Qed.

Lemma wfb_sound : forall c, wfb V c = true -> wf c.
Proof.
  induction c as [v|l IH] using cfg_ind2; intros H; [constructor|]. cbn [wfb] in H. apply andb_true_iff in H as [H1 H2].
  constructor; [apply nodupb_sound; exact H1|]. clear H1. induction l as [|[k x] l IHl]; [constructor|].
  apply andb_true_iff in H2 as [Hx Hl]. inversion IH; subst. constructor; [cbn [snd] in *; auto | apply IHl; assumption].
Qed.

Lemma wfdb_sound d : wfdb V d = true -> wfd d.
Proof. apply wfb_sound. Qed.

Lemma fs_wfb_sound f : fs_wfb V f = true -> fs_wf f.
Proof.
  unfold fs_wfb, fs_wf. rewrite forallb_forall, Forall_forall. intros H pf Hpf. specialize (H pf Hpf).
  rewrite forallb_forall in H. rewrite Forall_forall. intros nc Hnc. specialize (H nc Hnc).
  destruct (snd nc); [exact I | apply wfdb_sound; exact H].
Qed.

End WithValues.
