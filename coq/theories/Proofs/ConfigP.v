(* Lemmas about Model/Config.v (C27). *)
From SF Require Import Base.Prelude Model.Config.

Lemma text_eqb_refl a : text_eqb a a = true.
Proof. apply text_eqb_eq. reflexivity. Qed.

Lemma text_eqb_false a b : text_eqb a b = false <-> a <> b.
Proof.
  split.
  - intros H E. apply text_eqb_eq in E. congruence.
  - intros H. destruct (text_eqb a b) eqn:E; [|reflexivity]. apply text_eqb_eq in E. contradiction.
Qed.

Lemma text_eq_dec (a b : text) : {a = b} + {a <> b}.
Proof. destruct (text_eqb a b) eqn:E; [left; apply text_eqb_eq; exact E | right; apply text_eqb_false; exact E]. Qed.

Lemma path_eqb_eq a b : path_eqb a b = true <-> a = b.
Proof.
  revert b; induction a as [|x a IH]; intros [|y b]; cbn [path_eqb]; split; intros H; try reflexivity; try discriminate.
  - apply andb_true_iff in H as [H1 H2]. apply text_eqb_eq in H1. apply IH in H2. congruence.
  - inversion H; subst. apply andb_true_iff; split; [apply text_eqb_refl | apply IH; reflexivity].
Qed.

Lemma NoDup_app_one {A} (l : list A) a : NoDup l -> ~ In a l -> NoDup (l ++ [a]).
Proof.
  induction l as [|x l IH]; intros Hn Hi; cbn [app].
  - constructor; [intros []|constructor].
  - inversion Hn; subst. constructor.
    + intros H. apply in_app_or in H as [H|[H|[]]]; [contradiction|]. apply Hi. left. symmetry. exact H.
    + apply IH; [assumption|]. intros H. apply Hi. right. exact H.
Qed.

Section WithValues.
Variable V : Type.

Notation cfg := (cfg V).
Notation dict := (dict V).
Notation dget := (dget V).
Notation dset := (dset V).
Notation merge := (merge V).
Notation nested_combine := (nested_combine V).
Notation lookup := (lookup V).
Notation kind_at := (kind_at V).
Notation kind_of := (kind_of V).

(* ---------------------------------------------------------------------------------------------------------------- *)
(* induction principle for the nested type *)
Lemma cfg_ind2 (P : cfg -> Prop) :
  (forall v, P (Leaf v)) ->
  (forall l, Forall (fun kx => P (snd kx)) l -> P (Dict l)) ->
  forall c, P c.
Proof.
  intros HL HD. fix IH 1. intros [v|l]; [apply HL|]. apply HD.
  induction l as [|[k x] l IHl]; constructor; [apply IH | exact IHl].
Qed.

(* well-formed = what a Python dict is: distinct keys at every level *)
Inductive wf : cfg -> Prop :=
| wf_leaf v : wf (Leaf v)
| wf_dict l : NoDup (map fst l) -> Forall (fun kx => wf (snd kx)) l -> wf (Dict l).

Definition wfd (d : dict) : Prop := wf (Dict d).

Lemma wfd_nil : wfd [].
Proof. constructor; constructor. Qed.

Lemma wfd_cons_inv k x l : wfd ((k, x) :: l) -> ~ In k (map fst l) /\ wf x /\ wfd l.
Proof.
  intros H. inversion H as [|? Hn Hf]; subst. cbn [map fst] in Hn. inversion Hn; subst. inversion Hf; subst.
  split; [assumption|]. split; [assumption|]. constructor; assumption.
Qed.

(* ---------------------------------------------------------------------------------------------------------------- *)
(* dget / dset *)
Lemma dget_dset_same k x d : dget k (dset k x d) = Some x.
Proof.
  induction d as [|[k' y] d IH]; cbn [Config.dset Config.dget].
  - rewrite text_eqb_refl. reflexivity.
  - destruct (text_eqb k k') eqn:E; cbn [Config.dget]; rewrite E; [reflexivity | exact IH].
Qed.

Lemma dget_dset_other k k' x d : k <> k' -> dget k' (dset k x d) = dget k' d.
Proof.
  intros Hne. induction d as [|[k2 y] d IH]; cbn [Config.dset Config.dget].
  - destruct (text_eqb k' k) eqn:E; [apply text_eqb_eq in E; congruence | reflexivity].
  - destruct (text_eqb k k2) eqn:E; cbn [Config.dget].
    + apply text_eqb_eq in E; subst k2.
      destruct (text_eqb k' k) eqn:E2; [apply text_eqb_eq in E2; congruence | reflexivity].
    + destruct (text_eqb k' k2); [reflexivity | exact IH].
Qed.

Lemma dget_none_notin k d : dget k d = None <-> ~ In k (map fst d).
Proof.
  induction d as [|[k' y] d IH]; cbn [Config.dget map fst In]; [tauto|].
  destruct (text_eqb k k') eqn:E.
  - apply text_eqb_eq in E; subst. split; [discriminate | intros H; exfalso; apply H; left; reflexivity].
  - apply text_eqb_false in E. rewrite IH. split; [intros H [H1|H1]; [congruence | contradiction] | tauto].
Qed.

Lemma dset_keys_in k x d : In k (map fst d) -> map fst (dset k x d) = map fst d.
Proof.
  induction d as [|[k' y] d IH]; cbn [Config.dset map fst In]; [tauto|].
  intros H. destruct (text_eqb k k') eqn:E; cbn [map fst]; [reflexivity|].
  apply text_eqb_false in E. f_equal. apply IH. destruct H as [H|H]; [congruence | exact H].
Qed.

Lemma dset_keys_notin k x d : ~ In k (map fst d) -> dset k x d = d ++ [(k, x)].
Proof.
  induction d as [|[k' y] d IH]; cbn [Config.dset map fst In app]; [reflexivity|].
  intros H. destruct (text_eqb k k') eqn:E.
  - apply text_eqb_eq in E. subst. exfalso; apply H; left; reflexivity.
  - f_equal. apply IH. tauto.
Qed.

Lemma dset_keys_nodup k x d : NoDup (map fst d) -> NoDup (map fst (dset k x d)).
Proof.
  intros H. destruct (in_dec text_eq_dec k (map fst d)) as [Hi|Hn].
  - rewrite dset_keys_in by exact Hi. exact H.
  - rewrite dset_keys_notin by exact Hn. rewrite map_app. cbn [map fst].
    apply NoDup_app_one; assumption.
Qed.

(* ---------------------------------------------------------------------------------------------------------------- *)
(* merge: unfolding *)
Lemma merge_nil r : merge r [] = Ok r.
Proof. reflexivity. Qed.

Lemma merge_cons r k x l :
  merge r ((k, x) :: l) =
  match dget k r with
  | Some (Dict rk) =>
      match x with
      | Dict xs => do rk' <- merge rk xs; merge (dset k (Dict rk') r) l
      | Leaf _ => Err EValue
      end
  | _ => merge (dset k x r) l
  end.
Proof.
  unfold Config.merge. cbn [merge_cfg]. destruct (dget k r) as [[v|rk]|]; try reflexivity.
  destruct x as [v|xs]; reflexivity.
Qed.

(* lookups below the first key depend on the first key's entry only *)
Definition lookup_in (o : option cfg) (p' : list key) : option cfg :=
  match p' with
  | [] => o
  | _ => match o with Some (Dict s) => lookup p' s | _ => None end
  end.

Lemma lookup_cons k p' d : lookup (k :: p') d = lookup_in (dget k d) p'.
Proof. destruct p'; reflexivity. Qed.

Lemma kind_at_nil d : kind_at [] d = None.
Proof. reflexivity. Qed.

Lemma kind_at_empty p : kind_at p [] = None.
Proof.
  destruct p as [|k p']; [reflexivity|]. unfold Config.kind_at. rewrite lookup_cons. cbn [Config.dget].
  destruct p'; reflexivity.
Qed.

Definition over (a b : option (option V)) : option (option V) := match a with Some k => Some k | None => b end.

(* What merge does, observed at a path: the merged-in dict wins wherever it has anything. *)
Lemma merge_kind_cfg : forall c, wf c -> forall d, c = Dict d -> forall r R,
  merge r d = Ok R -> forall p, kind_at p R = over (kind_at p d) (kind_at p r).
Proof.
  induction c as [v|l IHc] using cfg_ind2; intros Hwf d Hd; [discriminate|]. inversion Hd; subst d; clear Hd.
  induction l as [|[k x] l IHl]; intros r R HR p.
  - rewrite merge_nil in HR. inversion HR; subst. rewrite kind_at_empty. reflexivity.
  - apply wfd_cons_inv in Hwf as (Hnk & Hwx & Hwl). inversion IHc as [|? ? Hx Hl]; subst. cbn [snd] in Hx.
    specialize (IHl Hl Hwl).
    rewrite merge_cons in HR.
    destruct p as [|k0 p']; [reflexivity|].
    unfold Config.kind_at. rewrite !lookup_cons. cbn [Config.dget].
    destruct (text_eqb k0 k) eqn:E.
    + apply text_eqb_eq in E; subst k0.
      assert (Hl0 : forall r1 R1, merge r1 l = Ok R1 -> dget k R1 = dget k r1).
      { intros r1 R1 H1. specialize (IHl r1 R1 H1 [k]). unfold Config.kind_at in IHl. cbn [Config.lookup] in IHl.
        apply dget_none_notin in Hnk. rewrite Hnk in IHl. cbn [option_map over] in IHl.
        (* kinds equal is not enough: use a direct argument instead *)
        clear IHl. revert r1 R1 H1. clear -Hnk. induction l as [|[k2 x2] l IH]; intros r1 R1 H1.
        - rewrite merge_nil in H1. inversion H1; reflexivity.
        - cbn [Config.dget] in Hnk. destruct (text_eqb k k2) eqn:E2; [discriminate|]. apply text_eqb_false in E2.
          rewrite merge_cons in H1.
          destruct (dget k2 r1) as [[v|rk]|].
          + apply IH in H1; [|exact Hnk]. rewrite H1. apply dget_dset_other. congruence.
          + destruct x2 as [v|xs]; [discriminate|]. destruct (merge rk xs) as [rk'|e]; [|discriminate]. cbn [bind] in H1.
            apply IH in H1; [|exact Hnk]. rewrite H1. apply dget_dset_other. congruence.
          + apply IH in H1; [|exact Hnk]. rewrite H1. apply dget_dset_other. congruence. }
      destruct (dget k r) as [[v|rk]|] eqn:Er.
      * apply Hl0 in HR. rewrite HR, dget_dset_same.
        destruct p' as [|k1 p'']; [reflexivity|]. cbn [lookup_in].
        destruct x as [vx|xs]; [reflexivity|]. cbn [option_map over].
        destruct (option_map kind_of (lookup (k1 :: p'') xs)); reflexivity.
      * destruct x as [vx|xs]; [discriminate|]. destruct (merge rk xs) as [rk'|e] eqn:Em; [|discriminate]. cbn [bind] in HR.
        apply Hl0 in HR. rewrite HR, dget_dset_same.
        destruct p' as [|k1 p'']; [reflexivity|]. cbn [lookup_in].
        specialize (Hx Hwx xs eq_refl rk rk' Em (k1 :: p'')). exact Hx.
      * apply Hl0 in HR. rewrite HR, dget_dset_same.
        destruct p' as [|k1 p'']; [reflexivity|]. cbn [lookup_in].
        destruct x as [vx|xs]; [reflexivity|]. cbn [option_map over].
        destruct (option_map kind_of (lookup (k1 :: p'') xs)); reflexivity.
    + apply text_eqb_false in E.
      assert (Hstep : forall r1, merge r1 l = Ok R -> dget k0 r1 = dget k0 r ->
                option_map kind_of (lookup_in (dget k0 R) p') =
                over (option_map kind_of (lookup_in (dget k0 l) p')) (option_map kind_of (lookup_in (dget k0 r) p'))).
      { intros r1 H1 H2. specialize (IHl r1 R H1 (k0 :: p')). unfold Config.kind_at in IHl. rewrite !lookup_cons in IHl.
        rewrite IHl, H2. reflexivity. }
      destruct (dget k r) as [[v|rk]|].
      * apply Hstep in HR; [exact HR|]. apply dget_dset_other. congruence.
      * destruct x as [vx|xs]; [discriminate|]. destruct (merge rk xs) as [rk'|e]; [|discriminate]. cbn [bind] in HR.
        apply Hstep in HR; [exact HR|]. apply dget_dset_other. congruence.
      * apply Hstep in HR; [exact HR|]. apply dget_dset_other. congruence.
Qed.


Lemma merge_kind r d R p : wfd d -> merge r d = Ok R -> kind_at p R = over (kind_at p d) (kind_at p r).
Proof. intros Hw H. exact (merge_kind_cfg (Dict d) Hw d eq_refl r R H p). Qed.

(* keys of r that the merged dict does not mention are untouched *)
Lemma merge_dget_other k : forall l r R, dget k l = None -> merge r l = Ok R -> dget k R = dget k r.
Proof.
  induction l as [|[k2 x2] l IH]; intros r R Hnk H1.
  - rewrite merge_nil in H1. inversion H1; reflexivity.
  - cbn [Config.dget] in Hnk. destruct (text_eqb k k2) eqn:E2; [discriminate|]. apply text_eqb_false in E2.
    rewrite merge_cons in H1.
    destruct (dget k2 r) as [[v|rk]|].
    + apply IH in H1; [|exact Hnk]. rewrite H1. apply dget_dset_other. congruence.
    + destruct x2 as [v|xs]; [discriminate|]. destruct (merge rk xs) as [rk'|e]; [|discriminate]. cbn [bind] in H1.
      apply IH in H1; [|exact Hnk]. rewrite H1. apply dget_dset_other. congruence.
    + apply IH in H1; [|exact Hnk]. rewrite H1. apply dget_dset_other. congruence.
Qed.

(* the only exception nested_combine raises is its ValueError *)
Lemma merge_err_cfg : forall c d, c = Dict d -> forall r e, merge r d = Err e -> e = EValue.
Proof.
  induction c as [v|l IHc] using cfg_ind2; intros d Hd; [discriminate|]. inversion Hd; subst d; clear Hd.
  induction l as [|[k x] l IHl]; intros r e HR.
  - rewrite merge_nil in HR. discriminate.
  - inversion IHc as [|? ? Hx Hl]; subst. cbn [snd] in Hx. specialize (IHl Hl).
    rewrite merge_cons in HR. destruct (dget k r) as [[v|rk]|].
    + eapply IHl; exact HR.
    + destruct x as [vx|xs]; [inversion HR; reflexivity|].
      destruct (merge rk xs) as [rk'|e'] eqn:Em; cbn [bind] in HR.
      * eapply IHl; exact HR.
      * inversion HR; subst. eapply (Hx xs eq_refl); exact Em.
    + eapply IHl; exact HR.
Qed.

Lemma merge_err r d e : merge r d = Err e -> e = EValue.
Proof. intros H. exact (merge_err_cfg (Dict d) d eq_refl r e H). Qed.

(* a conflict: the merged-in dict has a *value* where the accumulated dict has a *section* *)
Definition conflict (r d : dict) : Prop := exists p v, kind_at p d = Some (Some v) /\ kind_at p r = Some None.

Lemma kind_cons_same k p' x l (d := (k, x) :: l) : kind_at (k :: p') d = option_map kind_of (lookup_in (Some x) p').
Proof. unfold Config.kind_at. rewrite lookup_cons. subst d. cbn [Config.dget]. rewrite text_eqb_refl. reflexivity. Qed.

Lemma kind_cons_other k k0 p' x l : k0 <> k -> kind_at (k0 :: p') ((k, x) :: l) = kind_at (k0 :: p') l.
Proof.
  intros H. unfold Config.kind_at. rewrite !lookup_cons. cbn [Config.dget].
  apply text_eqb_false in H. rewrite H. reflexivity.
Qed.

Lemma kind_dset_other k k0 p' x r : k0 <> k -> kind_at (k0 :: p') (dset k x r) = kind_at (k0 :: p') r.
Proof.
  intros H. unfold Config.kind_at. rewrite !lookup_cons. rewrite dget_dset_other by congruence. reflexivity.
Qed.

Lemma kind_some_in k0 p' l o : kind_at (k0 :: p') l = Some o -> In k0 (map fst l).
Proof.
  unfold Config.kind_at. rewrite lookup_cons. intros H.
  destruct (in_dec text_eq_dec k0 (map fst l)) as [Hi|Hn]; [exact Hi|].
  apply dget_none_notin in Hn. rewrite Hn in H. destruct p'; discriminate.
Qed.

Lemma merge_conflict_cfg : forall c, wf c -> forall d, c = Dict d -> forall r,
  (merge r d = Err EValue <-> conflict r d).
Proof.
  induction c as [v|l IHc] using cfg_ind2; intros Hwf d Hd; [discriminate|]. inversion Hd; subst d; clear Hd.
  induction l as [|[k x] l IHl]; intros r.
  - rewrite merge_nil. split; [discriminate|]. intros (p & v & H1 & _). rewrite kind_at_empty in H1. discriminate.
  - apply wfd_cons_inv in Hwf as (Hnk & Hwx & Hwl). inversion IHc as [|? ? Hx Hl]; subst. cbn [snd] in Hx.
    specialize (IHl Hl Hwl). specialize (Hx Hwx).
    (* a conflict with the tail l, seen from r updated at k, is a conflict seen from r *)
    assert (Htail : forall y, conflict (dset k y r) l <-> (exists p v, kind_at p l = Some (Some v) /\ kind_at p r = Some None)).
    { intros y. split; intros (p & v & H1 & H2); exists p, v; (split; [exact H1|]);
        (destruct p as [|k0 p']; [rewrite kind_at_empty in H1 || (cbn in H1; discriminate)|]);
        pose proof (kind_some_in _ _ _ _ H1) as Hin;
        assert (k0 <> k) by (intros ->; contradiction).
      - rewrite kind_dset_other in H2 by assumption. exact H2.
      - rewrite kind_dset_other by assumption. exact H2. }
    assert (Hfromtail : forall p v, kind_at p l = Some (Some v) -> kind_at p ((k, x) :: l) = Some (Some v)).
    { intros p v H1. destruct p as [|k0 p']; [cbn in H1; discriminate|].
      pose proof (kind_some_in _ _ _ _ H1) as Hin. rewrite kind_cons_other; [exact H1|]. intros ->; contradiction. }
    rewrite merge_cons. split.
    + (* Err -> conflict *)
      intros HR. destruct (dget k r) as [[v|rk]|] eqn:Er.
      * apply IHl in HR. apply Htail in HR as (p & v' & H1 & H2). exists p, v'. split; [apply Hfromtail; exact H1 | exact H2].
      * destruct x as [vx|xs].
        -- exists [k], vx. split; [rewrite kind_cons_same; reflexivity|].
           unfold Config.kind_at. cbn [Config.lookup]. rewrite Er. reflexivity.
        -- destruct (merge rk xs) as [rk'|e'] eqn:Em; cbn [bind] in HR.
           ++ apply IHl in HR. apply Htail in HR as (p & v' & H1 & H2). exists p, v'. split; [apply Hfromtail; exact H1 | exact H2].
           ++ pose proof (merge_err _ _ _ Em); subst e'. apply (Hx xs eq_refl) in Em as (p & v' & H1 & H2).
              destruct p as [|k1 p'']; [cbn in H1; discriminate|].
              exists (k :: k1 :: p''), v'. split.
              ** rewrite kind_cons_same. exact H1.
              ** unfold Config.kind_at. rewrite lookup_cons, Er. exact H2.
      * apply IHl in HR. apply Htail in HR as (p & v' & H1 & H2). exists p, v'. split; [apply Hfromtail; exact H1 | exact H2].
    + (* conflict -> Err *)
      intros (p & v & H1 & H2). destruct p as [|k0 p']; [cbn in H1; discriminate|].
      destruct (text_eq_dec k0 k) as [->|Hne].
      * rewrite kind_cons_same in H1. unfold Config.kind_at in H2. rewrite lookup_cons in H2.
        destruct (dget k r) as [[vr|rk]|] eqn:Er.
        -- destruct p'; cbn in H2; discriminate.
        -- destruct x as [vx|xs]; [reflexivity|].
           destruct p' as [|k1 p'']; [cbn in H1; discriminate|]. cbn [lookup_in] in H1, H2.
           assert (Hc : conflict rk xs) by (exists (k1 :: p''), v; split; assumption).
           apply (Hx xs eq_refl) in Hc. rewrite Hc. reflexivity.
        -- destruct p'; cbn in H2; discriminate.
      * rewrite kind_cons_other in H1 by exact Hne.
        assert (Hc : forall y, merge (dset k y r) l = Err EValue).
        { intros y. apply IHl. apply Htail. exists (k0 :: p'), v. split; assumption. }
        destruct (dget k r) as [[vr|rk]|]; [apply Hc| |apply Hc].
        destruct x as [vx|xs]; [reflexivity|]. destruct (merge rk xs) as [rk'|e'] eqn:Em; cbn [bind]; [apply Hc|].
        pose proof (merge_err _ _ _ Em); subst e'. reflexivity.
Qed.

Lemma merge_conflict r d : wfd d -> (merge r d = Err EValue <-> conflict r d).
Proof. intros Hw. exact (merge_conflict_cfg (Dict d) Hw d eq_refl r). Qed.

Lemma merge_ok_iff r d : wfd d -> ((exists R, merge r d = Ok R) <-> ~ conflict r d).
Proof.
  intros Hw. split.
  - intros [R HR] Hc. apply merge_conflict in Hc; [|exact Hw]. congruence.
  - intros Hn. destruct (merge r d) as [R|e] eqn:E; [exists R; reflexivity|].
    pose proof (merge_err _ _ _ E); subst e. apply merge_conflict in E; [contradiction|exact Hw].
Qed.


(* ---------------------------------------------------------------------------------------------------------------- *)
(* merge keeps dicts well-formed *)
Lemma wfd_dset k x d : wfd d -> wf x -> wfd (dset k x d).
Proof.
  intros Hd Hx. inversion Hd as [|? Hn Hf]; subst. constructor; [apply dset_keys_nodup; exact Hn|].
  clear Hn Hd. induction d as [|[k' y] d IH]; cbn [Config.dset].
  - constructor; [exact Hx|constructor].
  - inversion Hf; subst. destruct (text_eqb k k'); constructor; try assumption. apply IH; assumption.
Qed.

Lemma wfd_dget k d x : wfd d -> dget k d = Some x -> wf x.
Proof.
  intros Hd. inversion Hd as [|? Hn Hf]; subst. clear Hn Hd. induction d as [|[k' y] d IH]; cbn [Config.dget]; [discriminate|].
  inversion Hf; subst. destruct (text_eqb k k'); [intros H; inversion H; subst; assumption | apply IH; assumption].
Qed.

Lemma merge_wf_cfg : forall c, wf c -> forall d, c = Dict d -> forall r R, wfd r -> merge r d = Ok R -> wfd R.
Proof.
  induction c as [v|l IHc] using cfg_ind2; intros Hwf d Hd; [discriminate|]. inversion Hd; subst d; clear Hd.
  induction l as [|[k x] l IHl]; intros r R Hr HR.
  - rewrite merge_nil in HR. inversion HR; subst; exact Hr.
  - apply wfd_cons_inv in Hwf as (Hnk & Hwx & Hwl). inversion IHc as [|? ? Hx Hl]; subst. cbn [snd] in Hx.
    specialize (IHl Hl Hwl). rewrite merge_cons in HR.
    destruct (dget k r) as [[v|rk]|] eqn:Er.
    + eapply IHl; [|exact HR]. apply wfd_dset; assumption.
    + destruct x as [vx|xs]; [discriminate|]. destruct (merge rk xs) as [rk'|e] eqn:Em; [|discriminate]. cbn [bind] in HR.
      eapply IHl; [|exact HR]. apply wfd_dset; [assumption|].
      eapply (Hx Hwx xs eq_refl rk rk'); [|exact Em]. eapply wfd_dget; eassumption.
    + eapply IHl; [|exact HR]. apply wfd_dset; assumption.
Qed.

Lemma merge_wf r d R : wfd r -> wfd d -> merge r d = Ok R -> wfd R.
Proof. intros Hr Hd H. exact (merge_wf_cfg (Dict d) Hd d eq_refl r R Hr H). Qed.

(* top-level keys stay distinct whatever is merged in *)
Lemma merge_nodup : forall d r R, NoDup (map fst r) -> merge r d = Ok R -> NoDup (map fst R).
Proof.
  induction d as [|[k x] l IH]; intros r R Hr HR.
  - rewrite merge_nil in HR. inversion HR; subst; exact Hr.
  - rewrite merge_cons in HR. destruct (dget k r) as [[v|rk]|].
    + eapply IH; [|exact HR]. apply dset_keys_nodup; exact Hr.
    + destruct x as [vx|xs]; [discriminate|]. destruct (merge rk xs) as [rk'|e]; [|discriminate]. cbn [bind] in HR.
      eapply IH; [|exact HR]. apply dset_keys_nodup; exact Hr.
    + eapply IH; [|exact HR]. apply dset_keys_nodup; exact Hr.
Qed.

(* merging into a dict with disjoint keys is appending: in particular `nested_combine(d)` copies d *)
Lemma merge_disjoint : forall l acc, NoDup (map fst l) -> (forall k, In k (map fst l) -> ~ In k (map fst acc)) ->
  merge acc l = Ok (acc ++ l).
Proof.
  induction l as [|[k x] l IH]; intros acc Hn Hd.
  - rewrite merge_nil, app_nil_r. reflexivity.
  - cbn [map fst] in Hn. inversion Hn as [|? ? Hk Hn']; subst. rewrite merge_cons.
    assert (Hka : ~ In k (map fst acc)) by (apply Hd; left; reflexivity).
    pose proof Hka as Hka'. apply dget_none_notin in Hka'. rewrite Hka'. rewrite dset_keys_notin by exact Hka.
    rewrite IH; [rewrite <- app_assoc; reflexivity | exact Hn' |].
    intros k2 H2 H3. rewrite map_app in H3. apply in_app_or in H3 as [H3|[H3|[]]].
    + eapply Hd; [right; exact H2 | exact H3].
    + cbn [fst] in H3. subst k2. contradiction.
Qed.

Lemma merge_into_empty d : NoDup (map fst d) -> merge [] d = Ok d.
Proof. intros H. rewrite merge_disjoint; [reflexivity | exact H | intros k _ []]. Qed.

(* ---------------------------------------------------------------------------------------------------------------- *)
(* nested_combine *)
Definition combine_from (acc : res dict) (ds : list dict) : res dict :=
  fold_left (fun acc d => do r <- acc; merge r d) ds acc.

Lemma nested_combine_eq ds : nested_combine ds = combine_from (Ok []) ds.
Proof. reflexivity. Qed.

Lemma combine_from_err e ds : combine_from (Err e) ds = Err e.
Proof. induction ds as [|d ds IH]; [reflexivity|]. cbn [combine_from fold_left bind]. exact IH. Qed.

Lemma combine_from_cons r d ds : combine_from (Ok r) (d :: ds) = combine_from (merge r d) ds.
Proof. reflexivity. Qed.

Lemma combine_from_app acc l1 l2 : combine_from acc (l1 ++ l2) = combine_from (combine_from acc l1) l2.
Proof. unfold combine_from. apply fold_left_app. Qed.

Lemma combine_from_wf : forall ds r R, wfd r -> Forall wfd ds -> combine_from (Ok r) ds = Ok R -> wfd R.
Proof.
  induction ds as [|d ds IH]; intros r R Hr Hds H.
  - inversion H; subst; exact Hr.
  - inversion Hds; subst. rewrite combine_from_cons in H. destruct (merge r d) as [r1|e] eqn:Em.
    + eapply IH; [|eassumption|exact H]. apply (merge_wf r d r1 Hr); [assumption | exact Em].
    + rewrite combine_from_err in H. discriminate.
Qed.

Lemma nested_combine_wf ds R : Forall wfd ds -> nested_combine ds = Ok R -> wfd R.
Proof. intros Hds H. eapply combine_from_wf; [apply wfd_nil | exact Hds | exact H]. Qed.

Lemma combine_from_nodup : forall ds r R, NoDup (map fst r) -> combine_from (Ok r) ds = Ok R -> NoDup (map fst R).
Proof.
  induction ds as [|d ds IH]; intros r R Hr H.
  - inversion H; subst; exact Hr.
  - rewrite combine_from_cons in H. destruct (merge r d) as [r1|e] eqn:Em.
    + eapply IH; [|exact H]. eapply merge_nodup; eassumption.
    + rewrite combine_from_err in H. discriminate.
Qed.

Lemma nested_combine_nodup ds R : nested_combine ds = Ok R -> NoDup (map fst R).
Proof. intros H. apply (combine_from_nodup ds [] R); [constructor | exact H]. Qed.

Lemma nested_combine_err ds e : nested_combine ds = Err e -> e = EValue.
Proof.
  rewrite nested_combine_eq. generalize (@nil (key * cfg)) as r. induction ds as [|d ds IH]; intros r H; [discriminate|].
  rewrite combine_from_cons in H. destruct (merge r d) as [r1|e1] eqn:Em.
  - eapply IH; exact H.
  - rewrite combine_from_err in H. inversion H; subst. eapply merge_err; exact Em.
Qed.

Notation last_some := (@last_some (option V)).

Lemma last_some_app {A} (l1 l2 : list (option A)) :
  Config.last_some (l1 ++ l2) = match Config.last_some l2 with Some a => Some a | None => Config.last_some l1 end.
Proof.
  induction l1 as [|o l1 IH]; cbn [app Config.last_some].
  - destruct (Config.last_some l2); reflexivity.
  - rewrite IH. destruct (Config.last_some l2); reflexivity.
Qed.

(* combine_rightmost, from any accumulated dict *)
Lemma combine_from_kind : forall ds r R p, Forall wfd ds -> combine_from (Ok r) ds = Ok R ->
  kind_at p R = over (last_some (map (kind_at p) ds)) (kind_at p r).
Proof.
  induction ds as [|d ds IH]; intros r R p Hds H.
  - inversion H; subst. reflexivity.
  - inversion Hds; subst. rewrite combine_from_cons in H. destruct (merge r d) as [r1|e] eqn:Em.
    + rewrite (IH r1 R p) by assumption. rewrite (merge_kind r d r1 p) by assumption.
      cbn [map Config.last_some]. destruct (last_some (map (kind_at p) ds)); [reflexivity|].
      cbn [over]. reflexivity.
    + rewrite combine_from_err in H. discriminate.
Qed.

Theorem combine_rightmost ds R p : Forall wfd ds -> nested_combine ds = Ok R ->
  kind_at p R = last_some (map (kind_at p) ds).
Proof.
  intros Hds H. rewrite (combine_from_kind ds [] R p Hds H). rewrite kind_at_empty.
  destruct (last_some (map (kind_at p) ds)); reflexivity.
Qed.

(* when does nested_combine raise: exactly when some dict sets a value at a path that the dicts before it, combined, hold
   as a section *)
Theorem combine_error_iff ds : Forall wfd ds ->
  (nested_combine ds = Err EValue <->
   exists ds1 d ds2 p v, ds = ds1 ++ d :: ds2 /\ kind_at p d = Some (Some v) /\ last_some (map (kind_at p) ds1) = Some None).
Proof.
  intros Hds. rewrite nested_combine_eq.
  (* generalise over the accumulated prefix *)
  assert (G : forall ds pre r, Forall wfd pre -> Forall wfd ds -> nested_combine pre = Ok r ->
            (combine_from (Ok r) ds = Err EValue <->
             exists ds1 d ds2 p v, ds = ds1 ++ d :: ds2 /\ kind_at p d = Some (Some v) /\
                                   last_some (map (kind_at p) (pre ++ ds1)) = Some None)).
  { clear ds Hds. induction ds as [|d ds IH]; intros pre r Hpre Hds Hr.
    - split; [discriminate|]. intros (ds1 & d & ds2 & p & v & H & _). destruct ds1; discriminate.
    - inversion Hds as [|? ? Hd Hds']; subst. rewrite combine_from_cons.
      destruct (merge r d) as [r1|e] eqn:Em.
      + assert (Hr1 : nested_combine (pre ++ [d]) = Ok r1).
        { rewrite nested_combine_eq, combine_from_app. rewrite <- nested_combine_eq, Hr. cbn. exact Em. }
        rewrite (IH (pre ++ [d]) r1); [| apply Forall_app; split; [exact Hpre | constructor; [exact Hd|constructor]] | exact Hds' | exact Hr1].
        split.
        * intros (ds1 & d' & ds2 & p & v & H1 & H2 & H3). exists (d :: ds1), d', ds2, p, v.
          split; [cbn [app]; congruence|]. split; [exact H2|]. rewrite <- app_assoc in H3. exact H3.
        * intros (ds1 & d' & ds2 & p & v & H1 & H2 & H3). destruct ds1 as [|d0 ds1].
          -- cbn [app] in H1. inversion H1; subst d' ds2. rewrite app_nil_r in H3.
             exfalso. assert (Hc : conflict r d).
             { exists p, v. split; [exact H2|]. rewrite (combine_rightmost pre r p Hpre Hr). exact H3. }
             apply merge_conflict in Hc; [congruence | exact Hd].
          -- cbn [app] in H1. inversion H1; subst d0 ds. exists ds1, d', ds2, p, v.
             split; [reflexivity|]. split; [exact H2|]. rewrite <- app_assoc. exact H3.
      + pose proof (merge_err _ _ _ Em); subst e. rewrite combine_from_err. split; [|reflexivity]. intros _.
        apply merge_conflict in Em as (p & v & H1 & H2); [|exact Hd].
        exists [], d, ds, p, v. split; [reflexivity|]. split; [exact H1|]. rewrite app_nil_r.
        rewrite <- (combine_rightmost pre r p Hpre Hr). exact H2. }
  specialize (G ds [] [] (Forall_nil _) Hds eq_refl). exact G.
Qed.

(* ---- staged combination ---- *)
(* (1) left-nested stages, as load_config_at_path and load_config_file do: exactly the flat combination, errors included *)
Theorem combine_assoc_prefix l1 l2 :
  nested_combine (l1 ++ l2) = do r <- nested_combine l1; nested_combine (r :: l2).
Proof.
  rewrite !nested_combine_eq, combine_from_app. destruct (combine_from (Ok []) l1) as [r|e] eqn:E; cbn [bind].
  - rewrite nested_combine_eq, combine_from_cons. rewrite merge_into_empty; [reflexivity|]. eapply nested_combine_nodup. exact E.
  - apply combine_from_err.
Qed.

(* (2) a stage in the middle, as load_config_up_to_path (one dict per directory) and FluffConfig.__init__ do: every path
   shows the same thing as in the flat combination *)
Theorem combine_assoc_obs l1 l2 l3 m R R' p :
  Forall wfd l1 -> Forall wfd l2 -> Forall wfd l3 ->
  nested_combine l2 = Ok m -> nested_combine (l1 ++ m :: l3) = Ok R -> nested_combine (l1 ++ l2 ++ l3) = Ok R' ->
  kind_at p R = kind_at p R'.
Proof.
  intros H1 H2 H3 Hm HR HR'.
  assert (Hwm : wfd m) by exact (nested_combine_wf l2 m H2 Hm).
  rewrite (combine_rightmost (l1 ++ m :: l3) R p); [| apply Forall_app; split; [exact H1 | constructor; assumption] | exact HR].
  rewrite (combine_rightmost (l1 ++ l2 ++ l3) R' p); [| apply Forall_app; split; [exact H1 | apply Forall_app; split; assumption] | exact HR'].
  rewrite !map_app. cbn [map]. rewrite !last_some_app. cbn [Config.last_some].
  rewrite (combine_rightmost l2 m p H2 Hm).
  destruct (last_some (map (kind_at p) l3)); [reflexivity|].
  destruct (last_some (map (kind_at p) l2)); reflexivity.
Qed.


(* ---------------------------------------------------------------------------------------------------------------- *)
(* (3) a stage in the middle, exactly: when the flat combination succeeds, combining a middle segment first gives the very
   same dict (same values, same key order).  The converse fails (Properties/C27.v has the example): a stage can succeed
   where the flat combination raises. *)

(* what nested_combine computes for one key: old entry (if any) joined with the new value *)
Definition join (o : option cfg) (x : cfg) : res cfg :=
  match o with
  | Some (Dict rk) =>
      match x with
      | Dict xs => do rk' <- merge rk xs; Ok (Dict rk')
      | Leaf _ => Err EValue
      end
  | _ => Ok x
  end.

Lemma merge_cons_join r k x l : merge r ((k, x) :: l) = do y <- join (dget k r) x; merge (dset k y r) l.
Proof.
  rewrite merge_cons. unfold join. destruct (dget k r) as [[v|rk]|]; try reflexivity.
  destruct x as [v|xs]; [reflexivity|]. destruct (merge rk xs); reflexivity.
Qed.

Lemma merge_app : forall l1 l2 r, merge r (l1 ++ l2) = do r1 <- merge r l1; merge r1 l2.
Proof.
  induction l1 as [|[k x] l1 IH]; intros l2 r; [reflexivity|]. cbn [app]. rewrite !merge_cons_join.
  destruct (join (dget k r) x) as [y|e]; cbn [bind]; [apply IH | reflexivity].
Qed.

Lemma dset_dset_same k y y0 d : dset k y (dset k y0 d) = dset k y d.
Proof.
  induction d as [|[k' w] d IH]; cbn [Config.dset].
  - rewrite text_eqb_refl. reflexivity.
  - destruct (text_eqb k k') eqn:E; cbn [Config.dset]; rewrite E; [reflexivity | rewrite IH; reflexivity].
Qed.

Lemma dset_comm k k2 y z d : k <> k2 -> In k (map fst d) -> dset k2 z (dset k y d) = dset k y (dset k2 z d).
Proof.
  intros Hne. induction d as [|[k' w] d IH]; cbn [map fst In]; [tauto|]. intros Hin. cbn [Config.dset].
  destruct (text_eqb k k') eqn:E1.
  - apply text_eqb_eq in E1; subst k'. cbn [Config.dset].
    destruct (text_eqb k2 k) eqn:E2; [apply text_eqb_eq in E2; congruence|]. cbn [Config.dset]. rewrite text_eqb_refl. reflexivity.
  - apply text_eqb_false in E1. destruct Hin as [Hin|Hin]; [congruence|]. cbn [Config.dset].
    destruct (text_eqb k2 k') eqn:E2; cbn [Config.dset].
    + apply text_eqb_false in E1. rewrite E1. reflexivity.
    + apply text_eqb_false in E1. rewrite E1. rewrite IH by exact Hin. reflexivity.
Qed.

Lemma dset_in_keys k y d : In k (map fst (dset k y d)).
Proof.
  destruct (in_dec text_eq_dec k (map fst d)) as [Hi|Hn].
  - rewrite dset_keys_in by exact Hi. exact Hi.
  - rewrite dset_keys_notin by exact Hn. rewrite map_app. apply in_or_app. right. left. reflexivity.
Qed.

Lemma dset_keys_mono k k2 y d : In k (map fst d) -> In k (map fst (dset k2 y d)).
Proof.
  intros H. destruct (in_dec text_eq_dec k2 (map fst d)) as [Hi|Hn].
  - rewrite dset_keys_in by exact Hi. exact H.
  - rewrite dset_keys_notin by exact Hn. rewrite map_app. apply in_or_app. left. exact H.
Qed.

(* frame: a key that is already present and that l does not mention can be rewritten before or after merging l *)
Lemma merge_frame k y : forall l X R, In k (map fst X) -> dget k l = None -> merge X l = Ok R ->
  merge (dset k y X) l = Ok (dset k y R).
Proof.
  induction l as [|[k2 x2] l IH]; intros X R Hin Hnk H.
  - rewrite merge_nil in *. inversion H; reflexivity.
  - cbn [Config.dget] in Hnk. destruct (text_eqb k k2) eqn:E; [discriminate|]. apply text_eqb_false in E.
    rewrite merge_cons_join in *. rewrite dget_dset_other by exact E.
    destruct (join (dget k2 X) x2) as [z|e]; [|discriminate]. cbn [bind] in *.
    rewrite dset_comm by assumption. apply IH; [apply dset_keys_mono; exact Hin | exact Hnk | exact H].
Qed.

Lemma wfd_tail_dget k x l : wfd ((k, x) :: l) -> dget k l = None.
Proof. intros H. apply wfd_cons_inv in H as (Hn & _ & _). apply dget_none_notin. exact Hn. Qed.

(* G: what the merged result holds at a key of the merged-in dict *)
Lemma merge_dget_in k : forall A r R xold, wfd A -> merge r A = Ok R -> dget k A = Some xold ->
  exists yold, join (dget k r) xold = Ok yold /\ dget k R = Some yold.
Proof.
  induction A as [|[k1 x1] A IH]; intros r R xold Hw H Hk; [discriminate|].
  pose proof (wfd_tail_dget _ _ _ Hw) as Hnk. apply wfd_cons_inv in Hw as (_ & _ & Hw').
  rewrite merge_cons_join in H. cbn [Config.dget] in Hk. destruct (text_eqb k k1) eqn:E.
  - apply text_eqb_eq in E; subst k1. inversion Hk; subst x1.
    destruct (join (dget k r) xold) as [y|e]; [|discriminate]. cbn [bind] in H. exists y. split; [reflexivity|].
    rewrite (merge_dget_other k A _ R Hnk H). apply dget_dset_same.
  - apply text_eqb_false in E. destruct (join (dget k1 r) x1) as [y1|e]; [|discriminate]. cbn [bind] in H.
    destruct (IH _ _ _ Hw' H Hk) as (yold & H1 & H2). exists yold. split; [|exact H2].
    rewrite dget_dset_other in H1 by congruence. exact H1.
Qed.

(* U: replacing the value of one key of the merged-in dict *)
Lemma merge_update k xnew : forall A r R xold, wfd A -> merge r A = Ok R -> dget k A = Some xold ->
  merge r (dset k xnew A) = do y <- join (dget k r) xnew; Ok (dset k y R).
Proof.
  induction A as [|[k1 x1] A IH]; intros r R xold Hw H Hk; [discriminate|].
  pose proof (wfd_tail_dget _ _ _ Hw) as Hnk. apply wfd_cons_inv in Hw as (_ & _ & Hw').
  rewrite merge_cons_join in H. cbn [Config.dget] in Hk. cbn [Config.dset]. destruct (text_eqb k k1) eqn:E.
  - apply text_eqb_eq in E; subst k1. rewrite merge_cons_join.
    destruct (join (dget k r) x1) as [y1|e1]; [|discriminate]. cbn [bind] in H.
    destruct (join (dget k r) xnew) as [y|e]; [|reflexivity]. cbn [bind].
    rewrite <- (dset_dset_same k y y1 r). apply merge_frame; [apply dset_in_keys | exact Hnk | exact H].
  - apply text_eqb_false in E. rewrite merge_cons_join.
    destruct (join (dget k1 r) x1) as [y1|e1]; [|discriminate]. cbn [bind] in *.
    rewrite (IH _ _ _ Hw' H Hk). rewrite dget_dset_other by congruence. reflexivity.
Qed.

Lemma merge_assoc_cfg : forall c, wf c -> forall b, c = Dict b -> forall r a r1 r2,
  wfd a -> merge r a = Ok r1 -> merge r1 b = Ok r2 ->
  exists ab, merge a b = Ok ab /\ merge r ab = Ok r2.
Proof.
  induction c as [v|l IHc] using cfg_ind2; intros Hwf b Hb; [discriminate|]. inversion Hb; subst b; clear Hb.
  induction l as [|[k x] l IHl]; intros r a r1 r2 Hwa Ha Hb.
  - rewrite merge_nil in Hb. inversion Hb; subst. exists a. split; [reflexivity | exact Ha].
  - apply wfd_cons_inv in Hwf as (Hnk & Hwx & Hwl). inversion IHc as [|? ? Hx Hl]; subst. cbn [snd] in Hx.
    specialize (IHl Hl Hwl). specialize (Hx Hwx).
    rewrite merge_cons_join in Hb. destruct (join (dget k r1) x) as [y'|e] eqn:Ej; [|discriminate]. cbn [bind] in Hb.
    (* the single-entry step *)
    assert (SE : exists z, join (dget k a) x = Ok z /\ wf z /\ merge r (dset k z a) = Ok (dset k y' r1)).
    { destruct (dget k a) as [xa|] eqn:Eka.
      - destruct (merge_dget_in k a r r1 xa Hwa Ha Eka) as (yold & Hj & Hr1).
        pose proof (wfd_dget _ _ _ Hwa Eka) as Hwxa.
        rewrite Hr1 in Ej. destruct xa as [va|as_].
        + (* a value in a *)
          assert (Hnd : join (dget k r) (Leaf va) = Ok (Leaf va) /\ yold = Leaf va /\ forall w, join (dget k r) w = Ok w).
          { unfold join in Hj |- *. destruct (dget k r) as [[vr|rr]|]; [| discriminate |]; inversion Hj; auto. }
          destruct Hnd as (_ & -> & Hany). cbn [join] in Ej. inversion Ej; subst y'.
          exists x. split; [reflexivity|]. split; [exact Hwx|].
          rewrite (merge_update k x a r r1 _ Hwa Ha Eka), Hany. reflexivity.
        + (* a section in a *)
          destruct (dget k r) as [[vr|rr]|] eqn:Ekr.
          * cbn [join] in Hj. inversion Hj; subst yold. cbn [join] in Ej |- *.
            destruct x as [vx|xs]; [discriminate|]. destruct (merge as_ xs) as [m2|e] eqn:Em; [|discriminate]. cbn [bind] in Ej.
            inversion Ej; subst y'. exists (Dict m2). split; [reflexivity|].
            split; [eapply merge_wf; [exact Hwxa | exact Hwx | exact Em]|].
            rewrite (merge_update k (Dict m2) a r r1 _ Hwa Ha Eka), Ekr. reflexivity.
          * cbn [join] in Hj. destruct (merge rr as_) as [m1|e] eqn:Em1; [|discriminate]. cbn [bind] in Hj.
            inversion Hj; subst yold. cbn [join] in Ej |- *.
            destruct x as [vx|xs]; [discriminate|]. destruct (merge m1 xs) as [m2|e] eqn:Em2; [|discriminate]. cbn [bind] in Ej.
            inversion Ej; subst y'.
            destruct (Hx xs eq_refl rr as_ m1 m2 Hwxa Em1 Em2) as (axs & Hax & Hrax).
            rewrite Hax. cbn [bind]. exists (Dict axs). split; [reflexivity|].
            split; [eapply merge_wf; [exact Hwxa | exact Hwx | exact Hax]|].
            rewrite (merge_update k (Dict axs) a r r1 _ Hwa Ha Eka), Ekr. cbn [join]. rewrite Hrax. reflexivity.
          * cbn [join] in Hj. inversion Hj; subst yold. cbn [join] in Ej |- *.
            destruct x as [vx|xs]; [discriminate|]. destruct (merge as_ xs) as [m2|e] eqn:Em; [|discriminate]. cbn [bind] in Ej.
            inversion Ej; subst y'. exists (Dict m2). split; [reflexivity|].
            split; [eapply merge_wf; [exact Hwxa | exact Hwx | exact Em]|].
            rewrite (merge_update k (Dict m2) a r r1 _ Hwa Ha Eka), Ekr. reflexivity.
      - (* k is new in a *)
        exists x. split; [reflexivity|]. split; [exact Hwx|].
        pose proof Eka as Hn. apply dget_none_notin in Hn. rewrite dset_keys_notin by exact Hn.
        rewrite merge_app, Ha. cbn [bind]. rewrite merge_cons_join, Ej. reflexivity. }
    destruct SE as (z & Hz & Hwz & Hm).
    destruct (IHl r (dset k z a) (dset k y' r1) r2 (wfd_dset k z a Hwa Hwz) Hm Hb) as (ab & Hab & Hrab).
    exists ab. split; [|exact Hrab]. rewrite merge_cons_join, Hz. exact Hab.
Qed.

Lemma merge_assoc r a b r1 r2 : wfd a -> wfd b -> merge r a = Ok r1 -> merge r1 b = Ok r2 ->
  exists ab, merge a b = Ok ab /\ merge r ab = Ok r2.
Proof. intros Ha Hb. exact (merge_assoc_cfg (Dict b) Hb b eq_refl r a r1 r2 Ha). Qed.

Lemma combine_from_stage : forall l2 r r', Forall wfd l2 -> combine_from (Ok r) l2 = Ok r' ->
  exists m, nested_combine l2 = Ok m /\ merge r m = Ok r'.
Proof.
  induction l2 as [|b l IH] using rev_ind; intros r r' Hw H.
  - inversion H; subst. exists []. split; reflexivity.
  - apply Forall_app in Hw as [Hwl Hwb]. inversion Hwb as [|? ? Hb _]; subst.
    rewrite combine_from_app in H. destruct (combine_from (Ok r) l) as [r1|e] eqn:E1.
    + destruct (IH r r1 Hwl E1) as (m1 & Hm1 & Hr1). cbn in H.
      destruct (merge_assoc r m1 b r1 r' (nested_combine_wf l m1 Hwl Hm1) Hb Hr1 H) as (ab & Hab & Hrab).
      exists ab. split; [|exact Hrab]. rewrite nested_combine_eq, combine_from_app, <- nested_combine_eq, Hm1. cbn. exact Hab.
    + cbn in H. discriminate.
Qed.

Theorem combine_assoc l1 l2 l3 R : Forall wfd l2 -> nested_combine (l1 ++ l2 ++ l3) = Ok R ->
  exists m, nested_combine l2 = Ok m /\ nested_combine (l1 ++ m :: l3) = Ok R.
Proof.
  intros Hw H. rewrite nested_combine_eq, !combine_from_app in H.
  destruct (combine_from (Ok []) l1) as [r|e] eqn:E1; [|rewrite !combine_from_err in H; discriminate].
  destruct (combine_from (Ok r) l2) as [r'|e] eqn:E2; [|rewrite combine_from_err in H; discriminate].
  destruct (combine_from_stage l2 r r' Hw E2) as (m & Hm & Hrm). exists m. split; [exact Hm|].
  rewrite nested_combine_eq, combine_from_app, E1, combine_from_cons, Hrm. exact H.
Qed.

End WithValues.
