From SF Require Import Base.Prelude Model.FixLoop.

Section FixLoopP.
  Variables T F : Type.
  Variables (teq : T -> T -> bool) (feq : F -> F -> bool).
  Notation rule := (rule T F).
  Notation st := (st T F).

  (* a reflexive-transitive relation that every VALIDATED proposal respects *)
  Variable R : T -> T -> Prop.
  Hypothesis R_refl : forall t, R t t.
  Hypothesis R_trans : forall a b c, R a b -> R b c -> R a c.

  Definition respects (rules : list rule) : Prop :=
    forall r s f nt, In r rules -> propose T F r s = Some (f, nt, true) -> R s nt.

  Lemma adopt_rel t0 (s : st) f nt v : R t0 (tree T F s) -> (v = true -> R (tree T F s) nt) -> R t0 (tree T F (adopt T F teq s f nt v)).
  Proof.
    intros H Hv. unfold adopt. destruct (teq nt (tree T F s)); [exact H|]. destruct v; cbn [negb]; [|exact H].
    destruct (existsb (teq nt) (prev T F s)); [exact H|]. cbn [tree]. eapply R_trans; [exact H|apply Hv; reflexivity].
  Qed.

  Lemma run_rule_rel t0 rules first (s : st) r : respects rules -> In r rules -> R t0 (tree T F s) -> R t0 (tree T F (run_rule T F teq feq first s r)).
  Proof.
    intros Hr Hin H. unfold run_rule. destruct (negb first && negb (r_fixcompat T F r)); [exact H|].
    destruct (propose T F r (tree T F s)) as [[[f nt] v]|] eqn:Ep; [|exact H].
    destruct (match last T F s with Some l => feq l f | None => false end); [exact H|].
    apply adopt_rel; [exact H|]. intros ->. eapply Hr; [exact Hin|exact Ep].
  Qed.

  Lemma pass_rel t0 all first rules (s : st) : respects all -> incl rules all -> R t0 (tree T F s) -> R t0 (tree T F (pass T F teq feq first rules s)).
  Proof.
    intros Hr Hi H. unfold pass.
    set (s0 := {| tree := tree T F s; last := last T F s; prev := prev T F s; changed := false |}).
    assert (H0 : R t0 (tree T F s0)) by exact H. clearbody s0. clear H s.
    revert s0 H0. induction rules as [|r rs IH]; intros s0 H0; cbn [fold_left]; [exact H0|].
    apply IH; [intros x Hx; apply Hi; right; exact Hx|]. eapply run_rule_rel; [exact Hr|apply Hi; left; reflexivity|exact H0].
  Qed.

  Lemma loop_rel t0 all n : forall first rules (s s' : st), respects all -> incl rules all -> R t0 (tree T F s) ->
    loop T F teq feq n first rules s = Some s' -> R t0 (tree T F s').
  Proof.
    induction n as [|k IH]; intros first rules s s' Hr Hi H E; cbn [loop] in E; [discriminate|].
    pose proof (pass_rel t0 all first rules s Hr Hi H) as Hp.
    destruct (changed T F (pass T F teq feq first rules s)); [eapply IH; eassumption|inversion E; subst; exact Hp].
  Qed.

  (* whatever the rules, the limit and the number of passes: the returned tree is related to the input tree *)
  Theorem lint_fix_rel limit rules t0 : respects rules -> R t0 (fst (lint_fix T F teq feq limit rules t0)).
  Proof.
    intros Hr. unfold lint_fix.
    destruct (loop T F teq feq limit true rules _) as [s1|] eqn:E1; [|apply R_refl].
    assert (H1 : R t0 (tree T F s1)).
    { eapply (loop_rel t0 rules); [exact Hr|apply incl_refl| |exact E1]. apply R_refl. }
    destruct (loop T F teq feq 2 false (filter (r_post T F) rules) s1) as [s2|] eqn:E2; [|apply R_refl].
    cbn [fst]. eapply (loop_rel t0 rules); [exact Hr| |exact H1|exact E2].
    intros x Hx. apply filter_In in Hx. exact (proj1 Hx).
  Qed.

  (* loop limit: the original tree comes back *)
  Theorem limit_rollback limit rules t0 : snd (lint_fix T F teq feq limit rules t0) = true -> fst (lint_fix T F teq feq limit rules t0) = t0.
  Proof.
    unfold lint_fix. destruct (loop T F teq feq limit true rules _) as [s1|]; [|reflexivity].
    destruct (loop T F teq feq 2 false _ s1); [discriminate|reflexivity].
  Qed.

  (* a tree on which no rule proposes a fix is returned unchanged *)
  Lemma pass_nofix first rules (s : st) :
    (forall r, In r rules -> propose T F r (tree T F s) = None) ->
    pass T F teq feq first rules s = {| tree := tree T F s; last := last T F s; prev := prev T F s; changed := false |}.
  Proof.
    intros H. unfold pass.
    set (s0 := {| tree := tree T F s; last := last T F s; prev := prev T F s; changed := false |}).
    assert (H0 : forall r, In r rules -> propose T F r (tree T F s0) = None) by exact H. clearbody s0. clear H.
    revert s0 H0. induction rules as [|r rs IH]; intros s0 H0; cbn [fold_left]; [reflexivity|].
    assert (E : run_rule T F teq feq first s0 r = s0).
    { unfold run_rule. destruct (negb first && negb (r_fixcompat T F r)); [reflexivity|]. rewrite (H0 r (or_introl eq_refl)). reflexivity. }
    rewrite E. apply IH. intros x Hx. apply H0. right. exact Hx.
  Qed.

  Theorem no_fix_identity limit rules t0 :
    0 < limit -> (forall r, In r rules -> propose T F r t0 = None) -> lint_fix T F teq feq limit rules t0 = (t0, false).
  Proof.
    intros Hl H. unfold lint_fix. destruct limit as [|k]; [lia|]. cbn [loop].
    rewrite pass_nofix by exact H. cbn [changed tree last prev].
    rewrite pass_nofix by (cbn [tree]; intros r Hr; apply H; apply filter_In in Hr; exact (proj1 Hr)). reflexivity.
  Qed.
End FixLoopP.
