From SF Require Import Base.Prelude Model.Funnel.

Lemma crawl_total rule evals acc : rule_evals_ok evals = true -> exists vs, crawl rule evals acc = Val vs.
Proof.
  revert acc. induction evals as [|o r IH]; intros acc H; cbn [crawl].
  - eauto.
  - cbn [rule_evals_ok forallb] in H. apply andb_true_iff in H as [Ho Hr].
    destruct o as [n|x]; [apply IH; exact Hr|]. destruct x; try discriminate; eauto.
Qed.

Lemma run_rules_total rs acc :
  forallb (fun re => rule_evals_ok (snd re)) rs = true -> exists vs, run_rules rs acc = Val vs.
Proof.
  revert acc. induction rs as [|[r evals] rest IH]; intros acc H; cbn [run_rules].
  - eauto.
  - cbn [forallb snd] in H. apply andb_true_iff in H as [H1 H2].
    destruct (crawl_total r evals [] H1) as [vs ->]. apply IH; exact H2.
Qed.

Lemma lint_variant_total mx v : variant_ok v = true -> exists vs, lint_variant mx v = Val vs.
Proof.
  unfold variant_ok, lint_variant. intros H. apply andb_true_iff in H as [H Hr]. apply andb_true_iff in H as [Hl Hp].
  destruct (v_lex v) as [lv|x]; [|destruct x; try discriminate; eauto].
  destruct ((0 <? mx) && (mx <? v_tokens v)); [eauto|].
  destruct (v_parse v) as [u|x]; [|destruct x; try discriminate; eauto].
  destruct (run_rules_total (v_rules v) [] Hr) as [vs ->]. eauto.
Qed.

Lemma lint_variants_total mx vs acc : forallb variant_ok vs = true -> exists r, lint_variants mx vs acc = Val r.
Proof.
  revert acc. induction vs as [|v r IH]; intros acc H; cbn [lint_variants]; [eauto|].
  cbn [forallb] in H. apply andb_true_iff in H as [H1 H2].
  destruct (lint_variant_total mx v H1) as [l ->]. apply IH; exact H2.
Qed.

Theorem lint_string_total mx t : templ_ok t = true -> exists vs, lint_string mx t = Val vs.
Proof.
  unfold templ_ok, lint_string. intros H. destruct t as [[vs n]|x]; [apply lint_variants_total; exact H|].
  destruct x; try discriminate; eauto.
Qed.

(* the funnel hides nothing else: an exception of another class in any stage of the first variant comes out of lint_string *)
Theorem other_exception_propagates mx k v r n :
  (v_lex v = Raise (XOther k) \/ (exists lv, v_lex v = Val lv /\ ((0 <? mx) && (mx <? v_tokens v)) = false /\ v_parse v = Raise (XOther k)))
  -> lint_string mx (Val (v :: r, n)) = Raise (XOther k).
Proof.
  intros [H|[lv [H1 [H2 H3]]]]; cbn [lint_string lint_variants]; unfold lint_variant.
  - rewrite H. reflexivity.
  - rewrite H1, H2, H3. reflexivity.
Qed.

(* crawl: an "Unexpected exception" violation is reported iff some _eval raised, and then exactly one *)
Lemma crawl_unexpected rule evals acc vs :
  crawl rule evals acc = Val vs ->
  existsb is_unexpected acc = false ->
  (existsb is_unexpected vs = existsb raised evals)
  /\ length (filter is_unexpected vs) <= 1.
Proof.
  revert acc. induction evals as [|o r IH]; intros acc H Hacc; cbn [crawl] in H.
  - inversion H; subst. cbn [existsb]. split; [exact Hacc|].
    assert (filter is_unexpected vs = []) as ->; [|cbn; lia].
    clear - Hacc. induction vs as [|x l IHl]; cbn [filter existsb] in *; [reflexivity|].
    apply orb_false_iff in Hacc as [-> H2]. apply IHl; exact H2.
  - destruct o as [n|x].
    + cbn [existsb raised orb]. apply (IH (acc ++ repeat (LINT rule) n) H).
      rewrite existsb_app, Hacc. cbn [orb]. clear. induction n; cbn [repeat existsb is_unexpected orb]; auto.
    + cbn [existsb raised orb]. destruct x; try discriminate; inversion H; subst;
        (split; [rewrite existsb_app; cbn [existsb is_unexpected orb]; apply orb_true_r|]);
        rewrite filter_app; cbn [filter is_unexpected];
        (assert (filter is_unexpected acc = []) as ->;
         [clear - Hacc; induction acc as [|y l IHl]; cbn [filter existsb] in *; [reflexivity|];
          apply orb_false_iff in Hacc as [-> H2]; apply IHl; exact H2 | cbn; lia]).
Qed.
