From SF Require Import Base.Prelude Model.IndentFlow.

Section Sound.
  Variable env : list (N * g).
  Variable val : valuation.

  (* net indent of a complete derivation *)
  Inductive der : g -> Z -> Prop :=
  | d_leaf : der GLeaf 0
  | d_meta v : der (GMeta v) v
  | d_cond conds v : der (GCond conds v) (if cond_on val conds then v else 0%Z)
  | d_ref n body z : In (n, body) env -> der body z -> der (GRef n) z
  | d_seq l z : der_seq l z -> der (GSeq l) z
  | d_alt l y z : In y l -> der y z -> der (GAlt l) z
  | d_star l z : der_star l z -> der (GStar l) z
  with der_seq : list g -> Z -> Prop :=
  | ds_nil : der_seq [] 0
  | ds_cons y r a b : der y a -> der_seq r b -> der_seq (y :: r) (a + b)
  with der_star : list g -> Z -> Prop :=
  | dst_nil l : der_star l 0
  | dst_cons l y a b : In y l -> der y a -> der_star l b -> der_star l (a + b).

  Scheme der_mut := Induction for der Sort Prop
    with der_seq_mut := Induction for der_seq Sort Prop
    with der_star_mut := Induction for der_star Sort Prop.

  Lemma zmem_In z l : zmem z l = true <-> In z l.
  Proof.
    unfold zmem. rewrite existsb_exists. split; [intros [x [H E]]; apply Z.eqb_eq in E; subst; exact H|intros H; exists z; split; [exact H|apply Z.eqb_refl]].
  Qed.

  Lemma dedupe_In (l : list Z) z : In z (fold_right (fun x acc => if zmem x acc then acc else x :: acc) [] l) <-> In z l.
  Proof.
    induction l as [|x r IH]; cbn [fold_right]; [tauto|]. destruct (zmem x _) eqn:E.
    - split.
      + intros H. right. apply IH. exact H.
      + intros [Hx|H]; [subst z; apply zmem_In; exact E|apply IH; exact H].
    - cbn [In]. split; intros [H|H]; [left; exact H|right; apply IH; exact H|left; exact H|right; apply IH; exact H].
  Qed.

  Lemma zadd_set_In a b x y : In x a -> In y b -> In (x + y)%Z (zadd_set a b).
  Proof.
    intros Ha Hb. unfold zadd_set. apply dedupe_In. apply in_flat_map. exists x. split; [exact Ha|]. apply in_map. exact Hb.
  Qed.

  Lemma zunion_In a b z : In z (zunion a b) <-> In z a \/ In z b.
  Proof.
    unfold zunion. induction a as [|x r IH]; cbn [fold_right]; [cbn [In]; tauto|]. destruct (zmem x _) eqn:E.
    - split.
      + intros H. apply IH in H. destruct H as [H|H]; [left; right; exact H|right; exact H].
      + intros [[Hx|H]|H]; [subst z; apply zmem_In; exact E|apply IH; left; exact H|apply IH; right; exact H].
    - cbn [In]. split.
      + intros [H|H]; [left; left; exact H|]. apply IH in H. destruct H as [H|H]; [left; right; exact H|right; exact H].
      + intros [[H|H]|H]; [left; exact H|right; apply IH; left; exact H|right; apply IH; right; exact H].
  Qed.

  Lemma all_zero_In l z : all_zero l = true -> In z l -> z = 0%Z.
  Proof. unfold all_zero. rewrite forallb_forall. intros H Hz. apply H in Hz. apply Z.eqb_eq in Hz. congruence. Qed.

  Variable t : table.
  Hypothesis closed : forall n body, In (n, body) env -> exists s, nets t val body = Some s /\ subset s (tbl_get t n) = true.

  Theorem nets_sound : forall x z, der x z -> forall s, nets t val x = Some s -> In z s.
  Proof.
    apply (der_mut (fun x z _ => forall s, nets t val x = Some s -> In z s)
                   (fun l z _ => forall s, (fix go (l : list g) : option (list Z) :=
                                               match l with [] => Some [0%Z] | y :: r => match nets t val y, go r with Some a, Some b => Some (zadd_set a b) | _, _ => None end end) l = Some s -> In z s)
                   (fun l z _ => forall s, (fix go (l : list g) : option (list Z) :=
                                               match l with [] => Some [0%Z] | y :: r => match nets t val y, go r with Some a, Some b => if all_zero a then Some b else None | _, _ => None end end) l = Some s -> z = 0%Z)).
    - intros s H. inversion H. left. reflexivity.
    - intros v s H. inversion H. left. reflexivity.
    - intros conds v s H. inversion H. left. reflexivity.
    - intros n body z Hin _ IH s H. cbn [nets] in H. inversion H; subst.
      destruct (closed n body Hin) as [s' [E Hs]]. specialize (IH s' E).
      unfold subset in Hs. rewrite forallb_forall in Hs. apply zmem_In. apply Hs. exact IH.
    - intros l z _ IH s H. cbn [nets] in H. apply IH. exact H.
    - intros l y z Hin _ IH s H. cbn [nets] in H. revert s H. induction l as [|y' r IHl]; [contradiction|]. intros s H.
      destruct (nets t val y') as [a|] eqn:Ea; [|discriminate].
      match type of H with match ?X with _ => _ end = _ => destruct X as [b|] eqn:Eb; [|discriminate] end.
      inversion H; subst. apply zunion_In. destruct Hin as [->|Hin]; [left; apply IH; exact Ea|right; apply (IHl Hin b eq_refl)].
    - intros l z _ IH s H. cbn [nets] in H. rewrite (IH s H).
      (* GStar: the result set contains 0 *)
      clear - H. revert s H. induction l as [|y r IHl]; intros s H; [inversion H; left; reflexivity|].
      destruct (nets t val y) as [a|]; [|discriminate].
      match type of H with match ?X with _ => _ end = _ => destruct X as [b|] eqn:Eb; [|discriminate] end.
      destruct (all_zero a); [|discriminate]. inversion H; subst. apply (IHl s eq_refl).
    - intros s H. inversion H. left. reflexivity.
    - intros y r a b _ IHy _ IHr s H.
      destruct (nets t val y) as [sa|] eqn:Ea; [|discriminate].
      match type of H with match ?X with _ => _ end = _ => destruct X as [sb|] eqn:Eb; [|discriminate] end.
      inversion H; subst. apply zadd_set_In; [apply IHy; reflexivity|apply IHr; reflexivity].
    - intros l s _. reflexivity.
    - intros l y a b Hin _ IHy _ IHr s H.
      assert (Ha : a = 0%Z).
      { clear IHr. revert s H. induction l as [|y' r IHl]; [contradiction|]. intros s H.
        destruct (nets t val y') as [sa|] eqn:Ea; [|discriminate].
        match type of H with match ?X with _ => _ end = _ => destruct X as [sb|] eqn:Eb; [|discriminate] end.
        destruct (all_zero sa) eqn:Ez; [|discriminate].
        destruct Hin as [->|Hin]; [eapply all_zero_In; [exact Ez|apply IHy; exact Ea]|apply (IHl Hin sb eq_refl)]. }
      rewrite Ha, (IHr s H). reflexivity.
  Qed.
End Sound.

(* the certificate: if `check` accepts, every complete derivation from the root has net indent 0 under that valuation *)
Theorem check_sound env t val root z :
  check env t val root = true -> der env val (GRef root) z -> z = 0%Z.
Proof.
  unfold check. intros H D. apply andb_true_iff in H as [H _]. apply andb_true_iff in H as [Hc Hz].
  rewrite forallb_forall in Hc.
  assert (closed : forall n body, In (n, body) env -> exists s, nets t val body = Some s /\ subset s (tbl_get t n) = true).
  { intros n body Hin. specialize (Hc (n, body) Hin). cbn [fst snd] in Hc. destruct (nets t val body) as [s|]; [exists s; auto|discriminate]. }
  pose proof (nets_sound env val t closed (GRef root) z D (tbl_get t root) eq_refl) as Hin.
  eapply all_zero_In; [exact Hz|exact Hin].
Qed.
