From SF Require Import Base.Prelude Model.Record.
From Coq Require Import Permutation.

(* ------------------------------------------------------------------ induction principles for the nested types *)
Section TupInd.
  Variable P : tup -> Prop.
  Hypothesis Hstr : forall k s p, P (TStr k s p).
  Hypothesis Htup : forall k cs p, Forall P cs -> P (TTup k cs p).
  Fixpoint tup_ind' (t : tup) : P t :=
    match t with
    | TStr k s p => Hstr k s p
    | TTup k cs p =>
        Htup k cs p ((fix go (l : list tup) : Forall P l :=
                        match l with [] => Forall_nil _ | x :: r => Forall_cons _ (tup_ind' x) (go r) end) cs)
    end.
End TupInd.

Section SegInd.
  Variable P : seg -> Prop.
  Hypothesis Hraw : forall ty raw code cmt pos, P (SRaw ty raw code cmt pos).
  Hypothesis Hmeta : forall ty src pos, P (SMeta ty src pos).
  Hypothesis Hnode : forall ty csep cmt pos segs, Forall P segs -> P (SNode ty csep cmt pos segs).
  Fixpoint seg_ind' (s : seg) : P s :=
    match s with
    | SRaw ty raw code cmt pos => Hraw ty raw code cmt pos
    | SMeta ty src pos => Hmeta ty src pos
    | SNode ty csep cmt pos segs =>
        Hnode ty csep cmt pos segs
              ((fix go (l : list seg) : Forall P l :=
                  match l with [] => Forall_nil _ | x :: r => Forall_cons _ (seg_ind' x) (go r) end) segs)
    end.
End SegInd.

(* ------------------------------------------------------------------ small list facts *)
Lemma flat_map_ext_Forall {A B} (f g : A -> list B) l :
  Forall (fun x => f x = g x) l -> flat_map f l = flat_map g l.
Proof. induction 1 as [|x l E _ IH]; cbn [flat_map]; [reflexivity|rewrite E, IH; reflexivity]. Qed.

Lemma flat_map_map {A B C} (f : A -> B) (g : B -> list C) l : flat_map g (map f l) = flat_map (fun x => g (f x)) l.
Proof. induction l as [|x l IH]; cbn [flat_map map]; [reflexivity|rewrite IH; reflexivity]. Qed.

Lemma flat_map_concat' {A B} (f : A -> list B) l : flat_map f (concat l) = flat_map (flat_map f) l.
Proof. induction l as [|x l IH]; cbn [flat_map concat]; [reflexivity|rewrite flat_map_app, IH; reflexivity]. Qed.

Lemma map_flat_map' {A B C} (f : B -> C) (g : A -> list B) l : map f (flat_map g l) = flat_map (fun x => map f (g x)) l.
Proof. induction l as [|x l IH]; cbn [flat_map map]; [reflexivity|rewrite map_app, IH; reflexivity]. Qed.

Lemma filter_flat_map {A B} (p : B -> bool) (g : A -> list B) l :
  filter p (flat_map g l) = flat_map (fun x => filter p (g x)) l.
Proof. induction l as [|x l IH]; cbn [flat_map filter]; [reflexivity|rewrite filter_app, IH; reflexivity]. Qed.

Lemma NoDup_app_l {A} (a b : list A) : NoDup (a ++ b) -> NoDup a.
Proof.
  induction a as [|x a IH]; cbn [app]; intros H; [constructor|].
  inversion H as [|y l Hn Hd]; subst. constructor; [|apply IH; exact Hd].
  intros Hin. apply Hn. apply in_or_app. left. exact Hin.
Qed.

Lemma nodupb_NoDup l : nodupb l = true <-> NoDup l.
Proof.
  induction l as [|x l IH]; cbn [nodupb]; [split; [constructor|reflexivity]|].
  rewrite andb_true_iff, negb_true_iff, IH. split.
  - intros [Hx Hl]. constructor; [|exact Hl]. intros Hin.
    assert (E : existsb (text_eqb x) l = true) by (apply existsb_exists; exists x; split; [exact Hin|apply text_eqb_eq; reflexivity]).
    congruence.
  - intros H. inversion H as [|y l' Hn Hd]; subst. split; [|exact Hd].
    destruct (existsb (text_eqb x) l) eqn:E; [|reflexivity].
    apply existsb_exists in E as [y [Hy Ey]]. apply text_eqb_eq in Ey. subst. contradiction.
Qed.

(* ------------------------------------------------------------------ dict facts *)
Lemma dict_set_fresh d k v : ~ In k (dict_keys d) -> dict_set d k v = d ++ [(k, v)].
Proof.
  induction d as [|[k' v'] d IH]; cbn [dict_set dict_keys map fst app In]; intros H; [reflexivity|].
  destruct (text_eqb k' k) eqn:E.
  - apply text_eqb_eq in E. exfalso. apply H. left. exact E.
  - rewrite IH; [reflexivity|]. intros Hin. apply H. right. exact Hin.
Qed.

Lemma dict_keys_app a b : dict_keys (a ++ b) = dict_keys a ++ dict_keys b.
Proof. apply map_app. Qed.

Lemma dict_update_fresh : forall r d, NoDup (dict_keys d ++ dict_keys r) -> dict_update d r = d ++ r.
Proof.
  unfold dict_update.
  induction r as [|[k v] r IH]; intros d H; cbn [fold_left fst snd].
  - rewrite app_nil_r. reflexivity.
  - cbn [dict_keys map fst] in H.
    assert (Hk : ~ In k (dict_keys d)).
    { apply NoDup_remove_2 in H. intros Hin. apply H. apply in_or_app. left. exact Hin. }
    rewrite (dict_set_fresh d k v Hk). rewrite IH.
    + rewrite <- app_assoc. reflexivity.
    + rewrite dict_keys_app. cbn [dict_keys map fst]. rewrite <- app_assoc. exact H.
Qed.

Lemma fold_update_fresh : forall cs d,
  NoDup (dict_keys d ++ flat_map dict_keys cs) -> fold_left dict_update cs d = d ++ concat cs.
Proof.
  induction cs as [|c cs IH]; intros d H; cbn [fold_left concat flat_map].
  - rewrite app_nil_r. reflexivity.
  - cbn [flat_map] in H. rewrite app_assoc in H.
    rewrite (dict_update_fresh c d (NoDup_app_l _ _ H)). rewrite IH.
    + rewrite <- app_assoc. reflexivity.
    + rewrite dict_keys_app. exact H.
Qed.

Definition is_int (kv : text * rval) : Prop := exists z, snd kv = RInt z.
Definition all_int (d : record) : Prop := Forall is_int d.

Lemma dict_set_int_all_int d k z : all_int d -> all_int (dict_set d k (RInt z)).
Proof.
  induction 1 as [|[k' v'] d Hx Hd IH]; cbn [dict_set].
  - constructor; [exists z; reflexivity|constructor].
  - destruct (text_eqb k' k); constructor; try assumption. exists z; reflexivity.
Qed.

Lemma dict_update_pos_all_int : forall p d, all_int d -> all_int (dict_update_pos d p).
Proof.
  unfold dict_update_pos. induction p as [|[k z] p IH]; intros d H; cbn [fold_left fst snd]; [exact H|].
  apply IH. apply dict_set_int_all_int. exact H.
Qed.

Lemma result0_all_int p : all_int (result0 p).
Proof. destruct p as [d|]; cbn [result0]; [apply dict_update_pos_all_int|]; constructor. Qed.

(* ------------------------------------------------------------------ the generic theorem about structural_simplify *)
Section TravProofs.
  Variable B : Type.
  Variable leaf : text -> text -> list B.
  Variable node : text -> list B -> list B.
  Notation trav_tup := (trav_tup B leaf node).
  Notation trav_val := (trav_val B leaf node).
  Notation trav_rec := (trav_rec B leaf node).

  Lemma trav_rec_cons k v r : trav_rec ((k, v) :: r) = trav_val k v ++ trav_rec r.
  Proof. reflexivity. Qed.

  Lemma trav_rec_all_int d : all_int d -> trav_rec d = [].
  Proof.
    induction 1 as [|[k v] d [z Hz] _ IH]; [reflexivity|]. cbn [snd] in Hz. subst v.
    rewrite trav_rec_cons, IH. reflexivity.
  Qed.

  Lemma trav_dict_set_all_int d k v : all_int d -> trav_rec (dict_set d k v) = trav_val k v.
  Proof.
    induction 1 as [|[k' v'] d [z Hz] Hd IH]; cbn [dict_set].
    - rewrite trav_rec_cons. apply app_nil_r.
    - cbn [snd] in Hz. subst v'. destruct (text_eqb k' k) eqn:E.
      + apply text_eqb_eq in E. subst k'. rewrite trav_rec_cons, (trav_rec_all_int d Hd). apply app_nil_r.
      + rewrite trav_rec_cons, IH. reflexivity.
  Qed.

  Lemma trav_val_list k l : trav_val k (RList l) = node k (flat_map trav_rec l).
  Proof. reflexivity. Qed.
  Lemma trav_val_dict k d : trav_val k (RDict d) = node k (trav_rec d).
  Proof. reflexivity. Qed.

  Theorem simplify_trav : forall t, trav_rec (simplify t) = trav_tup t.
  Proof.
    induction t as [k s p|k cs p IH] using tup_ind'.
    - cbn [simplify]. rewrite trav_dict_set_all_int by apply result0_all_int. reflexivity.
    - assert (Hch : flat_map trav_rec (map simplify cs) = flat_map trav_tup cs).
      { rewrite flat_map_map. apply flat_map_ext_Forall. exact IH. }
      destruct cs as [|c cs'].
      + cbn [simplify]. rewrite trav_dict_set_all_int by apply result0_all_int. reflexivity.
      + remember (c :: cs') as cs eqn:Ecs.
        assert (Hs : simplify (TTup k cs p) =
                     if negb (nodupb (flat_map dict_keys (map simplify cs)))
                     then dict_set (result0 p) k (RList (map simplify cs))
                     else dict_set (result0 p) k (RDict (fold_left dict_update (map simplify cs) []))).
        { subst cs. reflexivity. }
        rewrite Hs. clear Hs.
        change (trav_tup (TTup k cs p)) with (node k (flat_map trav_tup cs)).
        destruct (nodupb (flat_map dict_keys (map simplify cs))) eqn:En; cbn [negb].
        * rewrite trav_dict_set_all_int by apply result0_all_int.
          rewrite trav_val_dict. apply nodupb_NoDup in En.
          rewrite (fold_update_fresh (map simplify cs) []) by exact En.
          cbn [app]. unfold Record.trav_rec at 1. rewrite flat_map_concat'.
          fold trav_rec. change (flat_map (flat_map (fun kv => let '(k0, v) := kv in trav_val k0 v)))
            with (flat_map trav_rec). rewrite Hch. reflexivity.
        * rewrite trav_dict_set_all_int by apply result0_all_int.
          rewrite trav_val_list, Hch. reflexivity.
  Qed.
End TravProofs.

(* ------------------------------------------------------------------ instances *)
Theorem simplify_leaves t : leaves_rec (simplify t) = leaves_tup t.
Proof. apply simplify_trav. Qed.

Theorem simplify_nesting t : paths_rec (simplify t) = paths_tup t.
Proof. apply simplify_trav. Qed.

Lemma trav_tup_erase : forall t,
  trav_tup tup (fun k s => [TStr k s None]) (fun k l => [TTup k l None]) t = [erase_pos t].
Proof.
  induction t as [k s p|k cs p IH] using tup_ind'; [reflexivity|].
  cbn [trav_tup erase_pos]. f_equal. f_equal.
  induction IH as [|c cs E _ IH']; cbn [flat_map map]; [reflexivity|]. rewrite E, IH'. reflexivity.
Qed.

Theorem simplify_lossless t : untuple (simplify t) = [erase_pos t].
Proof. unfold untuple. rewrite simplify_trav. apply trav_tup_erase. Qed.

Corollary simplify_injective t1 t2 : simplify t1 = simplify t2 -> erase_pos t1 = erase_pos t2.
Proof.
  intros H. assert (E : untuple (simplify t1) = untuple (simplify t2)) by (rewrite H; reflexivity).
  rewrite !simplify_lossless in E. inversion E. reflexivity.
Qed.

(* the model with the asserts agrees with the typed model on every well-typed tuple: no assert can fire *)
Lemma seq_res_map_ok {A C} (f : A -> res C) (g : A -> C) l :
  Forall (fun x => f x = Ok (g x)) l -> seq_res (map f l) = Ok (map g l).
Proof.
  induction 1 as [|x l E _ IH]; [reflexivity|].
  unfold seq_res in *. cbn [map fold_right]. rewrite E, IH. reflexivity.
Qed.

Theorem simplify_pv_embed : forall t, simplify_pv (embed t) = Ok (simplify t).
Proof.
  induction t as [k s p|k cs p IH] using tup_ind'.
  - destruct p as [d|]; reflexivity.
  - assert (Hc : seq_res (map simplify_pv (map embed cs)) = Ok (map simplify cs)).
    { rewrite map_map. apply seq_res_map_ok. exact IH. }
    destruct cs as [|c cs'].
    + destruct p as [d|]; reflexivity.
    + remember (c :: cs') as cs eqn:Ecs.
      assert (Hne : map embed cs = embed c :: map embed cs') by (subst cs; reflexivity).
      destruct p as [d|]; cbn [embed embed_pos simplify_pv bind]; rewrite Hne, <- Hne, Hc; cbn [bind];
        subst cs; cbn [simplify result0]; destruct (nodupb _); reflexivity.
Qed.

(* ------------------------------------------------------------------ to_tuple *)
Lemma texts_app a b : texts (a ++ b) = texts a ++ texts b.
Proof. unfold texts. rewrite map_app, concat_app. reflexivity. Qed.

Lemma leaves_tup_ttup k cs p : leaves_tup (TTup k cs p) = flat_map leaves_tup cs.
Proof. reflexivity. Qed.
Lemma paths_tup_ttup k cs p : paths_tup (TTup k cs p) = push k (flat_map paths_tup cs).
Proof. reflexivity. Qed.

Lemma is_meta_raw_nil s : is_meta s = true -> raw_of s = [].
Proof. destruct s; cbn [is_meta raw_of]; congruence. Qed.

(* Concatenating the token texts of the tuple form (no code_only, no metas) gives the raw of the tree. *)
Theorem to_tuple_concat : forall ip s, is_meta s = false -> texts (leaves_tup (to_tuple false true false ip s)) = raw_of s.
Proof.
  intros ip. induction s as [ty raw code cmt pos|ty src pos|ty csep cmt pos segs IH] using seg_ind'; intros Hm.
  - cbn. apply app_nil_r.
  - discriminate.
  - cbn [to_tuple raw_of]. destruct segs as [|c0 segs0]; [reflexivity|].
    remember (c0 :: segs0) as segs eqn:E. replace (is_nil segs) with false by (subst segs; reflexivity).
    cbn [andb orb]. rewrite leaves_tup_ttup. clear E c0 segs0 Hm.
    induction IH as [|c segs Hc _ IH']; cbn [flat_map map concat]; [reflexivity|].
    rewrite flat_map_app, texts_app, IH'. f_equal.
    destruct (is_meta c) eqn:Em; cbn [negb].
    + rewrite (is_meta_raw_nil c Em). reflexivity.
    + cbn [flat_map]. rewrite app_nil_r. apply Hc. reflexivity.
Qed.

(* With metas included: the texts of the entries whose type is not a meta type still concatenate to the raw. *)
Theorem to_tuple_concat_meta : forall mt im ip s, meta_typed mt s = true -> is_meta s = false ->
  texts (filter (fun t : tok => negb (mt (fst t))) (leaves_tup (to_tuple false true im ip s))) = raw_of s.
Proof.
  intros mt im ip.
  assert (Hmeta : forall c, is_meta c = true -> meta_typed mt c = true ->
                            filter (fun t : tok => negb (mt (fst t))) (leaves_tup (to_tuple false true im ip c)) = []).
  { intros [| ty [src|] pos |] Hm Ht; try discriminate; cbn [meta_typed] in Ht; cbn; rewrite Ht; reflexivity. }
  induction s as [ty raw code cmt pos|ty src pos|ty csep cmt pos segs IH] using seg_ind'; intros Ht Hm.
  - cbn [meta_typed] in Ht. cbn. rewrite Ht. cbn. apply app_nil_r.
  - discriminate.
  - cbn [meta_typed] in Ht. apply andb_true_iff in Ht as [Hty Hall]. apply negb_true_iff in Hty.
    cbn [to_tuple raw_of]. destruct segs as [|c0 segs0].
    + cbn. rewrite Hty. reflexivity.
    + remember (c0 :: segs0) as segs eqn:E. replace (is_nil segs) with false by (subst segs; reflexivity).
      cbn [andb]. rewrite leaves_tup_ttup. clear E c0 segs0 Hm.
      rewrite forallb_forall in Hall.
      induction IH as [|c segs Hc _ IH']; cbn [flat_map map concat]; [reflexivity|].
      rewrite flat_map_app, filter_app, texts_app.
      f_equal; [|apply IH'; intros x Hx; apply Hall; right; exact Hx].
      assert (Htc : meta_typed mt c = true) by (apply Hall; left; reflexivity).
      destruct (is_meta c) eqn:Em; cbn [negb].
      * rewrite (is_meta_raw_nil c Em). destruct im; cbn [orb flat_map]; [|reflexivity].
        rewrite app_nil_r, (Hmeta c Em Htc). reflexivity.
      * rewrite orb_true_r. cbn [flat_map]. rewrite app_nil_r. apply Hc; [exact Htc|reflexivity].
Qed.

(* text shown for a raw segment by to_tuple(show_raw=True) *)
Definition shown_text (r : seg) : text := match r with SMeta _ (Some src) _ => src | _ => raw_of r end.

(* Every shown raw segment appears once, in order, under the type path it has in the tree. *)
Theorem to_tuple_nesting : forall im ip s, nonempty_nodes s = true ->
  paths_tup (to_tuple false true im ip s)
  = map (fun pr => (fst pr, shown_text (snd pr))) (filter (fun pr => negb (is_node s) || im || negb (is_meta (snd pr))) (paths_seg s)).
Proof.
  intros im ip.
  assert (Hleaf : forall s, is_node s = false ->
            paths_tup (to_tuple false true im ip s) = [([seg_type s], shown_text s)]).
  { intros [ty raw code cmt pos|ty [src|] pos|]; try discriminate; reflexivity. }
  assert (Hn : forall s, nonempty_nodes s = true -> is_node s = true ->
            paths_tup (to_tuple false true im ip s)
            = map (fun pr => (fst pr, shown_text (snd pr))) (filter (fun pr => im || negb (is_meta (snd pr))) (paths_seg s))).
  { induction s as [ty raw code cmt pos|ty src pos|ty csep cmt pos segs IH] using seg_ind'; intros Hne Hnode; try discriminate.
    cbn [nonempty_nodes] in Hne. apply andb_true_iff in Hne as [Hnn Hall].
    cbn [to_tuple paths_seg]. destruct (is_nil segs) eqn:En; [discriminate|]. cbn [andb].
    rewrite paths_tup_ttup. unfold push.
    rewrite forallb_forall in Hall. clear En Hnn Hnode.
    assert (E : flat_map paths_tup (flat_map (fun c => if im || negb (is_meta c) then [to_tuple false true im ip c] else []) segs)
                = map (fun pr => (fst pr, shown_text (snd pr)))
                      (filter (fun pr => im || negb (is_meta (snd pr))) (flat_map paths_seg segs))).
    { induction IH as [|c segs Hc _ IH']; cbn [flat_map]; [reflexivity|].
      rewrite flat_map_app, filter_app, map_app, IH' by (intros x Hx; apply Hall; right; exact Hx). f_equal.
      assert (Hnc : nonempty_nodes c = true) by (apply Hall; left; reflexivity).
      destruct (is_node c) eqn:Ec.
      - replace (im || negb (is_meta c)) with true by (destruct c; try discriminate; cbn; rewrite orb_true_r; reflexivity).
        cbn [flat_map]. rewrite app_nil_r. apply Hc; [exact Hnc|reflexivity].
      - assert (Eps : paths_seg c = [([seg_type c], c)]) by (destruct c; try discriminate; reflexivity).
        rewrite Eps. cbn [filter snd]. destruct (im || negb (is_meta c)); cbn [flat_map map fst snd]; [|reflexivity].
        rewrite app_nil_r. apply Hleaf. exact Ec. }
    rewrite E. rewrite map_map.
    set (g := fun pr : list text * seg => (ty :: fst pr, snd pr)).
    assert (Ef : forall l, filter (fun pr => im || negb (is_meta (snd pr))) (map g l)
                           = map g (filter (fun pr => im || negb (is_meta (snd pr))) l)).
    { induction l as [|x l IHl]; [reflexivity|]. cbn [map filter]. unfold g at 1. cbn [snd].
      destruct (im || negb (is_meta (snd x))); cbn [map]; rewrite IHl; reflexivity. }
    rewrite Ef, map_map. reflexivity. }
  intros s Hne. destruct (is_node s) eqn:Es.
  - rewrite (Hn s Hne Es). cbn [negb orb]. reflexivity.
  - rewrite (Hleaf s Es). destruct s; try discriminate; reflexivity.
Qed.

(* token view of the same: (type, text) of the shown raw segments in order *)
Lemma leaves_of_paths : forall t, leaves_tup t = map (fun pt => (last (fst pt) [], snd pt)) (paths_tup t).
Proof.
  induction t as [k s p|k cs p IH] using tup_ind'; [reflexivity|].
  rewrite leaves_tup_ttup, paths_tup_ttup. unfold push. rewrite map_map.
  induction IH as [|c cs E _ IH']; cbn [flat_map map]; [reflexivity|].
  rewrite map_app. f_equal; [|exact IH']. rewrite E.
  apply map_ext_in. intros [pth x] Hin. cbn [fst snd]. f_equal.
  destruct pth as [|a pth']; [|reflexivity].
  (* a path produced by paths_tup is never empty *)
  exfalso. revert Hin. clear. revert x.
  induction c as [k s p|k cs p IH] using tup_ind'; intros x Hin.
  - cbn in Hin. destruct Hin as [Hin|[]]. discriminate.
  - rewrite paths_tup_ttup in Hin. unfold push in Hin. apply in_map_iff in Hin as [[p0 x0] [Hp _]]. discriminate.
Qed.

Lemma paths_seg_raw_segments : forall s, map snd (paths_seg s) = raw_segments s.
Proof.
  induction s as [| |ty csep cmt pos segs IH] using seg_ind'; try reflexivity.
  cbn [paths_seg raw_segments]. rewrite map_map. cbn [snd].
  induction IH as [|c segs E _ IH']; cbn [flat_map map]; [reflexivity|]. rewrite map_app. f_equal; [exact E|exact IH'].
Qed.

Lemma paths_seg_last : forall s pr, In pr (paths_seg s) -> last (fst pr) [] = seg_type (snd pr).
Proof.
  induction s as [ty raw code cmt pos|ty src pos|ty csep cmt pos segs IH] using seg_ind'; intros pr Hin.
  - destruct Hin as [<-|[]]. reflexivity.
  - destruct Hin as [<-|[]]. reflexivity.
  - cbn [paths_seg] in Hin. apply in_map_iff in Hin as [[p0 r0] [<- Hin]]. cbn [fst snd].
    apply in_flat_map in Hin as [c [Hc Hin]]. rewrite Forall_forall in IH.
    specialize (IH c Hc _ Hin). cbn [fst snd] in IH.
    destruct p0 as [|a p0']; [|exact IH].
    (* paths are never empty *)
    exfalso. clear -Hin. revert r0 Hin. induction c as [| |ty csep cmt pos segs IH] using seg_ind'; intros r0 Hin.
    + destruct Hin as [Hin|[]]. discriminate.
    + destruct Hin as [Hin|[]]. discriminate.
    + cbn [paths_seg] in Hin. apply in_map_iff in Hin as [[p1 r1] [Hp _]]. discriminate.
Qed.

Definition shown_tok (r : seg) : tok := (seg_type r, shown_text r).

Theorem to_tuple_tokens : forall im ip s, nonempty_nodes s = true -> is_node s = true ->
  leaves_tup (to_tuple false true im ip s) = map shown_tok (filter (fun r => im || negb (is_meta r)) (raw_segments s)).
Proof.
  intros im ip s Hne Hnode. rewrite leaves_of_paths, (to_tuple_nesting im ip s Hne), Hnode. cbn [negb orb].
  rewrite <- paths_seg_raw_segments. rewrite map_map. cbn [fst snd].
  generalize (paths_seg_last s). generalize (paths_seg s) as l.
  induction l as [|x l IHl]; intros Hl; [reflexivity|]. cbn [map filter].
  destruct (im || negb (is_meta (snd x))); cbn [map]; [f_equal|]; try (apply IHl; intros pr Hp; apply Hl; right; exact Hp).
  unfold shown_tok. f_equal. apply Hl. left. reflexivity.
Qed.

(* code_only: exactly the code raw segments *)
Lemma noncode_raw_segments : forall s, is_code s = false -> filter is_code (raw_segments s) = [].
Proof.
  induction s as [ty raw code cmt pos|ty src pos|ty csep cmt pos segs IH] using seg_ind'; intros H.
  - cbn in *. rewrite H. reflexivity.
  - reflexivity.
  - cbn [is_code] in H. cbn [raw_segments]. rewrite filter_flat_map.
    induction IH as [|c segs Hc _ IH']; [reflexivity|]. cbn [existsb] in H. apply orb_false_iff in H as [H1 H2].
    cbn [flat_map]. rewrite (Hc H1), IH' by exact H2. reflexivity.
Qed.

Lemma code_not_meta s : is_code s = true -> is_meta s = false.
Proof. destruct s; cbn; congruence. Qed.

Theorem to_tuple_tokens_code_only : forall im ip s, is_code s = true ->
  leaves_tup (to_tuple true true im ip s) = map seg_tok (filter is_code (raw_segments s)).
Proof.
  intros im ip. induction s as [ty raw code cmt pos|ty src pos|ty csep cmt pos segs IH] using seg_ind'; intros H.
  - cbn in *. rewrite H. reflexivity.
  - discriminate.
  - cbn [to_tuple raw_segments]. destruct segs as [|c0 segs0]; [discriminate|].
    remember (c0 :: segs0) as segs eqn:E. replace (is_nil segs) with false by (subst segs; reflexivity).
    cbn [andb]. rewrite leaves_tup_ttup, filter_flat_map, map_flat_map'. clear E c0 segs0 H.
    induction IH as [|c segs Hc _ IH']; [reflexivity|]. cbn [flat_map]. rewrite flat_map_app, IH'. f_equal.
    destruct (is_code c) eqn:Ec.
    + rewrite (code_not_meta c Ec). cbn [negb andb flat_map]. rewrite app_nil_r. apply Hc. reflexivity.
    + cbn [andb flat_map]. rewrite (noncode_raw_segments c Ec). reflexivity.
Qed.

(* raw is the concatenation of the raw segments' raws (get_raw_segments is a faithful flattening) *)
Theorem raw_segments_concat : forall s, concat (map raw_of (raw_segments s)) = raw_of s.
Proof.
  induction s as [| |ty csep cmt pos segs IH] using seg_ind'; [cbn; apply app_nil_r|reflexivity|].
  cbn [raw_segments raw_of]. induction IH as [|c segs E _ IH']; [reflexivity|].
  cbn [flat_map map concat]. rewrite map_app, concat_app, E, IH'. reflexivity.
Qed.

(* ------------------------------------------------------------------ record corollaries *)
Theorem as_record_concat ip s : is_meta s = false -> texts (leaves_rec (as_record false true false ip s)) = raw_of s.
Proof. intros H. unfold as_record. rewrite simplify_leaves. apply to_tuple_concat. exact H. Qed.

Theorem as_record_tokens im ip s : nonempty_nodes s = true -> is_node s = true ->
  leaves_rec (as_record false true im ip s) = map shown_tok (filter (fun r => im || negb (is_meta r)) (raw_segments s)).
Proof. intros H1 H2. unfold as_record. rewrite simplify_leaves. apply to_tuple_tokens; assumption. Qed.

Theorem as_record_nesting im ip s : nonempty_nodes s = true ->
  paths_rec (as_record false true im ip s)
  = map (fun pr => (fst pr, shown_text (snd pr))) (filter (fun pr => negb (is_node s) || im || negb (is_meta (snd pr))) (paths_seg s)).
Proof. intros H. unfold as_record. rewrite simplify_nesting. apply to_tuple_nesting. exact H. Qed.

Theorem as_record_tokens_code_only im ip s : is_code s = true ->
  leaves_rec (as_record true true im ip s) = map seg_tok (filter is_code (raw_segments s)).
Proof. intros H. unfold as_record. rewrite simplify_leaves. apply to_tuple_tokens_code_only. exact H. Qed.

(* ------------------------------------------------------------------ human format *)
Lemma hleaves_app a b : hleaves (a ++ b) = hleaves a ++ hleaves b.
Proof. apply flat_map_app. Qed.

Definition nonmeta (r : seg) : bool := negb (is_meta r).

Lemma separates_children ty csep cmt pos segs :
  separates (SNode ty csep cmt pos segs) = false ->
  (csep && negb (is_nil (filter is_cmt segs))) = false /\ forall c, In c segs -> separates c = false.
Proof.
  cbn [separates]. intros H. apply orb_false_iff in H as [H1 H2]. split; [exact H1|].
  intros c Hc. destruct (separates c) eqn:E; [|reflexivity].
  assert (existsb separates segs = true) by (apply existsb_exists; exists c; split; assumption). congruence.
Qed.

Theorem stringify_tokens : forall s i, separates s = false ->
  hleaves (stringify i false s) = map seg_tok (filter nonmeta (raw_segments s)).
Proof.
  induction s as [ty raw code cmt pos|ty src pos|ty csep cmt pos segs IH] using seg_ind'; intros i Hs; try reflexivity.
  apply separates_children in Hs as [H1 Hall].
  cbn [stringify negb andb]. cbn [andb] in H1. rewrite H1.
  change (hleaves (HSeg i false ty None :: ?l)) with (hleaves l).
  cbn [raw_segments orb]. rewrite filter_flat_map, map_flat_map'. clear H1.
  induction IH as [|c segs Hc _ IH']; [reflexivity|]. cbn [flat_map]. rewrite hleaves_app.
  f_equal; [|apply IH'; intros x Hx; apply Hall; right; exact Hx].
  apply Hc. apply Hall. left. reflexivity.
Qed.

Theorem stringify_tokens_code_only : forall s i, is_code s = true ->
  hleaves (stringify i true s) = map seg_tok (filter is_code (raw_segments s)).
Proof.
  induction s as [ty raw code cmt pos|ty src pos|ty csep cmt pos segs IH] using seg_ind'; intros i H.
  - cbn in *. rewrite H. reflexivity.
  - discriminate.
  - cbn [stringify negb andb]. change (hleaves (HSeg i false ty None :: ?l)) with (hleaves l).
    cbn [raw_segments orb]. rewrite filter_flat_map, map_flat_map'. clear H.
    induction IH as [|c segs Hc _ IH']; [reflexivity|]. cbn [flat_map]. rewrite hleaves_app, IH'. f_equal.
    destruct (is_code c) eqn:Ec; [apply Hc; reflexivity|]. rewrite (noncode_raw_segments c Ec). reflexivity.
Qed.

Lemma partition_perm {A} (p : A -> bool) (f : A -> list tok) l :
  Permutation (flat_map (fun c => if p c then f c else []) l ++ flat_map (fun c => if negb (p c) then f c else []) l)
              (flat_map f l).
Proof.
  induction l as [|x l IH]; [constructor|]. cbn [flat_map]. destruct (p x); cbn [negb app].
  - rewrite <- app_assoc. apply Permutation_app_head. exact IH.
  - rewrite app_assoc. etransitivity; [apply Permutation_app_tail; apply Permutation_app_comm|].
    rewrite <- app_assoc. apply Permutation_app_head. exact IH.
Qed.

Lemma flat_map_perm {A} (f g : A -> list tok) l :
  Forall (fun x => Permutation (f x) (g x)) l -> Permutation (flat_map f l) (flat_map g l).
Proof. induction 1 as [|x l E _ IH]; [constructor|]. cbn [flat_map]. apply Permutation_app; assumption. Qed.

(* Whatever the comment_separate flags: the human format shows every non-meta raw segment exactly once. *)
Theorem stringify_perm : forall s i,
  Permutation (hleaves (stringify i false s)) (map seg_tok (filter nonmeta (raw_segments s))).
Proof.
  induction s as [ty raw code cmt pos|ty src pos|ty csep cmt pos segs IH] using seg_ind'; intros i; try apply Permutation_refl.
  cbn [stringify negb andb]. change (hleaves (HSeg i false ty None :: ?l)) with (hleaves l).
  cbn [raw_segments]. rewrite filter_flat_map, map_flat_map'.
  assert (Hch : forall j, Permutation (flat_map (fun c => hleaves (stringify j false c)) segs)
                                      (flat_map (fun x => map seg_tok (filter nonmeta (raw_segments x))) segs)).
  { intros j. apply flat_map_perm. rewrite Forall_forall in *. intros c Hc. apply IH. exact Hc. }
  assert (Hfm : forall (q : seg -> bool) j, hleaves (flat_map (fun c => if q c then stringify j false c else []) segs)
                 = flat_map (fun c => if q c then hleaves (stringify j false c) else []) segs).
  { intros q j. clear. induction segs as [|c l IHl]; [reflexivity|]. cbn [flat_map]. rewrite hleaves_app, IHl.
    destruct (q c); reflexivity. }
  destruct (csep && negb (is_nil (filter is_cmt segs))).
  - rewrite hleaves_app. change (hleaves (HHdr (i + 1) true :: ?l)) with (hleaves l).
    assert (E : hleaves (if negb (is_nil (filter (fun c => negb (is_cmt c)) segs))
                         then HHdr (i + 1) false :: flat_map (fun c => if negb (is_cmt c) then stringify (i + 2) false c else []) segs
                         else [])
                = hleaves (flat_map (fun c => if negb (is_cmt c) then stringify (i + 2) false c else []) segs)).
    { destruct (filter (fun c => negb (is_cmt c)) segs) eqn:Ef; cbn [is_nil negb]; [|reflexivity].
      clear -Ef. induction segs as [|c l IHl]; [reflexivity|]. cbn [filter] in Ef. cbn [flat_map].
      destruct (negb (is_cmt c)); [discriminate|]. cbn [app]. apply IHl. exact Ef. }
    rewrite E, !Hfm. etransitivity; [apply (partition_perm is_cmt (fun c => hleaves (stringify (i + 2) false c)))|]. apply Hch.
  - cbn [orb]. rewrite (Hfm (fun _ => true)). apply Hch.
Qed.

(* ... but not always in file order: a comment inside a comment_separate (unparsable) node is moved to the front. *)
Definition reorder_witness : seg :=
  SNode [117]%N true false None
        [SRaw [119]%N [120]%N true false None; SRaw [99]%N [45;45]%N false true None].

Theorem stringify_order_refuted :
  exists s i, hleaves (stringify i false s) <> map seg_tok (filter nonmeta (raw_segments s)).
Proof. exists reorder_witness, 0. vm_compute. discriminate. Qed.
