From SF Require Import Base.Prelude Model.TemplatedFile.

Lemma raw_check_tiles rs : forall pos p, raw_check pos rs = Some p -> raw_tiles pos p rs.
Proof.
  induction rs as [|[idx len] r IH]; intros pos p H; cbn [raw_check raw_tiles] in *.
  - inversion H; reflexivity.
  - destruct (idx =? pos) eqn:E; [|discriminate]. apply Nat.eqb_eq in E. split; [exact E|apply IH; exact H].
Qed.

Lemma tpl_check_tiles fs : forall pos last, tpl_check (Some pos) fs = Some (Some last) -> tpl_tiles pos last fs.
Proof.
  induction fs as [|[ss [ts te]] r IH]; intros pos last H; cbn [tpl_check tpl_tiles] in *.
  - inversion H; reflexivity.
  - destruct (ts =? pos) eqn:E; [|discriminate]. apply Nat.eqb_eq in E. split; [exact E|apply IH; exact H].
Qed.

Lemma tpl_check_some fs : forall p r, tpl_check (Some p) fs = Some r -> exists l, r = Some l.
Proof.
  induction fs as [|[ss [ts te]] rest IH]; intros p r H; cbn [tpl_check] in H.
  - inversion H; eauto.
  - destruct (ts =? p); [|discriminate]. eapply IH; exact H.
Qed.

Theorem ctor_enforces_tiling nsrc ntpl rs fs :
  ctor_check nsrc ntpl rs fs = Ok tt ->
  raw_tiles 0 nsrc rs /\ (fs <> [] -> tpl_tiles 0 ntpl fs).
Proof.
  unfold ctor_check. intros H.
  destruct (raw_check 0 rs) as [p|] eqn:Er; [|discriminate].
  destruct (p =? nsrc) eqn:Ep; [|discriminate]. apply Nat.eqb_eq in Ep. subst p.
  split; [apply raw_check_tiles; exact Er|]. intros Hne.
  destruct fs as [|[ss [ts te]] r]; [congruence|]. cbn [tpl_check] in H. cbn [tpl_tiles].
  destruct (ts =? 0) eqn:E0; [|discriminate]. apply Nat.eqb_eq in E0. split; [exact E0|].
  destruct (tpl_check (Some te) r) as [[last|]|] eqn:Et; try discriminate.
  - destruct (last =? ntpl) eqn:El; [|discriminate]. apply Nat.eqb_eq in El. subst. apply tpl_check_tiles; exact Et.
  - destruct (tpl_check_some _ _ _ Et) as [l Hl]. discriminate.
Qed.

(* tracer: after any sequence of record_trace calls the recorded templated slices tile [0, cur) in order, and every source
   slice is [starts[i], starts[i+1]) (or up to nsrc for the last raw slice) *)
Lemma tpl_tiles_app a b c l1 l2 : tpl_tiles a b l1 -> tpl_tiles b c l2 -> tpl_tiles a c (l1 ++ l2).
Proof.
  revert a. induction l1 as [|[ss [ts te]] r IH]; intros a H1 H2; cbn [app tpl_tiles] in *.
  - subst. exact H2.
  - destruct H1 as [E H1]. split; [exact E|apply IH; assumption].
Qed.

Theorem tracer_templated_tiles starts nsrc calls :
  let st := run_trace starts nsrc calls in tpl_tiles 0 (fst st) (snd st).
Proof.
  unfold run_trace. cbn zeta.
  assert (G : forall calls st, tpl_tiles 0 (fst st) (snd st) ->
              tpl_tiles 0 (fst (fold_left (fun st c => record_trace starts nsrc st (fst c) (snd c)) calls st))
                          (snd (fold_left (fun st c => record_trace starts nsrc st (fst c) (snd c)) calls st))).
  { clear calls. induction calls as [|[len idx] r IH]; intros [cur acc] H; cbn [fold_left]; [exact H|].
    apply IH. cbn [record_trace fst snd]. apply (tpl_tiles_app 0 cur (cur + len)); [exact H|]. cbn [tpl_tiles]. split; reflexivity. }
  apply G. cbn [fst snd tpl_tiles]. reflexivity.
Qed.

Definition src_slice_of (starts : list nat) (nsrc idx : nat) : nat * nat :=
  (nth idx starts 0, if S idx <? length starts then nth (S idx) starts 0 else nsrc).

Theorem tracer_source_slices starts nsrc calls :
  Forall (fun f => exists idx, fst f = src_slice_of starts nsrc idx) (snd (run_trace starts nsrc calls)).
Proof.
  unfold run_trace.
  assert (G : forall calls st, Forall (fun f => exists idx, fst f = src_slice_of starts nsrc idx) (snd st) ->
              Forall (fun f => exists idx, fst f = src_slice_of starts nsrc idx)
                (snd (fold_left (fun st c => record_trace starts nsrc st (fst c) (snd c)) calls st))).
  { clear calls. induction calls as [|[len idx] r IH]; intros [cur acc] H; cbn [fold_left]; [exact H|].
    apply IH. cbn [record_trace fst snd]. apply Forall_app. split; [exact H|]. constructor; [|constructor].
    exists idx. reflexivity. }
  apply G. constructor.
Qed.
