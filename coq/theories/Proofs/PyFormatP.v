(* Lemmas about Model/PyFormat.v: on the format strings described by safe_list, the regex rewrite followed by
   str.format renders what the documented convention (dotted names are keys of the `sqlfluff` mapping) says. *)
From SF Require Import Base.Prelude Model.PyFormat.

(* ---------------------------------------------------------------------------------------------------------- *)
(* induction principle for the nested type tok *)
Definition opt_all (P : tok -> Prop) (sp : option (list tok)) : Prop :=
  match sp with Some l => Forall P l | None => True end.

Section TokInd.
  Variable P : tok -> Prop.
  Hypothesis HC : forall c, P (TChr c).
  Hypothesis HE : forall c, P (TEsc c).
  Hypothesis HF : forall n cv sp, opt_all P sp -> P (TFld n cv sp).
  Fixpoint tok_ind' (t : tok) : P t :=
    match t with
    | TChr c => HC c
    | TEsc c => HE c
    | TFld n cv sp =>
        HF n cv sp
          (match sp as s return opt_all P s with
           | Some l => (fix go (l : list tok) : Forall P l :=
                          match l with
                          | [] => Forall_nil P
                          | x :: r => Forall_cons x (tok_ind' x) (go r)
                          end) l
           | None => I
           end)
    end.
End TokInd.

(* ---------------------------------------------------------------------------------------------------------- *)
(* characters *)
Lemma eqb_false_of_neq (a b : cp) : a <> b -> N.eqb a b = false.
Proof. intros H. apply N.eqb_neq. exact H. Qed.

Ltac bool_hyps :=
  repeat match goal with
         | H : _ && _ = true |- _ => apply andb_true_iff in H; destruct H
         | H : negb _ = true |- _ => apply negb_true_iff in H
         | H : _ || _ = false |- _ => apply orb_false_iff in H; destruct H
         end.

Lemma has_c_app c a b : has_c c (a ++ b) = has_c c a || has_c c b.
Proof. unfold has_c. apply existsb_app. Qed.

Lemma has_dot_app a b : has_dot (a ++ b) = has_dot a || has_dot b.
Proof. apply has_c_app. Qed.

Lemma has_c_false_forall c s : has_c c s = false <-> forallb (fun x => negb (N.eqb c x)) s = true.
Proof.
  induction s as [|x s IH]; cbn [has_c existsb forallb]; [tauto|].
  fold (has_c c s). rewrite orb_false_iff, andb_true_iff, negb_true_iff. tauto.
Qed.

(* ---------------------------------------------------------------------------------------------------------- *)
(* the regex scanner *)

Lemma hack_skip : forall a b, hack_aux (length a) (a ++ b) = hack_aux 0 b.
Proof. induction a as [|c a IH]; intros b; cbn [length app hack_aux]; [reflexivity|apply IH]. Qed.

(* characters other than '{' are copied *)
Lemma hack_copy : forall a b, has_c c_lb a = false -> hack_aux 0 (a ++ b) = a ++ hack_aux 0 b.
Proof.
  induction a as [|c a IH]; intros b H; cbn [app]; [reflexivity|].
  cbn [has_c existsb] in H. apply orb_false_iff in H as [H1 H2]. fold (has_c c_lb a) in H2.
  cbn [hack_aux]. rewrite N.eqb_sym in H1. rewrite H1. rewrite IH by exact H2. reflexivity.
Qed.

Lemma hack_copy1 c b : N.eqb c c_lb = false -> hack_aux 0 (c :: b) = c :: hack_aux 0 b.
Proof. intros H. cbn [hack_aux]. rewrite H. reflexivity. Qed.

Definition stopper (c : cp) : bool := N.eqb c c_colon || N.eqb c c_rb.

Lemma span_run_app : forall a c r, forallb (fun x => negb (stopper x)) a = true -> stopper c = true ->
  span_run (a ++ c :: r) = (a, c :: r).
Proof.
  induction a as [|x a IH]; intros c r Ha Hc; cbn [app span_run].
  - unfold stopper in Hc. rewrite Hc. reflexivity.
  - cbn [forallb] in Ha. apply andb_true_iff in Ha as [H1 H2]. apply negb_true_iff in H1. unfold stopper in H1.
    rewrite H1. rewrite (IH c r H2 Hc). reflexivity.
Qed.

Lemma span_nonws_app : forall a b, forallb (fun x => negb (is_space x)) a = true ->
  span_nonws (a ++ b) = (a ++ fst (span_nonws b), snd (span_nonws b)).
Proof.
  induction a as [|x a IH]; intros b Ha; cbn [app].
  - destruct (span_nonws b); reflexivity.
  - cbn [forallb] in Ha. apply andb_true_iff in Ha as [H1 H2]. apply negb_true_iff in H1.
    cbn [span_nonws]. rewrite H1. rewrite (IH b H2). reflexivity.
Qed.

Lemma split_last_rb_none : forall w, has_c c_rb w = false -> split_last_rb w = None.
Proof.
  induction w as [|x w IH]; intros H; cbn [split_last_rb]; [reflexivity|].
  cbn [has_c existsb] in H. apply orb_false_iff in H as [H1 H2]. fold (has_c c_rb w) in H2.
  rewrite (IH H2). rewrite N.eqb_sym in H1. rewrite H1. reflexivity.
Qed.

Lemma split_last_rb_app : forall a w, has_c c_rb w = false -> split_last_rb (a ++ c_rb :: w) = Some (a, w).
Proof.
  induction a as [|x a IH]; intros w H; cbn [app split_last_rb].
  - rewrite (split_last_rb_none w H). rewrite N.eqb_refl. reflexivity.
  - rewrite (IH w H). reflexivity.
Qed.

(* ---------------------------------------------------------------------------------------------------------- *)
(* safe trees *)

Fixpoint all_nested (l : list tok) : bool :=
  match l with [] => true | x :: r => safe_tok false x && all_nested r end.

Definition conv_ok (cv : option cp) : bool := match cv with Some c => conv_char c | None => true end.
Definition conv_text (cv : option cp) : text := match cv with Some c => [c_bang; c] | None => [] end.
Definition spec_text (sp : option (list tok)) : text := match sp with Some l => c_colon :: unparse l | None => [] end.

Lemma unparse_fld n cv sp : unparse_tok (TFld n cv sp) = c_lb :: n ++ conv_text cv ++ spec_text sp ++ [c_rb].
Proof. reflexivity. Qed.

Lemma safe_fld top n cv sp :
  safe_tok top (TFld n cv sp) =
  forallb name_char n &&
  (if has_dot n then
     not_int n && match cv, sp with
                  | None, None => true
                  | None, Some l => top && forallb spec_plain_tok l
                  | _, _ => false
                  end
   else conv_ok cv && match sp with None => true | Some l => all_nested l end).
Proof.
  reflexivity.
Qed.

Lemma forallb_impl {A} (p q : A -> bool) l : (forall x, p x = true -> q x = true) -> forallb p l = true -> forallb q l = true.
Proof.
  intros H. induction l as [|x l IH]; cbn [forallb]; [reflexivity|]. intros E. apply andb_true_iff in E as [E1 E2].
  rewrite (H x E1), (IH E2). reflexivity.
Qed.

Lemma name_char_facts c : name_char c = true ->
  N.eqb c c_lb = false /\ N.eqb c c_rb = false /\ N.eqb c c_colon = false /\ N.eqb c c_bang = false
  /\ N.eqb c c_lsq = false /\ N.eqb c c_rsq = false.
Proof. unfold name_char. intros H. bool_hyps. repeat split; assumption. Qed.

Lemma name_no_lb n : forallb name_char n = true -> has_c c_lb n = false.
Proof.
  intros H. apply has_c_false_forall. revert H. apply forallb_impl. intros c Hc.
  apply name_char_facts in Hc as [H1 _]. rewrite N.eqb_sym, H1. reflexivity.
Qed.

Lemma name_no_stop n : forallb name_char n = true -> forallb (fun x => negb (stopper x)) n = true.
Proof.
  apply forallb_impl. intros c Hc. apply name_char_facts in Hc as [_ [H2 [H3 _]]]. unfold stopper. rewrite H2, H3. reflexivity.
Qed.

Lemma follow_nested t rest : safe_tok false t = true -> follow_ok t rest = true.
Proof.
  destruct t as [c|c|n cv sp]; intros H; [reflexivity|cbn [safe_tok andb] in H; discriminate|].
  rewrite safe_fld in H. cbn [follow_ok]. destruct sp as [l|]; [|reflexivity].
  destruct (has_dot n); [|reflexivity]. bool_hyps. destruct cv; [discriminate|]. cbn [andb] in *. discriminate.
Qed.

Lemma spec_plain_chars l : forallb spec_plain_tok l = true ->
  forallb (fun c => plain_char c && negb (is_space c)) (unparse l) = true /\ map rw_tok l = l.
Proof.
  induction l as [|t r IH]; intros H; [split; reflexivity|]. cbn [forallb] in H. apply andb_true_iff in H as [H1 H2].
  destruct t as [c|c|n cv sp]; try discriminate. destruct (IH H2) as [I1 I2].
  cbn [unparse flat_map unparse_tok app forallb map rw_tok]. fold (unparse r). cbn [spec_plain_tok] in H1.
  rewrite H1, I1, I2. split; reflexivity.
Qed.

Definition hack_ok (t : tok) : Prop :=
  forall top rest, safe_tok top t = true -> follow_ok t rest = true ->
    hack_aux 0 (unparse_tok t ++ rest) = unparse_tok (rw_tok t) ++ hack_aux 0 rest.

Lemma hack_list_nested : forall l, Forall hack_ok l -> all_nested l = true ->
  forall tail, hack_aux 0 (unparse l ++ tail) = unparse (map rw_tok l) ++ hack_aux 0 tail.
Proof.
  induction l as [|t r IH]; intros HF Hs tail; [reflexivity|].
  inversion HF as [|? ? Ht Hr]; subst. cbn [all_nested] in Hs. apply andb_true_iff in Hs as [S1 S2].
  cbn [unparse flat_map map]. fold (unparse r). fold (unparse (map rw_tok r)). rewrite <- !app_assoc.
  rewrite (Ht false _ S1 (follow_nested _ _ S1)). rewrite (IH Hr S2 tail). reflexivity.
Qed.

Lemma try_match_nodot : forall a c r, forallb (fun x => negb (stopper x)) a = true -> stopper c = true ->
  has_dot a = false -> try_match (a ++ c :: r) = None.
Proof.
  intros a c r Ha Hc Hd. unfold try_match. rewrite (span_run_app a c r Ha Hc). rewrite Hd. reflexivity.
Qed.

Lemma conv_text_facts cv : conv_ok cv = true ->
  has_c c_lb (conv_text cv) = false /\ forallb (fun x => negb (stopper x)) (conv_text cv) = true
  /\ has_dot (conv_text cv) = false.
Proof.
  destruct cv as [c|]; cbn [conv_ok conv_text]; [|repeat split; reflexivity].
  unfold conv_char. intros H. bool_hyps.
  assert (E1 : N.eqb c_lb c = false) by (rewrite N.eqb_sym; assumption).
  assert (E2 : N.eqb c_dot c = false) by (rewrite N.eqb_sym; assumption).
  unfold has_dot, has_c, stopper. cbn [existsb forallb].
  replace (N.eqb c_lb c_bang) with false by reflexivity. replace (N.eqb c_dot c_bang) with false by reflexivity.
  replace (N.eqb c_bang c_colon) with false by reflexivity. replace (N.eqb c_bang c_rb) with false by reflexivity.
  rewrite E1, E2. repeat match goal with Hx : N.eqb c _ = false |- _ => rewrite Hx end. repeat split; reflexivity.
Qed.

Lemma spec_text_starts sp rest : exists c r, spec_text sp ++ c_rb :: rest = c :: r /\ stopper c = true.
Proof.
  destruct sp as [l|]; cbn [spec_text app].
  - exists c_colon, (unparse l ++ c_rb :: rest). split; reflexivity.
  - exists c_rb, rest. split; reflexivity.
Qed.

Ltac norm_app := cbn [app]; repeat (rewrite <- app_assoc; cbn [app]).

Lemma hack_tok : forall t, hack_ok t.
Proof.
  induction t as [c|c|n cv sp IH] using tok_ind'; intros top rest Hs Hf.
  - (* literal character *)
    cbn [safe_tok] in Hs. unfold plain_char in Hs. bool_hyps. cbn [unparse_tok rw_tok app]. apply hack_copy1. assumption.
  - (* escaped brace *)
    cbn [safe_tok] in Hs. apply andb_true_iff in Hs as [_ Hc]. cbn [unparse_tok rw_tok app].
    apply orb_true_iff in Hc as [Hc|Hc]; apply N.eqb_eq in Hc; subst c.
    + cbn [follow_ok] in Hf. rewrite N.eqb_refl in Hf. apply negb_true_iff in Hf.
      destruct (span_run rest) as [a b] eqn:Er. cbn [fst] in Hf.
      assert (T1 : try_match (c_lb :: rest) = None).
      { unfold try_match. cbn [span_run]. change (N.eqb c_lb c_colon || N.eqb c_lb c_rb) with false. cbv iota.
        rewrite Er. unfold has_dot in *. cbn [has_c existsb]. fold (has_c c_dot a). rewrite Hf. reflexivity. }
      assert (T2 : try_match rest = None).
      { unfold try_match. rewrite Er. rewrite Hf. reflexivity. }
      cbn [hack_aux]. rewrite !N.eqb_refl, T1, T2. reflexivity.
    + rewrite !hack_copy1 by reflexivity. reflexivity.
  - (* field *)
    rewrite safe_fld in Hs. apply andb_true_iff in Hs as [Hn Hs].
    rewrite unparse_fld. cbn [rw_tok]. destruct (has_dot n) eqn:Hd.
    + (* dotted *)
      apply andb_true_iff in Hs as [Hi Hs]. destruct cv as [cc|]; [discriminate|].
      rewrite unparse_fld. cbn [conv_text app].
      destruct sp as [l|].
      * (* with a plain spec *)
        apply andb_true_iff in Hs as [_ Hl]. apply spec_plain_chars in Hl as [Hl _].
        cbn [follow_ok] in Hf. rewrite Hd in Hf. apply negb_true_iff in Hf.
        cbn [spec_text]. set (U := unparse l) in *.
        assert (HU : forallb (fun x => negb (is_space x)) U = true).
        { revert Hl. apply forallb_impl. intros x Hx. apply andb_true_iff in Hx as [_ Hx]. exact Hx. }
        assert (T : try_match (n ++ c_colon :: U ++ c_rb :: rest) = Some (n, c_colon :: U, length n + S (length U) + 1)).
        { unfold try_match. rewrite (span_run_app n c_colon _ (name_no_stop n Hn) eq_refl). unfold has_dot in Hd. unfold has_dot. rewrite Hd.
          change (N.eqb c_colon c_rb) with false. cbv iota.
          rewrite (span_nonws_app U (c_rb :: rest) HU). cbn [span_nonws]. change (is_space c_rb) with false. cbv iota.
          destruct (span_nonws rest) as [w r'] eqn:Ew. cbn [fst snd] in *.
          rewrite (split_last_rb_app U w Hf). reflexivity. }
        norm_app. cbn [hack_aux]. rewrite N.eqb_refl. rewrite T.
        replace (n ++ c_colon :: U ++ c_rb :: rest) with ((n ++ c_colon :: U ++ [c_rb]) ++ rest)
          by (norm_app; reflexivity).
        replace (length n + S (length U) + 1) with (length (n ++ c_colon :: U ++ [c_rb]))
          by (rewrite !app_length; cbn [length]; rewrite !app_length; cbn [length]; lia).
        rewrite hack_skip. norm_app. reflexivity.
      * (* plain dotted field *)
        cbn [spec_text app].
        assert (T : try_match (n ++ c_rb :: rest) = Some (n, [], S (length n))).
        { unfold try_match. rewrite (span_run_app n c_rb rest (name_no_stop n Hn) eq_refl). unfold has_dot in Hd. unfold has_dot. rewrite Hd.
          rewrite N.eqb_refl. reflexivity. }
        norm_app. cbn [hack_aux]. rewrite N.eqb_refl. rewrite T.
        replace (n ++ c_rb :: rest) with ((n ++ [c_rb]) ++ rest) by (rewrite <- app_assoc; reflexivity).
        replace (S (length n)) with (length (n ++ [c_rb])) by (rewrite app_length; cbn [length]; lia).
        rewrite hack_skip. norm_app. reflexivity.
    + (* not dotted *)
      apply andb_true_iff in Hs as [Hc Hl]. rewrite unparse_fld.
      destruct (conv_text_facts cv Hc) as [C1 [C2 C3]].
      assert (Hnc : forallb (fun x => negb (stopper x)) (n ++ conv_text cv) = true).
      { rewrite forallb_app. rewrite (name_no_stop n Hn), C2. reflexivity. }
      assert (Hnd : has_dot (n ++ conv_text cv) = false) by (rewrite has_dot_app, Hd, C3; reflexivity).
      assert (Hnl : has_c c_lb (n ++ conv_text cv) = false) by (rewrite has_c_app, (name_no_lb n Hn), C1; reflexivity).
      norm_app.
      destruct (spec_text_starts sp rest) as [c0 [r0 [E0 S0]]].
      assert (T : try_match (n ++ conv_text cv ++ spec_text sp ++ c_rb :: rest) = None).
      { rewrite E0. rewrite app_assoc. apply try_match_nodot; assumption. }
      cbn [hack_aux]. rewrite N.eqb_refl. rewrite T. f_equal.
      rewrite (app_assoc n). rewrite hack_copy by exact Hnl. rewrite <- app_assoc. do 2 f_equal.
      destruct sp as [l|]; cbn [spec_text app].
      * rewrite hack_copy1 by reflexivity. f_equal. cbn [opt_all] in IH.
        rewrite (hack_list_nested l IH Hl). rewrite hack_copy1 by reflexivity. reflexivity.
      * apply hack_copy1. reflexivity.
Qed.
