(* Lemmas about Model/PyFormat.v: on the format strings described by safe_list, the regex rewrite followed by
   str.format renders what the documented convention (dotted names are keys of the `sqlfluff` mapping) says. *)
From SF Require Import Base.Prelude Model.PyFormat.

(* ---------------------------------------------------------------------------------------------------------- *)
(* induction principle for the nested type tok *)
Definition opt_all (P : tok -> Prop) (sp : option (list tok)) : Prop :=
  match sp with Some l => Forall P l | None => True end.

Section TokInd.
  Variable P : tok -> Prop.
  Hypothesis HC : forall c, P (TChr c).
  Hypothesis HE : forall c, P (TEsc c).
  Hypothesis HF : forall n cv sp, opt_all P sp -> P (TFld n cv sp).
  Fixpoint tok_ind' (t : tok) : P t :=
    match t with
    | TChr c => HC c
    | TEsc c => HE c
    | TFld n cv sp =>
        HF n cv sp
          (match sp as s return opt_all P s with
           | Some l => (fix go (l : list tok) : Forall P l :=
                          match l with
                          | [] => Forall_nil P
                          | x :: r => Forall_cons x (tok_ind' x) (go r)
                          end) l
           | None => I
           end)
    end.
End TokInd.

(* ---------------------------------------------------------------------------------------------------------- *)
(* characters *)
Lemma eqb_false_of_neq (a b : cp) : a <> b -> N.eqb a b = false.
Proof. intros H. apply N.eqb_neq. exact H. Qed.

Ltac bool_hyps :=
  repeat match goal with
         | H : _ && _ = true |- _ => apply andb_true_iff in H; destruct H
         | H : negb _ = true |- _ => apply negb_true_iff in H
         | H : _ || _ = false |- _ => apply orb_false_iff in H; destruct H
         end.

Lemma has_c_app c a b : has_c c (a ++ b) = has_c c a || has_c c b.
Proof. unfold has_c. apply existsb_app. Qed.

Lemma has_dot_app a b : has_dot (a ++ b) = has_dot a || has_dot b.
Proof. apply has_c_app. Qed.

Lemma has_c_false_forall c s : has_c c s = false <-> forallb (fun x => negb (N.eqb c x)) s = true.
Proof.
  induction s as [|x s IH]; cbn [has_c existsb forallb]; [tauto|].
  fold (has_c c s). rewrite orb_false_iff, andb_true_iff, negb_true_iff. tauto.
Qed.

(* ---------------------------------------------------------------------------------------------------------- *)
(* the regex scanner *)

Lemma hack_skip : forall a b, hack_aux (length a) (a ++ b) = hack_aux 0 b.
Proof. induction a as [|c a IH]; intros b; cbn [length app hack_aux]; [reflexivity|apply IH]. Qed.

(* characters other than '{' are copied *)
Lemma hack_copy : forall a b, has_c c_lb a = false -> hack_aux 0 (a ++ b) = a ++ hack_aux 0 b.
Proof.
  induction a as [|c a IH]; intros b H; cbn [app]; [reflexivity|].
  cbn [has_c existsb] in H. apply orb_false_iff in H as [H1 H2]. fold (has_c c_lb a) in H2.
  cbn [hack_aux]. rewrite N.eqb_sym in H1. rewrite H1. rewrite IH by exact H2. reflexivity.
Qed.

Lemma hack_copy1 c b : N.eqb c c_lb = false -> hack_aux 0 (c :: b) = c :: hack_aux 0 b.
Proof. intros H. cbn [hack_aux]. rewrite H. reflexivity. Qed.

Definition stopper (c : cp) : bool := N.eqb c c_colon || N.eqb c c_rb.

Lemma span_run_app : forall a c r, forallb (fun x => negb (stopper x)) a = true -> stopper c = true ->
  span_run (a ++ c :: r) = (a, c :: r).
Proof.
  induction a as [|x a IH]; intros c r Ha Hc; cbn [app span_run].
  - unfold stopper in Hc. rewrite Hc. reflexivity.
  - cbn [forallb] in Ha. apply andb_true_iff in Ha as [H1 H2]. apply negb_true_iff in H1. unfold stopper in H1.
    rewrite H1. rewrite (IH c r H2 Hc). reflexivity.
Qed.

Lemma span_nonws_app : forall a b, forallb (fun x => negb (is_space x)) a = true ->
  span_nonws (a ++ b) = (a ++ fst (span_nonws b), snd (span_nonws b)).
Proof.
  induction a as [|x a IH]; intros b Ha; cbn [app].
  - destruct (span_nonws b); reflexivity.
  - cbn [forallb] in Ha. apply andb_true_iff in Ha as [H1 H2]. apply negb_true_iff in H1.
    cbn [span_nonws]. rewrite H1. rewrite (IH b H2). reflexivity.
Qed.

Lemma split_last_rb_none : forall w, has_c c_rb w = false -> split_last_rb w = None.
Proof.
  induction w as [|x w IH]; intros H; cbn [split_last_rb]; [reflexivity|].
  cbn [has_c existsb] in H. apply orb_false_iff in H as [H1 H2]. fold (has_c c_rb w) in H2.
  rewrite (IH H2). rewrite N.eqb_sym in H1. rewrite H1. reflexivity.
Qed.

Lemma split_last_rb_app : forall a w, has_c c_rb w = false -> split_last_rb (a ++ c_rb :: w) = Some (a, w).
Proof.
  induction a as [|x a IH]; intros w H; cbn [app split_last_rb].
  - rewrite (split_last_rb_none w H). rewrite N.eqb_refl. reflexivity.
  - rewrite (IH w H). reflexivity.
Qed.

(* ---------------------------------------------------------------------------------------------------------- *)
(* safe trees *)

Fixpoint all_nested (l : list tok) : bool :=
  match l with [] => true | x :: r => safe_tok false x && all_nested r end.

Definition conv_ok (cv : option cp) : bool := match cv with Some c => conv_char c | None => true end.
Definition conv_text (cv : option cp) : text := match cv with Some c => [c_bang; c] | None => [] end.
Definition spec_text (sp : option (list tok)) : text := match sp with Some l => c_colon :: unparse l | None => [] end.

Lemma unparse_fld n cv sp : unparse_tok (TFld n cv sp) = c_lb :: n ++ conv_text cv ++ spec_text sp ++ [c_rb].
Proof. reflexivity. Qed.

Lemma safe_fld top n cv sp :
  safe_tok top (TFld n cv sp) =
  forallb name_char n &&
  (if has_dot n then
     not_int n && match cv, sp with
                  | None, None => true
                  | None, Some l => top && forallb spec_plain_tok l
                  | _, _ => false
                  end
   else conv_ok cv && match sp with None => true | Some l => all_nested l end).
Proof.
  reflexivity.
Qed.

Lemma forallb_impl {A} (p q : A -> bool) l : (forall x, p x = true -> q x = true) -> forallb p l = true -> forallb q l = true.
Proof.
  intros H. induction l as [|x l IH]; cbn [forallb]; [reflexivity|]. intros E. apply andb_true_iff in E as [E1 E2].
  rewrite (H x E1), (IH E2). reflexivity.
Qed.

Lemma name_char_facts c : name_char c = true ->
  N.eqb c c_lb = false /\ N.eqb c c_rb = false /\ N.eqb c c_colon = false /\ N.eqb c c_bang = false
  /\ N.eqb c c_lsq = false /\ N.eqb c c_rsq = false.
Proof. unfold name_char. intros H. bool_hyps. repeat split; assumption. Qed.

Lemma name_no_lb n : forallb name_char n = true -> has_c c_lb n = false.
Proof.
  intros H. apply has_c_false_forall. revert H. apply forallb_impl. intros c Hc.
  apply name_char_facts in Hc as [H1 _]. rewrite N.eqb_sym, H1. reflexivity.
Qed.

Lemma name_no_stop n : forallb name_char n = true -> forallb (fun x => negb (stopper x)) n = true.
Proof.
  apply forallb_impl. intros c Hc. apply name_char_facts in Hc as [_ [H2 [H3 _]]]. unfold stopper. rewrite H2, H3. reflexivity.
Qed.

Lemma follow_nested t rest : safe_tok false t = true -> follow_ok t rest = true.
Proof.
  destruct t as [c|c|n cv sp]; intros H; [reflexivity|cbn [safe_tok andb] in H; discriminate|].
  rewrite safe_fld in H. cbn [follow_ok]. destruct sp as [l|]; [|reflexivity].
  destruct (has_dot n); [|reflexivity]. bool_hyps. destruct cv; [discriminate|]. cbn [andb] in *. discriminate.
Qed.

Lemma spec_plain_chars l : forallb spec_plain_tok l = true ->
  forallb (fun c => plain_char c && negb (is_space c)) (unparse l) = true /\ map rw_tok l = l.
Proof.
  induction l as [|t r IH]; intros H; [split; reflexivity|]. cbn [forallb] in H. apply andb_true_iff in H as [H1 H2].
  destruct t as [c|c|n cv sp]; try discriminate. destruct (IH H2) as [I1 I2].
  cbn [unparse flat_map unparse_tok app forallb map rw_tok]. fold (unparse r). cbn [spec_plain_tok] in H1.
  rewrite H1, I1, I2. split; reflexivity.
Qed.

Definition hack_ok (t : tok) : Prop :=
  forall top rest, safe_tok top t = true -> follow_ok t rest = true ->
    hack_aux 0 (unparse_tok t ++ rest) = unparse_tok (rw_tok t) ++ hack_aux 0 rest.

Lemma hack_list_nested : forall l, Forall hack_ok l -> all_nested l = true ->
  forall tail, hack_aux 0 (unparse l ++ tail) = unparse (map rw_tok l) ++ hack_aux 0 tail.
Proof.
  induction l as [|t r IH]; intros HF Hs tail; [reflexivity|].
  inversion HF as [|? ? Ht Hr]; subst. cbn [all_nested] in Hs. apply andb_true_iff in Hs as [S1 S2].
  cbn [unparse flat_map map]. fold (unparse r). fold (unparse (map rw_tok r)). rewrite <- !app_assoc.
  rewrite (Ht false _ S1 (follow_nested _ _ S1)). rewrite (IH Hr S2 tail). reflexivity.
Qed.

Lemma try_match_nodot : forall a c r, forallb (fun x => negb (stopper x)) a = true -> stopper c = true ->
  has_dot a = false -> try_match (a ++ c :: r) = None.
Proof.
  intros a c r Ha Hc Hd. unfold try_match. rewrite (span_run_app a c r Ha Hc). rewrite Hd. reflexivity.
Qed.

Lemma conv_text_facts cv : conv_ok cv = true ->
  has_c c_lb (conv_text cv) = false /\ forallb (fun x => negb (stopper x)) (conv_text cv) = true
  /\ has_dot (conv_text cv) = false.
Proof.
  destruct cv as [c|]; cbn [conv_ok conv_text]; [|repeat split; reflexivity].
  unfold conv_char. intros H. bool_hyps.
  assert (E1 : N.eqb c_lb c = false) by (rewrite N.eqb_sym; assumption).
  assert (E2 : N.eqb c_dot c = false) by (rewrite N.eqb_sym; assumption).
  unfold has_dot, has_c, stopper. cbn [existsb forallb].
  replace (N.eqb c_lb c_bang) with false by reflexivity. replace (N.eqb c_dot c_bang) with false by reflexivity.
  replace (N.eqb c_bang c_colon) with false by reflexivity. replace (N.eqb c_bang c_rb) with false by reflexivity.
  rewrite E1, E2. repeat match goal with Hx : N.eqb c _ = false |- _ => rewrite Hx end. repeat split; reflexivity.
Qed.

Lemma spec_text_starts sp rest : exists c r, spec_text sp ++ c_rb :: rest = c :: r /\ stopper c = true.
Proof.
  destruct sp as [l|]; cbn [spec_text app].
  - exists c_colon, (unparse l ++ c_rb :: rest). split; reflexivity.
  - exists c_rb, rest. split; reflexivity.
Qed.

Ltac norm_app := cbn [app]; repeat (rewrite <- app_assoc; cbn [app]).

Lemma hack_tok : forall t, hack_ok t.
Proof.
  induction t as [c|c|n cv sp IH] using tok_ind'; intros top rest Hs Hf.
  - (* literal character *)
    cbn [safe_tok] in Hs. unfold plain_char in Hs. bool_hyps. cbn [unparse_tok rw_tok app]. apply hack_copy1. assumption.
  - (* escaped brace *)
    cbn [safe_tok] in Hs. apply andb_true_iff in Hs as [_ Hc]. cbn [unparse_tok rw_tok app].
    apply orb_true_iff in Hc as [Hc|Hc]; apply N.eqb_eq in Hc; subst c.
    + cbn [follow_ok] in Hf. rewrite N.eqb_refl in Hf. apply negb_true_iff in Hf.
      destruct (span_run rest) as [a b] eqn:Er. cbn [fst] in Hf.
      assert (T1 : try_match (c_lb :: rest) = None).
      { unfold try_match. cbn [span_run]. change (N.eqb c_lb c_colon || N.eqb c_lb c_rb) with false. cbv iota.
        rewrite Er. unfold has_dot in *. cbn [has_c existsb]. fold (has_c c_dot a). rewrite Hf. reflexivity. }
      assert (T2 : try_match rest = None).
      { unfold try_match. rewrite Er. rewrite Hf. reflexivity. }
      cbn [hack_aux]. rewrite !N.eqb_refl, T1, T2. reflexivity.
    + rewrite !hack_copy1 by reflexivity. reflexivity.
  - (* field *)
    rewrite safe_fld in Hs. apply andb_true_iff in Hs as [Hn Hs].
    rewrite unparse_fld. cbn [rw_tok]. destruct (has_dot n) eqn:Hd.
    + (* dotted *)
      apply andb_true_iff in Hs as [Hi Hs]. destruct cv as [cc|]; [discriminate|].
      rewrite unparse_fld. cbn [conv_text app].
      destruct sp as [l|].
      * (* with a plain spec *)
        apply andb_true_iff in Hs as [_ Hl]. apply spec_plain_chars in Hl as [Hl _].
        cbn [follow_ok] in Hf. rewrite Hd in Hf. apply negb_true_iff in Hf.
        cbn [spec_text]. set (U := unparse l) in *.
        assert (HU : forallb (fun x => negb (is_space x)) U = true).
        { revert Hl. apply forallb_impl. intros x Hx. apply andb_true_iff in Hx as [_ Hx]. exact Hx. }
        assert (T : try_match (n ++ c_colon :: U ++ c_rb :: rest) = Some (n, c_colon :: U, length n + S (length U) + 1)).
        { unfold try_match. rewrite (span_run_app n c_colon _ (name_no_stop n Hn) eq_refl). unfold has_dot in Hd. unfold has_dot. rewrite Hd.
          change (N.eqb c_colon c_rb) with false. cbv iota.
          rewrite (span_nonws_app U (c_rb :: rest) HU). cbn [span_nonws]. change (is_space c_rb) with false. cbv iota.
          destruct (span_nonws rest) as [w r'] eqn:Ew. cbn [fst snd] in *.
          rewrite (split_last_rb_app U w Hf). reflexivity. }
        norm_app. cbn [hack_aux]. rewrite N.eqb_refl. rewrite T.
        replace (n ++ c_colon :: U ++ c_rb :: rest) with ((n ++ c_colon :: U ++ [c_rb]) ++ rest)
          by (norm_app; reflexivity).
        replace (length n + S (length U) + 1) with (length (n ++ c_colon :: U ++ [c_rb]))
          by (rewrite !app_length; cbn [length]; rewrite !app_length; cbn [length]; lia).
        rewrite hack_skip. norm_app. reflexivity.
      * (* plain dotted field *)
        cbn [spec_text app].
        assert (T : try_match (n ++ c_rb :: rest) = Some (n, [], S (length n))).
        { unfold try_match. rewrite (span_run_app n c_rb rest (name_no_stop n Hn) eq_refl). unfold has_dot in Hd. unfold has_dot. rewrite Hd.
          rewrite N.eqb_refl. reflexivity. }
        norm_app. cbn [hack_aux]. rewrite N.eqb_refl. rewrite T.
        replace (n ++ c_rb :: rest) with ((n ++ [c_rb]) ++ rest) by (rewrite <- app_assoc; reflexivity).
        replace (S (length n)) with (length (n ++ [c_rb])) by (rewrite app_length; cbn [length]; lia).
        rewrite hack_skip. norm_app. reflexivity.
    + (* not dotted *)
      apply andb_true_iff in Hs as [Hc Hl]. rewrite unparse_fld.
      destruct (conv_text_facts cv Hc) as [C1 [C2 C3]].
      assert (Hnc : forallb (fun x => negb (stopper x)) (n ++ conv_text cv) = true).
      { rewrite forallb_app. rewrite (name_no_stop n Hn), C2. reflexivity. }
      assert (Hnd : has_dot (n ++ conv_text cv) = false) by (rewrite has_dot_app, Hd, C3; reflexivity).
      assert (Hnl : has_c c_lb (n ++ conv_text cv) = false) by (rewrite has_c_app, (name_no_lb n Hn), C1; reflexivity).
      norm_app.
      destruct (spec_text_starts sp rest) as [c0 [r0 [E0 S0]]].
      assert (T : try_match (n ++ conv_text cv ++ spec_text sp ++ c_rb :: rest) = None).
      { rewrite E0. rewrite app_assoc. apply try_match_nodot; assumption. }
      cbn [hack_aux]. rewrite N.eqb_refl. rewrite T. f_equal.
      rewrite (app_assoc n). rewrite hack_copy by exact Hnl. rewrite <- app_assoc. do 2 f_equal.
      destruct sp as [l|]; cbn [spec_text app].
      * rewrite hack_copy1 by reflexivity. f_equal. cbn [opt_all] in IH.
        rewrite (hack_list_nested l IH Hl). rewrite hack_copy1 by reflexivity. reflexivity.
      * apply hack_copy1. reflexivity.
Qed.

Lemma hack_list_top : forall l, safe_list l = true -> dot_hack (unparse l) = unparse (map rw_tok l).
Proof.
  unfold dot_hack. induction l as [|t r IH]; intros H; [reflexivity|].
  cbn [safe_list] in H. apply andb_true_iff in H as [H H3]. apply andb_true_iff in H as [H1 H2].
  cbn [unparse flat_map map]. fold (unparse r). fold (unparse (map rw_tok r)).
  rewrite (hack_tok t true (unparse r) H1 H2). rewrite (IH H3). reflexivity.
Qed.

(* ---------------------------------------------------------------------------------------------------------- *)
(* the format-string parser on unparsed trees *)

Definition pre (a : text) (o : option (text * text)) : option (text * text) :=
  match o with Some (sp, rest) => Some (a ++ sp, rest) | None => None end.

Lemma pre_pre a b o : pre a (pre b o) = pre (a ++ b) o.
Proof. destruct o as [[sp rest]|]; cbn [pre]; [rewrite app_assoc|]; reflexivity. Qed.

Lemma pre_nil o : pre [] o = o.
Proof. destruct o as [[sp rest]|]; reflexivity. Qed.

Lemma scan_spec_plain1 c d tail : plain_char c = true -> scan_spec d (c :: tail) = pre [c] (scan_spec d tail).
Proof.
  unfold plain_char. intros H. bool_hyps. cbn [scan_spec]. rewrite H0, H. unfold pre.
  destruct (scan_spec d tail) as [[sp rest]|]; reflexivity.
Qed.

Lemma scan_spec_plain : forall a d tail, forallb plain_char a = true -> scan_spec d (a ++ tail) = pre a (scan_spec d tail).
Proof.
  induction a as [|c a IH]; intros d tail H; cbn [app]; [rewrite pre_nil; reflexivity|].
  cbn [forallb] in H. apply andb_true_iff in H as [H1 H2]. rewrite (scan_spec_plain1 c d _ H1). rewrite (IH d tail H2).
  rewrite pre_pre. reflexivity.
Qed.

(* a name that the field-name scanner reads back whole *)
Definition pname (n : text) : Prop :=
  forallb plain_char n = true
  /\ forall t r1, is_term t = true -> scan_name false (n ++ t :: r1) = Some (n, t, r1).
Definition pconv (cv : option cp) : Prop := match cv with Some c => plain_char c = true | None => True end.

Fixpoint pwf (top : bool) (t : tok) : Prop :=
  match t with
  | TChr c => plain_char c = true
  | TEsc c => top = true /\ (c = c_lb \/ c = c_rb)
  | TFld n cv sp =>
      pname n /\ pconv cv /\
      match sp with
      | None => True
      | Some l => (fix all (l : list tok) : Prop := match l with [] => True | x :: r => pwf false x /\ all r end) l
      end
  end.

Fixpoint pwf_all (l : list tok) : Prop := match l with [] => True | x :: r => pwf false x /\ pwf_all r end.

Lemma pwf_fld top n cv sp :
  pwf top (TFld n cv sp) = (pname n /\ pconv cv /\ match sp with None => True | Some l => pwf_all l end).
Proof. reflexivity. Qed.

Definition sp_body (sp : option (list tok)) : text := match sp with Some l => unparse l | None => [] end.
Definition item_of (t : tok) : item :=
  match t with
  | TChr c => Lit c
  | TEsc c => Lit c
  | TFld n cv sp => Fld n cv (sp_body sp) (has_c c_lb (sp_body sp))
  end.

Lemma conv_text_plain cv : pconv cv -> forallb plain_char (conv_text cv) = true.
Proof. destruct cv as [c|]; cbn [pconv conv_text forallb]; [|reflexivity]. intros H. rewrite H. reflexivity. Qed.

Definition scan_ok (t : tok) : Prop :=
  pwf false t -> forall d tail, scan_spec d (unparse_tok t ++ tail) = pre (unparse_tok t) (scan_spec d tail).

Lemma scan_spec_list : forall l, Forall scan_ok l -> pwf_all l ->
  forall d tail, scan_spec d (unparse l ++ tail) = pre (unparse l) (scan_spec d tail).
Proof.
  induction l as [|t r IH]; intros HF Hw d tail; [cbn [unparse flat_map app]; rewrite pre_nil; reflexivity|].
  inversion HF as [|? ? Ht Hr]; subst. destruct Hw as [W1 W2].
  cbn [unparse flat_map]. fold (unparse r). rewrite <- app_assoc. rewrite (Ht W1). rewrite (IH Hr W2). rewrite pre_pre. reflexivity.
Qed.

Lemma scan_spec_tok : forall t, scan_ok t.
Proof.
  induction t as [c|c|n cv sp IH] using tok_ind'; intros Hw d tail.
  - cbn [pwf] in Hw. cbn [unparse_tok app]. apply scan_spec_plain1. exact Hw.
  - cbn [pwf] in Hw. destruct Hw as [Hw _]. discriminate.
  - rewrite pwf_fld in Hw. destruct Hw as [[Hn _] [Hc Hl]].
    rewrite unparse_fld. norm_app.
    cbn [scan_spec]. change (N.eqb c_lb c_rb) with false. cbv iota. rewrite N.eqb_refl.
    rewrite (scan_spec_plain n (S d) _ Hn). rewrite (scan_spec_plain (conv_text cv) (S d) _ (conv_text_plain cv Hc)).
    assert (E : scan_spec (S d) (spec_text sp ++ c_rb :: tail) = pre (spec_text sp ++ [c_rb]) (scan_spec d tail)).
    { destruct sp as [l|]; cbn [spec_text app].
      - rewrite (scan_spec_plain1 c_colon) by reflexivity. cbn [opt_all] in IH.
        rewrite (scan_spec_list l IH Hl). cbn [scan_spec]. rewrite N.eqb_refl. rewrite !pre_pre.
        destruct (scan_spec d tail) as [[s0 r0]|]; cbn [pre]; [|reflexivity]. norm_app. reflexivity.
      - cbn [scan_spec]. rewrite N.eqb_refl. destruct (scan_spec d tail) as [[s0 r0]|]; reflexivity. }
    rewrite E. rewrite !pre_pre. destruct (scan_spec d tail) as [[s0 r0]|]; cbn [pre]; [|reflexivity]. norm_app. reflexivity.
Qed.

Lemma scan_spec_body l rest : pwf_all l -> scan_spec 0 (unparse l ++ c_rb :: rest) = Some (unparse l, rest).
Proof.
  intros Hw. rewrite (scan_spec_list l (proj2 (Forall_forall _ _) (fun t _ => scan_spec_tok t)) Hw).
  cbn [scan_spec]. rewrite N.eqb_refl. cbn [pre]. rewrite app_nil_r. reflexivity.
Qed.

Lemma parse_skip : forall a b, parse_aux (length a) (a ++ b) = parse_aux 0 b.
Proof. induction a as [|c a IH]; intros b; cbn [length app parse_aux]; [reflexivity|apply IH]. Qed.

Lemma parse_open R c2 r' : R = c2 :: r' -> N.eqb c2 c_lb = false ->
  parse_aux 0 (c_lb :: R) =
  match parse_field R with None => [Bad] | Some (it, rest) => it :: parse_aux (length R - length rest) R end.
Proof. intros -> H. cbn [parse_aux]. rewrite N.eqb_refl, H. reflexivity. Qed.

Lemma parse_field_tok n cv sp rest : pname n -> pconv cv -> match sp with None => True | Some l => pwf_all l end ->
  parse_field (n ++ conv_text cv ++ spec_text sp ++ c_rb :: rest) = Some (item_of (TFld n cv sp), rest).
Proof.
  intros [_ Hn] Hc Hl. unfold parse_field. cbn [item_of].
  destruct cv as [c|]; cbn [conv_text app].
  - rewrite (Hn c_bang _ eq_refl). change (N.eqb c_bang c_rb) with false. change (N.eqb c_bang c_colon) with false. cbv iota.
    destruct sp as [l|]; cbn [spec_text app sp_body].
    + change (N.eqb c_colon c_rb) with false. rewrite N.eqb_refl. cbv iota. unfold spec_item. rewrite (scan_spec_body l rest Hl). reflexivity.
    + rewrite N.eqb_refl. reflexivity.
  - destruct sp as [l|]; cbn [spec_text app sp_body].
    + rewrite (Hn c_colon _ eq_refl). change (N.eqb c_colon c_rb) with false. rewrite N.eqb_refl. cbv iota.
      unfold spec_item. rewrite (scan_spec_body l rest Hl). reflexivity.
    + rewrite (Hn c_rb _ eq_refl). rewrite N.eqb_refl. reflexivity.
Qed.

Lemma first_not_lb n cv sp rest : forallb plain_char n = true ->
  exists c2 r', n ++ conv_text cv ++ spec_text sp ++ c_rb :: rest = c2 :: r' /\ N.eqb c2 c_lb = false.
Proof.
  intros Hn. destruct n as [|c n'].
  - destruct cv as [c|]; [eexists; eexists; split; [reflexivity|reflexivity]|].
    destruct sp as [l|]; eexists; eexists; split; reflexivity.
  - cbn [forallb] in Hn. apply andb_true_iff in Hn as [H _]. unfold plain_char in H. bool_hyps.
    eexists; eexists; split; [reflexivity|assumption].
Qed.

Lemma parse_tok top t rest : pwf top t -> parse_aux 0 (unparse_tok t ++ rest) = item_of t :: parse_aux 0 rest.
Proof.
  destruct t as [c|c|n cv sp]; intros Hw.
  - cbn [pwf] in Hw. unfold plain_char in Hw. bool_hyps. cbn [unparse_tok app parse_aux item_of]. rewrite H, H0. reflexivity.
  - cbn [pwf] in Hw. destruct Hw as [_ [-> | ->]]; cbn [unparse_tok app parse_aux item_of].
    + rewrite !N.eqb_refl. reflexivity.
    + change (N.eqb c_rb c_lb) with false. rewrite !N.eqb_refl. reflexivity.
  - rewrite pwf_fld in Hw. destruct Hw as [Hn [Hc Hl]]. rewrite unparse_fld. norm_app.
    destruct (first_not_lb n cv sp rest (proj1 Hn)) as [c2 [r' [E Hc2]]].
    rewrite (parse_open _ c2 r' E Hc2). rewrite (parse_field_tok n cv sp rest Hn Hc Hl). f_equal.
    replace (n ++ conv_text cv ++ spec_text sp ++ c_rb :: rest) with ((n ++ conv_text cv ++ spec_text sp ++ [c_rb]) ++ rest)
      by (norm_app; reflexivity).
    rewrite app_length. replace (length (n ++ conv_text cv ++ spec_text sp ++ [c_rb]) + length rest - length rest)
      with (length (n ++ conv_text cv ++ spec_text sp ++ [c_rb])) by lia.
    apply parse_skip.
Qed.

Lemma parse_list top : forall l, Forall (pwf top) l -> parse_fmt (unparse l) = map item_of l.
Proof.
  unfold parse_fmt. induction l as [|t r IH]; intros H; [reflexivity|]. inversion H as [|? ? H1 H2]; subst.
  cbn [unparse flat_map map]. fold (unparse r). rewrite (parse_tok top t _ H1). rewrite (IH H2). reflexivity.
Qed.

(* ---------------------------------------------------------------------------------------------------------- *)
(* names *)

Lemma name_plain n : forallb name_char n = true -> forallb plain_char n = true.
Proof.
  apply forallb_impl. intros c Hc. apply name_char_facts in Hc as [H1 [H2 _]]. unfold plain_char. rewrite H1, H2. reflexivity.
Qed.

Lemma scan_name_clean : forall n t r1, forallb name_char n = true -> is_term t = true ->
  scan_name false (n ++ t :: r1) = Some (n, t, r1).
Proof.
  induction n as [|c n IH]; intros t r1 Hn Ht; cbn [app scan_name].
  - rewrite Ht. unfold is_term in Ht. destruct (N.eqb t c_lb) eqn:E; [|reflexivity].
    apply N.eqb_eq in E. subst t. discriminate Ht.
  - cbn [forallb] in Hn. apply andb_true_iff in Hn as [Hc Hn]. apply name_char_facts in Hc as [H1 [H2 [H3 [H4 [H5 H6]]]]].
    rewrite H1. unfold is_term. rewrite H2, H3, H4. cbn [orb]. rewrite H5. rewrite (IH t r1 Hn Ht). reflexivity.
Qed.

Lemma pname_clean n : forallb name_char n = true -> pname n.
Proof. intros H. split; [apply name_plain; exact H|]. intros t r1 Ht. apply scan_name_clean; assumption. Qed.

Lemma scan_name_true_step c r :
  scan_name true (c :: r) =
  match scan_name (negb (N.eqb c c_rsq)) r with Some (n, t, rest) => Some (c :: n, t, rest) | None => None end.
Proof. reflexivity. Qed.

Lemma scan_name_inbr : forall n t r1, forallb name_char n = true -> is_term t = true ->
  scan_name true (n ++ c_rsq :: t :: r1) = Some (n ++ [c_rsq], t, r1).
Proof.
  induction n as [|c n IH]; intros t r1 Hn Ht; cbn [app]; rewrite scan_name_true_step.
  - rewrite N.eqb_refl. cbn [negb]. pose proof (scan_name_clean [] t r1 eq_refl Ht) as E. cbn [app] in E. rewrite E. reflexivity.
  - cbn [forallb] in Hn. apply andb_true_iff in Hn as [Hc Hn]. apply name_char_facts in Hc as [_ [_ [_ [_ [_ H6]]]]].
    rewrite H6. cbn [negb]. rewrite (IH t r1 Hn Ht). reflexivity.
Qed.

Definition magic (n : text) : text := t_sqlfluff ++ c_lsq :: n ++ [c_rsq].

Lemma pname_magic n : forallb name_char n = true -> pname (magic n).
Proof.
  intros H. split.
  - unfold magic. rewrite forallb_app. cbn [forallb]. rewrite forallb_app. rewrite (name_plain n H). reflexivity.
  - intros t r1 Ht. unfold magic. rewrite <- app_assoc. cbn [app]. rewrite <- app_assoc. cbn [app].
    unfold t_sqlfluff. cbn [app scan_name].
    repeat match goal with |- context [N.eqb ?a ?b] => change (N.eqb a b) with false; cbv iota end.
    unfold is_term.
    repeat match goal with |- context [N.eqb ?a ?b] => change (N.eqb a b) with false; cbv iota end.
    cbn [orb]. change (N.eqb c_lsq c_lsq) with true. rewrite (scan_name_inbr n t r1 H Ht). reflexivity.
Qed.

Lemma safe_pwf : forall t top, safe_tok top t = true -> pwf top t /\ pwf top (rw_tok t).
Proof.
  induction t as [c|c|n cv sp IH] using tok_ind'; intros top Hs.
  - cbn [safe_tok] in Hs. split; exact Hs.
  - cbn [safe_tok] in Hs. apply andb_true_iff in Hs as [Ht Hc]. apply orb_true_iff in Hc.
    assert (Hc' : c = c_lb \/ c = c_rb) by (destruct Hc as [Hc|Hc]; apply N.eqb_eq in Hc; tauto).
    cbn [rw_tok pwf]. tauto.
  - rewrite safe_fld in Hs. apply andb_true_iff in Hs as [Hn Hs]. cbn [rw_tok]. destruct (has_dot n) eqn:Hd.
    + apply andb_true_iff in Hs as [_ Hs]. destruct cv as [cc|]; [discriminate|].
      assert (Hl : match sp with None => True | Some l => pwf_all l end).
      { destruct sp as [l|]; [|exact I]. apply andb_true_iff in Hs as [_ Hs]. clear IH.
        induction l as [|x r IHl]; [exact I|]. cbn [forallb] in Hs. apply andb_true_iff in Hs as [H1 H2].
        split; [|apply IHl; exact H2]. destruct x as [c|c|? ? ?]; try discriminate. cbn [spec_plain_tok] in H1.
        apply andb_true_iff in H1 as [H1 _]. exact H1. }
      rewrite !pwf_fld. split; (split; [|split; [exact I|exact Hl]]); [apply pname_clean|apply pname_magic]; exact Hn.
    + apply andb_true_iff in Hs as [Hc Hl].
      assert (Hc' : pconv cv).
      { destruct cv as [c|]; [|exact I]. cbn [conv_ok] in Hc. unfold conv_char in Hc. bool_hyps. cbn [pconv]. unfold plain_char.
        rewrite H, H2. reflexivity. }
      rewrite !pwf_fld. destruct sp as [l|].
      * cbn [opt_all] in IH.
        assert (Hl' : pwf_all l /\ pwf_all (map rw_tok l)).
        { induction l as [|x r IHl]; [split; exact I|]. inversion IH as [|? ? I1 I2]; subst.
          cbn [all_nested] in Hl. apply andb_true_iff in Hl as [L1 L2]. destruct (I1 false L1) as [A1 A2].
          destruct (IHl I2 L2) as [B1 B2]. cbn [map pwf_all]. tauto. }
        split; (split; [apply pname_clean; exact Hn|split; [exact Hc'|tauto]]).
      * split; (split; [apply pname_clean; exact Hn|split; [exact Hc'|exact I]]).
Qed.

Lemma safe_list_pwf : forall l, safe_list l = true -> Forall (pwf true) l /\ Forall (pwf true) (map rw_tok l).
Proof.
  induction l as [|t r IH]; intros H; [split; constructor|].
  cbn [safe_list] in H. apply andb_true_iff in H as [H H3]. apply andb_true_iff in H as [H1 _].
  destruct (safe_pwf t true H1) as [A B]. destruct (IH H3) as [C D]. cbn [map]. split; constructor; assumption.
Qed.

Lemma nested_pwf : forall l, all_nested l = true -> Forall (pwf false) l /\ Forall (pwf false) (map rw_tok l).
Proof.
  induction l as [|t r IH]; intros H; [split; constructor|].
  cbn [all_nested] in H. apply andb_true_iff in H as [H1 H3].
  destruct (safe_pwf t false H1) as [A B]. destruct (IH H3) as [C D]. cbn [map]. split; constructor; assumption.
Qed.

(* ---------------------------------------------------------------------------------------------------------- *)
(* rendering *)

Lemma unparse_rw_nolb : forall l, has_c c_lb (unparse l) = false -> map rw_tok l = l.
Proof.
  induction l as [|t r IH]; intros H; [reflexivity|]. cbn [unparse flat_map] in H. fold (unparse r) in H.
  rewrite has_c_app in H. apply orb_false_iff in H as [H1 H2]. cbn [map]. rewrite (IH H2).
  destruct t as [c|c|n cv sp]; [reflexivity|reflexivity|]. rewrite unparse_fld in H1. cbn [has_c existsb] in H1.
  rewrite N.eqb_refl in H1. discriminate.
Qed.

Lemma unparse_rw_haslb : forall l, has_c c_lb (unparse (map rw_tok l)) = has_c c_lb (unparse l).
Proof.
  induction l as [|t r IH]; [reflexivity|]. cbn [map unparse flat_map]. fold (unparse r). fold (unparse (map rw_tok r)).
  rewrite !has_c_app. rewrite IH. f_equal.
  destruct t as [c|c|n cv sp]; [reflexivity|reflexivity|]. cbn [rw_tok]. destruct (has_dot n); rewrite !unparse_fld; cbn [has_c existsb];
    rewrite N.eqb_refl; reflexivity.
Qed.

Section RenderP.
  Variable val : Type.
  Variable kw : text -> option val.
  Variable getattr_ : val -> text -> res val.
  Variable getitem_int : val -> N -> res val.
  Variable getitem_str : val -> text -> res val.
  Variable convert : cp -> val -> res val.
  Variable fmt : val -> text -> res text.

  Notation gf := (get_field val kw getattr_ getitem_int getitem_str).
  Notation gfs := (get_field_spec val kw getattr_ getitem_int getitem_str).
  Notation bld := (build val convert fmt).

  Fixpoint render_items (g : text -> res val) (sub : text -> res text) (its : list item) : res text :=
    match its with
    | [] => Ok []
    | Lit c :: r => do t <- render_items g sub r; Ok (c :: t)
    | Bad :: _ => Err EValue
    | Fld n cv sp ex :: r =>
        do v <- g n;
        do v' <- do_conv val convert cv v;
        do sp' <- (if ex then sub sp else Ok sp);
        do t <- fmt v' sp';
        do t' <- render_items g sub r;
        Ok (t ++ t')
    end.

  Lemma build_S g d s : bld g (S d) s = render_items g (bld g d) (parse_fmt s).
  Proof.
    cbn [build]. generalize (parse_fmt s). intros its. induction its as [|it r IH]; [reflexivity|].
    destruct it as [c|n cv sp ex|]; cbn [render_items]; [rewrite IH; reflexivity| |reflexivity].
    destruct (g n) as [v|e]; cbn [bind]; [|reflexivity].
    destruct (do_conv val convert cv v) as [v'|e]; cbn [bind]; [|reflexivity].
    destruct (if ex then bld g d sp else Ok sp) as [sp'|e]; cbn [bind]; [|reflexivity].
    destruct (fmt v' sp') as [t|e]; cbn [bind]; [|reflexivity]. rewrite IH. reflexivity.
  Qed.

  Lemma walk_item : forall n acc v r, has_c c_rsq n = false ->
    walk val getattr_ getitem_int getitem_str (WItem acc) v (n ++ c_rsq :: r) =
    (do v' <- fin_item val getitem_int getitem_str v (rev n ++ acc); walk val getattr_ getitem_int getitem_str WSep v' r).
  Proof.
    induction n as [|c n IH]; intros acc v r H; cbn [app walk].
    - rewrite N.eqb_refl. reflexivity.
    - cbn [has_c existsb] in H. apply orb_false_iff in H as [H1 H2]. fold (has_c c_rsq n) in H2.
      rewrite N.eqb_sym in H1. rewrite H1. rewrite (IH (c :: acc) v r H2). cbn [rev]. rewrite <- app_assoc. reflexivity.
  Qed.

  Lemma name_no_rsq n : forallb name_char n = true -> has_c c_rsq n = false /\ has_c c_lsq n = false.
  Proof.
    intros H. split; apply has_c_false_forall; revert H; apply forallb_impl; intros c Hc;
      apply name_char_facts in Hc as [_ [_ [_ [_ [H5 H6]]]]]; rewrite N.eqb_sym; [rewrite H6|rewrite H5]; reflexivity.
  Qed.

  Lemma split_first_magic n : split_first (magic n) = (t_sqlfluff, c_lsq :: n ++ [c_rsq]).
  Proof.
    unfold magic, t_sqlfluff. reflexivity.
  Qed.

  (* the rewritten name is looked up as ONE key of the sqlfluff mapping *)
  Lemma get_field_magic n : forallb name_char n = true -> has_dot n = true -> not_int n = true ->
    gf (magic n) = gfs n.
  Proof.
    intros Hn Hd Hi. destruct (name_no_rsq n Hn) as [R1 R2].
    unfold get_field_spec, dotted. rewrite Hd, R1, R2. cbn [negb andb].
    unfold get_field. rewrite split_first_magic.
    change (get_integer t_sqlfluff) with (@Ok (option N) None). cbn [bind]. unfold t_sqlfluff at 1.
    destruct (kw t_sqlfluff) as [v|]; [|reflexivity].
    cbn [walk]. change (N.eqb c_lsq c_dot) with false. rewrite N.eqb_refl. cbv iota.
    replace (n ++ [c_rsq]) with (n ++ c_rsq :: []) by reflexivity. rewrite (walk_item n [] v [] R1). rewrite app_nil_r.
    unfold fin_item. destruct (rev n) as [|c0 rn] eqn:Er.
    - assert (n = []) by (rewrite <- (rev_involutive n), Er; reflexivity). subst n. discriminate Hd.
    - rewrite <- Er. rewrite rev_involutive. unfold not_int in Hi.
      destruct (get_integer n) as [[i|]|e]; try discriminate. cbn [bind walk].
      destruct (getitem_str v n); reflexivity.
  Qed.

  Lemma get_field_nodot n : has_dot n = false -> gfs n = gf n.
  Proof. intros H. unfold get_field_spec, dotted. rewrite H. reflexivity. Qed.

  Definition render_ok (t : tok) : Prop :=
    forall top, safe_tok top t = true ->
    forall (sub1 sub2 : text -> res text) r1 r2,
      (forall l, all_nested l = true -> sub1 (unparse (map rw_tok l)) = sub2 (unparse l)) ->
      render_items gf sub1 r1 = render_items gfs sub2 r2 ->
      render_items gf sub1 (item_of (rw_tok t) :: r1) = render_items gfs sub2 (item_of t :: r2).

  Lemma render_tok : forall t, render_ok t.
  Proof.
    intros t top Hs sub1 sub2 r1 r2 Hsub Hr. destruct t as [c|c|n cv sp].
    - cbn [rw_tok item_of render_items]. rewrite Hr. reflexivity.
    - cbn [rw_tok item_of render_items]. rewrite Hr. reflexivity.
    - rewrite safe_fld in Hs. apply andb_true_iff in Hs as [Hn Hs]. cbn [rw_tok]. destruct (has_dot n) eqn:Hd.
      + apply andb_true_iff in Hs as [Hi Hs]. destruct cv as [cc|]; [discriminate|].
        fold (magic n). cbn [item_of render_items]. rewrite (get_field_magic n Hn Hd Hi).
        assert (E : has_c c_lb (sp_body sp) = false).
        { destruct sp as [l|]; [|reflexivity]. apply andb_true_iff in Hs as [_ Hs]. apply spec_plain_chars in Hs as [Hs _].
          cbn [sp_body]. apply has_c_false_forall. revert Hs. apply forallb_impl. intros x Hx. apply andb_true_iff in Hx as [Hx _].
          unfold plain_char in Hx. bool_hyps. rewrite N.eqb_sym, H. reflexivity. }
        rewrite E. rewrite Hr. reflexivity.
      + apply andb_true_iff in Hs as [Hc Hl]. cbn [item_of render_items]. rewrite (get_field_nodot n Hd).
        destruct (gf n) as [v|e]; cbn [bind]; [|reflexivity].
        destruct (do_conv val convert cv v) as [v'|e]; cbn [bind]; [|reflexivity].
        assert (E : (if has_c c_lb (sp_body (match sp with Some l => Some (map rw_tok l) | None => None end))
                     then sub1 (sp_body (match sp with Some l => Some (map rw_tok l) | None => None end))
                     else Ok (sp_body (match sp with Some l => Some (map rw_tok l) | None => None end)))
                    = (if has_c c_lb (sp_body sp) then sub2 (sp_body sp) else Ok (sp_body sp))).
        { destruct sp as [l|]; [|reflexivity]. cbn [sp_body]. rewrite unparse_rw_haslb.
          destruct (has_c c_lb (unparse l)) eqn:El; [apply Hsub; exact Hl|]. rewrite (unparse_rw_nolb l El). reflexivity. }
        rewrite E. destruct (if has_c c_lb (sp_body sp) then sub2 (sp_body sp) else Ok (sp_body sp)) as [sp'|e]; cbn [bind]; [|reflexivity].
        destruct (fmt v' sp') as [t0|e]; cbn [bind]; [|reflexivity]. rewrite Hr. reflexivity.
  Qed.

  Lemma render_list : forall l top (sub1 sub2 : text -> res text),
    Forall (fun t => safe_tok top t = true) l ->
    (forall l', all_nested l' = true -> sub1 (unparse (map rw_tok l')) = sub2 (unparse l')) ->
    render_items gf sub1 (map item_of (map rw_tok l)) = render_items gfs sub2 (map item_of l).
  Proof.
    induction l as [|t r IH]; intros top sub1 sub2 H Hsub; [reflexivity|]. inversion H as [|? ? H1 H2]; subst.
    cbn [map]. apply (render_tok t top H1); [exact Hsub|]. apply (IH top); assumption.
  Qed.

  Lemma all_nested_forall l : all_nested l = true -> Forall (fun t => safe_tok false t = true) l.
  Proof.
    induction l as [|t r IH]; intros H; [constructor|]. cbn [all_nested] in H. apply andb_true_iff in H as [H1 H2].
    constructor; [exact H1|apply IH; exact H2].
  Qed.

  Lemma safe_list_forall l : safe_list l = true -> Forall (fun t => safe_tok true t = true) l.
  Proof.
    induction l as [|t r IH]; intros H; [constructor|]. cbn [safe_list] in H. apply andb_true_iff in H as [H H3].
    apply andb_true_iff in H as [H1 _]. constructor; [exact H1|apply IH; exact H3].
  Qed.

  (* nested specs, any recursion depth *)
  Lemma build_nested : forall d l, all_nested l = true -> bld gf d (unparse (map rw_tok l)) = bld gfs d (unparse l).
  Proof.
    induction d as [|d IH]; intros l H; [reflexivity|]. rewrite !build_S.
    destruct (nested_pwf l H) as [W1 W2]. rewrite (parse_list false _ W1), (parse_list false _ W2).
    apply (render_list l false); [apply all_nested_forall; exact H|]. intros l' H'. apply IH. exact H'.
  Qed.

  Lemma build_top : forall d l, safe_list l = true -> bld gf d (unparse (map rw_tok l)) = bld gfs d (unparse l).
  Proof.
    intros [|d] l H; [reflexivity|]. rewrite !build_S.
    destruct (safe_list_pwf l H) as [W1 W2]. rewrite (parse_list true _ W1), (parse_list true _ W2).
    apply (render_list l true); [apply safe_list_forall; exact H|]. intros l' H'. apply build_nested. exact H'.
  Qed.

  Theorem dot_hack_correct_lemma : forall l, safe_list l = true ->
    py_render val kw getattr_ getitem_int getitem_str convert fmt (unparse l)
    = spec_process val kw getattr_ getitem_int getitem_str convert fmt (unparse l).
  Proof.
    intros l H. unfold py_render, spec_process, py_format, spec_render. rewrite (hack_list_top l H).
    rewrite (build_top 2 l H). reflexivity.
  Qed.
End RenderP.

(* ---------------------------------------------------------------------------------------------------------- *)
(* "every valid format string renders" on the proved fragment *)
Lemma valid_renders_lemma : forall (val : Type) kw getattr_ getitem_int getitem_str convert fmt (l : list tok) (out : text),
  safe_list l = true ->
  spec_process val kw getattr_ getitem_int getitem_str convert fmt (unparse l) = Ok out ->
  py_render val kw getattr_ getitem_int getitem_str convert fmt (unparse l) = Ok out.
Proof. intros. rewrite dot_hack_correct_lemma by assumption. assumption. Qed.

(* ---------------------------------------------------------------------------------------------------------- *)
(* witnesses: outside that fragment the rewrite is wrong.  Context: sqlfluff = {"a.b": "zz", "x.y": "w"}, a = "A"
   (value 0 = the mapping, 1 = "zz", 2 = "w", 3 = "A", 4 = repr("zz")); every needed oracle answer is in the table. *)
Definition w_tab : otab :=
  mkOtab [(t_sqlfluff, 0); ([97]%N, 3)]
         [(3, [98]%N, Err ERuntime)]                                  (* "A".b -> AttributeError *)
         []
         [(0, [97; 46; 98]%N, Ok 1); (0, [120; 46; 121]%N, Ok 2);
          (0, [123; 32; 123; 97; 46; 98]%N, Err EKey); (0, [97; 46; 98; 33; 114]%N, Err EKey)]
         [(114%N, 1, Ok 4)]
         [(1, [], Ok [122; 122]%N); (2, [], Ok [119]%N); (4, [], Ok [39; 122; 122; 39]%N);
          (1, [32; 62; 52]%N, Ok [32; 32; 122; 122]%N); (1, [62; 52]%N, Ok [32; 32; 122; 122]%N)].

(* "{{ {a.b}" : valid, renders "{ zz"; the regex matches at the escaped brace *)
Definition w_escaped : text := [123; 123; 32; 123; 97; 46; 98; 125]%N.
Lemma refuted_escaped :
  t_spec w_tab w_escaped = Ok [123; 32; 122; 122]%N /\ t_render w_tab w_escaped = Err ETemplater
  /\ dot_hack w_escaped = [123%N] ++ t_sqlfluff ++ [91; 123; 32; 123; 97; 46; 98; 93; 125]%N.
Proof. vm_compute. repeat split; reflexivity. Qed.

(* "{a.b!r}" : the conversion is captured into the key *)
Definition w_conversion : text := [123; 97; 46; 98; 33; 114; 125]%N.
Lemma refuted_conversion :
  t_spec w_tab w_conversion = Ok [39; 122; 122; 39]%N /\ t_render w_tab w_conversion = Err ETemplater.
Proof. vm_compute. split; reflexivity. Qed.

(* "{a.b: >4}" : a spec with a space is not matched at all; str.format then evaluates "A".b (AttributeError, reported as a templating error since the repair of the error funnel) *)
Definition w_spec_space : text := [123; 97; 46; 98; 58; 32; 62; 52; 125]%N.
Lemma refuted_spec_space :
  t_spec w_tab w_spec_space = Ok [32; 32; 122; 122]%N /\ t_render w_tab w_spec_space = Err ETemplater
  /\ dot_hack w_spec_space = w_spec_space.
Proof. vm_compute. repeat split; reflexivity. Qed.

(* "{a.b:>4}{x.y}" : group 2 runs to the last close brace and swallows the next dotted field *)
Definition w_adjacent : text := [123; 97; 46; 98; 58; 62; 52; 125; 123; 120; 46; 121; 125]%N.
Lemma refuted_adjacent :
  t_spec w_tab w_adjacent = Ok [32; 32; 122; 122; 119]%N /\ exists e, t_render w_tab w_adjacent = Err e.
Proof. vm_compute. split; [reflexivity|eexists; reflexivity]. Qed.
