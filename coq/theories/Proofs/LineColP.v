From SF Require Import Base.Prelude Model.LineCol.

Lemma bisect_below : forall s b x, x <= b -> bisect_left (nl_indices_from b s) x = 0.
Proof.
  induction s as [|c s IH]; intros b x Hx; cbn [nl_indices_from]; [reflexivity|].
  destruct (is_nl c); cbn [bisect_left].
  - destruct (Nat.ltb_spec b x); [lia|reflexivity].
  - apply IH; lia.
Qed.

Lemma bisect_is_count : forall s b q, q <= length s ->
  bisect_left (nl_indices_from b s) (b + q) = count_nl (firstn q s).
Proof.
  induction s as [|c s IH]; intros b q Hq.
  - cbn [length] in Hq. assert (q = 0) by lia; subst. reflexivity.
  - destruct q as [|q].
    + cbn [firstn count_nl]. apply bisect_below; lia.
    + cbn [length] in Hq. cbn [firstn count_nl nl_indices_from].
      destruct (is_nl c); cbn [bisect_left].
      * destruct (Nat.ltb_spec b (b + S q)); [|lia].
        f_equal. replace (b + S q) with (S b + q) by lia. apply IH; lia.
      * replace (b + S q) with (S b + q) by lia. apply IH; lia.
Qed.

Lemma last_line_nonl : forall s, count_nl s = 0 -> last_line s = s.
Proof.
  induction s as [|c s IH]; intros H; [reflexivity|].
  cbn [count_nl] in H. cbn [last_line].
  destruct (is_nl c) eqn:Ec; [discriminate|]. rewrite H. reflexivity.
Qed.

Lemma last_line_app a b :
  last_line (a ++ b) = if count_nl b =? 0 then last_line a ++ b else last_line b.
Proof.
  induction a as [|c a IH].
  - cbn [app last_line]. destruct (Nat.eqb_spec (count_nl b) 0) as [E|E]; [apply last_line_nonl; exact E|reflexivity].
  - cbn [app last_line]. rewrite count_nl_app, IH.
    destruct (Nat.eqb_spec (count_nl b) 0) as [E|E].
    + rewrite E, Nat.add_0_r. destruct (count_nl a =? 0); [destruct (is_nl c); reflexivity|reflexivity].
    + destruct (Nat.eqb_spec (count_nl a + count_nl b) 0); [lia|reflexivity].
Qed.

Lemma col_general : forall s b q, q <= length s ->
  (count_nl (firstn q s) = 0 -> length (last_line (firstn q s)) = q) /\
  (0 < count_nl (firstn q s) ->
     nth (count_nl (firstn q s) - 1) (nl_indices_from b s) 0 + 1 + length (last_line (firstn q s)) = b + q).
Proof.
  induction s as [|c s IH]; intros b q Hq.
  - cbn [length] in Hq. assert (q = 0) by lia; subst. cbn. split; [reflexivity|lia].
  - destruct q as [|q]; [cbn; split; [reflexivity|lia]|].
    cbn [length] in Hq. assert (Hq' : q <= length s) by lia.
    destruct (IH (S b) q Hq') as [IH0 IH1].
    cbn [firstn count_nl last_line nl_indices_from].
    assert (Hlen : length (firstn q s) = q) by (apply firstn_length_le; exact Hq').
    destruct (is_nl c); destruct (count_nl (firstn q s)) as [|j] eqn:Ej; cbn [Nat.eqb].
    + split; [discriminate|]. intros _. cbn [Nat.sub nth]. lia.
    + split; [discriminate|]. intros _.
      replace (S (S j) - 1) with (S j) by lia. cbn [nth].
      specialize (IH1 ltac:(lia)). replace (S j - 1) with j in IH1 by lia. lia.
    + split; [|lia]. intros _. cbn [length]. lia.
    + split; [discriminate|]. intros _. specialize (IH1 ltac:(lia)). lia.
Qed.

Theorem line_pos_spec_lemma s p : p <= length s ->
  line_pos s p = (line_spec s p, col_spec s p).
Proof.
  intros Hp. unfold line_pos, line_pos_idx, line_spec, col_spec, nl_indices.
  pose proof (bisect_is_count s 0 p Hp) as Hb. cbn [Nat.add] in Hb. rewrite Hb.
  destruct (col_general s 0 p Hp) as [C0 C1].
  destruct (Nat.ltb_spec 0 (count_nl (firstn p s))) as [H|H].
  - specialize (C1 H). f_equal; lia.
  - assert (E : count_nl (firstn p s) = 0) by lia. specialize (C0 E). rewrite E. f_equal; lia.
Qed.

Theorem line_pos_bounds_lemma s p : p <= length s ->
  1 <= fst (line_pos s p) <= 1 + count_nl s /\ 1 <= snd (line_pos s p) <= p + 1.
Proof.
  intros Hp. rewrite line_pos_spec_lemma by exact Hp. cbn [fst snd]. unfold line_spec, col_spec.
  assert (count_nl (firstn p s) <= count_nl s).
  { rewrite <- (firstn_skipn p s) at 2. rewrite count_nl_app. lia. }
  assert (length (last_line (firstn p s)) <= p).
  { assert (G : forall t, length (last_line t) <= length t).
    { induction t as [|c t IHt]; cbn [last_line length]; [lia|].
      destruct (count_nl t =? 0); [destruct (is_nl c); cbn [length]; lia|lia]. }
    specialize (G (firstn p s)). rewrite firstn_length_le in G by exact Hp. exact G. }
  lia.
Qed.

Theorem infer_next_lemma pre raw post :
  let s := pre ++ raw ++ post in
  line_pos s (length pre + length raw) = infer_next raw (line_pos s (length pre)).
Proof.
  intros s. subst s.
  rewrite !line_pos_spec_lemma by (rewrite !app_length; lia).
  unfold line_spec, col_spec.
  assert (F1 : firstn (length pre) (pre ++ raw ++ post) = pre).
  { rewrite firstn_app, Nat.sub_diag, firstn_all. cbn [firstn]. apply app_nil_r. }
  assert (F2 : firstn (length pre + length raw) (pre ++ raw ++ post) = pre ++ raw).
  { rewrite app_assoc. rewrite <- app_length. rewrite firstn_app, Nat.sub_diag, firstn_all.
    cbn [firstn]. apply app_nil_r. }
  rewrite F1, F2. destruct raw as [|c raw]; [rewrite app_nil_r; reflexivity|].
  unfold infer_next. cbn [fst snd]. rewrite count_nl_app, last_line_app.
  destruct (count_nl (c :: raw) =? 0); [rewrite app_length|]; f_equal; lia.
Qed.

(* non-vacuity *)
Example line_pos_example :
  line_pos [97;10;98;99;10;10;100]%N 4 = (2, 3) /\ 4 <= length [97;10;98;99;10;10;100]%N.
Proof. split; [vm_compute; reflexivity|cbn; lia]. Qed.
