From SF Require Import Base.Prelude Model.Glob.

Definition star_loop (p' : list ptok) : text -> bool :=
  fix star (s : text) : bool := gmatch p' s || match s with [] => false | _ :: s' => star s' end.

Lemma gmatch_star p' s : gmatch (PStar :: p') s = star_loop p' s.
Proof. reflexivity. Qed.

Lemma star_loop_unfold p' s :
  star_loop p' s = gmatch p' s || match s with [] => false | _ :: s' => star_loop p' s' end.
Proof. destruct s; reflexivity. Qed.

Lemma star_loop_spec p' : forall s, star_loop p' s = true <-> exists s1 s2, s = s1 ++ s2 /\ gmatch p' s2 = true.
Proof.
  induction s as [|c s IH]; rewrite star_loop_unfold.
  - rewrite orb_false_r. split.
    + intros H. exists [], []. split; [reflexivity|exact H].
    + intros [s1 [s2 [E H]]]. symmetry in E. apply app_eq_nil in E as [-> ->]. exact H.
  - rewrite orb_true_iff. split.
    + intros [H|H].
      * exists [], (c :: s). split; [reflexivity|exact H].
      * apply IH in H as [s1 [s2 [E H]]]. exists (c :: s1), s2. split; [cbn; rewrite E; reflexivity|exact H].
    + intros [s1 [s2 [E H]]]. destruct s1 as [|d s1].
      * cbn in E. subst s2. left; exact H.
      * cbn in E. inversion E; subst. right. apply IH. exists s1, s2. split; [reflexivity|exact H].
Qed.

Theorem gmatch_correct : forall p s, gmatch p s = true <-> gsem p s.
Proof.
  induction p as [|t p IH]; intros s.
  - destruct s; cbn [gmatch]; split; intros H; try discriminate; try constructor; inversion H.
  - destruct t as [| |c|neg items].
    + rewrite gmatch_star, star_loop_spec. split.
      * intros [s1 [s2 [-> H]]]. constructor. apply IH; exact H.
      * intros H. inversion H; subst. eexists _, _. split; [reflexivity|]. apply IH; assumption.
    + destruct s as [|d s]; cbn [gmatch]; split; intros H; try discriminate; try (inversion H; fail).
      * constructor. apply IH; exact H.
      * inversion H; subst. apply IH; assumption.
    + destruct s as [|d s]; cbn [gmatch]; split; intros H; try discriminate; try (inversion H; fail).
      * apply andb_true_iff in H as [E H]. apply N.eqb_eq in E. subst d. constructor. apply IH; exact H.
      * inversion H; subst. rewrite N.eqb_refl. apply IH; assumption.
    + destruct s as [|d s]; cbn [gmatch]; split; intros H; try discriminate; try (inversion H; fail).
      * apply andb_true_iff in H as [E H]. constructor; [exact E|apply IH; exact H].
      * inversion H; subst. apply andb_true_iff. split; [assumption|apply IH; assumption].
Qed.

(* a pattern without metacharacters matches exactly itself *)
Lemma parse_nometa : forall fuel s, length s <= fuel -> has_meta s = false -> parse_pat_fuel fuel s = map PLit s.
Proof.
  induction fuel as [|f IH]; intros s Hl Hm.
  - destruct s; [reflexivity|cbn in Hl; lia].
  - destruct s as [|c r]; [reflexivity|]. cbn [length] in Hl. cbn [has_meta existsb] in Hm.
    apply orb_false_iff in Hm as [Hc Hr]. apply orb_false_iff in Hc as [Hc Hc3]. apply orb_false_iff in Hc as [Hc1 Hc2].
    cbn [parse_pat_fuel]. rewrite Hc1, Hc2, Hc3. cbn [map]. f_equal. apply IH; [lia|exact Hr].
Qed.

Lemma gmatch_lits : forall s t, gmatch (map PLit s) t = text_eqb s t.
Proof.
  induction s as [|c s IH]; intros [|d t]; cbn [map gmatch text_eqb]; try reflexivity.
  rewrite IH. reflexivity.
Qed.

Theorem fnmatch_nometa name pat : has_meta pat = false -> fnmatch name pat = text_eqb pat name.
Proof. intros H. unfold fnmatch, parse_pat. rewrite parse_nometa by (auto; lia). apply gmatch_lits. Qed.

Example glob_examples :
  fnmatch [76;84;48;49]%N [76;84;48;42]%N = true /\ fnmatch [76;84;48;49]%N [76;63;48;91;48;45;50;93]%N = true
  /\ fnmatch [76;84;48;49]%N [91;33;76;93;42]%N = false /\ fnmatch [97]%N [42;42;97;42]%N = true.
Proof. vm_compute. repeat split. Qed.
