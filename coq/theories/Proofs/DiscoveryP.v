(* Lemmas about Model/Discovery.v.
   1. posixpath fragments on well-formed absolute paths (slashcat of good names).
   2. the relevance test of inner ignore specs for absolute and for relative spellings.
   3. the walk equals an "ideal" walk (ignore specs passed down the tree) for absolute spellings,
      and an "own directory only" walk for relative spellings.
   4. declarative characterisation of the ideal walk (walk_spec_abs) and of the degenerate one (walk_spec_rel). *)
From SF Require Import Base.Prelude Base.Sort Model.Discovery.

(* ------------------------------------------------------------------------------------------------------------------ *)
(* names *)

Definition noslash (n : text) : bool := forallb (fun c => negb (N.eqb c slash)) n.
(* a file or directory name: non-empty, no '/', not "." and not ".." *)
Definition name_ok (n : text) : bool :=
  nonempty n && noslash n && negb (text_eqb n dot_t) && negb (text_eqb n dotdot_t).
Definition names_ok (l : list text) : Prop := Forall (fun n => name_ok n = true) l.

(* "/a/b/c" for [a;b;c] *)
Definition slashcat (l : list text) : text := flat_map (fun c => slash :: c) l.

Lemma name_ok_parts n : name_ok n = true ->
  n <> [] /\ noslash n = true /\ n <> dot_t /\ n <> dotdot_t.
Proof.
  unfold name_ok. intros H. repeat (apply andb_true_iff in H as [H ?]).
  repeat split; try assumption.
  - destruct n; [discriminate|discriminate].
  - intros ->. vm_compute in H1. discriminate.
  - intros ->. vm_compute in H0. discriminate.
Qed.

Lemma name_ok_star : name_ok star_t = true.
Proof. reflexivity. Qed.

Lemma text_eqb_refl a : text_eqb a a = true.
Proof. apply text_eqb_eq. reflexivity. Qed.

Lemma text_eqb_neq a b : a <> b -> text_eqb a b = false.
Proof. intros H. destruct (text_eqb a b) eqn:E; [apply text_eqb_eq in E; contradiction|reflexivity]. Qed.

Lemma names_ok_app a b : names_ok (a ++ b) <-> names_ok a /\ names_ok b.
Proof. unfold names_ok. apply Forall_app. Qed.

Lemma slashcat_app a b : slashcat (a ++ b) = slashcat a ++ slashcat b.
Proof. unfold slashcat. apply flat_map_app. Qed.

Lemma slashcat_cons a l : slashcat (a :: l) = slash :: a ++ slashcat l.
Proof. reflexivity. Qed.

(* ------------------------------------------------------------------------------------------------------------------ *)
(* split_on *)

Lemma split_on_nonnil s : split_on s <> [].
Proof. destruct s as [|c r]; cbn [split_on]; [discriminate|]. destruct (N.eqb c slash); [discriminate|]. destruct (split_on r); discriminate. Qed.

Lemma split_on_noslash_app a r : noslash a = true ->
  split_on (a ++ slash :: r) = a :: split_on r.
Proof.
  induction a as [|c a IH]; intros H.
  - cbn [app split_on]. rewrite N.eqb_refl. reflexivity.
  - cbn [noslash forallb] in H. apply andb_true_iff in H as [Hc Ha].
    cbn [app split_on]. apply negb_true_iff in Hc. rewrite Hc.
    rewrite (IH Ha). reflexivity.
Qed.

Lemma split_on_noslash a : noslash a = true -> split_on a = [a].
Proof.
  induction a as [|c a IH]; intros H; [reflexivity|].
  cbn [noslash forallb] in H. apply andb_true_iff in H as [Hc Ha].
  cbn [split_on]. apply negb_true_iff in Hc. rewrite Hc. rewrite (IH Ha). reflexivity.
Qed.

Definition noslashes (l : list text) : Prop := Forall (fun n => noslash n = true) l.

Lemma names_noslashes l : names_ok l -> noslashes l.
Proof. unfold names_ok, noslashes. apply Forall_impl. intros n H. apply name_ok_parts in H. tauto. Qed.

(* split of a ++ "/b/c" ++ "/" ++ r *)
Lemma split_on_aux_app l : forall a r, noslashes l -> noslash a = true ->
  split_on (a ++ slashcat l ++ slash :: r) = (a :: l) ++ split_on r.
Proof.
  induction l as [|b l IH]; intros a r H Ha.
  - cbn [slashcat flat_map app]. apply split_on_noslash_app. exact Ha.
  - inversion H as [|? ? Hb Hl]; subst. rewrite slashcat_cons.
    replace (a ++ (slash :: b ++ slashcat l) ++ slash :: r) with (a ++ slash :: (b ++ slashcat l ++ slash :: r)).
    + rewrite (split_on_noslash_app a _ Ha). rewrite (IH b r Hl Hb). reflexivity.
    + cbn [app]. rewrite <- app_assoc. reflexivity.
Qed.

Lemma split_on_slashcat_app l r : noslashes l ->
  split_on (slashcat l ++ slash :: r) = ([] :: l) ++ split_on r.
Proof. intros H. apply (split_on_aux_app l [] r H). reflexivity. Qed.

Lemma split_on_aux l : forall a, noslashes l -> noslash a = true -> split_on (a ++ slashcat l) = a :: l.
Proof.
  induction l as [|b l IH]; intros a H Ha.
  - cbn [slashcat flat_map]. rewrite app_nil_r. apply split_on_noslash. exact Ha.
  - inversion H as [|? ? Hb Hl]; subst. rewrite slashcat_cons.
    rewrite (split_on_noslash_app a _ Ha). rewrite (IH b Hl Hb). reflexivity.
Qed.

Lemma split_on_slashcat l : noslashes l -> split_on (slashcat l) = [] :: l.
Proof. intros H. apply (split_on_aux l [] H). reflexivity. Qed.

Lemma slashcat_inj a b : noslashes a -> noslashes b -> slashcat a = slashcat b -> a = b.
Proof.
  intros Ha Hb E. apply (f_equal split_on) in E. rewrite (split_on_slashcat a Ha), (split_on_slashcat b Hb) in E.
  injection E as E. exact E.
Qed.

(* ------------------------------------------------------------------------------------------------------------------ *)
(* normpath on "/a/b" and "/a/b/" *)

Definition comp_ok (c : text) : bool := is_empty c || name_ok c.

Lemma norm_step_ok i acc c : name_ok c = true -> norm_step i acc c = c :: acc.
Proof.
  intros H. destruct (name_ok_parts c H) as [Hne [_ [Hd Hdd]]]. unfold norm_step.
  destruct c as [|x c]; [contradiction|]. cbn [is_empty orb].
  rewrite (text_eqb_neq _ _ Hd), (text_eqb_neq _ _ Hdd). reflexivity.
Qed.

Lemma norm_fold_ok i l : forall acc, Forall (fun c => comp_ok c = true) l ->
  fold_left (norm_step i) l acc = rev (filter nonempty l) ++ acc.
Proof.
  induction l as [|c l IH]; intros acc H; [reflexivity|].
  inversion H as [|? ? Hc Hl]; subst. cbn [fold_left filter].
  unfold comp_ok in Hc. destruct c as [|x c].
  - cbn [nonempty is_empty negb]. unfold norm_step at 2. cbn [is_empty orb]. apply IH. exact Hl.
  - cbn [is_empty orb] in Hc. rewrite (norm_step_ok i acc _ Hc). rewrite (IH _ Hl).
    cbn [nonempty is_empty negb rev]. rewrite <- app_assoc. reflexivity.
Qed.

Lemma filter_nonempty_names l : names_ok l -> filter nonempty l = l.
Proof.
  induction l as [|a l IH]; intros H; [reflexivity|]. inversion H as [|? ? Ha Hl]; subst.
  cbn [filter]. apply name_ok_parts in Ha. destruct a; [tauto|]. cbn [nonempty is_empty negb]. rewrite (IH Hl). reflexivity.
Qed.

Lemma comps_ok_names l : names_ok l -> Forall (fun c => comp_ok c = true) l.
Proof. apply Forall_impl. intros c H. unfold comp_ok. rewrite H. apply orb_true_r. Qed.

Lemma intercalate_slashcat l : l <> [] -> slash :: intercalate l = slashcat l.
Proof.
  induction l as [|a l IH]; intros H; [contradiction|].
  destruct l as [|b l'].
  - cbn [intercalate slashcat flat_map]. rewrite app_nil_r. reflexivity.
  - change (intercalate (a :: b :: l')) with (a ++ slash :: intercalate (b :: l')).
    rewrite IH by discriminate. reflexivity.
Qed.

Lemma initial_slashes_slashcat a l r : name_ok a = true -> initial_slashes (slashcat (a :: l) ++ r) = 1.
Proof.
  intros H. apply name_ok_parts in H. destruct H as [Hne [Hns _]].
  destruct a as [|x a]; [contradiction|]. cbn [noslash forallb] in Hns. apply andb_true_iff in Hns as [Hx _].
  apply negb_true_iff in Hx. rewrite slashcat_cons. cbn [app].
  unfold initial_slashes. rewrite N.eqb_refl.
  rewrite Hx. match goal with |- context [match ?X with _ => _ end] => destruct X end; reflexivity.
Qed.

Lemma is_empty_app_cons (a : text) x b : is_empty (a ++ x :: b) = false.
Proof. destruct a; reflexivity. Qed.

(* normpath of "/a/b" ++ tail where tail is "" or "/" *)
Lemma normpath_slashcat_gen l tail : l <> [] -> names_ok l -> tail = [] \/ tail = [slash] ->
  normpath (slashcat l ++ tail) = slashcat l.
Proof.
  intros Hne Hok Ht. destruct l as [|a l]; [contradiction|].
  assert (Ha : name_ok a = true) by (inversion Hok; assumption).
  unfold normpath.
  assert (Hnemp : is_empty (slashcat (a :: l) ++ tail) = false) by (rewrite slashcat_cons; reflexivity).
  rewrite Hnemp. rewrite (initial_slashes_slashcat a l tail Ha).
  assert (Hcomps : norm_comps 1 (split_on (slashcat (a :: l) ++ tail)) = a :: l).
  { unfold norm_comps. destruct Ht as [-> | ->].
    - rewrite app_nil_r. rewrite (split_on_slashcat _ (names_noslashes _ Hok)).
      rewrite norm_fold_ok.
      + change (filter nonempty ([] :: a :: l)) with (filter nonempty (a :: l)).
        rewrite (filter_nonempty_names _ Hok). rewrite app_nil_r. apply rev_involutive.
      + constructor; [reflexivity|apply comps_ok_names; exact Hok].
    - rewrite (split_on_slashcat_app _ [] (names_noslashes _ Hok)). cbn [split_on].
      rewrite norm_fold_ok.
      + rewrite filter_app. change (filter nonempty ([] :: a :: l)) with (filter nonempty (a :: l)).
        change (filter nonempty [[]]) with (@nil text).
        rewrite (filter_nonempty_names _ Hok). rewrite !app_nil_r. apply rev_involutive.
      + apply Forall_app. split; [constructor; [reflexivity|apply comps_ok_names; exact Hok]|constructor; [reflexivity|constructor]]. }
  rewrite Hcomps. cbn [repeat app]. rewrite intercalate_slashcat by discriminate.
  rewrite slashcat_cons. reflexivity.
Qed.

Lemma isabs_slashcat a l r : isabs (slashcat (a :: l) ++ r) = true.
Proof. rewrite slashcat_cons. cbn [app isabs]. apply N.eqb_refl. Qed.

Lemma abspath_slashcat_gen cwd l tail : l <> [] -> names_ok l -> tail = [] \/ tail = [slash] ->
  abspath cwd (slashcat l ++ tail) = slashcat l.
Proof.
  intros Hne Hok Ht. unfold abspath. destruct l as [|a l]; [contradiction|].
  rewrite isabs_slashcat. apply normpath_slashcat_gen; assumption.
Qed.

Lemma abspath_slashcat cwd l : l <> [] -> names_ok l -> abspath cwd (slashcat l) = slashcat l.
Proof. intros. rewrite <- (app_nil_r (slashcat l)) at 1. apply abspath_slashcat_gen; auto. Qed.

Lemma normpath_slashcat l : l <> [] -> names_ok l -> normpath (slashcat l) = slashcat l.
Proof. intros. rewrite <- (app_nil_r (slashcat l)) at 1. apply normpath_slashcat_gen; auto. Qed.

Lemma parts_of_slashcat_gen cwd l tail : l <> [] -> names_ok l -> tail = [] \/ tail = [slash] ->
  parts_of cwd (slashcat l ++ tail) = l.
Proof.
  intros Hne Hok Ht. unfold parts_of. rewrite (abspath_slashcat_gen cwd l tail Hne Hok Ht).
  rewrite (split_on_slashcat _ (names_noslashes _ Hok)). cbn [filter nonempty is_empty negb].
  apply filter_nonempty_names. exact Hok.
Qed.

Lemma parts_of_slashcat cwd l : l <> [] -> names_ok l -> parts_of cwd (slashcat l) = l.
Proof. intros. rewrite <- (app_nil_r (slashcat l)) at 1. apply parts_of_slashcat_gen; auto. Qed.

(* ------------------------------------------------------------------------------------------------------------------ *)
(* join, endswith, the directory names produced by os.walk *)

Lemma startswith_one c s : startswith [c] s = match s with x :: _ => N.eqb c x | [] => false end.
Proof. destruct s as [|x s]; [reflexivity|]. cbn [startswith]. apply andb_true_r. Qed.

Lemma endswith_app_last c s x : endswith [c] (s ++ [x]) = N.eqb c x.
Proof. unfold endswith. rewrite rev_app_distr. cbn [rev app]. rewrite startswith_one. reflexivity. Qed.

Lemma noslash_app a b : noslash (a ++ b) = noslash a && noslash b.
Proof. unfold noslash. apply forallb_app. Qed.

Lemma name_last n : name_ok n = true -> exists n0 x, n = n0 ++ [x] /\ N.eqb slash x = false.
Proof.
  intros H. apply name_ok_parts in H. destruct H as [Hne [Hns _]].
  destruct (exists_last Hne) as [n0 [x E]]. exists n0, x. split; [exact E|].
  rewrite E, noslash_app in Hns. apply andb_true_iff in Hns as [_ Hx]. cbn [noslash forallb] in Hx.
  rewrite andb_true_r in Hx. apply negb_true_iff in Hx. rewrite N.eqb_sym. exact Hx.
Qed.

Lemma endswith_slashcat l : l <> [] -> names_ok l -> endswith [slash] (slashcat l) = false.
Proof.
  intros Hne Hok. destruct (exists_last Hne) as [l0 [n E]]. subst l.
  apply names_ok_app in Hok as [_ Hn]. inversion Hn as [|? ? Hn' _]; subst.
  destruct (name_last n Hn') as [n0 [x [-> Hx]]].
  rewrite slashcat_app. cbn [slashcat flat_map]. rewrite app_nil_r.
  replace (slashcat l0 ++ slash :: n0 ++ [x]) with ((slashcat l0 ++ slash :: n0) ++ [x]).
  - rewrite endswith_app_last. exact Hx.
  - rewrite <- app_assoc. reflexivity.
Qed.

Lemma isabs_name n : name_ok n = true -> isabs n = false.
Proof.
  intros H. apply name_ok_parts in H. destruct H as [Hne [Hns _]]. destruct n as [|x n]; [contradiction|].
  cbn [noslash forallb] in Hns. apply andb_true_iff in Hns as [Hx _]. apply negb_true_iff in Hx. exact Hx.
Qed.

Lemma slashcat_snoc l n : slashcat (l ++ [n]) = slashcat l ++ slash :: n.
Proof. rewrite slashcat_app. cbn [slashcat flat_map]. rewrite app_nil_r. reflexivity. Qed.

Lemma is_empty_slashcat a l r : is_empty (slashcat (a :: l) ++ r) = false.
Proof. reflexivity. Qed.

Lemma join_slashcat l n : l <> [] -> names_ok l -> name_ok n = true -> join (slashcat l) n = slashcat (l ++ [n]).
Proof.
  intros Hne Hok Hn. unfold join. rewrite (isabs_name n Hn). rewrite (endswith_slashcat l Hne Hok).
  destruct l as [|a l]; [contradiction|]. change (is_empty (slashcat (a :: l))) with false. cbn [orb].
  rewrite slashcat_snoc. reflexivity.
Qed.

Lemma join_slashcat_slash l n : l <> [] -> name_ok n = true -> join (slashcat l ++ [slash]) n = slashcat (l ++ [n]).
Proof.
  intros Hne Hn. unfold join. rewrite (isabs_name n Hn). rewrite endswith_app_last, N.eqb_refl, orb_true_r.
  rewrite slashcat_snoc, <- app_assoc. reflexivity.
Qed.

(* the spelled path: an absolute normal path, possibly with a trailing slash *)
Definition abs_spelling (ps : list text) (p : text) : Prop := p = slashcat ps \/ p = slashcat ps ++ [slash].

(* os.walk's dirname for the directory reached by the names cs below the walked path p *)
Definition dn (p : text) (cs : list text) : text := fold_left join cs p.

Lemma dn_snoc p cs n : dn p (cs ++ [n]) = join (dn p cs) n.
Proof. unfold dn. rewrite fold_left_app. reflexivity. Qed.

Lemma fold_join_slashcat cs : forall l, l <> [] -> names_ok l -> names_ok cs ->
  fold_left join cs (slashcat l) = slashcat (l ++ cs).
Proof.
  induction cs as [|c cs IH]; intros l Hne Hok Hcs; [rewrite app_nil_r; reflexivity|].
  inversion Hcs as [|? ? Hc Hcs']; subst. cbn [fold_left]. rewrite (join_slashcat l c Hne Hok Hc).
  rewrite IH.
  - rewrite <- app_assoc. reflexivity.
  - destruct l; discriminate.
  - apply names_ok_app. split; [exact Hok|constructor; [exact Hc|constructor]].
  - exact Hcs'.
Qed.

Lemma app_ne_l {A} (a l : list A) : a <> [] -> a ++ l <> [].
Proof. destruct a; [contradiction|discriminate]. Qed.

Section AbsSpelling.
  Variable cwd : text.
  Variable ps : list text.
  Variable p : text.
  Hypothesis ps_ne : ps <> [].
  Hypothesis ps_ok : names_ok ps.
  Hypothesis p_abs : abs_spelling ps p.

  Lemma join_root n : name_ok n = true -> join p n = slashcat (ps ++ [n]).
  Proof.
    intros Hn. destruct p_abs as [-> | ->]; [apply join_slashcat; assumption|apply join_slashcat_slash; assumption].
  Qed.

  Lemma dn_cons c cs : names_ok (c :: cs) -> dn p (c :: cs) = slashcat (ps ++ c :: cs).
  Proof.
    intros H. inversion H as [|? ? Hc Hcs]; subst. unfold dn. cbn [fold_left]. rewrite (join_root c Hc).
    rewrite fold_join_slashcat.
    - rewrite <- app_assoc. reflexivity.
    - destruct ps; discriminate.
    - apply names_ok_app. split; [exact ps_ok|constructor; [exact Hc|constructor]].
    - exact Hcs.
  Qed.

  Lemma join_dn cs n : names_ok cs -> name_ok n = true -> join (dn p cs) n = slashcat (ps ++ cs ++ [n]).
  Proof.
    intros Hcs Hn. rewrite <- dn_snoc. destruct cs as [|c cs].
    - cbn [app]. unfold dn. cbn [fold_left]. apply join_root. exact Hn.
    - cbn [app]. rewrite dn_cons; [reflexivity|].
      change (c :: cs ++ [n]) with ((c :: cs) ++ [n]). apply names_ok_app. split; [exact Hcs|constructor; [exact Hn|constructor]].
  Qed.

  Lemma ps_app_ne (l : list text) : ps ++ l <> [].
  Proof. destruct ps; [contradiction|discriminate]. Qed.

  Lemma abspath_dn cs : names_ok cs -> abspath cwd (dn p cs) = slashcat (ps ++ cs).
  Proof.
    intros Hcs. destruct cs as [|c cs].
    - rewrite app_nil_r. unfold dn. cbn [fold_left].
      destruct p_abs as [-> | ->]; [apply abspath_slashcat; assumption|apply abspath_slashcat_gen; auto].
    - rewrite (dn_cons c cs Hcs). apply abspath_slashcat; [apply ps_app_ne|apply names_ok_app; split; assumption].
  Qed.

  Lemma parts_of_dn cs : names_ok cs -> parts_of cwd (dn p cs) = ps ++ cs.
  Proof.
    intros Hcs. unfold parts_of. rewrite (abspath_dn cs Hcs).
    assert (Hall : names_ok (ps ++ cs)) by (apply names_ok_app; split; assumption).
    rewrite (split_on_slashcat _ (names_noslashes _ Hall)). change (filter nonempty ([] :: ps ++ cs)) with (filter nonempty (ps ++ cs)).
    apply filter_nonempty_names. exact Hall.
  Qed.
End AbsSpelling.

(* ------------------------------------------------------------------------------------------------------------------ *)
(* startswith on paths *)

Lemma startswith_app_both a x y : startswith (a ++ x) (a ++ y) = startswith x y.
Proof. induction a as [|c a IH]; [reflexivity|]. cbn [app startswith]. rewrite N.eqb_refl. exact IH. Qed.

Lemma startswith_nil_r x : startswith x [] = is_empty x.
Proof. destruct x; reflexivity. Qed.

Fixpoint prefixb (q cs : list text) : bool :=
  match q, cs with
  | [], _ => true
  | a :: q', b :: cs' => text_eqb a b && prefixb q' cs'
  | _ :: _, [] => false
  end.

Fixpoint proper_prefixb (q cs : list text) : bool :=
  match q, cs with
  | [], [] => false
  | [], _ :: _ => true
  | a :: q', b :: cs' => text_eqb a b && proper_prefixb q' cs'
  | _ :: _, [] => false
  end.

Lemma parts_eqb_eq a b : parts_eqb a b = true <-> a = b.
Proof.
  revert b. induction a as [|x a IH]; intros [|y b]; cbn [parts_eqb]; split; intros H; try reflexivity; try discriminate.
  - apply andb_true_iff in H as [H1 H2]. apply text_eqb_eq in H1. apply IH in H2. congruence.
  - inversion H; subst. rewrite text_eqb_refl. apply IH. reflexivity.
Qed.

Lemma prefixb_split q : forall cs, prefixb q cs = parts_eqb q cs || proper_prefixb q cs.
Proof.
  induction q as [|a q IH]; intros [|b cs]; cbn [prefixb parts_eqb proper_prefixb]; try reflexivity.
  rewrite IH. destruct (text_eqb a b); reflexivity.
Qed.

Lemma prefixb_spec q cs : prefixb q cs = true <-> exists r, cs = q ++ r.
Proof.
  revert cs. induction q as [|a q IH]; intros cs; cbn [prefixb].
  - split; [intros _; exists cs; reflexivity|reflexivity].
  - destruct cs as [|b cs]; [split; [discriminate|intros [r E]; discriminate]|].
    split.
    + intros H. apply andb_true_iff in H as [H1 H2]. apply text_eqb_eq in H1. apply IH in H2 as [r ->]. subst. exists r. reflexivity.
    + intros [r E]. inversion E; subst. rewrite text_eqb_refl. apply IH. exists r. reflexivity.
Qed.

Lemma prefixb_refl q : prefixb q q = true.
Proof. apply prefixb_spec. exists []. rewrite app_nil_r. reflexivity. Qed.

(* X starts with a slash; Y is empty or starts with a slash *)
Lemma startswith_names d : forall c X' Y, noslash d = true -> noslash c = true -> (Y = [] \/ exists Y', Y = slash :: Y') ->
  startswith (d ++ slash :: X') (c ++ Y) = text_eqb d c && startswith (slash :: X') Y.
Proof.
  induction d as [|d0 d IH]; intros c X' Y Hd Hc HY.
  - destruct c as [|c0 c].
    + reflexivity.
    + cbn [noslash forallb] in Hc. apply andb_true_iff in Hc as [Hc0 _]. apply negb_true_iff in Hc0.
      cbn [app startswith text_eqb]. rewrite N.eqb_sym, Hc0. reflexivity.
  - cbn [noslash forallb] in Hd. apply andb_true_iff in Hd as [Hd0 Hd']. apply negb_true_iff in Hd0.
    destruct c as [|c0 c].
    + cbn [app text_eqb andb]. destruct HY as [-> | [Y' ->]]; [reflexivity|]. cbn [startswith]. rewrite Hd0. reflexivity.
    + cbn [noslash forallb] in Hc. apply andb_true_iff in Hc as [_ Hc'].
      cbn [app startswith text_eqb]. rewrite (IH c X' Y Hd' Hc' HY). rewrite andb_assoc. reflexivity.
Qed.

Lemma slashcat_head l : slashcat l = [] \/ exists Y', slashcat l = slash :: Y'.
Proof. destruct l as [|a l]; [left; reflexivity|right; eexists; apply slashcat_cons]. Qed.

Lemma startswith_slashcat_prefix q : forall cs, noslashes q -> noslashes cs ->
  startswith (slashcat q ++ [slash]) (slashcat cs) = proper_prefixb q cs.
Proof.
  induction q as [|d q IH]; intros cs Hq Hcs.
  - destruct cs as [|c cs]; [reflexivity|]. rewrite slashcat_cons. cbn [slashcat flat_map app startswith proper_prefixb].
    rewrite N.eqb_refl. reflexivity.
  - inversion Hq as [|? ? Hd Hq']; subst. destruct cs as [|c cs]; [reflexivity|].
    inversion Hcs as [|? ? Hc Hcs']; subst. rewrite !slashcat_cons. cbn [app startswith proper_prefixb]. rewrite N.eqb_refl. cbn [andb].
    rewrite <- app_assoc.
    destruct (slashcat_head q) as [Eq | [X' Eq]].
    + (* q = [] *)
      destruct q; [|rewrite slashcat_cons in Eq; discriminate].
      cbn [slashcat flat_map app]. rewrite (startswith_names d c [] (slashcat cs) Hd Hc (slashcat_head cs)).
      specialize (IH cs Hq' Hcs'). cbn [slashcat flat_map app] in IH. rewrite IH. reflexivity.
    + specialize (IH cs Hq' Hcs'). rewrite Eq in *. cbn [app] in *.
      rewrite (startswith_names d c _ (slashcat cs) Hd Hc (slashcat_head cs)). rewrite IH. reflexivity.
Qed.

(* ------------------------------------------------------------------------------------------------------------------ *)
(* the relevance test (repaired: absolute on both sides): an inner spec found at q stays relevant exactly in q and below, for every
   spelling p whose dirnames have the absolute paths "/b1/../bn/T" *)

Lemma proper_prefixb_app a q cs : proper_prefixb (a ++ q) (a ++ cs) = proper_prefixb q cs.
Proof. induction a as [|x a IH]; [reflexivity|]. cbn [app proper_prefixb]. rewrite text_eqb_refl. exact IH. Qed.

Lemma keep_generic cwd p b : b <> [] -> names_ok b ->
  (forall T, names_ok T -> abspath cwd (dn p T) = slashcat (b ++ T)) ->
  forall q cs f s, names_ok q -> names_ok cs -> keep_inner cwd (dn p cs) (dn p q, f, s) = prefixb q cs.
Proof.
  intros Hb Hbok HA q cs f s Hq Hcs. unfold keep_inner, sr_dir. cbn [fst].
  rewrite (HA q Hq), (HA cs Hcs).
  assert (Nq : noslashes (b ++ q)) by (apply names_noslashes, names_ok_app; split; assumption).
  assert (Ncs : noslashes (b ++ cs)) by (apply names_noslashes, names_ok_app; split; assumption).
  rewrite (startswith_slashcat_prefix (b ++ q) (b ++ cs) Nq Ncs). rewrite proper_prefixb_app.
  rewrite prefixb_split. f_equal.
  destruct (parts_eqb q cs) eqn:E.
  - apply parts_eqb_eq in E. rewrite E. apply text_eqb_refl.
  - apply text_eqb_neq. intros E'. apply (f_equal (abspath cwd)) in E'. rewrite (HA q Hq), (HA cs Hcs) in E'.
    apply slashcat_inj in E'; [|assumption|assumption]. apply app_inv_head in E'. subst.
    rewrite (proj2 (parts_eqb_eq q q) eq_refl) in E. discriminate.
Qed.

Section KeepAbs.
  Variable cwd : text.
  Variable ps : list text.
  Variable p : text.
  Hypothesis ps_ne : ps <> [].
  Hypothesis ps_ok : names_ok ps.
  Hypothesis p_abs : abs_spelling ps p.

  Lemma keep_abs q cs f s : names_ok q -> names_ok cs ->
    keep_inner cwd (dn p cs) (dn p q, f, s) = prefixb q cs.
  Proof.
    apply (keep_generic cwd p ps ps_ne ps_ok). intros T HT. apply (abspath_dn cwd ps p ps_ne ps_ok p_abs T HT).
  Qed.
End KeepAbs.

(* ------------------------------------------------------------------------------------------------------------------ *)
(* directories: induction principle, well-formedness *)

Fixpoint dir_ind' (P : dir -> Prop)
  (H : forall files loads subs, Forall (fun x => P (snd x)) subs -> P (Dir files loads subs)) (d : dir) : P d :=
  match d with
  | Dir files loads subs =>
      H files loads subs
        ((fix go (l : list (text * dir)) : Forall (fun x => P (snd x)) l :=
            match l with
            | [] => Forall_nil _
            | (n, sd) :: r => Forall_cons (n, sd) (dir_ind' P H sd) (go r)
            end) subs)
  end.

(* a real directory tree: proper names everywhere, no two sub-directories of one directory with the same name *)
Fixpoint wf_dir (d : dir) : Prop :=
  match d with
  | Dir files loads subs =>
      names_ok files /\ names_ok (map fst subs) /\ NoDup (map fst subs) /\
      (fix all (l : list (text * dir)) : Prop := match l with [] => True | x :: r => wf_dir (snd x) /\ all r end) subs
  end.

Lemma wf_dir_subs files loads subs : wf_dir (Dir files loads subs) -> Forall (fun x => wf_dir (snd x)) subs.
Proof.
  cbn [wf_dir]. intros [_ [_ [_ H]]]. induction subs as [|x r IH]; [constructor|]. destruct H as [H1 H2]. constructor; [exact H1|apply IH; exact H2].
Qed.

Lemma common_len_app a b : common_len a (a ++ b) = length a.
Proof. induction a as [|x a IH]; [destruct b; reflexivity|]. cbn [app common_len length]. rewrite text_eqb_refl, IH. reflexivity. Qed.

Lemma skipn_length_app {A} (l r : list A) : skipn (length l) (l ++ r) = r.
Proof. induction l as [|x l IH]; [reflexivity|exact IH]. Qed.

Lemma prefixb_app_r q cs r : prefixb q cs = true -> prefixb q (cs ++ r) = true.
Proof. intros H. apply prefixb_spec in H as [x ->]. apply prefixb_spec. exists (x ++ r). rewrite app_assoc. reflexivity. Qed.

Lemma existsb_map {A B} (f : B -> bool) (g : A -> B) l : existsb f (map g l) = existsb (fun x => f (g x)) l.
Proof. induction l as [|x l IH]; [reflexivity|]. cbn [map existsb]. rewrite IH. reflexivity. Qed.

Lemma existsb_ext_in {A} (f g : A -> bool) l : (forall x, In x l -> f x = g x) -> existsb f l = existsb g l.
Proof.
  induction l as [|x l IH]; intros H; [reflexivity|]. cbn [existsb]. rewrite (H x (or_introl eq_refl)), IH; [reflexivity|].
  intros y Hy. apply H. right. exact Hy.
Qed.

Lemma flat_map_ext_in {A B} (f g : A -> list B) l : (forall x, In x l -> f x = g x) -> flat_map f l = flat_map g l.
Proof.
  induction l as [|x l IH]; intros H; [reflexivity|]. cbn [flat_map]. rewrite (H x (or_introl eq_refl)), IH; [reflexivity|].
  intros y Hy. apply H. right. exact Hy.
Qed.

(* ------------------------------------------------------------------------------------------------------------------ *)
(* the ideal walk: ignore specs are handed down the tree; a spec found in the directory q (names below the walked path) sees the
   path relative to q.  [mode] = true: specs of all ancestors inside the walk apply (what the absolute spelling does);
   [mode] = false: only the specs of the directory itself apply (what a relative spelling does). *)

Definition arec := (list text * text * nat)%type.
Definition rq (r : arec) : list text := fst (fst r).

Section Ideal.
  Variable matches : nat -> list text -> bool.
  Variable ignore_files : bool.
  Variable exts : list text.
  Variable outer_hit : list text -> bool.      (* do the outer specs match the file / dir/* with these names below the walked path *)
  Variable out_name : list text -> text.       (* the yielded string for these names below the walked path *)

  (* the (ignore file name, spec) pairs loaded in a directory *)
  Definition loaded (d : dir) : list (text * nat) :=
    if ignore_files
    then flat_map (fun f => match assoc f (d_loads d) with Some (Some s) => [(f, s)] | _ => [] end)
                  (filter (fun f => mem_text f loader_names) (d_files d))
    else [].
  Definition aload (cs : list text) (d : dir) : list arec := map (fun fs => (cs, fst fs, snd fs)) (loaded d).

  Definition hit (stack : list arec) (T : list text) : bool :=
    outer_hit T || existsb (fun r => matches (snd r) (skipn (length (rq r)) T)) stack.

  Fixpoint ideal (mode : bool) (d : dir) (cs : list text) (stack : list arec) {struct d} : list (list text * text) :=
    match d with
    | Dir files loads subs =>
        let stack2 := (if mode then stack else []) ++ aload cs (Dir files loads subs) in
        flat_map (fun f => if match_file_extension f exts && negb (hit stack2 (cs ++ [f]))
                           then [(cs ++ [f], out_name (cs ++ [f]))] else []) files
        ++ flat_map (fun x => if hit stack2 (cs ++ [fst x; star_t]) then [] else ideal mode (snd x) (cs ++ [fst x]) stack2) subs
    end.
End Ideal.

(* ------------------------------------------------------------------------------------------------------------------ *)
(* the walk of the model against the ideal walk, for a spelling p whose relevance test and relative paths behave as stated
   in the hypotheses K and R (discharged below for absolute and for relative spellings) *)

Section WalkIdeal.
  Variable matches : nat -> list text -> bool.
  Variable cwd : text.
  Variable ignore_files : bool.
  Variable outer : list specrec.
  Variable exts : list text.
  Variable p : text.

  (* R: seen from the directory q below the walked path, a file/dir with names T below the walked path (q a prefix of T) has
     the relative path T minus q *)
  Hypothesis R : forall q T, names_ok q -> names_ok T -> prefixb q T = true ->
    relparts cwd (abspath cwd (dn p T)) (dn p q) = skipn (length q) T.

  Definition conc (r : arec) : specrec := (dn p (rq r), snd (fst r), snd r).
  Definition ohit (T : list text) : bool := check_ignore_specs matches cwd (abspath cwd (dn p T)) outer.
  Definition oname (T : list text) : text := normpath (dn p T).

  Notation hit' := (hit matches ohit).
  Notation aload' := (aload ignore_files).

  Definition stack_ok (S : list arec) (cs : list text) : Prop :=
    forall r, In r S -> names_ok (rq r) /\ prefixb (rq r) cs = true.

  Lemma stack_ok_app_r S cs x : stack_ok S cs -> stack_ok S (cs ++ x).
  Proof. intros H r Hr. destruct (H r Hr) as [H1 H2]. split; [exact H1|apply prefixb_app_r; exact H2]. Qed.

  Lemma ignored_conc S T : stack_ok S T -> names_ok T ->
    ignored matches cwd outer (abspath cwd (dn p T)) (map conc S) = hit' S T.
  Proof.
    intros HS HT. unfold ignored, hit. fold (ohit T). f_equal.
    unfold check_ignore_specs. rewrite existsb_map. apply existsb_ext_in. intros r Hr.
    destruct (HS r Hr) as [Hq Hp]. unfold conc, sr_spec, sr_dir. cbn [fst snd]. rewrite (R (rq r) T Hq HT Hp). reflexivity.
  Qed.

  Lemma names_ok_snoc cs n : names_ok cs -> name_ok n = true -> names_ok (cs ++ [n]).
  Proof. intros H1 H2. apply names_ok_app. split; [exact H1|constructor; [exact H2|constructor]]. Qed.

  Lemma walk_file_conc cs S f : names_ok cs -> name_ok f = true -> stack_ok S cs ->
    walk_file matches cwd outer exts (dn p cs) cs (map conc S) f
    = if match_file_extension f exts && negb (hit' S (cs ++ [f])) then [(cs ++ [f], oname (cs ++ [f]))] else [].
  Proof.
    intros Hcs Hf HS. unfold walk_file. rewrite <- dn_snoc.
    assert (HT : names_ok (cs ++ [f])) by (apply names_ok_snoc; assumption).
    assert (E := ignored_conc S (cs ++ [f]) (stack_ok_app_r S cs [f] HS) HT).
    unfold ignored in E. fold (oname (cs ++ [f])).
    destruct (match_file_extension f exts); cbn [negb andb]; [|reflexivity].
    rewrite <- E.
    destruct (check_ignore_specs matches cwd (abspath cwd (dn p (cs ++ [f]))) outer); cbn [orb negb]; [reflexivity|].
    destruct (check_ignore_specs matches cwd (abspath cwd (dn p (cs ++ [f]))) (map conc S)); reflexivity.
  Qed.

  Lemma pruned_conc cs S n : names_ok cs -> name_ok n = true -> stack_ok S cs ->
    subdir_pruned matches cwd outer (dn p cs) (map conc S) n = hit' S (cs ++ [n; star_t]).
  Proof.
    intros Hcs Hn HS. unfold subdir_pruned. rewrite <- !dn_snoc. rewrite <- app_assoc. cbn [app].
    apply ignored_conc.
    - apply stack_ok_app_r. exact HS.
    - apply names_ok_app. split; [exact Hcs|]. constructor; [exact Hn|]. constructor; [apply name_ok_star|constructor].
  Qed.

  Lemma load_specs_conc cs (d : dir) :
    (if ignore_files then load_specs (dn p cs) (filter (fun f => mem_text f loader_names) (d_files d)) (d_loads d) else [])
    = map conc (aload' cs d).
  Proof.
    unfold aload, loaded. destruct ignore_files; [|reflexivity].
    unfold load_specs. induction (filter (fun f => mem_text f loader_names) (d_files d)) as [|f l IH]; [reflexivity|].
    match goal with |- flat_map ?g (f :: l) = map conc (map ?h (flat_map ?k (f :: l))) =>
      change (g f ++ flat_map g l = map conc (map h (k f ++ flat_map k l))) end.
    cbv beta. rewrite !map_app. rewrite IH. f_equal.
    destruct (assoc f (d_loads d)) as [[s|]|]; reflexivity.
  Qed.

  Lemma aload_ok cs d : names_ok cs -> stack_ok (aload' cs d) cs.
  Proof.
    intros Hcs r Hr. unfold aload in Hr. apply in_map_iff in Hr as [fs [<- _]]. unfold rq. cbn [fst]. split; [exact Hcs|apply prefixb_refl].
  Qed.

  (* the sub-directory loop of [walk] as a function of its own *)
  Fixpoint walk_subs (dirname : text) (cs : list text) (inner2 : list specrec) (l : list (text * dir)) (st : list specrec)
    : list (list text * text) * list specrec :=
    match l with
    | [] => ([], st)
    | (n, sd) :: r =>
        if subdir_pruned matches cwd outer dirname inner2 n then walk_subs dirname cs inner2 r st
        else let '(o, st1) := walk matches cwd ignore_files outer exts sd (join dirname n) (cs ++ [n]) st in
             let '(o2, st2) := walk_subs dirname cs inner2 r st1 in (o ++ o2, st2)
    end.

  Lemma walk_unfold files loads subs dirname cs inner :
    walk matches cwd ignore_files outer exts (Dir files loads subs) dirname cs inner =
    let inner1 := filter (keep_inner cwd dirname) inner in
    let inner2 := inner1 ++ (if ignore_files then load_specs dirname (filter (fun f => mem_text f loader_names) files) loads else []) in
    (flat_map (walk_file matches cwd outer exts dirname cs inner2) files ++ fst (walk_subs dirname cs inner2 subs inner2),
     snd (walk_subs dirname cs inner2 subs inner2)).
  Proof.
    assert (G : forall i2 st0,
      (flat_map (walk_file matches cwd outer exts dirname cs i2) files ++
       fst ((fix go (l : list (text * dir)) (st : list specrec) {struct l} : list (list text * text) * list specrec :=
               match l with
               | [] => ([], st)
               | (n, sd) :: r =>
                   if subdir_pruned matches cwd outer dirname i2 n then go r st
                   else let '(o, st1) := walk matches cwd ignore_files outer exts sd (join dirname n) (cs ++ [n]) st in
                        let '(o2, st2) := go r st1 in (o ++ o2, st2)
               end) subs st0),
       snd ((fix go (l : list (text * dir)) (st : list specrec) {struct l} : list (list text * text) * list specrec :=
               match l with
               | [] => ([], st)
               | (n, sd) :: r =>
                   if subdir_pruned matches cwd outer dirname i2 n then go r st
                   else let '(o, st1) := walk matches cwd ignore_files outer exts sd (join dirname n) (cs ++ [n]) st in
                        let '(o2, st2) := go r st1 in (o ++ o2, st2)
               end) subs st0))
      = (flat_map (walk_file matches cwd outer exts dirname cs i2) files ++ fst (walk_subs dirname cs i2 subs st0),
         snd (walk_subs dirname cs i2 subs st0))).
    { intros i2 st0.
      match goal with |- (_ ++ fst (?F subs st0), _) = _ => assert (E : forall l st, F l st = walk_subs dirname cs i2 l st) end.
      { induction l as [|[n sd] r IHl]; intros st; [reflexivity|].
        cbn [walk_subs]. destruct (subdir_pruned matches cwd outer dirname i2 n); [apply IHl|].
        destruct (walk matches cwd ignore_files outer exts sd (join dirname n) (cs ++ [n]) st) as [o st1].
        rewrite IHl. reflexivity. }
      rewrite E. reflexivity. }
    cbn [walk]. destruct ignore_files.
    - apply G.
    - cbv zeta. rewrite app_nil_r. apply G.
  Qed.
End WalkIdeal.

Lemma filter_all_true {A} (f : A -> bool) l : (forall x, In x l -> f x = true) -> filter f l = l.
Proof.
  induction l as [|x l IH]; intros H; [reflexivity|]. cbn [filter]. rewrite (H x (or_introl eq_refl)). f_equal. apply IH.
  intros y Hy. apply H. right. exact Hy.
Qed.

Lemma filter_all_false {A} (f : A -> bool) l : (forall x, In x l -> f x = false) -> filter f l = [].
Proof.
  induction l as [|x l IH]; intros H; [reflexivity|]. cbn [filter]. rewrite (H x (or_introl eq_refl)). apply IH.
  intros y Hy. apply H. right. exact Hy.
Qed.

Lemma filter_map_comm {A B} (f : B -> bool) (g : A -> B) l : filter f (map g l) = map g (filter (fun x => f (g x)) l).
Proof. induction l as [|x l IH]; [reflexivity|]. cbn [map filter]. rewrite IH. destruct (f (g x)); reflexivity. Qed.

(* q lies strictly below cs *)
Definition sext (cs q : list text) : Prop := exists n rest, q = cs ++ n :: rest.

Lemma prefixb_sibling cs n n' rest : n <> n' -> prefixb (cs ++ n' :: rest) (cs ++ [n]) = false.
Proof.
  intros Hn. destruct (prefixb (cs ++ n' :: rest) (cs ++ [n])) eqn:E; [|reflexivity].
  apply prefixb_spec in E as [r E]. rewrite <- app_assoc in E. apply app_inv_head in E. cbn [app] in E. injection E as E _. congruence.
Qed.

Section WalkTrue.
  Variable matches : nat -> list text -> bool.
  Variable cwd : text.
  Variable ignore_files : bool.
  Variable outer : list specrec.
  Variable exts : list text.
  Variable p : text.
  Hypothesis R : forall q T, names_ok q -> names_ok T -> prefixb q T = true ->
    relparts cwd (abspath cwd (dn p T)) (dn p q) = skipn (length q) T.
  (* K: an inner spec found in q is kept exactly while the walk is in q or below *)
  Hypothesis K : forall q cs f s, names_ok q -> names_ok cs -> keep_inner cwd (dn p cs) (dn p q, f, s) = prefixb q cs.

  Notation conc' := (conc p).
  Notation ideal' := (ideal matches ignore_files exts (ohit matches cwd outer p) (oname p) true).
  Notation walk' := (walk matches cwd ignore_files outer exts).
  Notation aload' := (aload ignore_files).

  Lemma filter_keep_true cs A J : names_ok cs ->
    (forall r, In r A -> names_ok (rq r) /\ prefixb (rq r) cs = true) ->
    (forall r, In r J -> names_ok (rq r) /\ prefixb (rq r) cs = false) ->
    filter (keep_inner cwd (dn p cs)) (map conc' (A ++ J)) = map conc' A.
  Proof.
    intros Hcs HA HJ. rewrite filter_map_comm, filter_app.
    rewrite (filter_all_true _ A), (filter_all_false _ J); [rewrite app_nil_r; reflexivity| |].
    - intros r Hr. destruct (HJ r Hr) as [H1 H2]. unfold conc. rewrite K; assumption.
    - intros r Hr. destruct (HA r Hr) as [H1 H2]. unfold conc. rewrite K; assumption.
  Qed.

  Lemma walk_true : forall d, wf_dir d -> forall cs A J, names_ok cs ->
    (forall r, In r A -> names_ok (rq r) /\ prefixb (rq r) cs = true) ->
    (forall r, In r J -> names_ok (rq r) /\ prefixb (rq r) cs = false) ->
    exists J', walk' d (dn p cs) cs (map conc' (A ++ J)) = (ideal' d cs A, map conc' ((A ++ aload' cs d) ++ J'))
               /\ (forall r, In r J' -> names_ok (rq r) /\ sext cs (rq r)).
  Proof.
    induction d as [files loads subs IHsubs] using dir_ind'. intros Hwf cs A J Hcs HA HJ.
    rewrite walk_unfold. cbv zeta.
    rewrite (filter_keep_true cs A J Hcs HA HJ).
    assert (Eload : (if ignore_files then load_specs (dn p cs) (filter (fun f => mem_text f loader_names) files) loads else [])
                    = map conc' (aload' cs (Dir files loads subs))) by exact (load_specs_conc ignore_files p cs (Dir files loads subs)).
    rewrite Eload. clear Eload. rewrite <- map_app.
    set (d := Dir files loads subs) in *. set (A2 := A ++ aload' cs d).
    assert (HA2 : stack_ok A2 cs).
    { intros r Hr. apply in_app_iff in Hr as [Hr|Hr]; [apply HA; exact Hr|apply (aload_ok ignore_files cs d Hcs); exact Hr]. }
    assert (Hwf' := Hwf). cbn [wf_dir] in Hwf'. destruct Hwf' as [Hfiles [Hsubn [Hnd _]]].
    assert (Hwfs := wf_dir_subs files loads subs Hwf).
    (* the files of this directory *)
    assert (Hhere : flat_map (walk_file matches cwd outer exts (dn p cs) cs (map conc' A2)) files
                    = flat_map (fun f => if match_file_extension f exts && negb (hit matches (ohit matches cwd outer p) A2 (cs ++ [f]))
                                         then [(cs ++ [f], oname p (cs ++ [f]))] else []) files).
    { apply flat_map_ext_in. intros f Hf. apply (walk_file_conc matches cwd outer exts p R); [exact Hcs| |exact HA2].
      unfold names_ok in Hfiles. rewrite Forall_forall in Hfiles. apply Hfiles. exact Hf. }
    (* the sub-directories *)
    assert (Hsub : forall l, Forall (fun x => forall (Hw : wf_dir (snd x)) cs A J, names_ok cs ->
                                 (forall r, In r A -> names_ok (rq r) /\ prefixb (rq r) cs = true) ->
                                 (forall r, In r J -> names_ok (rq r) /\ prefixb (rq r) cs = false) ->
                                 exists J', walk' (snd x) (dn p cs) cs (map conc' (A ++ J)) = (ideal' (snd x) cs A, map conc' ((A ++ aload' cs (snd x)) ++ J'))
                                            /\ (forall r, In r J' -> names_ok (rq r) /\ sext cs (rq r))) l ->
              names_ok (map fst l) -> NoDup (map fst l) -> Forall (fun x => wf_dir (snd x)) l ->
              forall Jin, (forall r, In r Jin -> names_ok (rq r) /\ exists n rest, rq r = cs ++ n :: rest /\ ~ In n (map fst l)) ->
              exists Jout, walk_subs matches cwd ignore_files outer exts (dn p cs) cs (map conc' A2) l (map conc' (A2 ++ Jin))
                           = (flat_map (fun x => if hit matches (ohit matches cwd outer p) A2 (cs ++ [fst x; star_t]) then []
                                                 else ideal' (snd x) (cs ++ [fst x]) A2) l,
                              map conc' (A2 ++ Jout))
                           /\ (forall r, In r Jout -> names_ok (rq r) /\ sext cs (rq r))).
    { induction l as [|[n sd] l IHl]; intros HIH Hn Hnd' Hw Jin HJin.
      - exists Jin. split; [reflexivity|]. intros r Hr. destruct (HJin r Hr) as [H1 [n [rest [H2 _]]]]. split; [exact H1|exists n, rest; exact H2].
      - inversion HIH as [|? ? IHsd HIH']; subst. inversion Hn as [|? ? Hnn Hn']; subst. inversion Hnd' as [|? ? Hnotin Hnd'']; subst.
        inversion Hw as [|? ? Hwsd Hw']; subst. cbn [fst snd] in *.
        cbn [walk_subs flat_map fst snd].
        rewrite (pruned_conc matches cwd outer p R cs A2 n Hcs Hnn HA2).
        destruct (hit matches (ohit matches cwd outer p) A2 (cs ++ [n; star_t])) eqn:Ehit.
        + (* pruned: the state is untouched *)
          cbn [app]. apply (IHl HIH' Hn' Hnd'' Hw' Jin).
          intros r Hr. destruct (HJin r Hr) as [H1 [n' [rest [H2 H3]]]]. split; [exact H1|]. exists n', rest. split; [exact H2|].
          intros Hin. apply H3. right. exact Hin.
        + rewrite <- dn_snoc.
          assert (Hcsn : names_ok (cs ++ [n])) by (apply names_ok_snoc; assumption).
          destruct (IHsd Hwsd (cs ++ [n]) A2 Jin Hcsn) as [J1 [E1 HJ1]].
          * intros r Hr. destruct (HA2 r Hr) as [H1 H2]. split; [exact H1|apply prefixb_app_r; exact H2].
          * intros r Hr. destruct (HJin r Hr) as [H1 [n' [rest [H2 H3]]]]. split; [exact H1|]. rewrite H2.
            apply prefixb_sibling. intros ->. apply H3. left. reflexivity.
          * rewrite E1.
            destruct (IHl HIH' Hn' Hnd'' Hw' (aload' (cs ++ [n]) sd ++ J1)) as [Jout [E2 HJout]].
            -- intros r Hr. apply in_app_iff in Hr as [Hr|Hr].
               ++ unfold aload in Hr. apply in_map_iff in Hr as [fs [<- _]]. unfold rq. cbn [fst]. split; [exact Hcsn|].
                  exists n, []. split; [reflexivity|exact Hnotin].
               ++ destruct (HJ1 r Hr) as [H1 [n' [rest H2]]]. split; [exact H1|]. exists n, (n' :: rest). split; [|exact Hnotin].
                  rewrite H2, <- app_assoc. reflexivity.
            -- rewrite <- app_assoc. rewrite E2. exists Jout. split; [reflexivity|exact HJout]. }
    destruct (Hsub subs IHsubs Hsubn Hnd Hwfs []) as [Jout [E HJout]]; [intros r []|].
    rewrite app_nil_r in E. rewrite E. cbn [fst snd]. exists Jout. split; [|exact HJout].
    rewrite Hhere. reflexivity.
  Qed.
End WalkTrue.

(* ------------------------------------------------------------------------------------------------------------------ *)
(* declarative reading of the ideal walk *)

Lemma assoc_in {B} n (l : list (text * B)) v : assoc n l = Some v -> In (n, v) l.
Proof.
  induction l as [|[k w] l IH]; [discriminate|]. cbn [assoc]. destruct (text_eqb n k) eqn:E.
  - intros H. injection H as ->. apply text_eqb_eq in E. subst. left. reflexivity.
  - intros H. right. apply IH. exact H.
Qed.

Lemma assoc_nodup {B} n (l : list (text * B)) v : NoDup (map fst l) -> In (n, v) l -> assoc n l = Some v.
Proof.
  induction l as [|[k w] l IH]; intros Hnd Hin; [destruct Hin|]. cbn [map fst] in Hnd. inversion Hnd as [|? ? Hk Hnd']; subst.
  cbn [assoc]. destruct Hin as [E|Hin].
  - injection E as -> ->. rewrite text_eqb_refl. reflexivity.
  - destruct (text_eqb n k) eqn:E; [|apply IH; assumption].
    apply text_eqb_eq in E. subst. exfalso. apply Hk. apply in_map_iff. exists (k, v). split; [reflexivity|exact Hin].
Qed.

(* the directory reached by the names cs *)
Fixpoint dir_at (d : dir) (cs : list text) : option dir :=
  match cs with
  | [] => Some d
  | n :: r => match assoc n (d_subs d) with Some sd => dir_at sd r | None => None end
  end.

Section Selected.
  Variable matches : nat -> list text -> bool.
  Variable ignore_files : bool.
  Variable exts : list text.
  Variable outer_hit : list text -> bool.
  Variable out_name : list text -> text.

  Notation loaded' := (loaded ignore_files).
  Notation aload' := (aload ignore_files).

  (* the ignore specs loaded in the directory q below the walked path *)
  Definition specs_at (d : dir) (q : list text) : list (text * nat) :=
    match dir_at d q with Some dd => loaded' dd | None => [] end.

  (* [mode = true]: some ignore spec found in a directory between the walked path and the directory cs (both included) matches T,
     the path being taken relative to the directory of the spec.  [mode = false]: only the directory cs itself is considered. *)
  Definition inner_hit (mode : bool) (d : dir) (cs T : list text) : Prop :=
    exists k fs, k <= length cs /\ (mode = false -> k = length cs) /\ In fs (specs_at d (firstn k cs)) /\ matches (snd fs) (skipn k T) = true.

  Definition ignoredP (mode : bool) (d : dir) (cs T : list text) : Prop := outer_hit T = true \/ inner_hit mode d cs T.

  (* the file f of the directory cs is selected: right extension, not ignored, and no directory on the way down was pruned
     (a directory is pruned when "dir/*" is ignored, judged in its parent directory) *)
  Definition selected (mode : bool) (d : dir) (cs : list text) (f : text) : Prop :=
    exists dd, dir_at d cs = Some dd /\ In f (d_files dd) /\ match_file_extension f exts = true
               /\ ~ ignoredP mode d cs (cs ++ [f])
               /\ forall k, k < length cs -> ~ ignoredP mode d (firstn k cs) (firstn (S k) cs ++ [star_t]).

  Notation hit' := (hit matches outer_hit).
  Notation ideal' := (ideal matches ignore_files exts outer_hit out_name).

  Definition hitG (d : dir) (cs0 : list text) (stack : list arec) (cs T : list text) : Prop :=
    outer_hit (cs0 ++ T) = true
    \/ (exists r, In r stack /\ matches (snd r) (skipn (length (rq r)) (cs0 ++ T)) = true)
    \/ inner_hit true d cs T.

  Lemma hit_true_iff stack T : hit' stack T = true <->
    outer_hit T = true \/ exists r, In r stack /\ matches (snd r) (skipn (length (rq r)) T) = true.
  Proof.
    unfold hit. rewrite orb_true_iff, existsb_exists. reflexivity.
  Qed.

  Lemma specs_at_nil d : specs_at d [] = loaded' d.
  Proof. reflexivity. Qed.

  (* at the directory itself *)
  Lemma hit_here d cs0 stack T : hit' (stack ++ aload' cs0 d) (cs0 ++ T) = true <-> hitG d cs0 stack [] T.
  Proof.
    rewrite hit_true_iff. unfold hitG. split.
    - intros [H|[r [Hr Hm]]]; [left; exact H|]. apply in_app_iff in Hr as [Hr|Hr].
      + right. left. exists r. split; assumption.
      + right. right. unfold aload in Hr. apply in_map_iff in Hr as [fs [<- Hfs]]. unfold rq in Hm. cbn [fst snd] in Hm.
        rewrite skipn_length_app in Hm. exists 0, fs. cbn [length firstn skipn]. rewrite specs_at_nil. repeat split; auto.
    - intros [H|[[r [Hr Hm]]|[k [fs [Hk [_ [Hfs Hm]]]]]]]; [left; exact H| |].
      + right. exists r. split; [apply in_app_iff; left; exact Hr|exact Hm].
      + cbn [length] in Hk. assert (k = 0) by lia. subst k. cbn [firstn skipn] in *. rewrite specs_at_nil in Hfs.
        right. exists (cs0, fst fs, snd fs). split.
        * apply in_app_iff. right. unfold aload. apply in_map_iff. exists fs. split; [reflexivity|exact Hfs].
        * unfold rq. cbn [fst snd]. rewrite skipn_length_app. exact Hm.
  Qed.

  (* one level down *)
  Lemma hit_child files loads subs n sd cs0 stack cs' T' : assoc n subs = Some sd ->
    hitG sd (cs0 ++ [n]) (stack ++ aload' cs0 (Dir files loads subs)) cs' T' <-> hitG (Dir files loads subs) cs0 stack (n :: cs') (n :: T').
  Proof.
    intros Ha. set (d := Dir files loads subs).
    assert (Hspec : forall k, specs_at d (firstn (S k) (n :: cs')) = specs_at sd (firstn k cs')).
    { intros k. unfold specs_at. cbn [firstn dir_at d_subs d]. rewrite Ha. reflexivity. }
    unfold hitG. rewrite <- !app_assoc. cbn [app]. split.
    - intros [H|[[r [Hr Hm]]|[k [fs [Hk [_ [Hfs Hm]]]]]]].
      + left. exact H.
      + apply in_app_iff in Hr as [Hr|Hr]; [right; left; exists r; split; assumption|].
        right. right. unfold aload in Hr. apply in_map_iff in Hr as [fs [<- Hfs]]. unfold rq in Hm. cbn [fst snd] in Hm.
        rewrite skipn_length_app in Hm. exists 0, fs. cbn [firstn skipn]. rewrite specs_at_nil. repeat split; [lia|discriminate|exact Hfs|exact Hm].
      + right. right. exists (S k), fs. rewrite Hspec. cbn [length skipn]. repeat split; [lia|discriminate|exact Hfs|exact Hm].
    - intros [H|[[r [Hr Hm]]|[k [fs [Hk [_ [Hfs Hm]]]]]]].
      + left. exact H.
      + right. left. exists r. split; [apply in_app_iff; left; exact Hr|exact Hm].
      + destruct k as [|k].
        * cbn [firstn skipn] in *. rewrite specs_at_nil in Hfs. right. left. exists (cs0, fst fs, snd fs). split.
          -- apply in_app_iff. right. unfold aload. apply in_map_iff. exists fs. split; [reflexivity|exact Hfs].
          -- unfold rq. cbn [fst snd]. rewrite skipn_length_app. exact Hm.
        * rewrite Hspec in Hfs. cbn [length skipn] in *. right. right. exists k, fs. repeat split; [lia|discriminate|exact Hfs|exact Hm].
  Qed.

  Lemma ideal_true_gen : forall d, wf_dir d -> forall cs0 stack rel out,
    In (rel, out) (ideal' true d cs0 stack) <->
    exists cs f dd, rel = cs0 ++ cs ++ [f] /\ out = out_name rel /\ dir_at d cs = Some dd /\ In f (d_files dd)
                    /\ match_file_extension f exts = true
                    /\ ~ hitG d cs0 stack cs (cs ++ [f])
                    /\ forall k, k < length cs -> ~ hitG d cs0 stack (firstn k cs) (firstn (S k) cs ++ [star_t]).
  Proof.
    induction d as [files loads subs IHsubs] using dir_ind'. intros Hwf cs0 stack rel out.
    assert (Hwfs := wf_dir_subs files loads subs Hwf). rewrite Forall_forall in Hwfs, IHsubs.
    assert (Hnd : NoDup (map fst subs)) by (cbn [wf_dir] in Hwf; tauto).
    cbn [ideal]. set (d := Dir files loads subs) in *. set (stack2 := stack ++ aload' cs0 d).
    rewrite in_app_iff, !in_flat_map. split.
    - intros [[f [Hf Hin]]|[[n sd] [Hx Hin]]].
      + destruct (match_file_extension f exts) eqn:Eext; [|destruct Hin].
        destruct (hit' stack2 (cs0 ++ [f])) eqn:Ehit; [destruct Hin|]. cbn [negb andb] in Hin. destruct Hin as [E|[]].
        injection E as <- <-. exists [], f, d. cbn [app length]. repeat split; auto.
        * intros H. apply (hit_here d cs0 stack [f]) in H. fold stack2 in H. congruence.
        * intros k Hk. lia.
      + cbn [fst snd] in Hin. destruct (hit' stack2 (cs0 ++ [n; star_t])) eqn:Ehit; [destruct Hin|].
        assert (Ha : assoc n subs = Some sd) by (apply assoc_nodup; assumption).
        apply (IHsubs (n, sd) Hx (Hwfs (n, sd) Hx)) in Hin. destruct Hin as [cs' [f [dd [-> [-> [Hdd [Hf [Hext [Hnh Hpr]]]]]]]]].
        exists (n :: cs'), f, dd. rewrite <- !app_assoc. cbn [app]. repeat split; auto.
        * cbn [dir_at d_subs d]. rewrite Ha. exact Hdd.
        * intros H. apply Hnh. apply (hit_child files loads subs n sd cs0 stack cs' (cs' ++ [f]) Ha). exact H.
        * intros k Hk. destruct k as [|k].
          -- cbn [firstn app]. intros H. apply (hit_here d cs0 stack [n; star_t]) in H. fold stack2 in H. congruence.
          -- cbn [firstn app]. intros H. cbn [length] in Hk. apply (Hpr k); [lia|].
             apply (hit_child files loads subs n sd cs0 stack (firstn k cs') (firstn (S k) cs' ++ [star_t]) Ha). exact H.
    - intros [cs [f [dd [-> [-> [Hdd [Hf [Hext [Hnh Hpr]]]]]]]]]. destruct cs as [|n cs'].
      + left. cbn [dir_at] in Hdd. injection Hdd as <-. exists f. split; [exact Hf|]. rewrite Hext.
        destruct (hit' stack2 (cs0 ++ [f])) eqn:Ehit.
        * exfalso. apply Hnh. apply (hit_here d cs0 stack [f]). exact Ehit.
        * left. reflexivity.
      + right. cbn [dir_at d_subs d] in Hdd. destruct (assoc n subs) as [sd|] eqn:Ha; [|discriminate].
        assert (Hx := assoc_in n subs sd Ha). exists (n, sd). split; [exact Hx|]. cbn [fst snd].
        destruct (hit' stack2 (cs0 ++ [n; star_t])) eqn:Ehit.
        * exfalso. apply (Hpr 0); [cbn [length]; lia|]. cbn [firstn app]. apply (hit_here d cs0 stack [n; star_t]). exact Ehit.
        * apply (IHsubs (n, sd) Hx (Hwfs (n, sd) Hx)). exists cs', f, dd. rewrite <- !app_assoc. cbn [app]. repeat split; auto.
          -- intros H. apply Hnh. apply (hit_child files loads subs n sd cs0 stack cs' (cs' ++ [f]) Ha) in H. exact H.
          -- intros k Hk H. apply (Hpr (S k)); [cbn [length]; lia|]. cbn [firstn app].
             apply (hit_child files loads subs n sd cs0 stack (firstn k cs') (firstn (S k) cs' ++ [star_t]) Ha) in H. exact H.
  Qed.

  Theorem ideal_true_spec d rel out : wf_dir d ->
    (In (rel, out) (ideal' true d [] []) <-> exists cs f, rel = cs ++ [f] /\ out = out_name rel /\ selected true d cs f).
  Proof.
    intros Hwf. rewrite (ideal_true_gen d Hwf [] [] rel out). cbn [app].
    assert (HG : forall cs T, hitG d [] [] cs T <-> ignoredP true d cs T).
    { intros cs T. unfold hitG, ignoredP. cbn [app]. split.
      - intros [H|[[r [[] _]]|H]]; [left; exact H|right; exact H].
      - intros [H|H]; [left; exact H|right; right; exact H]. }
    split.
    - intros [cs [f [dd [-> [-> [Hdd [Hf [Hext [Hnh Hpr]]]]]]]]]. exists cs, f. repeat split. exists dd. repeat split; auto.
      + intros H. apply Hnh. apply HG. exact H.
      + intros k Hk H. apply (Hpr k Hk). apply HG. exact H.
    - intros [cs [f [-> [-> [dd [Hdd [Hf [Hext [Hnh Hpr]]]]]]]]]. exists cs, f, dd. repeat split; auto.
      + intros H. apply Hnh. apply HG. exact H.
      + intros k Hk H. apply (Hpr k Hk). apply HG. exact H.
  Qed.
End Selected.

(* ------------------------------------------------------------------------------------------------------------------ *)
(* names along a path of a well-formed tree; [selected] only looks at the outer specs on proper names *)

Lemma dir_at_wf : forall cs d dd, wf_dir d -> dir_at d cs = Some dd -> names_ok cs /\ wf_dir dd.
Proof.
  induction cs as [|n r IH]; intros d dd Hwf H.
  - cbn [dir_at] in H. injection H as <-. split; [constructor|exact Hwf].
  - cbn [dir_at] in H. destruct d as [files loads subs]. cbn [d_subs] in H.
    destruct (assoc n subs) as [sd|] eqn:Ha; [|discriminate]. apply assoc_in in Ha.
    assert (Hs := wf_dir_subs files loads subs Hwf). rewrite Forall_forall in Hs. specialize (Hs (n, sd) Ha). cbn [snd] in Hs.
    destruct (IH sd dd Hs H) as [H1 H2]. split; [|exact H2]. constructor; [|exact H1].
    cbn [wf_dir] in Hwf. destruct Hwf as [_ [Hn _]]. unfold names_ok in Hn. rewrite Forall_forall in Hn. apply Hn.
    apply in_map_iff. exists (n, sd). split; [reflexivity|exact Ha].
Qed.

Lemma names_ok_firstn k l : names_ok l -> names_ok (firstn k l).
Proof.
  revert k. induction l as [|a l IH]; intros k H; [destruct k; constructor|]. destruct k as [|k]; [constructor|].
  inversion H; subst. cbn [firstn]. constructor; [assumption|apply IH; assumption].
Qed.

Lemma selected_ext matches ignore_files exts (oh oh' : list text -> bool) mode d cs f :
  wf_dir d -> (forall T, names_ok T -> oh T = oh' T) ->
  selected matches ignore_files exts oh mode d cs f -> selected matches ignore_files exts oh' mode d cs f.
Proof.
  intros Hwf Hoh [dd [Hdd [Hf [Hext [Hnh Hpr]]]]]. exists dd. repeat split; auto.
  - destruct (dir_at_wf cs d dd Hwf Hdd) as [Hcs Hwdd]. intros [H|H]; apply Hnh; [left|right; exact H].
    rewrite Hoh; [exact H|]. apply names_ok_app. split; [exact Hcs|]. constructor; [|constructor].
    destruct dd as [fs ls ss]. cbn [wf_dir] in Hwdd. destruct Hwdd as [Hfs _]. unfold names_ok in Hfs. rewrite Forall_forall in Hfs. apply Hfs. exact Hf.
  - destruct (dir_at_wf cs d dd Hwf Hdd) as [Hcs _]. intros k Hk [H|H]; apply (Hpr k Hk); [left|right; exact H].
    rewrite Hoh; [exact H|]. apply names_ok_app. split; [apply names_ok_firstn; exact Hcs|constructor; [apply name_ok_star|constructor]].
Qed.

(* ------------------------------------------------------------------------------------------------------------------ *)
(* absolute spellings *)

Section AbsTheorem.
  Variable matches : nat -> list text -> bool.
  Variable cwd : text.
  Variable ignore_files : bool.
  Variable outer : list specrec.
  Variable exts : list text.
  Variable ps : list text.
  Variable p : text.
  Hypothesis ps_ne : ps <> [].
  Hypothesis ps_ok : names_ok ps.
  Hypothesis p_abs : abs_spelling ps p.

  Lemma abspath_dn_abs T : names_ok T -> abspath cwd (dn p T) = slashcat (ps ++ T).
  Proof. apply (abspath_dn cwd ps p ps_ne ps_ok p_abs). Qed.

  Lemma R_abs q T : names_ok q -> names_ok T -> prefixb q T = true ->
    relparts cwd (abspath cwd (dn p T)) (dn p q) = skipn (length q) T.
  Proof.
    intros Hq HT Hp. rewrite (abspath_dn_abs T HT). unfold relparts.
    rewrite (parts_of_dn cwd ps p ps_ne ps_ok p_abs q Hq).
    rewrite (parts_of_slashcat cwd (ps ++ T)); [|apply app_ne_l; exact ps_ne|apply names_ok_app; split; assumption].
    apply prefixb_spec in Hp as [r ->]. rewrite (app_assoc ps q r). rewrite common_len_app, Nat.sub_diag. cbn [repeat app].
    rewrite !skipn_length_app. reflexivity.
  Qed.

  (* do the outer specs match the file / "dir/*" with the names T below the walked path *)
  Definition outer_hit_abs (T : list text) : bool := check_ignore_specs matches cwd (slashcat (ps ++ T)) outer.

  Theorem walk_spec_abs_lemma d : wf_dir d -> forall rel out,
    In (rel, out) (iter_files_in_path matches cwd ignore_files outer exts d p) <->
    exists cs f, rel = cs ++ [f] /\ out = slashcat (ps ++ cs ++ [f])
                 /\ selected matches ignore_files exts outer_hit_abs true d cs f.
  Proof.
    intros Hwf rel out. unfold iter_files_in_path.
    destruct (walk_true matches cwd ignore_files outer exts p R_abs (keep_abs cwd ps p ps_ne ps_ok p_abs) d Hwf [] [] [])
      as [J' [E _]]; [constructor|intros r []|intros r []|].
    cbn [app map] in E. unfold dn at 1 in E. cbn [fold_left] in E. rewrite E. cbn [fst].
    rewrite (ideal_true_spec matches ignore_files exts _ _ d rel out Hwf).
    assert (Hoh : forall T, names_ok T -> ohit matches cwd outer p T = outer_hit_abs T).
    { intros T HT. unfold ohit, outer_hit_abs. rewrite (abspath_dn_abs T HT). reflexivity. }
    split.
    - intros [cs [f [-> [-> Hsel]]]]. exists cs, f. split; [reflexivity|]. split.
      + destruct Hsel as [dd [Hdd [Hf _]]]. destruct (dir_at_wf cs d dd Hwf Hdd) as [Hcs Hwdd].
        assert (Hfn : name_ok f = true).
        { destruct dd as [fs ls ss]. cbn [wf_dir] in Hwdd. destruct Hwdd as [Hfs _]. unfold names_ok in Hfs. rewrite Forall_forall in Hfs. apply Hfs. exact Hf. }
        unfold oname. destruct (cs ++ [f]) as [|c r] eqn:Ecs; [destruct cs; discriminate|].
        assert (Hall : names_ok (c :: r)) by (rewrite <- Ecs; apply names_ok_app; split; [exact Hcs|constructor; [exact Hfn|constructor]]).
        rewrite (dn_cons ps p ps_ne ps_ok p_abs c r Hall).
        apply normpath_slashcat; [apply app_ne_l; exact ps_ne|apply names_ok_app; split; assumption].
      + eapply selected_ext; [exact Hwf|exact Hoh|exact Hsel].
    - intros [cs [f [-> [-> Hsel]]]]. exists cs, f. split; [reflexivity|]. split.
      + destruct Hsel as [dd [Hdd [Hf _]]]. destruct (dir_at_wf cs d dd Hwf Hdd) as [Hcs Hwdd].
        assert (Hfn : name_ok f = true).
        { destruct dd as [fs ls ss]. cbn [wf_dir] in Hwdd. destruct Hwdd as [Hfs _]. unfold names_ok in Hfs. rewrite Forall_forall in Hfs. apply Hfs. exact Hf. }
        unfold oname. destruct (cs ++ [f]) as [|c r] eqn:Ecs; [destruct cs; discriminate|].
        assert (Hall : names_ok (c :: r)) by (rewrite <- Ecs; apply names_ok_app; split; [exact Hcs|constructor; [exact Hfn|constructor]]).
        rewrite (dn_cons ps p ps_ne ps_ok p_abs c r Hall).
        symmetry. apply normpath_slashcat; [apply app_ne_l; exact ps_ne|apply names_ok_app; split; assumption].
      + eapply selected_ext; [exact Hwf| |exact Hsel]. intros T HT. symmetry. apply Hoh. exact HT.
  Qed.
End AbsTheorem.

(* the two absolute spellings (with and without trailing slash) select the same files under the same names *)
Lemma abs_trailing_slash_same matches cwd ignore_files outer exts ps d : ps <> [] -> names_ok ps -> wf_dir d ->
  forall x, In x (iter_files_in_path matches cwd ignore_files outer exts d (slashcat ps))
            <-> In x (iter_files_in_path matches cwd ignore_files outer exts d (slashcat ps ++ [slash])).
Proof.
  intros Hne Hok Hwf [rel out].
  rewrite (walk_spec_abs_lemma matches cwd ignore_files outer exts ps (slashcat ps) Hne Hok (or_introl eq_refl) d Hwf).
  rewrite (walk_spec_abs_lemma matches cwd ignore_files outer exts ps (slashcat ps ++ [slash]) Hne Hok (or_intror eq_refl) d Hwf).
  reflexivity.
Qed.

(* paths_from_path on an absolute spelling of a directory *)
Lemma paths_from_path_abs matches cwd root ps p d ine ign wp exts :
  ps <> [] -> names_ok ps -> abs_spelling ps p -> lookup root ps = NDir d -> wf_dir d ->
  exists l, paths_from_path_g matches cwd root p ine ign wp exts false = Ok l /\
    forall id out, In (id, out) l <->
      exists cs f, id = ps ++ cs ++ [f] /\ out = slashcat (ps ++ cs ++ [f])
                   /\ selected matches ign (map lower exts)
                               (outer_hit_abs matches cwd (if ign then outer_specs cwd root p wp else []) ps) true d cs f.
Proof.
  intros Hne Hok Hp Hl Hwf. unfold paths_from_path_g.
  assert (Eparts : parts_of cwd p = ps).
  { destruct Hp as [-> | ->]; [apply parts_of_slashcat; assumption|apply parts_of_slashcat_gen; auto]. }
  assert (Eemp : is_empty p = false).
  { destruct ps as [|a r]; [contradiction|]. destruct Hp as [-> | ->]; reflexivity. }
  rewrite Eparts, Eemp, Hl. cbn [andb negb].
  eexists. split; [reflexivity|]. intros id out.
  rewrite (ssort_in (out_leb) (id, out)). rewrite in_map_iff. split.
  - intros [[rel o] [E Hin]]. cbn [fst snd] in E. injection E as <- <-.
    apply (walk_spec_abs_lemma matches cwd ign _ (map lower exts) ps p Hne Hok Hp d Hwf) in Hin.
    destruct Hin as [cs [f [-> [-> Hsel]]]]. exists cs, f. repeat split. exact Hsel.
  - intros [cs [f [-> [-> Hsel]]]]. exists (cs ++ [f], slashcat (ps ++ cs ++ [f])). split; [reflexivity|].
    apply (walk_spec_abs_lemma matches cwd ign _ (map lower exts) ps p Hne Hok Hp d Hwf). exists cs, f. repeat split. exact Hsel.
Qed.

(* ------------------------------------------------------------------------------------------------------------------ *)
(* relative spellings: p is any non-empty string that does not start with '/', the working directory is "/c1/../cn" *)

Lemma split_on_snoc_name x n : noslash n = true -> split_on (x ++ slash :: n) = split_on x ++ [n].
Proof.
  intros Hn. induction x as [|c x IH].
  - cbn [app split_on]. rewrite N.eqb_refl. rewrite (split_on_noslash n Hn). reflexivity.
  - cbn [app split_on]. destruct (N.eqb c slash); [rewrite IH; reflexivity|].
    rewrite IH. destruct (split_on x) as [|h t] eqn:Ex; [exfalso; eapply split_on_nonnil; exact Ex|]. reflexivity.
Qed.

(* x ends with a slash: its last component is empty *)
Lemma split_on_slash_end x0 : split_on (x0 ++ [slash]) = split_on x0 ++ [[]].
Proof. apply (split_on_snoc_name x0 []). reflexivity. Qed.

Lemma split_on_all_noslash s : noslashes (split_on s).
Proof.
  induction s as [|c s IH]; [repeat constructor|]. cbn [split_on]. destruct (N.eqb c slash) eqn:E.
  - constructor; [reflexivity|exact IH].
  - destruct (split_on s) as [|h t]; [repeat constructor; cbn [noslash forallb]; rewrite E; reflexivity|].
    inversion IH; subst. constructor; [|assumption]. cbn [noslash forallb]. rewrite E. assumption.
Qed.

(* with one leading slash, normalisation keeps a stack of proper names *)
Lemma norm_step1_ok acc c : names_ok acc -> noslash c = true -> names_ok (norm_step 1 acc c).
Proof.
  intros Hacc Hc. unfold norm_step. destruct (is_empty c || text_eqb c dot_t) eqn:E1; [exact Hacc|].
  apply orb_false_iff in E1 as [Hne Hd]. cbn [Nat.eqb andb orb].
  destruct (text_eqb c dotdot_t) eqn:Hdd.
  - cbn [negb orb]. destruct acc as [|top r]; [constructor|].
    inversion Hacc as [|? ? Htop Hr]; subst. apply name_ok_parts in Htop. destruct Htop as [_ [_ [_ Htd]]].
    rewrite (text_eqb_neq _ _ Htd). exact Hr.
  - cbn [negb orb]. constructor; [|exact Hacc]. unfold name_ok, nonempty. rewrite Hne, Hc, Hd, Hdd. reflexivity.
Qed.

Lemma norm_fold1_ok l : forall acc, names_ok acc -> noslashes l -> names_ok (fold_left (norm_step 1) l acc).
Proof.
  induction l as [|c l IH]; intros acc Hacc Hl; [exact Hacc|]. inversion Hl; subst. cbn [fold_left]. apply IH; [apply norm_step1_ok; assumption|assumption].
Qed.

Lemma names_ok_rev l : names_ok l -> names_ok (rev l).
Proof. unfold names_ok. rewrite !Forall_forall. intros H x Hx. apply H. apply in_rev. exact Hx. Qed.

Lemma endswith_name y n : name_ok n = true -> endswith [slash] (y ++ n) = false.
Proof.
  intros Hn. destruct (name_last n Hn) as [n0 [x [-> Hx]]]. rewrite app_assoc. rewrite endswith_app_last. exact Hx.
Qed.

Section RelSpelling.
  Variable cwd : text.
  Variable cw : list text.
  Variable p : text.
  Hypothesis cw_ne : cw <> [].
  Hypothesis cw_ok : names_ok cw.
  Hypothesis cwd_is : cwd = slashcat cw.
  Hypothesis p_ne : p <> [].
  Hypothesis p_rel : isabs p = false.

  (* the head of every dirname is the head of p *)
  Lemma join_head x n : x <> [] -> isabs n = false -> exists y, join x n = x ++ y.
  Proof.
    intros Hx Hn. unfold join. rewrite Hn. destruct (is_empty x || endswith [slash] x); [exists n; reflexivity|exists (slash :: n); reflexivity].
  Qed.

  Lemma dn_head T : names_ok T -> exists y, dn p T = p ++ y.
  Proof.
    induction T as [|n T IH] using rev_ind; intros HT; [exists []; rewrite app_nil_r; reflexivity|].
    apply names_ok_app in HT as [HT Hn]. inversion Hn as [|? ? Hn' _]; subst. destruct (IH HT) as [y Ey].
    rewrite dn_snoc. destruct (join_head (dn p T) n) as [z Ez].
    - rewrite Ey. destruct p; [contradiction|discriminate].
    - apply isabs_name. exact Hn'.
    - rewrite Ez, Ey, <- app_assoc. eexists. reflexivity.
  Qed.

  Lemma dn_not_abs T : names_ok T -> isabs (dn p T) = false /\ dn p T <> [].
  Proof.
    intros HT. destruct (dn_head T HT) as [y ->]. destruct p as [|c0 p']; [contradiction|]. split; [exact p_rel|discriminate].
  Qed.

  (* the normalisation stack (reversed components) of cwd + "/" + dirname *)
  Definition nstack (T : list text) : list text := fold_left (norm_step 1) (split_on (dn p T)) (rev cw).

  Lemma nstack_snoc T n : names_ok T -> name_ok n = true -> nstack (T ++ [n]) = n :: nstack T.
  Proof.
    intros HT Hn. unfold nstack. rewrite dn_snoc. destruct (dn_not_abs T HT) as [_ Hne].
    assert (Hns : noslash n = true) by (apply name_ok_parts in Hn; tauto).
    unfold join. rewrite (isabs_name n Hn). destruct (dn p T) as [|x0 xs] eqn:Ex; [contradiction|]. cbn [is_empty orb].
    destruct (endswith [slash] (x0 :: xs)) eqn:Eend.
    - (* the dirname ends with a slash *)
      destruct (exists_last (l := x0 :: xs)) as [x' [c Ec]]; [discriminate|]. rewrite Ec in *.
      rewrite endswith_app_last in Eend. apply N.eqb_eq in Eend. subst c.
      rewrite <- app_assoc. cbn [app]. rewrite (split_on_snoc_name x' n Hns). rewrite split_on_slash_end.
      rewrite !fold_left_app. cbn [fold_left]. rewrite (norm_step_ok 1 _ n Hn). reflexivity.
    - rewrite (split_on_snoc_name (x0 :: xs) n Hns). rewrite fold_left_app. cbn [fold_left]. rewrite (norm_step_ok 1 _ n Hn). reflexivity.
  Qed.

  Lemma nstack_all T : names_ok T -> nstack T = rev T ++ nstack [].
  Proof.
    induction T as [|n T IH] using rev_ind; intros HT; [reflexivity|].
    apply names_ok_app in HT as [HT Hn]. inversion Hn as [|? ? Hn' _]; subst.
    rewrite (nstack_snoc T n HT Hn'). rewrite rev_app_distr. cbn [rev app]. rewrite (IH HT). reflexivity.
  Qed.

  Lemma nstack_ok T : names_ok (nstack T).
  Proof. unfold nstack. apply norm_fold1_ok; [apply names_ok_rev; exact cw_ok|apply split_on_all_noslash]. Qed.

  Definition base : list text := rev (nstack []).

  Lemma base_ok : names_ok base.
  Proof. apply names_ok_rev. apply nstack_ok. Qed.

  Lemma join_cwd x : isabs x = false -> join cwd x = slashcat cw ++ slash :: x.
  Proof.
    intros Hx. unfold join. rewrite Hx, cwd_is. rewrite (endswith_slashcat cw cw_ne cw_ok).
    destruct cw as [|a l]; [contradiction|]. reflexivity.
  Qed.

  (* abspath of a dirname: "/" + the names of base + the names walked *)
  Lemma abspath_dn_rel T : names_ok T -> abspath cwd (dn p T) = slash :: intercalate (base ++ T).
  Proof.
    intros HT. destruct (dn_not_abs T HT) as [Hab _]. unfold abspath. rewrite Hab. rewrite (join_cwd _ Hab).
    unfold normpath.
    assert (Hemp : is_empty (slashcat cw ++ slash :: dn p T) = false).
    { clear -cw_ne. destruct cw as [|a l]; [contradiction|reflexivity]. }
    rewrite Hemp.
    assert (Hinit : initial_slashes (slashcat cw ++ slash :: dn p T) = 1).
    { clear -cw_ne cw_ok. destruct cw as [|a l]; [contradiction|]. apply initial_slashes_slashcat. inversion cw_ok; assumption. }
    rewrite Hinit. unfold norm_comps. rewrite (split_on_slashcat_app cw _ (names_noslashes _ cw_ok)).
    rewrite fold_left_app.
    change (list cp) with text.
    match goal with |- context [fold_left ?f (?e :: cw) ?a] => assert (Hcw : fold_left f (e :: cw) a = rev cw) end.
    { rewrite norm_fold_ok; [|constructor; [reflexivity|apply comps_ok_names; exact cw_ok]].
      change (filter nonempty ([] :: cw)) with (filter nonempty cw). rewrite (filter_nonempty_names _ cw_ok). apply app_nil_r. }
    change (list cp) with text in Hcw. rewrite Hcw. fold (nstack T). rewrite (nstack_all T HT). rewrite rev_app_distr, rev_involutive. fold base.
    cbn [repeat app]. reflexivity.
  Qed.

  Lemma parts_of_abs_names cwd' l : names_ok l -> parts_of cwd' (slash :: intercalate l) = l.
  Proof.
    intros Hl. destruct l as [|a l]; [reflexivity|].
    rewrite intercalate_slashcat by discriminate. apply parts_of_slashcat; [discriminate|exact Hl].
  Qed.

  Lemma parts_of_dn_rel T : names_ok T -> parts_of cwd (dn p T) = base ++ T.
  Proof.
    intros HT. unfold parts_of. rewrite (abspath_dn_rel T HT).
    assert (Hall : names_ok (base ++ T)) by (apply names_ok_app; split; [apply base_ok|exact HT]).
    destruct (base ++ T) as [|a l] eqn:E; [reflexivity|].
    rewrite intercalate_slashcat by discriminate. rewrite (split_on_slashcat _ (names_noslashes _ Hall)).
    change (filter nonempty ([] :: a :: l)) with (filter nonempty (a :: l)). apply filter_nonempty_names. exact Hall.
  Qed.

  Lemma R_rel q T : names_ok q -> names_ok T -> prefixb q T = true ->
    relparts cwd (abspath cwd (dn p T)) (dn p q) = skipn (length q) T.
  Proof.
    intros Hq HT Hp. unfold relparts. rewrite (parts_of_dn_rel q Hq). rewrite (abspath_dn_rel T HT).
    rewrite (parts_of_abs_names cwd (base ++ T)); [|apply names_ok_app; split; [apply base_ok|exact HT]].
    apply prefixb_spec in Hp as [r ->]. rewrite (app_assoc base q r). rewrite common_len_app, Nat.sub_diag. cbn [repeat app].
    rewrite !skipn_length_app. reflexivity.
  Qed.

  (* dirnames of different directories are different strings *)
  Lemma fold_join_names T : forall x, x <> [] -> endswith [slash] x = false -> names_ok T -> fold_left join T x = x ++ slashcat T.
  Proof.
    induction T as [|n T IH]; intros x Hx He HT; [rewrite app_nil_r; reflexivity|].
    inversion HT as [|? ? Hn HT']; subst. cbn [fold_left].
    assert (Ej : join x n = x ++ slash :: n).
    { unfold join. rewrite (isabs_name n Hn), He. destruct x; [contradiction|reflexivity]. }
    rewrite Ej. rewrite IH.
    - rewrite slashcat_cons, <- app_assoc. reflexivity.
    - destruct x; [contradiction|discriminate].
    - change (slash :: n) with ([slash] ++ n). rewrite app_assoc. apply endswith_name. exact Hn.
    - exact HT'.
  Qed.

  Lemma dn_rel_cons c T : names_ok (c :: T) -> exists sep, (sep = [] \/ sep = [slash]) /\ dn p (c :: T) = p ++ sep ++ c ++ slashcat T.
  Proof.
    intros H. inversion H as [|? ? Hc HT]; subst. unfold dn. cbn [fold_left].
    assert (Ej : exists sep, (sep = [] \/ sep = [slash]) /\ join p c = p ++ sep ++ c).
    { unfold join. rewrite (isabs_name c Hc). destruct (is_empty p || endswith [slash] p); [exists []; auto|exists [slash]; auto]. }
    destruct Ej as [sep [Hsep Ej]]. exists sep. split; [exact Hsep|]. rewrite Ej. rewrite fold_join_names.
    - rewrite <- !app_assoc. reflexivity.
    - destruct p; [contradiction|discriminate].
    - rewrite app_assoc. apply endswith_name. exact Hc.
    - exact HT.
  Qed.

  Lemma dn_rel_inj q cs : names_ok q -> names_ok cs -> text_eqb (dn p cs) (dn p q) = parts_eqb q cs.
  Proof.
    intros Hq Hcs. destruct (parts_eqb q cs) eqn:E.
    - apply parts_eqb_eq in E. subst. apply text_eqb_refl.
    - apply text_eqb_neq. intros Heq. assert (q = cs); [|subst; rewrite (proj2 (parts_eqb_eq cs cs) eq_refl) in E; discriminate].
      destruct cs as [|c cs'], q as [|d q']; [reflexivity| | |].
      + exfalso. destruct (dn_rel_cons d q' Hq) as [sep [_ Ed]]. unfold dn at 1 in Heq. cbn [fold_left] in Heq. rewrite Ed in Heq.
        rewrite <- (app_nil_r p) in Heq at 1. apply app_inv_head in Heq. inversion Hq as [|? ? Hd _]; subst.
        apply name_ok_parts in Hd. destruct Hd as [Hdne _]. destruct sep; [destruct d; [contradiction|discriminate]|discriminate].
      + exfalso. destruct (dn_rel_cons c cs' Hcs) as [sep [_ Ec]]. unfold dn at 2 in Heq. cbn [fold_left] in Heq. rewrite Ec in Heq.
        rewrite <- (app_nil_r p) in Heq at 2. apply app_inv_head in Heq. inversion Hcs as [|? ? Hc _]; subst.
        apply name_ok_parts in Hc. destruct Hc as [Hcne _]. destruct sep; [destruct c; [contradiction|discriminate]|discriminate].
      + inversion Hq as [|? ? Hd Hq']; subst. inversion Hcs as [|? ? Hc Hcs']; subst.
        (* the separator after p depends on p only *)
        assert (Hsep : exists sep, (sep = [] \/ sep = [slash]) /\ forall n, name_ok n = true -> join p n = p ++ sep ++ n).
        { destruct (is_empty p || endswith [slash] p) eqn:Ep; [exists []|exists [slash]]; (split; [auto|]); intros n Hn;
            unfold join; rewrite (isabs_name n Hn), Ep; reflexivity. }
        destruct Hsep as [sep [_ Hj]].
        assert (Ec : dn p (c :: cs') = p ++ sep ++ c ++ slashcat cs').
        { unfold dn. cbn [fold_left]. rewrite (Hj c Hc). rewrite fold_join_names; [rewrite <- !app_assoc; reflexivity| | |exact Hcs'].
          - destruct p; [contradiction|discriminate].
          - rewrite app_assoc. apply endswith_name. exact Hc. }
        assert (Ed : dn p (d :: q') = p ++ sep ++ d ++ slashcat q').
        { unfold dn. cbn [fold_left]. rewrite (Hj d Hd). rewrite fold_join_names; [rewrite <- !app_assoc; reflexivity| | |exact Hq'].
          - destruct p; [contradiction|discriminate].
          - rewrite app_assoc. apply endswith_name. exact Hd. }
        rewrite Ec, Ed in Heq. apply app_inv_head in Heq. apply app_inv_head in Heq.
        apply (f_equal split_on) in Heq.
        rewrite (split_on_aux cs' c (names_noslashes _ Hcs')) in Heq by (apply name_ok_parts in Hc; tauto).
        rewrite (split_on_aux q' d (names_noslashes _ Hq')) in Heq by (apply name_ok_parts in Hd; tauto).
        symmetry. exact Heq.
  Qed.

  (* K for relative spellings (repaired code): as for absolute spellings, provided the path is not the file-system root *)
  Lemma keep_rel q cs f s : base <> [] -> names_ok q -> names_ok cs -> keep_inner cwd (dn p cs) (dn p q, f, s) = prefixb q cs.
  Proof.
    intros Hb. apply (keep_generic cwd p base Hb base_ok). intros T HT. rewrite (abspath_dn_rel T HT).
    apply intercalate_slashcat. apply app_ne_l. exact Hb.
  Qed.

  Lemma base_is_parts : parts_of cwd p = base.
  Proof. rewrite <- (app_nil_r base). apply (parts_of_dn_rel [] (Forall_nil _)). Qed.

  Lemma abspath_dn_rel' T : base <> [] -> names_ok T -> abspath cwd (dn p T) = slashcat (base ++ T).
  Proof. intros Hb HT. rewrite (abspath_dn_rel T HT). apply intercalate_slashcat. apply app_ne_l. exact Hb. Qed.
End RelSpelling.

(* ------------------------------------------------------------------------------------------------------------------ *)
(* relative spellings, repaired code: the same characterisation as for absolute spellings *)

Theorem walk_spec_rel_lemma matches cwd ignore_files outer exts cw p d :
  cw <> [] -> names_ok cw -> cwd = slashcat cw -> p <> [] -> isabs p = false -> parts_of cwd p <> [] -> wf_dir d ->
  forall rel out,
    In (rel, out) (iter_files_in_path matches cwd ignore_files outer exts d p) <->
    exists cs f, rel = cs ++ [f] /\ out = oname p (cs ++ [f])
                 /\ selected matches ignore_files exts (outer_hit_abs matches cwd outer (parts_of cwd p)) true d cs f.
Proof.
  intros Hcw Hok Hcwd Hp Hrel Hroot Hwf rel out. unfold iter_files_in_path.
  assert (Eb := base_is_parts cwd cw p Hcw Hok Hcwd Hp Hrel).
  assert (Hb : base cw p <> []) by (rewrite <- Eb; exact Hroot).
  destruct (walk_true matches cwd ignore_files outer exts p
              (R_rel cwd cw p Hcw Hok Hcwd Hp Hrel)
              (fun q cs f s => keep_rel cwd cw p Hcw Hok Hcwd Hp Hrel q cs f s Hb) d Hwf [] [] [])
    as [J' [E _]]; [constructor|intros r []|intros r []|].
  cbn [app map] in E. unfold dn at 1 in E. cbn [fold_left] in E. rewrite E. cbn [fst].
  rewrite (ideal_true_spec matches ignore_files exts _ _ d rel out Hwf).
  assert (Hoh : forall T, names_ok T -> ohit matches cwd outer p T = outer_hit_abs matches cwd outer (parts_of cwd p) T).
  { intros T HT. unfold ohit, outer_hit_abs. rewrite Eb. rewrite (abspath_dn_rel' cwd cw p Hcw Hok Hcwd Hp Hrel T Hb HT). reflexivity. }
  split.
  - intros [cs [f [-> [-> H]]]]. exists cs, f. repeat split. eapply selected_ext; [exact Hwf|exact Hoh|exact H].
  - intros [cs [f [-> [-> H]]]]. exists cs, f. repeat split. eapply selected_ext; [exact Hwf| |exact H].
    intros T HT. symmetry. apply Hoh. exact HT.
Qed.

(* walk level: a relative spelling (with or without "..") and the absolute spelling of the same directory select the same files,
   given the same outer specs *)
Theorem walk_spelling_invariance matches cwd ignore_files outer exts cw p d :
  cw <> [] -> names_ok cw -> cwd = slashcat cw -> p <> [] -> isabs p = false -> parts_of cwd p <> [] -> wf_dir d ->
  forall rel, (exists out, In (rel, out) (iter_files_in_path matches cwd ignore_files outer exts d p))
              <-> (exists out, In (rel, out) (iter_files_in_path matches cwd ignore_files outer exts d (slashcat (parts_of cwd p)))).
Proof.
  intros Hcw Hok Hcwd Hp Hrel Hroot Hwf rel.
  assert (Eb := base_is_parts cwd cw p Hcw Hok Hcwd Hp Hrel).
  assert (Hps : names_ok (parts_of cwd p)) by (rewrite Eb; apply (base_ok cw p Hok)).
  split; intros [out H].
  - apply (walk_spec_rel_lemma matches cwd ignore_files outer exts cw p d Hcw Hok Hcwd Hp Hrel Hroot Hwf) in H.
    destruct H as [cs [f [-> [_ H]]]]. eexists.
    apply (walk_spec_abs_lemma matches cwd ignore_files outer exts (parts_of cwd p) _ Hroot Hps (or_introl eq_refl) d Hwf).
    exists cs, f. repeat split. exact H.
  - apply (walk_spec_abs_lemma matches cwd ignore_files outer exts (parts_of cwd p) _ Hroot Hps (or_introl eq_refl) d Hwf) in H.
    destruct H as [cs [f [-> [_ H]]]]. eexists.
    apply (walk_spec_rel_lemma matches cwd ignore_files outer exts cw p d Hcw Hok Hcwd Hp Hrel Hroot Hwf).
    exists cs, f. repeat split. exact H.
Qed.

(* ------------------------------------------------------------------------------------------------------------------ *)
(* paths_from_path: spellings without ".." find the same outer ignore files as the absolute spelling *)

Definition pure_comp (c : text) : bool := nonempty c && negb (text_eqb c dot_t).

Lemma norm_fold_nodotdot i l : forall acc, ~ In dotdot_t l ->
  fold_left (norm_step i) l acc = rev (filter pure_comp l) ++ acc.
Proof.
  induction l as [|c l IH]; intros acc H; [reflexivity|].
  assert (Hc : c <> dotdot_t) by (intros ->; apply H; left; reflexivity).
  assert (Hl : ~ In dotdot_t l) by (intros X; apply H; right; exact X).
  change (fold_left (norm_step i) (c :: l) acc) with (fold_left (norm_step i) l (norm_step i acc c)).
  change (filter pure_comp (c :: l)) with (if pure_comp c then c :: filter pure_comp l else filter pure_comp l).
  rewrite (IH _ Hl). unfold norm_step, pure_comp, nonempty.
  destruct (is_empty c) eqn:E1; cbn [negb andb orb]; [reflexivity|].
  destruct (text_eqb c dot_t) eqn:E2; cbn [negb andb orb]; [reflexivity|].
  rewrite (text_eqb_neq _ _ Hc). cbn [negb orb rev]. rewrite <- app_assoc. reflexivity.
Qed.

Lemma pure_parts_names l : names_ok l -> filter pure_comp l = l.
Proof.
  induction l as [|a l IH]; intros H; [reflexivity|]. inversion H as [|? ? Ha Hl]; subst.
  change (filter pure_comp (a :: l)) with (if pure_comp a then a :: filter pure_comp l else filter pure_comp l). rewrite (IH Hl).
  destruct (name_ok_parts a Ha) as [Hne [_ [Hd _]]]. unfold pure_comp, nonempty. destruct a; [contradiction|].
  cbn [is_empty negb andb]. rewrite (text_eqb_neq _ _ Hd). reflexivity.
Qed.

Lemma pure_parts_slashcat l : names_ok l -> pure_parts (slashcat l) = l.
Proof.
  intros H. unfold pure_parts. rewrite (split_on_slashcat _ (names_noslashes _ H)).
  change (filter (fun c => nonempty c && negb (text_eqb c dot_t)) ([] :: l)) with (filter pure_comp l). apply pure_parts_names. exact H.
Qed.

Section NoDotDot.
  Variable cwd : text.
  Variable cw : list text.
  Variable p : text.
  Hypothesis cw_ne : cw <> [].
  Hypothesis cw_ok : names_ok cw.
  Hypothesis cwd_is : cwd = slashcat cw.
  Hypothesis p_ne : p <> [].
  Hypothesis p_rel : isabs p = false.
  Hypothesis p_nodd : ~ In dotdot_t (split_on p).

  Lemma parts_of_nodotdot : parts_of cwd p = cw ++ pure_parts p.
  Proof.
    rewrite (base_is_parts cwd cw p cw_ne cw_ok cwd_is p_ne p_rel). unfold base, nstack, dn. cbn [fold_left].
    rewrite (norm_fold_nodotdot 1 _ _ p_nodd). rewrite rev_app_distr, !rev_involutive. reflexivity.
  Qed.

  Lemma absolute_parts_nodotdot : absolute_parts cwd p = absolute_parts cwd (slashcat (cw ++ pure_parts p)).
  Proof.
    assert (Hps : names_ok (cw ++ pure_parts p)).
    { rewrite <- parts_of_nodotdot. rewrite (base_is_parts cwd cw p cw_ne cw_ok cwd_is p_ne p_rel). apply base_ok. exact cw_ok. }
    unfold absolute_parts. rewrite p_rel.
    assert (Eabs : isabs (slashcat (cw ++ pure_parts p)) = true).
    { destruct cw as [|a l]; [contradiction|]. reflexivity. }
    rewrite Eabs. rewrite (pure_parts_slashcat _ Hps). rewrite cwd_is. rewrite (pure_parts_slashcat _ cw_ok). reflexivity.
  Qed.

  Lemma outer_specs_nodotdot root wp : outer_specs cwd root p wp = outer_specs cwd root (slashcat (cw ++ pure_parts p)) wp.
  Proof. unfold outer_specs, iter_intermediate_paths. rewrite absolute_parts_nodotdot. reflexivity. Qed.
End NoDotDot.

(* paths_from_path on a relative spelling of a directory *)
Lemma paths_from_path_rel matches cwd cw root p d ine ign wp exts :
  cw <> [] -> names_ok cw -> cwd = slashcat cw -> p <> [] -> isabs p = false -> parts_of cwd p <> [] ->
  lookup root (parts_of cwd p) = NDir d -> wf_dir d ->
  exists l, paths_from_path_g matches cwd root p ine ign wp exts false = Ok l /\
    forall id out, In (id, out) l <->
      exists cs f, id = parts_of cwd p ++ cs ++ [f] /\ out = oname p (cs ++ [f])
                   /\ selected matches ign (map lower exts)
                               (outer_hit_abs matches cwd (if ign then outer_specs cwd root p wp else []) (parts_of cwd p)) true d cs f.
Proof.
  intros Hcw Hok Hcwd Hp Hrel Hroot Hl Hwf. unfold paths_from_path_g.
  assert (Eemp : is_empty p = false) by (destruct p; [contradiction|reflexivity]).
  rewrite Eemp, Hl. cbn [andb negb].
  eexists. split; [reflexivity|]. intros id out.
  rewrite (ssort_in (out_leb) (id, out)). rewrite in_map_iff. split.
  - intros [[rel o] [E Hin]]. cbn [fst snd] in E. injection E as <- <-.
    apply (walk_spec_rel_lemma matches cwd ign _ (map lower exts) cw p d Hcw Hok Hcwd Hp Hrel Hroot Hwf) in Hin.
    destruct Hin as [cs [f [-> [-> Hsel]]]]. exists cs, f. repeat split. exact Hsel.
  - intros [cs [f [-> [-> Hsel]]]]. exists (cs ++ [f], oname p (cs ++ [f])). split; [reflexivity|].
    apply (walk_spec_rel_lemma matches cwd ign _ (map lower exts) cw p d Hcw Hok Hcwd Hp Hrel Hroot Hwf). exists cs, f. repeat split. exact Hsel.
Qed.

(* spelling invariance of paths_from_path for directory paths spelled without ".." *)
Theorem spelling_invariance_nodotdot matches cwd cw root p d ine ign wp exts :
  cw <> [] -> names_ok cw -> cwd = slashcat cw -> p <> [] -> isabs p = false -> ~ In dotdot_t (split_on p) ->
  lookup root (cw ++ pure_parts p) = NDir d -> wf_dir d ->
  exists l1 l2,
    paths_from_path_g matches cwd root p ine ign wp exts false = Ok l1 /\
    paths_from_path_g matches cwd root (slashcat (cw ++ pure_parts p)) ine ign wp exts false = Ok l2 /\
    forall id, In id (map fst l1) <-> In id (map fst l2).
Proof.
  intros Hcw Hok Hcwd Hp Hrel Hdd Hl Hwf.
  assert (Eparts := parts_of_nodotdot cwd cw p Hcw Hok Hcwd Hp Hrel Hdd).
  assert (Hne : cw ++ pure_parts p <> []) by (apply app_ne_l; exact Hcw).
  assert (Hps : names_ok (cw ++ pure_parts p)).
  { rewrite <- Eparts. rewrite (base_is_parts cwd cw p Hcw Hok Hcwd Hp Hrel). apply base_ok. exact Hok. }
  destruct (paths_from_path_rel matches cwd cw root p d ine ign wp exts Hcw Hok Hcwd Hp Hrel) as [l1 [E1 H1]];
    [rewrite Eparts; exact Hne|rewrite Eparts; exact Hl|exact Hwf|].
  destruct (paths_from_path_abs matches cwd root (cw ++ pure_parts p) _ d ine ign wp exts Hne Hps (or_introl eq_refl) Hl Hwf) as [l2 [E2 H2]].
  exists l1, l2. split; [exact E1|]. split; [exact E2|]. intros id. rewrite !in_map_iff.
  rewrite Eparts in H1. rewrite (outer_specs_nodotdot cwd cw p Hcw Hok Hcwd Hp Hrel Hdd root wp) in H1.
  split.
  - intros [[i o] [<- Hin]]. apply H1 in Hin. destruct Hin as [cs [f [-> [_ Hsel]]]].
    exists ((cw ++ pure_parts p) ++ cs ++ [f], slashcat ((cw ++ pure_parts p) ++ cs ++ [f])). split; [reflexivity|].
    apply H2. exists cs, f. repeat split. exact Hsel.
  - intros [[i o] [<- Hin]]. apply H2 in Hin. destruct Hin as [cs [f [-> [_ Hsel]]]].
    exists ((cw ++ pure_parts p) ++ cs ++ [f], oname p (cs ++ [f])). split; [reflexivity|].
    apply H1. exists cs, f. repeat split. exact Hsel.
Qed.
