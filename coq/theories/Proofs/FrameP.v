(* Frame theorems over the patch-application spec of Model/Patch.v (splice_from): text outside the applied patches is copied
   verbatim and in order.  Used by C10 (template code untouched) and C11 (untouched text preserved). *)
From SF Require Import Base.Prelude Model.Patch.

Lemma skipn_skipn' {A} (l : list A) a b : skipn a (skipn b l) = skipn (b + a) l.
Proof. revert l. induction b as [|b IH]; intros l; cbn [skipn Nat.add]; [reflexivity|]. destruct l; [destruct a; reflexivity|apply IH]. Qed.

Lemma firstn_add' {A} (l : list A) a b : firstn (a + b) l = firstn a l ++ firstn b (skipn a l).
Proof.
  revert l. induction a as [|a IH]; intros l; cbn [Nat.add firstn skipn app]; [reflexivity|].
  destruct l as [|x l]; [destruct b; reflexivity|]. cbn [firstn skipn app]. rewrite IH. reflexivity.
Qed.

Lemma substr_split src x y z : x <= y -> y <= z -> substr src x z = substr src x y ++ substr src y z.
Proof.
  intros H1 H2. unfold substr.
  replace (z - x) with ((y - x) + (z - y)) by lia.
  rewrite firstn_add'. f_equal. rewrite skipn_skipn'. f_equal. f_equal. lia.
Qed.

Lemma skipn_split src x y : x <= y -> skipn x src = substr src x y ++ skipn y src.
Proof.
  intros H. unfold substr. rewrite <- (firstn_skipn (y - x) (skipn x src)) at 1. f_equal.
  rewrite skipn_skipn'. f_equal. lia.
Qed.

Section Frame.
  Variable src : text.

  (* a protected range [a,b) is not touched by a patch: the patch ends before it or starts after it *)
  Definition avoids (a b : nat) (p : patch) : Prop := p_stop p <= a \/ b <= p_start p.

  Lemma frame_step ap : forall idx a b,
    chain idx ap -> idx <= a -> a <= b -> Forall (avoids a b) ap ->
    exists pre ap', splice_from idx src ap = pre ++ substr src a b ++ splice_from b src ap'
                    /\ chain b ap' /\ (forall p, In p ap' -> In p ap).
  Proof.
    induction ap as [|p r IH]; intros idx a b Hc Hia Hab Hav; cbn [splice_from].
    - exists (substr src idx a), []. cbn [splice_from chain]. split; [|split; [exact I|intros p []]].
      rewrite (skipn_split src idx a Hia), (skipn_split src a b Hab). reflexivity.
    - cbn [chain] in Hc. destruct Hc as [H1 [H2 H3]]. inversion Hav as [|? ? Hp Hr]; subst.
      destruct Hp as [Hp|Hp].
      + destruct (IH (p_stop p) a b H3 Hp Hab Hr) as [pre [ap' [E [C I']]]].
        exists (substr src idx (p_start p) ++ p_text p ++ pre), ap'. split; [rewrite E, <- !app_assoc; reflexivity|].
        split; [exact C|intros q Hq; right; apply I'; exact Hq].
      + exists (substr src idx a), (p :: r). cbn [splice_from chain]. split; [|split; [repeat split; assumption|intros q Hq; exact Hq]].
        rewrite (substr_split src idx a (p_start p)) by lia. rewrite (substr_split src a b (p_start p)) by lia.
        rewrite <- !app_assoc. reflexivity.
  Qed.

  (* `pieces` occur in `out` in this order, separated by arbitrary text *)
  Inductive in_order : list text -> text -> Prop :=
  | io_nil out : in_order [] out
  | io_cons p ps pre rest : in_order ps rest -> in_order (p :: ps) (pre ++ p ++ rest).

  (* ascending, pairwise disjoint ranges starting at or after idx *)
  Fixpoint ranges_ok (idx : nat) (rs : list (nat * nat)) : Prop :=
    match rs with [] => True | (a, b) :: r => idx <= a /\ a <= b /\ ranges_ok b r end.

  Theorem protected_ranges_survive rs : forall idx ap,
    chain idx ap -> ranges_ok idx rs ->
    Forall (fun ab => Forall (avoids (fst ab) (snd ab)) ap) rs ->
    in_order (map (fun ab => substr src (fst ab) (snd ab)) rs) (splice_from idx src ap).
  Proof.
    induction rs as [|[a b] r IH]; intros idx ap Hc Hr Hav; cbn [map]; [constructor|].
    cbn [ranges_ok] in Hr. destruct Hr as [H1 [H2 H3]]. inversion Hav as [|? ? Hab Hrest]; subst. cbn [fst snd] in *.
    destruct (frame_step ap idx a b Hc H1 H2 Hab) as [pre [ap' [E [C I']]]]. rewrite E. constructor.
    apply IH; [exact C|exact H3|].
    eapply Forall_impl; [|exact Hrest]. intros [a' b'] Hf. cbn [fst snd] in *.
    rewrite Forall_forall in *. intros q Hq. apply Hf, I', Hq.
  Qed.
End Frame.
