From SF Require Import Base.Prelude Model.AtomicWrite.

Definition wf0 (s : fsst) : Prop := tmp s = None.
Definition new_file suffix new (s : fsst) : fobj :=
  (new, match mode_of suffix s with Some m => m | None => default_tmp_mode end).

(* generalised invariant over the remaining ops *)
Definition target_ok suffix new (s0 s : fsst) : Prop :=
  tgt s = tgt s0 \/ tgt s = Some (new_file suffix new s0).

Ltac crunch :=
  repeat match goal with
         | |- context [if ?b then _ else _] => destruct b
         | |- context [match ?x with _ => _ end] => destruct x
         end; cbn in *; auto.

Theorem safe_write_cases suffix new f s0 :
  tmp s0 = None ->
  let o := safe_write suffix new f s0 in
  (* target holds the complete original or the complete new content with the original mode *)
  (tgt (st_of o) = tgt s0 \/ tgt (st_of o) = Some (new_file suffix new s0))
  (* the input path of a suffixed write is never touched *)
  /\ inp (st_of o) = inp s0
  (* after a raised fault, and after success, no temp file remains *)
  /\ (match o with Raised s => tmp s = None | Done s => tmp s = None /\ tgt s = Some (new_file suffix new s0) | Died _ => True end).
Proof.
  intros Ht. destruct s0 as [t i tm]. cbn in Ht. subst tm.
  unfold safe_write, new_file, mode_of, input_file, ops.
  destruct f as [|k j|k j after].
  - cbn. destruct suffix; [destruct i as [[c m]|]|destruct t as [[c m]|]]; cbn; auto.
  - do 9 (destruct k as [|k]; [cbn; destruct suffix; [destruct i as [[? ?]|]|destruct t as [[? ?]|]]; cbn; auto|]).
    cbn. destruct suffix; [destruct i as [[? ?]|]|destruct t as [[? ?]|]]; cbn; auto.
  - do 9 (destruct k as [|k]; [cbn; destruct after; destruct suffix; [destruct i as [[? ?]|]| |destruct i as [[? ?]|]|]; try destruct t as [[? ?]|]; cbn; auto|]).
    cbn. destruct suffix; [destruct i as [[? ?]|]|destruct t as [[? ?]|]]; cbn; auto.
Qed.

Lemma write_all_each suffix : forall files i kf f,
  Forall (fun p => tmp (fst p) = None) files ->
  Forall2 (fun p s' => (tgt s' = tgt (fst p) \/ tgt s' = Some (new_file suffix (snd p) (fst p))) /\ inp s' = inp (fst p))
          files (fst (write_all suffix files i kf f)).
Proof.
  induction files as [|[s new] r IH]; intros i kf f Hf; cbn [write_all fst]; [constructor|].
  inversion Hf as [|? ? Hs Hr]; subst. cbn [fst] in Hs.
  pose proof (safe_write_cases suffix new (if i =? kf then f else FNone) s Hs) as [H1 [H2 _]].
  destruct (safe_write suffix new (if i =? kf then f else FNone) s) as [s'|s'|s'] eqn:E; cbn [st_of] in *.
  - specialize (IH (S i) kf f Hr). destruct (write_all suffix r (S i) kf f) as [rest ok]. cbn [fst] in *.
    constructor; [split; assumption|exact IH].
  - cbn [fst]. constructor; [split; assumption|].
    clear. induction r as [|[s2 n2] r IHr]; cbn [map]; constructor; [cbn [fst]; auto|exact IHr].
  - cbn [fst]. constructor; [split; assumption|].
    clear. induction r as [|[s2 n2] r IHr]; cbn [map]; constructor; [cbn [fst]; auto|exact IHr].
Qed.

(* files after the one hit by a fault are left exactly as they were *)
Lemma write_all_after_fault suffix s new r i kf f s' :
  (safe_write suffix new (if i =? kf then f else FNone) s = Raised s' \/ safe_write suffix new (if i =? kf then f else FNone) s = Died s') ->
  write_all suffix ((s, new) :: r) i kf f = (s' :: map fst r, false).
Proof. intros [H|H]; cbn [write_all]; rewrite H; reflexivity. Qed.

Lemma write_all_nofault suffix : forall files i kf,
  Forall (fun p => tmp (fst p) = None) files ->
  snd (write_all suffix files i kf FNone) = true /\
  Forall2 (fun p s' => tgt s' = Some (new_file suffix (snd p) (fst p)) /\ tmp s' = None) files (fst (write_all suffix files i kf FNone)).
Proof.
  induction files as [|[s new] r IH]; intros i kf Hf; cbn [write_all]; [split; [reflexivity|constructor]|].
  inversion Hf as [|? ? Hs Hr]; subst. cbn [fst] in Hs.
  replace (if i =? kf then FNone else FNone) with FNone by (destruct (i =? kf); reflexivity).
  pose proof (safe_write_cases suffix new FNone s Hs) as [_ [_ H3]].
  assert (D : exists s', safe_write suffix new FNone s = Done s').
  { unfold safe_write, ops. cbn. eexists; reflexivity. }
  destruct D as [s' D]. rewrite D in *. destruct H3 as [T1 T2].
  destruct (IH (S i) kf Hr) as [I1 I2]. destruct (write_all suffix r (S i) kf FNone) as [rest ok]. cbn [fst snd] in *.
  split; [exact I1|]. constructor; [split; assumption|exact I2].
Qed.

Example atomic_example :
  let s := mkFs (Some ([1;2]%N, 420)) None None in
  safe_write false [7;8;9]%N (FDie 2 1 false) s = Died (mkFs (Some ([1;2]%N, 420)) None (Some ([7]%N, 384)))
  /\ safe_write false [7;8;9]%N (FRaise 6 0) s = Raised s
  /\ safe_write false [7;8;9]%N FNone s = Done (mkFs (Some ([7;8;9]%N, 420)) None None).
Proof. vm_compute. repeat split. Qed.
