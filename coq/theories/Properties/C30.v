(* C30 — Edits are applied to disjoint source ranges exactly once.  Property theorems only. *)
From SF Require Import Base.Prelude Base.Sort Model.Patch Proofs.PatchP.

(* The merged patch list (all rules, all variants) is sorted by (start, stop), drawn from the input buffers,
   and no two of its patches conflict. *)
Theorem C30_merge_pairwise_ok : forall bufs : list (list patch),
  StronglySorted (le key_leb) (merge bufs) /\
  ForallOrdPairs (fun a b => conflict a b = false) (merge bufs) /\
  (forall m, In m (merge bufs) -> In m (concat bufs)).
Proof. exact merge_ok. Qed.
Print Assumptions C30_merge_pairwise_ok.

(* "does not conflict" means: identical edit, or ranges that do not overlap *)
Theorem C30_noconflict_meaning : forall a b : patch, conflict a b = false ->
  (p_start a = p_start b /\ p_stop a = p_stop b /\ p_text a = p_text b)
  \/ Nat.min (p_stop a) (p_stop b) <= Nat.max (p_start a) (p_start b).
Proof. exact noconf_meaning. Qed.
Print Assumptions C30_noconflict_meaning.

(* The fixed source is the source with each *applied* patch substituted for exactly its own range; the applied
   patches are an ascending chain of disjoint ranges (chain), each one a merged patch; every other merged patch
   contributes nothing.  (No source-only slices here; C10 treats those.) *)
Theorem C30_apply_exact : forall (bufs : list (list patch)) (src : text),
  Forall (fun p => p_start p <= p_stop p /\ p_stop p <= length src) (concat bufs) ->
  let ps := merge bufs in
  let applied := applied_from 0 ps in
  fix_source ps [] src = splice_from 0 src applied
  /\ chain 0 applied
  /\ (forall p, In p applied -> In p ps)
  /\ ForallOrdPairs (fun a b => conflict a b = false) ps.
Proof. exact apply_exact_lemma. Qed.
Print Assumptions C30_apply_exact.
