(* C29 — Dialect definitions are complete.  Property theorems only.
   The per-dialect facts (closed_<d>, lexer_ok_<d>) and their conjunction over all bundled dialects
   (all_bundled_dialects_complete, all_bundled_lexers_total) are generated from /repo on every run into
   generated/Gen_dialect_<d>.v and generated/Gen_dialects_all.v and kernel-checked by vm_compute. *)
From SF Require Import Base.Prelude Model.DialectGraph Proofs.DialectGraphP Model.LexTable Proofs.LexTableP.

(* A reachability certificate accepted by the checker is sound: every name reachable from the root through library entries
   is in `visited`, and has a library entry unless it is listed as dangling. *)
Theorem C29_certificate_sound : forall g root visited dangling,
  closed_check g root visited dangling = true ->
  forall n, path g root n -> In n visited /\ (entry g n <> None \/ (In n dangling /\ entry g n = None)).
Proof. exact closed_check_sound. Qed.
Print Assumptions C29_certificate_sound.

(* With an empty dangling list: every reference reachable from the root resolves. *)
Theorem C29_no_dangling : forall g root visited,
  closed_check g root visited [] = true -> forall n, path g root n -> entry g n <> None.
Proof. exact closed_no_dangling. Qed.
Print Assumptions C29_no_dangling.

(* A matcher table accepted by table_ok contains the whitespace and newline matchers and is paired with the last-resort
   matcher, and then on every non-empty text one of the three claims a non-empty prefix: the lexer always progresses, no
   character makes it give up. *)
Theorem C29_lexer_accepts_any_character : forall (t : table) (lr : text),
  table_ok t lr = true ->
  has_matcher t name_ws tpl_ws = true /\ has_matcher t name_nl tpl_nl = true /\ lr = tpl_last
  /\ forall s, s <> [] -> 0 < ws_len s \/ 0 < nl_len s \/ 0 < last_len s.
Proof. exact some_matcher_progresses. Qed.
Print Assumptions C29_lexer_accepts_any_character.

(* non-vacuity: a closed two-node graph and a dangling one *)
Example C29_example_closed : closed_check [(0%N, [1%N]); (1%N, [0%N])] 0%N [0%N; 1%N] [] = true.
Proof. reflexivity. Qed.
Example C29_example_dangling_rejected : closed_check [(0%N, [1%N])] 0%N [0%N; 1%N] [] = false.
Proof. reflexivity. Qed.
