(* C13 — Fixing never makes a parsable file unparsable.  Property theorems only.
   PARTIAL: rules and apply_fixes (with its re-parse validation) are an oracle.  Proved for every rule set, loop limit and number of
   passes: the tree the fix loop returns is related to the input tree by any reflexive-transitive relation that every VALIDATED
   proposal respects -- in particular "parses without error whenever the input did", if apply_fixes' validity flag is truthful --
   and on reaching the loop limit the original tree is returned.  That the flag is truthful for the TEXT (a reparse of the written
   file succeeds; single same-class replace edits skip validation) is checked per run by re-rendering, re-lexing and re-parsing the
   fixed text. *)
From SF Require Import Base.Prelude Model.FixLoop Proofs.FixLoopP.

Theorem C13_loop_only_adopts_validated : forall (T F : Type) teq feq (R : T -> T -> Prop),
  (forall t, R t t) -> (forall a b c, R a b -> R b c -> R a c) ->
  forall limit rules t0, respects T F R rules -> R t0 (fst (lint_fix T F teq feq limit rules t0)).
Proof. intros T F teq feq R Hr Ht limit rules t0 H. apply lint_fix_rel; assumption. Qed.
Print Assumptions C13_loop_only_adopts_validated.

Theorem C13_limit_rollback : forall (T F : Type) teq feq limit rules t0,
  snd (lint_fix T F teq feq limit rules t0) = true -> fst (lint_fix T F teq feq limit rules t0) = t0.
Proof. intros. apply limit_rollback; assumption. Qed.
Print Assumptions C13_limit_rollback.

(* an invalid proposal is never adopted: a rule that would break the file (valid = false) leaves the tree alone *)
Example C13_invalid_not_adopted :
  lint_fix nat nat Nat.eqb Nat.eqb 10 [{| r_post := false; r_fixcompat := true; propose := fun t => if t =? 0 then Some (1, 7, false) else None |}] 0 = (0, false).
Proof. reflexivity. Qed.
Example C13_valid_adopted :
  lint_fix nat nat Nat.eqb Nat.eqb 10 [{| r_post := false; r_fixcompat := true; propose := fun t => if t =? 0 then Some (1, 7, true) else None |}] 0 = (7, false).
Proof. reflexivity. Qed.
