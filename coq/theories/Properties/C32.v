(* C32 — Linting is read-only and repeatable.  Property theorems only.
   PARTIAL: the process state that survives from one operation to the next consists of memo tables (the @cache'd config loaders, the
   per-parse grammar caches) and the lexer's class-level block tracker.  Proved: a memo table over a function of its key is
   transparent for EVERY history of requests (C32_memoised_state_transparent, the cache theorem of C06 read for histories), and
   not otherwise (C32_refuted): so repeatability reduces to "what is memoised depends only on its key" -- for the config loaders
   that is "files do not change between operations", which is the read-only half of the property.  Both halves are checked on
   real histories: sequences of lint/parse/render over a file pool in one process vs a fresh process per file, and file-system
   snapshots (bytes, mtimes, directory listing, write-mode opens) around lint/parse/render through the API and the CLI. *)
From SF Require Import Base.Prelude Model.ParseOpt Proofs.ParseOptP.

Theorem C32_memoised_state_transparent : forall (K C V : Type) keq (f : K -> C -> V),
  (forall a b, keq a b = true <-> a = b) ->
  forall history, key_determines K C V f history ->
  run_cached K C V keq f [] history = run_fresh K C V f history.
Proof.
  intros K C V keq f Hk history Hd. apply cache_transparent; [exact Hk| |exact Hd].
  intros k c v _ H. discriminate H.
Qed.
Print Assumptions C32_memoised_state_transparent.

Theorem C32_refuted : exists (f : nat -> nat -> nat) history,
  run_cached nat nat nat Nat.eqb f [] history <> run_fresh nat nat nat f history.
Proof. do 2 eexists. exact cache_not_transparent_example. Qed.
Print Assumptions C32_refuted.
