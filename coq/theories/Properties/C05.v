(* C05 — No rule fails internally.  Property theorems only.
   PARTIAL: rule bodies (~90 classes) are not modelled.  Proved: the crawl funnel -- for every sequence of _eval outcomes an
   "Unexpected exception" violation appears in a rule's output iff some _eval call raised, and at most one per rule run -- which
   makes the monitor (no such violation over all rules x dialects x inputs) sound AND complete with respect to _eval. *)
From SF Require Import Base.Prelude Model.Funnel Proofs.FunnelP.

Theorem C05_unexpected_iff_eval_raised : forall rule evals vs,
  crawl rule evals [] = Val vs ->
  existsb is_unexpected vs = existsb raised evals /\ length (filter is_unexpected vs) <= 1.
Proof. intros rule evals vs H. apply (crawl_unexpected rule evals [] vs H). reflexivity. Qed.
Print Assumptions C05_unexpected_iff_eval_raised.

Example C05_example : crawl 7 [Val 2; Raise (XOther 1); Val 5] [] = Val [LINT 7; LINT 7; UNEXPECTED 7].
Proof. reflexivity. Qed.
