(* C17 — Fix and format are idempotent.  Property theorems only.
   PARTIAL: rules are an oracle.  Proved about the loop: a tree on which no enabled rule proposes a fix is returned unchanged by a
   further run (C17_no_fix_identity: the fixpoint condition of idempotence), and a run that hits the loop limit returns its input
   (C17_limit_rollback), for every rule set and limit.  That the tree a stable run ends with IS such a fixpoint after re-reading
   the written text (re-lex/re-parse stability, rules as functions of the re-parsed tree, post-phase fixes not re-enabling main
   rules) is not provable here and is checked by running fix twice on every input of the corpus. *)
From SF Require Import Base.Prelude Model.FixLoop Proofs.FixLoopP.

Theorem C17_no_fix_identity : forall (T F : Type) teq feq limit rules t0,
  0 < limit -> (forall r, In r rules -> propose T F r t0 = None) -> lint_fix T F teq feq limit rules t0 = (t0, false).
Proof.
  intros T F teq feq limit rules t0 Hl H.
  apply (no_fix_identity T F teq feq (fun _ _ => True) (fun _ => I) (fun _ _ _ _ _ => I) limit rules t0 Hl H).
Qed.
Print Assumptions C17_no_fix_identity.

Theorem C17_limit_rollback : forall (T F : Type) teq feq limit rules t0,
  snd (lint_fix T F teq feq limit rules t0) = true -> fst (lint_fix T F teq feq limit rules t0) = t0.
Proof. intros. apply limit_rollback; assumption. Qed.
Print Assumptions C17_limit_rollback.

(* the `fixes == last_fixes` short-circuit stops a rule that returns an equal fix list twice in a row although its second fix is
   applicable: the run ends at a tree that is not a fixpoint, and a second run (which starts with no last_fixes) moves on -- the
   abstract shape of a non-idempotent run *)
Example C17_same_fixes_shortcircuit_not_idempotent_refuted :
  let r := {| r_post := false; r_fixcompat := true; propose := fun t => if t =? 0 then Some (5, 1, true) else if t =? 1 then Some (5, 2, true) else None |} in
  let t1 := fst (lint_fix nat nat Nat.eqb Nat.eqb 10 [r] 0) in
  fst (lint_fix nat nat Nat.eqb Nat.eqb 10 [r] t1) <> t1.
Proof. vm_compute. discriminate. Qed.
