(* C12 — Fixes are lexically stable.  Property theorems only.
   PARTIAL: whether a rule's edit glues or splits tokens depends on the dialect's regexes and on the reflow engine, neither of which
   is modelled; the engine's own safeguard (re-parse validation) works on token lists and cannot see a merge that re-lexing the TEXT
   would produce.  What is proved is the comparator the monitor uses: two token sequences are accepted iff they have the same
   boundaries and kinds position by position (C12_comparator_exact), and that a fixed tree which is accepted is the re-lexed token
   sequence (so any merge or split is a rejection).  Every fix of the corpus is re-lexed and compared. *)
From SF Require Import Base.Prelude Model.TokenRel Proofs.TokenRelP.

Theorem C12_comparator_exact : forall a b : list tok, toks_eqb a b = true <-> a = b.
Proof. exact toks_eqb_eq. Qed.
Print Assumptions C12_comparator_exact.

(* two minus signs glued into a comment marker: different boundaries, rejected *)
Example C12_glue_rejected : toks_eqb [([45]%N, 1); ([45]%N, 1); ([53]%N, 2)] [([45;45;53]%N, 3)] = false.
Proof. reflexivity. Qed.
