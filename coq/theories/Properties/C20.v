(* C20 — noqa directives suppress exactly the specified violations.  Property theorems only. *)
From SF Require Import Base.Prelude Base.Sort Model.NoQa Proofs.NoQaP.

(* What the mask does, for every directive list and violation list (any interleaving): a violation survives iff no plain
   directive on its line names its rule (or names none) and the most recent range directive at or before its line that
   `covers` it is not a disable -- with `covers` as the code computes it. *)
Theorem C20_mask_characterisation : forall ds vs,
  fst (mask ds vs) = filter (fun v => negb (hidden_single ds v) && negb (hidden_range covers ds v)) vs.
Proof. exact (mask_with_fst covers). Qed.
Print Assumptions C20_mask_characterisation.

(* The property itself: covers = "names the rule, or names no rule". *)
Theorem C20_mask_spec : forall ds vs,
  fst (mask ds vs) = filter (fun v => negb (hidden_spec ds v)) vs.
Proof. exact mask_spec_lemma. Qed.
Print Assumptions C20_mask_spec.

(* Regression witness for the repaired defect: the falsy-tuple reading of "covers" violates the property. *)
Theorem C20_falsy_covers_refuted :
  exists ds vs, fst (mask_with covers_falsy ds vs) <> filter (fun v => negb (hidden_spec ds v)) vs.
Proof. exact falsy_covers_refuted_lemma. Qed.
Print Assumptions C20_falsy_covers_refuted.
