(* C31 — Offset-to-line/column conversion is exact.  Property theorems only. *)
From SF Require Import Base.Prelude Model.LineCol Proofs.LineColP.

(* For any text and any offset in it: line = 1 + #newlines before the offset,
   column = 1-based position within its line (the same function serves source and rendered text). *)
Theorem C31_line_pos_spec : forall (s : text) (p : nat), p <= length s ->
  line_pos s p = (1 + count_nl (firstn p s), 1 + length (last_line (firstn p s))).
Proof. exact line_pos_spec_lemma. Qed.
Print Assumptions C31_line_pos_spec.

Theorem C31_line_pos_in_file : forall (s : text) (p : nat), p <= length s ->
  1 <= fst (line_pos s p) <= 1 + count_nl s /\ 1 <= snd (line_pos s p) <= p + 1.
Proof. exact line_pos_bounds_lemma. Qed.
Print Assumptions C31_line_pos_in_file.

(* infer_next_position agrees with recomputing the position from scratch. *)
Theorem C31_infer_next_spec : forall pre raw post : text,
  line_pos (pre ++ raw ++ post) (length pre + length raw)
  = infer_next raw (line_pos (pre ++ raw ++ post) (length pre)).
Proof. exact infer_next_lemma. Qed.
Print Assumptions C31_infer_next_spec.
