(* C26 — Writing fixed files is atomic and faithful.  Property theorems only. *)
From SF Require Import Base.Prelude Model.AtomicWrite Proofs.AtomicWriteP.

(* For every content, mode, suffix setting and every fault (any operation raising, or the process dying before/after any
   operation, with any prefix of the data written): the target holds its complete original or the complete new content with
   the original permission bits; the input path of a suffixed write is untouched; after a raised fault no temp file remains;
   on success the target is the new content and no temp file remains. *)
Theorem C26_atomic_and_faithful : forall suffix new f s0, tmp s0 = None ->
  let o := safe_write suffix new f s0 in
  (tgt (st_of o) = tgt s0 \/ tgt (st_of o) = Some (new_file suffix new s0))
  /\ inp (st_of o) = inp s0
  /\ (match o with Raised s => tmp s = None | Done s => tmp s = None /\ tgt s = Some (new_file suffix new s0) | Died _ => True end).
Proof. exact safe_write_cases. Qed.
Print Assumptions C26_atomic_and_faithful.

(* several files: every file ends old-or-new whatever file the fault hits *)
Theorem C26_multi_file_each_old_or_new : forall suffix files i kf f,
  Forall (fun p => tmp (fst p) = None) files ->
  Forall2 (fun p s' => (tgt s' = tgt (fst p) \/ tgt s' = Some (new_file suffix (snd p) (fst p))) /\ inp s' = inp (fst p))
          files (fst (write_all suffix files i kf f)).
Proof. exact write_all_each. Qed.
Print Assumptions C26_multi_file_each_old_or_new.

Theorem C26_multi_file_after_fault_untouched : forall suffix s new r i kf f s',
  (safe_write suffix new (if i =? kf then f else FNone) s = Raised s' \/ safe_write suffix new (if i =? kf then f else FNone) s = Died s') ->
  write_all suffix ((s, new) :: r) i kf f = (s' :: map fst r, false).
Proof. exact write_all_after_fault. Qed.
Print Assumptions C26_multi_file_after_fault_untouched.

Theorem C26_multi_file_success : forall suffix files i kf,
  Forall (fun p => tmp (fst p) = None) files ->
  snd (write_all suffix files i kf FNone) = true /\
  Forall2 (fun p s' => tgt s' = Some (new_file suffix (snd p) (fst p)) /\ tmp s' = None) files (fst (write_all suffix files i kf FNone)).
Proof. exact write_all_nofault. Qed.
Print Assumptions C26_multi_file_success.
