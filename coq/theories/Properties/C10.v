(* C10 — Fixes never edit template code.  Property theorems only.
   PARTIAL: proved for the patch-application layer (merge_source_patches + the slicer/builder, Model/Patch.v): for every set of patch
   buffers (all rules, all variants), every source and every ascending list of protected source ranges (template tags, expressions,
   comments, placeholder parameters): if no APPLIED patch overlaps a protected range, every protected range's text is in the fixed
   source unchanged and in the original order.  That the patches which real rules produce avoid template code (the filter in
   generate_source_patches / LintFix.has_template_conflicts, and JJ01's deliberate exception) is checked per run on the real patch
   lists (the hypothesis is evaluated on them) and end to end on the fixed text.  Source-only-slice handling of the slicer is under
   correspondence (C30) but the theorem is stated for the slicer without source-only slices. *)
From SF Require Import Base.Prelude Base.Sort Model.Patch Proofs.PatchP Proofs.FrameP.

Theorem C10_protected_ranges_survive : forall (bufs : list (list patch)) (src : text) (rs : list (nat * nat)),
  Forall (fun p => p_start p <= p_stop p /\ p_stop p <= length src) (concat bufs) ->
  ranges_ok 0 rs ->
  Forall (fun ab => Forall (avoids (fst ab) (snd ab)) (applied_from 0 (merge bufs))) rs ->
  in_order (map (fun ab => substr src (fst ab) (snd ab)) rs) (fix_source (merge bufs) [] src).
Proof.
  intros bufs src rs Hb Hr Hav. destruct (apply_exact_lemma bufs src Hb) as [E [C _]]. cbn zeta in E, C.
  rewrite E. apply protected_ranges_survive; assumption.
Qed.
Print Assumptions C10_protected_ranges_survive.

(* the hypothesis is necessary: a patch overlapping half of a tag destroys it *)
Example C10_overlap_destroys_tag :
  fix_source (merge [[mkPatch 2 5 [120]%N]]) [] [97;98;123;123;120;125;125]%N = [97;98;120;125;125]%N.
Proof. reflexivity. Qed.
Example C10_example :
  in_order [[123;123;120;125;125]%N] (fix_source (merge [[mkPatch 0 2 [65;66]%N]]) [] [97;98;123;123;120;125;125]%N).
Proof. apply (io_cons [123;123;120;125;125]%N [] [65;66]%N []). constructor. Qed.
