(* C28 — Parse output is a faithful serialisation of the tree.  Property theorems only.
   Model: Model/Record.v (to_tuple, structural_simplify, as_record, raw, raw_segments, stringify). *)
From SF Require Import Base.Prelude Model.Record Proofs.RecordP.
From Coq Require Import Permutation.

(* ---- structural_simplify: tuple form -> record (dict / list of single dicts / None), any tuple, with or without positions *)

(* The (type, text) entries of the record, read in order, are those of the tuple form. *)
Theorem C28_simplify_leaves : forall t : tup, leaves_rec (simplify t) = leaves_tup t.
Proof. exact simplify_leaves. Qed.
Print Assumptions C28_simplify_leaves.

(* Each entry keeps the path of enclosing node types it has in the tuple form. *)
Theorem C28_simplify_nesting : forall t : tup, paths_rec (simplify t) = paths_tup t.
Proof. exact simplify_nesting. Qed.
Print Assumptions C28_simplify_nesting.

(* Stronger: the record determines the whole tuple form up to the position dicts (empty containers included). *)
Theorem C28_simplify_lossless : forall t : tup, untuple (simplify t) = [erase_pos t].
Proof. exact simplify_lossless. Qed.
Print Assumptions C28_simplify_lossless.

(* None of structural_simplify's asserts can fire on a tuple produced by to_tuple. *)
Theorem C28_simplify_asserts_hold : forall t : tup, simplify_pv (embed t) = Ok (simplify t).
Proof. exact simplify_pv_embed. Qed.
Print Assumptions C28_simplify_asserts_hold.

(* ---- to_tuple(show_raw=True) and raw / raw_segments *)

(* Without code_only (and without metas) the token texts concatenate to the tree's raw. *)
Theorem C28_to_tuple_concat : forall (ip : bool) (s : seg), is_meta s = false ->
  texts (leaves_tup (to_tuple false true false ip s)) = raw_of s.
Proof. exact to_tuple_concat. Qed.
Print Assumptions C28_to_tuple_concat.

(* With --include-meta the same holds for the entries whose type is not a meta type (placeholders show template source). *)
Theorem C28_to_tuple_concat_meta : forall (mt : text -> bool) (im ip : bool) (s : seg),
  meta_typed mt s = true -> is_meta s = false ->
  texts (filter (fun t : tok => negb (mt (fst t))) (leaves_tup (to_tuple false true im ip s))) = raw_of s.
Proof. exact to_tuple_concat_meta. Qed.
Print Assumptions C28_to_tuple_concat_meta.

(* Every raw segment (every non-meta one when include_meta is off) is listed once, in file order, with its type ... *)
Theorem C28_to_tuple_tokens : forall (im ip : bool) (s : seg), nonempty_nodes s = true -> is_node s = true ->
  leaves_tup (to_tuple false true im ip s) = map shown_tok (filter (fun r => im || negb (is_meta r)) (raw_segments s)).
Proof. exact to_tuple_tokens. Qed.
Print Assumptions C28_to_tuple_tokens.

(* ... and under the path of node types it has in the parse tree. *)
Theorem C28_to_tuple_nesting : forall (im ip : bool) (s : seg), nonempty_nodes s = true ->
  paths_tup (to_tuple false true im ip s)
  = map (fun pr => (fst pr, shown_text (snd pr)))
        (filter (fun pr => negb (is_node s) || im || negb (is_meta (snd pr))) (paths_seg s)).
Proof. exact to_tuple_nesting. Qed.
Print Assumptions C28_to_tuple_nesting.

(* code_only lists exactly the code raw segments. *)
Theorem C28_to_tuple_tokens_code_only : forall (im ip : bool) (s : seg), is_code s = true ->
  leaves_tup (to_tuple true true im ip s) = map seg_tok (filter is_code (raw_segments s)).
Proof. exact to_tuple_tokens_code_only. Qed.
Print Assumptions C28_to_tuple_tokens_code_only.

Theorem C28_raw_segments_concat : forall s : seg, concat (map raw_of (raw_segments s)) = raw_of s.
Proof. exact raw_segments_concat. Qed.
Print Assumptions C28_raw_segments_concat.

(* ---- as_record = structural_simplify . to_tuple: the JSON / YAML / API record *)

Theorem C28_as_record_concat : forall (ip : bool) (s : seg), is_meta s = false ->
  texts (leaves_rec (as_record false true false ip s)) = raw_of s.
Proof. exact as_record_concat. Qed.
Print Assumptions C28_as_record_concat.

Theorem C28_as_record_tokens : forall (im ip : bool) (s : seg), nonempty_nodes s = true -> is_node s = true ->
  leaves_rec (as_record false true im ip s) = map shown_tok (filter (fun r => im || negb (is_meta r)) (raw_segments s)).
Proof. exact as_record_tokens. Qed.
Print Assumptions C28_as_record_tokens.

Theorem C28_as_record_nesting : forall (im ip : bool) (s : seg), nonempty_nodes s = true ->
  paths_rec (as_record false true im ip s)
  = map (fun pr => (fst pr, shown_text (snd pr)))
        (filter (fun pr => negb (is_node s) || im || negb (is_meta (snd pr))) (paths_seg s)).
Proof. exact as_record_nesting. Qed.
Print Assumptions C28_as_record_nesting.

Theorem C28_as_record_tokens_code_only : forall (im ip : bool) (s : seg), is_code s = true ->
  leaves_rec (as_record true true im ip s) = map seg_tok (filter is_code (raw_segments s)).
Proof. exact as_record_tokens_code_only. Qed.
Print Assumptions C28_as_record_tokens_code_only.

(* ---- human format (stringify) *)

(* "Every token in file order" is FALSE of the human format: under a comment_separate node (UnparsableSegment) the
   comments are printed first.  Witness: unparsable[word 'x', inline_comment '--'] prints the comment before the word. *)
Theorem C28_human_file_order_refuted :
  exists (s : seg) (i : nat), hleaves (stringify i false s) <> map seg_tok (filter nonmeta (raw_segments s)).
Proof. exact stringify_order_refuted. Qed.
Print Assumptions C28_human_file_order_refuted.

(* What does hold (weaker: a permutation, not the order): every non-meta raw segment is printed exactly once ... *)
Theorem C28_human_every_token_once_partial : forall (s : seg) (i : nat),
  Permutation (hleaves (stringify i false s)) (map seg_tok (filter nonmeta (raw_segments s))).
Proof. exact stringify_perm. Qed.
Print Assumptions C28_human_every_token_once_partial.

(* ... and in file order when no comment_separate node has a direct comment child (missing: the separated case) ... *)
Theorem C28_human_tokens_partial : forall (s : seg) (i : nat), separates s = false ->
  hleaves (stringify i false s) = map seg_tok (filter nonmeta (raw_segments s)).
Proof. exact stringify_tokens. Qed.
Print Assumptions C28_human_tokens_partial.

(* ... and always with --code-only (which never separates comments). *)
Theorem C28_human_tokens_code_only : forall (s : seg) (i : nat), is_code s = true ->
  hleaves (stringify i true s) = map seg_tok (filter is_code (raw_segments s)).
Proof. exact stringify_tokens_code_only. Qed.
Print Assumptions C28_human_tokens_code_only.

(* ---- the hypotheses are satisfiable, and what the functions produce on a small tree *)
Definition P (a b : Z) : option posd := Some [([115]%N, a); ([101]%N, b)].   (* {"s": a, "e": b} *)
Definition ex_tree : seg :=                        (* f[ s[ k'ab' i w' ' n'1' p'{%' ] w' ' c'--' w'\n' E ] *)
  SNode [102]%N false false (P 0 10)
    [ SNode [115]%N false false (P 0 4)
        [ SRaw [107]%N [97;98]%N true false (P 0 2); SMeta [105]%N None (P 2 2); SRaw [119]%N [32]%N false false (P 2 3);
          SRaw [110]%N [49]%N true false (P 3 4); SMeta [112]%N (Some [123;37]%N) (P 4 6) ];
      SRaw [119]%N [32]%N false false (P 6 7); SRaw [99]%N [45;45]%N false true (P 7 9);
      SRaw [119]%N [10]%N false false (P 9 10); SMeta [69]%N None (P 10 10) ].
Definition ex_mt (ty : text) : bool := existsb (text_eqb ty) [[105]; [112]; [69]]%N.

Example ex_hyps : nonempty_nodes ex_tree = true /\ is_node ex_tree = true /\ is_meta ex_tree = false
                  /\ is_code ex_tree = true /\ meta_typed ex_mt ex_tree = true /\ separates ex_tree = false.
Proof. vm_compute. repeat split. Qed.

(* unique child keys -> one dict; a repeated key (two 'w') -> list of single-key dicts *)
Example ex_record : as_record false true false false ex_tree
  = [([102], RList [ [([115], RDict [([107], RStr [97;98]); ([119], RStr [32]); ([110], RStr [49])])];
                     [([119], RStr [32])]; [([99], RStr [45;45])]; [([119], RStr [10])] ])]%N.
Proof. vm_compute. reflexivity. Qed.

Example ex_concat : texts (leaves_rec (as_record false true false true ex_tree)) = [97;98;32;49;32;45;45;10]%N
                    /\ raw_of ex_tree = [97;98;32;49;32;45;45;10]%N.
Proof. vm_compute. split; reflexivity. Qed.

(* an empty container becomes None and is still recovered *)
Example ex_none : simplify (TTup [97]%N [TTup [98]%N [] None] None) = [([97], RDict [([98], RNone)])]%N
                  /\ untuple [([97], RDict [([98], RNone)])]%N = [TTup [97]%N [TTup [98]%N [] None] None].
Proof. vm_compute. split; reflexivity. Qed.

(* with positions every child dict carries the same position keys, so two or more children always give a list *)
Example ex_positions : simplify (TTup [97]%N [TStr [98]%N [120]%N (P 0 1); TStr [99]%N [121]%N (P 1 2)] (P 0 2))
  = [([115], RInt 0); ([101], RInt 2);
     ([97], RList [ [([115], RInt 0); ([101], RInt 1); ([98], RStr [120])];
                    [([115], RInt 1); ([101], RInt 2); ([99], RStr [121])] ])]%N.
Proof. vm_compute. reflexivity. Qed.

(* the refutation witness, spelled out: tree order is word, comment; the human format lists comment, word *)
Example ex_reorder : hleaves (stringify 0 false reorder_witness) = [([99], [45;45]); ([119], [120])]%N
                     /\ map seg_tok (raw_segments reorder_witness) = [([119], [120]); ([99], [45;45])]%N.
Proof. vm_compute. split; reflexivity. Qed.
