(* C27 — Configuration precedence and isolation.  Property theorems only.
   Model: Model/Config.v (nested_combine, the loaders, FluffConfig.__init__/from_path, set_value and the inline-directive
   scanner, the per-file config of a lint run, and the same run with the functools caches as explicit state).
   `wfd d` = the keys of d are distinct at every level (what a Python dict is); `fs_wf f` = the pyproject.toml tables in f are.
   kind_at p d = None (nothing at path p) | Some None (a section) | Some (Some v) (the value v). *)
From SF Require Import Base.Prelude Model.Config Proofs.ConfigP.
From Coq Require Import String.

(* combine_rightmost: in nested_combine(d1..dn) every path shows what the LAST dict that has anything there shows
   (a value, or a section: a later section replaces an earlier value at the same path). *)
Theorem C27_combine_rightmost : forall (V : Type) (ds : list (dict V)) (R : dict V) (p : list key),
  Forall (wfd V) ds -> nested_combine V ds = Ok R ->
  kind_at V p R = last_some (map (kind_at V p) ds).
Proof. exact combine_rightmost. Qed.
Print Assumptions C27_combine_rightmost.

(* ... and the exact leaf-vs-dict behaviour: the only exception is the ValueError, raised exactly when some dict sets a
   VALUE at a path that the dicts before it, combined, hold as a SECTION (the other way round the section overwrites). *)
Theorem C27_combine_raises_iff : forall (V : Type) (ds : list (dict V)),
  Forall (wfd V) ds ->
  (forall e, nested_combine V ds = Err e -> e = EValue) /\
  (nested_combine V ds = Err EValue <->
   exists ds1 d ds2 p v, ds = ds1 ++ d :: ds2 /\ kind_at V p d = Some (Some v) /\
                         last_some (map (kind_at V p) ds1) = Some None).
Proof. intros V ds H. split; [intros e; apply nested_combine_err | apply combine_error_iff; exact H]. Qed.
Print Assumptions C27_combine_raises_iff.

(* combine_assoc.  (a) Left-nested stages (load_config_file / load_config_at_path fold the files of a directory this way)
   are the flat combination, exceptions included. *)
Theorem C27_combine_assoc_prefix : forall (V : Type) (l1 l2 : list (dict V)),
  nested_combine V (l1 ++ l2) = (do r <- nested_combine V l1; nested_combine V (r :: l2)).
Proof. exact combine_assoc_prefix. Qed.
Print Assumptions C27_combine_assoc_prefix.

(* (b) A stage in the middle (load_config_up_to_path combines one dict per directory, FluffConfig.__init__ combines
   defaults / that result / overrides): whenever the flat combination succeeds, combining any segment first gives the very
   same dict (values and key order). *)
Theorem C27_combine_assoc : forall (V : Type) (l1 l2 l3 : list (dict V)) (R : dict V),
  Forall (wfd V) l2 -> nested_combine V (l1 ++ l2 ++ l3) = Ok R ->
  exists m, nested_combine V l2 = Ok m /\ nested_combine V (l1 ++ m :: l3) = Ok R.
Proof. exact combine_assoc. Qed.
Print Assumptions C27_combine_assoc.

(* (c) and whenever both succeed they show the same thing at every path. *)
Theorem C27_combine_assoc_observed : forall (V : Type) (l1 l2 l3 : list (dict V)) (m R R' : dict V) (p : list key),
  Forall (wfd V) l1 -> Forall (wfd V) l2 -> Forall (wfd V) l3 ->
  nested_combine V l2 = Ok m -> nested_combine V (l1 ++ m :: l3) = Ok R -> nested_combine V (l1 ++ l2 ++ l3) = Ok R' ->
  kind_at V p R = kind_at V p R'.
Proof. exact combine_assoc_obs. Qed.
Print Assumptions C27_combine_assoc_observed.

(* (d) "staged = flat" without the success hypothesis is FALSE of nested_combine: a stage can succeed where the flat
   combination raises (inside the stage a value is first replaced by a section).  Real-code reading: a directory whose
   setup.cfg sets x.y as a value and whose .sqlfluff sets x.y as a section loads fine below a parent that has x.y as a
   section, although nested_combine of the three files in precedence order raises ValueError.  (A quirk of the
   implementation's error behaviour, not a violation of the precedence statement; the harness replays it.) *)
Theorem C27_staged_equals_flat_unconditionally_refuted :
  exists (l1 l2 : list (dict nat)) (m R : dict nat),
    Forall (wfd nat) l1 /\ Forall (wfd nat) l2 /\
    nested_combine nat l2 = Ok m /\ nested_combine nat (l1 ++ [m]) = Ok R /\ nested_combine nat (l1 ++ l2) = Err EValue.
Proof.
  exists [[(lit "x", Dict [(lit "y", Dict [(lit "z", Leaf 1)])])]],
         [[(lit "x", Dict [(lit "y", Leaf 5)])]; [(lit "x", Dict [(lit "y", Dict [(lit "w", Leaf 2)])])]].
  eexists. eexists.
  split; [constructor; [apply wfdb_sound; vm_compute; reflexivity | constructor]|].
  split; [constructor; [apply wfdb_sound; vm_compute; reflexivity |
           constructor; [apply wfdb_sound; vm_compute; reflexivity | constructor]]|].
  split; [vm_compute; reflexivity|]. split; vm_compute; reflexivity.
Qed.
Print Assumptions C27_staged_equals_flat_unconditionally_refuted.

(* precedence.  For every file system f, environment e (home, XDG_CONFIG_HOME, working directory), root configuration rt
   (defaults, extra config path, ignore_local_config, CLI overrides) and sql file sf = (path, text): if the file's config E
   is produced at all, then at EVERY path p, E shows what the precedence order says (Model.Config.spec_kind):
     the last layer that has anything at p among
       defaults < [user appdir files < home files < files of the directories between home and the file
                   < files of the directories from the working directory down to the file's directory
                   (within a directory setup.cfg < tox.ini < pep8.ini < .sqlfluff < pyproject.toml) < the extra config file]
                < CLI overrides (under `core`),
     and then the file's own inline directives, in file order, on top
   ({"core": {}} stands in for the bracketed part when no config file sets anything, as FluffConfig.__init__ does). *)
Theorem C27_precedence : forall (V : Type) (coerce : text -> V) (is_none : V -> bool) (f : fsys V) (e : env) (rt : root V)
                                (sf : path * text) (E : dict V),
  fs_wf V f -> wfd V (r_defaults V rt) -> wfd V (r_overrides V rt) ->
  file_config V coerce is_none f e rt sf = Ok E ->
  exists configs,
    load_config_up_to_path V coerce f e (fst sf) (r_extra V rt) (r_ignore_local V rt) = Ok configs /\
    forall p, p <> [] -> kind_at V p E = spec_kind V coerce f e rt sf (is_nil configs) p.
Proof. exact precedence. Qed.
Print Assumptions C27_precedence.

(* what one inline directive does, used by spec_kind: `-- sqlfluff:q:v` sets q to the value v, empties everything below q,
   makes every proper prefix of q a section and leaves every other path alone. *)
Theorem C27_set_value_effect : forall (V : Type) (q : list key) (v : V) (d d' : dict V) (p : list key),
  set_value V q v d = Ok d' -> p <> [] ->
  kind_at V p d' = inline_effect V p (q, v) (kind_at V p d).
Proof. exact set_value_kind. Qed.
Print Assumptions C27_set_value_effect.

(* The dialect requirement (repaired in /repo 692586f; before, make_child_from_path demanded a dialect BEFORE the file's inline
   directives were read and this statement was refuted).  Linter.load_raw_file_and_config now builds the child config without
   demanding a dialect, applies the file's inline directives and only then calls verify_dialect_specified.  So, whenever the
   config with the inline directives applied exists, the file is accepted exactly when the EFFECTIVE configuration -- the
   precedence order of C27_precedence, inline directives included -- has a dialect; otherwise it is the SQLFluffUserError.
   In particular a dialect that only the file's own `-- sqlfluff:dialect:x` sets is honoured, and a file with no dialect
   anywhere is still rejected. *)
Theorem C27_dialect_required_after_inline : forall (V : Type) (coerce : text -> V) (is_none : V -> bool) (f : fsys V) (e : env)
                                                   (rt : root V) (sf : path * text) (E : dict V),
  fs_wf V f -> wfd V (r_defaults V rt) -> wfd V (r_overrides V rt) ->
  inline_config V coerce is_none f e rt sf = Ok E ->
  exists configs,
    load_config_up_to_path V coerce f e (fst sf) (r_extra V rt) (r_ignore_local V rt) = Ok configs /\
    file_config V coerce is_none f e rt sf =
      if dialect_ok V is_none (spec_kind V coerce f e rt sf (is_nil configs) [core; dialect_key]) then Ok E else Err ERuntime.
Proof. exact dialect_after_inline. Qed.
Print Assumptions C27_dialect_required_after_inline.

(* The path pipeline and the string pipeline agree: linting a file by path is building its base config from the hierarchy
   (no dialect demanded yet) and then linting its text as a string on it (Linter.lint_string / stdin: copy of the config,
   inline directives, verify_dialect_specified). *)
Theorem C27_path_and_string_pipelines_agree : forall (V : Type) (coerce : text -> V) (is_none : V -> bool) (f : fsys V) (e : env)
                                                     (rt : root V) (sf : path * text),
  file_config V coerce is_none f e rt sf =
  (do base <- from_path V coerce is_none f e rt false (fst sf); string_lint_config V coerce is_none base (snd sf)).
Proof. exact path_is_string_pipeline. Qed.
Print Assumptions C27_path_and_string_pipelines_agree.

(* The former witness of the defect, now on the right side: no config file at all, defaults with dialect = None.
   With `-- sqlfluff:dialect:ansi` the file is accepted with dialect ansi; without it, it is rejected. *)
Theorem C27_inline_only_dialect_honoured :
  let isn := fun t => text_eqb t (lit "None") in
  let idc := fun t : text => t in
  let f : fsys text := [([], []); ([lit "p"], [])] in
  let e := mkEnv [] None [lit "p"] in
  let rt := mkRoot [(core, Dict [(dialect_key, Leaf (lit "None")); (lit "max_line_length", Leaf (lit "80"))])] None false [] in
  let q := ([lit "p"; lit "q.sql"], lit "-- sqlfluff:dialect:ansi" ++ [10%N] ++ lit "select 1" ++ [10%N]) in
  let r := ([lit "p"; lit "r.sql"], lit "select 1" ++ [10%N]) in
  fs_wf text f /\ wfd text (r_defaults text rt) /\ wfd text (r_overrides text rt) /\
  (exists E, file_config text idc isn f e rt q = Ok E /\ kind_at text [core; dialect_key] E = Some (Some (lit "ansi"))) /\
  file_config text idc isn f e rt r = Err ERuntime /\
  (exists E, inline_config text idc isn f e rt r = Ok E).
Proof.
  cbn zeta.
  split; [apply fs_wfb_sound; vm_compute; reflexivity|].
  split; [apply wfdb_sound; vm_compute; reflexivity|].
  split; [apply wfdb_sound; vm_compute; reflexivity|].
  split; [eexists; split; vm_compute; reflexivity|].
  split; [vm_compute; reflexivity|]. eexists; vm_compute; reflexivity.
Qed.
Print Assumptions C27_inline_only_dialect_honoured.

(* isolation.  (a) The config of a file is a function of the directories it is read from (Model.Config.relevant: the
   user config dirs, home, the chain of directories down to the file, the extra file) and of its own text: two file
   systems that agree there give the same config -- whatever nested configs other files have. *)
Theorem C27_isolation : forall (V : Type) (coerce : text -> V) (is_none : V -> bool) (f f' : fsys V) (e : env) (rt : root V)
                               (sf : path * text),
  (forall q, In q (relevant V f e (r_extra V rt) (fst sf)) -> assoc_path q f = assoc_path q f') ->
  file_config V coerce is_none f e rt sf = file_config V coerce is_none f' e rt sf.
Proof. exact isolation. Qed.
Print Assumptions C27_isolation.

(* (b) In a run over a sequence of files the i-th result is the config of the i-th file alone: it does not depend on the
   other files of the run, their inline directives, or the order. *)
Theorem C27_run_pointwise : forall (V : Type) (coerce : text -> V) (is_none : V -> bool) (f : fsys V) (e : env) (rt : root V)
                                   (files : list (path * text)) (i : nat),
  nth_error (run V coerce is_none f e rt files) i = option_map (file_config V coerce is_none f e rt) (nth_error files i).
Proof. exact run_nth. Qed.
Print Assumptions C27_run_pointwise.

(* (c) The two functools caches (load_config_file_as_dict per file, load_config_at_path per directory), threaded through
   the run as explicit state from ANY state consistent with the file system (cold or warm), change no result, and leave
   a consistent state. *)
Theorem C27_cache_transparent : forall (V : Type) (coerce : text -> V) (is_none : V -> bool) (f : fsys V) (e : env) (rt : root V)
                                       (files : list (path * text)) (c : caches V),
  cache_ok V coerce f c ->
  exists c', run_c V coerce is_none f e rt files c = (run V coerce is_none f e rt files, c') /\ cache_ok V coerce f c'.
Proof. exact cache_transparent. Qed.
Print Assumptions C27_cache_transparent.

(* ------------------------------------------------------------------------------------------------------------------ *)
(* The hypotheses are satisfiable by a non-trivial hierarchy (values are raw texts, coerce = identity). *)
Module Ex.
  Definition L (s : string) : cfg text := Leaf (lit s).
  Definition home : path := [lit "h"].
  Definition proj : path := [lit "h"; lit "proj"].
  Definition sub : path := [lit "h"; lit "proj"; lit "a"].
  Definition other : path := [lit "h"; lit "proj"; lit "b"].
  Definition f : fsys text :=
    [ ([], []);
      (home, [(lit ".sqlfluff", FIni [(lit "sqlfluff", [(lit "dialect", lit "ansi"); (lit "max_line_length", lit "50")])])]);
      (proj, [(lit "setup.cfg", FIni [(lit "sqlfluff", [(lit "max_line_length", lit "55")])]);
              (lit ".sqlfluff", FIni [(lit "sqlfluff", [(lit "max_line_length", lit "60")]);
                                      (lit "sqlfluff:indentation", [(lit "tab_space_size", lit "2")])])]);
      (sub, [(lit "pyproject.toml",
              FToml [(lit "core", Dict [(lit "max_line_length", L "70")]);
                     (lit "rules", Dict [(lit "capitalisation", Dict [(lit "keywords", Dict [(lit "capitalisation_policy", L "upper")])])])])]);
      (other, [(lit ".sqlfluff", FIni [(lit "sqlfluff", [(lit "max_line_length", lit "99"); (lit "dialect", lit "tsql")])])]) ].
  Definition e : env := mkEnv home None proj.
  Definition defaults : dict text :=
    [(lit "core", Dict [(lit "dialect", L "None"); (lit "max_line_length", L "80"); (lit "verbose", L "0")]);
     (lit "indentation", Dict [(lit "tab_space_size", L "4")])].
  Definition rt : root text := mkRoot defaults None false [(lit "verbose", L "1")].
  Definition sf : path * text :=
    (sub ++ [lit "f.sql"], lit "-- sqlfluff:max_line_length:75" ++ [10%N] ++ lit "select 1" ++ [10%N]).
  Definition sf_other : path * text := (other ++ [lit "g.sql"], lit "select 2").
  Definition idc (t : text) : text := t.
  Definition isn (t : text) : bool := text_eqb t (lit "None").

  Definition get (p : list string) (r : res (dict text)) : option (option text) :=
    match r with Ok d => kind_at text (map lit p) d | Err _ => None end.

  Example wf_hyps : fs_wf text f /\ wfd text defaults /\ wfd text (r_overrides text rt).
  Proof.
    split; [apply fs_wfb_sound; vm_compute; reflexivity|]. split; apply wfdb_sound; vm_compute; reflexivity.
  Qed.

  (* inline 75 > pyproject 70 > .sqlfluff 60 > setup.cfg 55 > home 50 > default 80 *)
  Example ex_inline_wins : get ["core"; "max_line_length"]%string (file_config text idc isn f e rt sf) = Some (Some (lit "75")).
  Proof. vm_compute. reflexivity. Qed.
  Example ex_override_wins : get ["core"; "verbose"]%string (file_config text idc isn f e rt sf) = Some (Some (lit "1")).
  Proof. vm_compute. reflexivity. Qed.
  Example ex_home_below_project : get ["core"; "dialect"]%string (file_config text idc isn f e rt sf) = Some (Some (lit "ansi")).
  Proof. vm_compute. reflexivity. Qed.
  Example ex_toml_rules_condensed :
    get ["rules"; "capitalisation.keywords"; "capitalisation_policy"]%string (file_config text idc isn f e rt sf) = Some (Some (lit "upper")).
  Proof. vm_compute. reflexivity. Qed.
  (* the sibling directory's file sees neither the inline 75 nor the pyproject 70 of the first file, whatever the order *)
  Example ex_no_leak :
    map (get ["core"; "max_line_length"]%string) (run text idc isn f e rt [sf; sf_other; sf]) =
      [Some (Some (lit "75")); Some (Some (lit "99")); Some (Some (lit "75"))]
    /\ fst (run_c text idc isn f e rt [sf; sf_other; sf] (mkCaches [] [])) = run text idc isn f e rt [sf; sf_other; sf].
  Proof. split; vm_compute; reflexivity. Qed.
  (* the isolation hypothesis is satisfiable non-trivially: the sibling directory `other` (and its own 99 / tsql) is not among
     the places sf's config is read from, so any change there leaves sf's config alone *)
  Example ex_sibling_not_relevant :
    existsb (path_eqb other) (relevant text f e (r_extra text rt) (fst sf)) = false /\
    existsb (path_eqb sub) (relevant text f e (r_extra text rt) (fst sf)) = true.
  Proof. split; vm_compute; reflexivity. Qed.
  Example ex_spec_agrees :
    spec_kind text idc f e rt sf false (map lit ["core"; "max_line_length"]%string) = Some (Some (lit "75")) /\
    spec_kind text idc f e rt sf_other false (map lit ["core"; "dialect"]%string) = Some (Some (lit "tsql")).
  Proof. split; vm_compute; reflexivity. Qed.
End Ex.
