(* C16 — Fixes preserve query results.  Property theorems only.
   PARTIAL: proved, for every environment (row) and every expression, that the tree rewrites performed by ST01 (ELSE NULL removal),
   ST02 (CASE WHEN x IS NULL THEN y ELSE x END -> COALESCE), ST04 (nested CASE flattening) and CV02 (IFNULL/NVL -> COALESCE) preserve
   the value of the expression under a three-valued SQLite-style semantics; the semantics is validated against SQLite itself and
   the rewrites against the real rules' output.  Every other rule (layout, capitalisation, aliasing, conventions ...) is covered
   only by the search: generated executable queries are run in SQLite before and after fixing and must return the same multiset
   of rows.  Rules documented to change behaviour (ST06 column reordering, CV05 NULL comparison) are excluded, as in the property. *)
From SF Require Import Base.Prelude Model.SqlSem Proofs.SqlSemP.

Theorem C16_st01_else_null : forall rho e, eval rho (st01 e) = eval rho e.
Proof. exact st01_preserves. Qed.
Print Assumptions C16_st01_else_null.
Theorem C16_st02_case_to_coalesce : forall rho e, eval rho (st02 e) = eval rho e.
Proof. exact st02_preserves. Qed.
Print Assumptions C16_st02_case_to_coalesce.
Theorem C16_st04_flatten_nested_case : forall rho e, eval rho (st04 e) = eval rho e.
Proof. exact st04_preserves. Qed.
Print Assumptions C16_st04_flatten_nested_case.
Theorem C16_cv02_ifnull_to_coalesce : forall rho e, eval rho (cv02 e) = eval rho e.
Proof. exact cv02_preserves. Qed.
Print Assumptions C16_cv02_ifnull_to_coalesce.

(* the rewrites fire on non-trivial trees *)
Example C16_st02_fires : st02 (ECase [(EIsNull (ECol 0), ECol 1)] (Some (ECol 0))) = ECoalesce [ECol 0; ECol 1].
Proof. reflexivity. Qed.
Example C16_st04_fires : st04 (ECase [(ECol 0, ELit (VInt 1))] (Some (ECase [(ECol 1, ELit (VInt 2))] (Some (ELit (VInt 3))))))
  = ECase [(ECol 0, ELit (VInt 1)); (ECol 1, ELit (VInt 2))] (Some (ELit (VInt 3))).
Proof. reflexivity. Qed.
