(* C34 — Oversized files are skipped, never parsed or modified.  Property theorems only. *)
From SF Require Import Base.Prelude Base.Sort Model.Gate Model.Runner Proofs.RunnerP.

Theorem C34_byte_skip_spec : forall limit size, byte_skip limit size = true <-> 0 < limit /\ limit < size.
Proof. exact byte_skip_spec_lemma. Qed.
Print Assumptions C34_byte_skip_spec.

(* a file over the byte limit yields no LintedFile: nothing is parsed, linted or written for it, and it is counted *)
Theorem C34_byte_skipped_not_processed : forall bl cl path size chars lint,
  byte_skip bl size = true -> process_file bl cl path size chars lint = OSkipped path.
Proof. exact byte_skipped_not_processed_lemma. Qed.
Print Assumptions C34_byte_skipped_not_processed.

(* a file over the character limit is never linted or written either ... *)
Theorem C34_char_skipped_never_linted_or_written : forall bl cl path size chars lint,
  char_skip cl chars = true ->
  match process_file bl cl path size chars lint with
  | OLinted _ v w => v = [] /\ w = None
  | OSkipped _ => True
  | OFailed _ => False
  end.
Proof. exact char_skipped_never_linted_or_written_lemma. Qed.
Print Assumptions C34_char_skipped_never_linted_or_written.

(* ... but it is not counted as skipped (F7, open finding: the SkipFile is swallowed in render_string) *)
Theorem C34_char_skip_counted_refuted :
  exists bl cl path size chars lint,
    char_skip cl chars = true /\ process_file bl cl path size chars lint <> process_file_spec bl cl path size chars lint.
Proof. exact char_skip_counted_refuted_lemma. Qed.
Print Assumptions C34_char_skip_counted_refuted.

Theorem C34_within_limits_processed : forall bl cl path size chars lint,
  byte_skip bl size = false -> char_skip cl chars = false ->
  process_file bl cl path size chars lint = OLinted path (fst lint) (snd lint).
Proof. exact within_limits_processed_lemma. Qed.
Print Assumptions C34_within_limits_processed.

(* skipped files fail the run only with large_file_skip_fail *)
Theorem C34_skip_fail_exit : forall a, agg_lint_exit a true = b2e ((0 <? a_viol a) || (0 <? a_skipped a)).
Proof. exact skip_fail_exit_lemma. Qed.
Print Assumptions C34_skip_fail_exit.
Theorem C34_skip_nofail_exit : forall a, agg_lint_exit a false = b2e (0 <? a_viol a).
Proof. exact skip_nofail_exit_lemma. Qed.
Print Assumptions C34_skip_nofail_exit.
