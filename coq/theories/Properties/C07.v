(* C07 — Template source maps are consistent.  Property theorems only.
   PARTIAL: proved for EVERY templater at once -- a TemplatedFile that exists passed the constructor's checks, which enforce that
   the raw slices tile the source and the rendered slices tile the rendered SQL, in order (C07_constructor_enforces_tiling) -- and
   for the Jinja tracer's bookkeeping (C07_tracer_... theorems).  The placeholder templater's slice construction is proved under C09
   (placeholder_slices_tile).  Not modelled: Jinja itself, the analyzer's raw slicing, the python templater's slicing heuristics
   and the variant rectifier; "source slices within the file" and "literal slices map to identical text" are not enforced by the
   constructor and are monitored on every variant the real templaters produce. *)
From SF Require Import Base.Prelude Model.TemplatedFile Proofs.TemplatedFileP.

Theorem C07_constructor_enforces_tiling : forall nsrc ntpl rs fs,
  ctor_check nsrc ntpl rs fs = Ok tt -> raw_tiles 0 nsrc rs /\ (fs <> [] -> tpl_tiles 0 ntpl fs).
Proof. exact ctor_enforces_tiling. Qed.
Print Assumptions C07_constructor_enforces_tiling.

Theorem C07_tracer_templated_tiles : forall starts nsrc calls,
  let st := run_trace starts nsrc calls in tpl_tiles 0 (fst st) (snd st).
Proof. exact tracer_templated_tiles. Qed.
Print Assumptions C07_tracer_templated_tiles.

Theorem C07_tracer_source_slices_are_raw_slices : forall starts nsrc calls,
  Forall (fun f => exists idx, fst f = src_slice_of starts nsrc idx) (snd (run_trace starts nsrc calls)).
Proof. exact tracer_source_slices. Qed.
Print Assumptions C07_tracer_source_slices_are_raw_slices.

Example C07_ctor_example : ctor_check 7 5 [(0, 3); (3, 4)] [((0, 3), (0, 3)); ((3, 7), (3, 5))] = Ok tt.
Proof. reflexivity. Qed.
Example C07_ctor_gap_rejected : ctor_check 7 5 [(0, 3); (3, 4)] [((0, 3), (0, 3)); ((3, 7), (4, 5))] = Err ESkipFile.
Proof. reflexivity. Qed.
