(* C08 — Jinja rendering fidelity.  Property theorems only.
   PARTIAL: Jinja is an oracle.  Proved: the fast-path condition -- a text without `{{`, `{%`, `{#` is a single data token of
   Jinja's root lexer state and renders to itself (keep_trailing_newline), and any marker ends the data token early, so the
   condition is exact (C08_fast_path_... theorems); and render_string's newline normalisation yields CR-free text, is the identity on
   CR-free text and idempotent, which is the "LF-only" hypothesis.  That sqlfluff's primary rendering equals what Jinja renders
   (slow path, whitespace control, undefined variables) is validated against the real Jinja on every run. *)
From SF Require Import Base.Prelude Model.JinjaFast Proofs.JinjaFastP.

Theorem C08_fast_path_sound : forall s,
  has_marker s = false -> render_data true (fst (data_prefix s)) = s /\ snd (data_prefix s) = [].
Proof. exact fast_path_sound. Qed.
Print Assumptions C08_fast_path_sound.

Theorem C08_fast_path_exact : forall s,
  has_marker s = true -> exists d rest, data_prefix s = (d, rest) /\ rest <> [] /\ s = d ++ rest.
Proof. exact marker_stops_data. Qed.
Print Assumptions C08_fast_path_exact.

Theorem C08_newlines_normalised : forall s,
  has_cr (normalise_newlines s) = false
  /\ (has_cr s = false -> normalise_newlines s = s)
  /\ normalise_newlines (normalise_newlines s) = normalise_newlines s.
Proof. intros s. split; [apply normalise_no_cr|]. split; [apply normalise_id_without_cr|apply normalise_idempotent]. Qed.
Print Assumptions C08_newlines_normalised.

(* "{ {" and "}}" and a lone trailing "{" are not markers; "{#" is *)
Example C08_examples : has_marker [123;32;123;125;125;123]%N = false /\ has_marker [97;123;35]%N = true.
Proof. split; reflexivity. Qed.
