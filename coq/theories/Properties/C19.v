(* C19 — All entry points agree (decision layer).  Property theorems only. *)
From SF Require Import Base.Prelude Model.Gate Proofs.GateP.

(* write / no-write decision: stdin = paths, API = "fixes not discarded" *)
Theorem C19_write_decision_stdin_eq_paths : forall f feu, snd (stdin_fix f feu) = paths_written f feu true.
Proof. exact stdin_write_agrees_lemma. Qed.
Print Assumptions C19_write_decision_stdin_eq_paths.

Theorem C19_api_gate_eq : forall f feu, api_should_fix f feu = negb (fixes_discarded f feu).
Proof. exact gate_agreement_lemma. Qed.
Print Assumptions C19_api_gate_eq.

(* exit status: stdin = paths whenever no unsuppressed fixable violation has its fix discarded *)
Theorem C19_exit_agreement_partial : forall f feu,
  (fixes_discarded f feu = true -> existsb (fun v => fixable v && visible v) f = false) ->
  fst (stdin_fix f feu) = paths_fix_exit [f] feu 0 false.
Proof. exact stdin_exit_agrees_partial_lemma. Qed.
Print Assumptions C19_exit_agreement_partial.

(* ... and they do disagree otherwise (F6, open finding) *)
Theorem C19_exit_agreement_refuted :
  exists f, fst (stdin_fix f false) = 0 /\ paths_fix_exit [f] false 0 false = 1.
Proof. exact stdin_exit_f6_lemma. Qed.
Print Assumptions C19_exit_agreement_refuted.

(* regression witness of the repaired defect F18: stdin did not apply warning-level fixes *)
Theorem C19_f18_stdin_warning_fixes_refuted :
  exists f, stdin_use_fixed_f18 f false = false /\ paths_written f false true = true.
Proof. exact stdin_write_f18_lemma. Qed.
Print Assumptions C19_f18_stdin_warning_fixes_refuted.
