(* C09 — Python-format and placeholder templaters render faithfully.  Property theorems only. *)
From SF Require Import Base.Prelude Model.PyFormat Model.Placeholder Proofs.PyFormatP Proofs.PlaceholderP.

(* ---- python templater ------------------------------------------------------------------------------------------
   py_render = render_func of PythonTemplater.process: the dot-notation regex rewrite, then str.format( **context ),
   KeyError mapped to SQLTemplaterError.  spec_process = the property: str.format's grammar and lookup, except that a
   field name containing '.' is one key of the `sqlfluff` mapping.  Values, their attributes/items, conversions and
   format(value, spec) are arbitrary (oracles).

   PARTIAL: proved for the format strings `unparse l` with `safe_list l` (Model/PyFormat.v section 5): any literal text,
   escaped braces, arbitrary fields with conversions and (nested) specs -- provided that (i) no escaped open brace is
   followed by a '.' before the next ':' or close brace, (ii) a dotted field has no conversion, (iii) the spec of a dotted
   field is plain non-whitespace text and no close brace follows the field before the next whitespace, (iv) names carry
   no brackets.  What is missing is exactly what the four _refuted theorems below show to be false. *)
Theorem C09_dot_hack_correct_partial :
  forall (val : Type) (kw : text -> option val) (getattr_ : val -> text -> res val) (getitem_int : val -> N -> res val)
         (getitem_str : val -> text -> res val) (convert : cp -> val -> res val) (fmt : val -> text -> res text)
         (l : list tok),
  safe_list l = true ->
  py_render val kw getattr_ getitem_int getitem_str convert fmt (unparse l)
  = spec_process val kw getattr_ getitem_int getitem_str convert fmt (unparse l).
Proof. exact dot_hack_correct_lemma. Qed.
Print Assumptions C09_dot_hack_correct_partial.

(* "every valid format string renders", on the same fragment *)
Theorem C09_valid_renders_partial :
  forall (val : Type) kw getattr_ getitem_int getitem_str convert fmt (l : list tok) (out : text),
  safe_list l = true ->
  spec_process val kw getattr_ getitem_int getitem_str convert fmt (unparse l) = Ok out ->
  py_render val kw getattr_ getitem_int getitem_str convert fmt (unparse l) = Ok out.
Proof. exact valid_renders_lemma. Qed.
Print Assumptions C09_valid_renders_partial.

(* The full statement (for every format string) is false of the model.  Four independent witnesses, all VALID format
   strings that the property renders and render_func does not (context: sqlfluff = {"a.b": "zz", "x.y": "w"}, a = "A"). *)

(* F4: "{{ {a.b}" should render "{ zz"; the regex matches at the escaped brace and asks for the key "{ {a.b". *)
Theorem C09_dot_hack_refuted :
  t_spec w_tab w_escaped = Ok [123; 32; 122; 122]%N /\ t_render w_tab w_escaped = Err ETemplater
  /\ dot_hack w_escaped = [123%N] ++ t_sqlfluff ++ [91; 123; 32; 123; 97; 46; 98; 93; 125]%N.
Proof. exact refuted_escaped. Qed.
Print Assumptions C09_dot_hack_refuted.

(* "{a.b!r}" should render "'zz'"; the conversion is captured into the key "a.b!r". *)
Theorem C09_dot_hack_conversion_refuted :
  t_spec w_tab w_conversion = Ok [39; 122; 122; 39]%N /\ t_render w_tab w_conversion = Err ETemplater.
Proof. exact refuted_conversion. Qed.
Print Assumptions C09_dot_hack_conversion_refuted.

(* "{a.b: >4}" should render "  zz"; a spec containing whitespace is not matched, str.format evaluates "A".b and the
   AttributeError is not even turned into a templating error. *)
Theorem C09_dot_hack_spec_space_refuted :
  t_spec w_tab w_spec_space = Ok [32; 32; 122; 122]%N /\ t_render w_tab w_spec_space = Err ETemplater
  /\ dot_hack w_spec_space = w_spec_space.
Proof. exact refuted_spec_space. Qed.
Print Assumptions C09_dot_hack_spec_space_refuted.

(* "{a.b:>4}{x.y}" should render "  zzw"; group 2 extends to the last close brace and the second field is never rewritten. *)
Theorem C09_dot_hack_adjacent_refuted :
  t_spec w_tab w_adjacent = Ok [32; 32; 122; 122; 119]%N /\ exists e, t_render w_tab w_adjacent = Err e.
Proof. exact refuted_adjacent. Qed.
Print Assumptions C09_dot_hack_adjacent_refuted.

(* ---- placeholder templater --------------------------------------------------------------------------------------
   For every source, every sorted non-overlapping list of matches inside it (the finditer oracle) and every context:
   the output is the source with each matched span replaced by its replacement and everything outside the spans
   (gaps) copied verbatim; the replacement of a match is str(context[name]) when the name is configured and the name
   itself otherwise, wrapped in the quotation group when the style has one; the name of a match is its param_name
   group, or, for styles without one, 1 + the number of earlier such matches, in decimal. *)
Theorem C09_placeholder_render :
  forall (ctx : text -> option text) (src : text) (ms : list pmatch),
  spans_ok 0 ms (length src) ->
  ph_out ctx src ms = interleave (gaps src 0 ms) (repls ctx 1 ms)
  /\ src = interleave (gaps src 0 ms) (matched src ms)
  /\ repls ctx 1 ms = map (fun p => replacement ctx (fst p) (snd p)) (combine (names 1 ms) ms)
  /\ (forall i m, nth_error ms i = Some m ->
        nth_error (names 1 ms) i =
          Some (match pm_name m with Some n => n | None => dec (1 + count_unnamed (firstn i ms)) end)).
Proof. exact placeholder_render_lemma. Qed.
Print Assumptions C09_placeholder_render.

(* what `replacement` means, spelled out *)
Theorem C09_placeholder_replacement :
  forall (ctx : text -> option text) (name : text) (m : pmatch),
  replacement ctx name m =
    let body := match ctx name with Some v => v | None => name end in
    match pm_quot m with Some q => q ++ body ++ q | None => body end.
Proof. reflexivity. Qed.
Print Assumptions C09_placeholder_replacement.

(* The slices (shared with C07): source slices tile [0, len source), templated slices tile [0, len output), every literal
   slice covers identical text on both sides, the raw slices concatenate to the source with source_idx the running
   offset, and raw and templated slices have the same kinds in the same order. *)
Theorem C09_placeholder_slices_tile :
  forall (ctx : text -> option text) (src : text) (ms : list pmatch),
  spans_ok 0 ms (length src) ->
  let out := ph_out ctx src ms in
  let ts := ph_tslices ctx src ms in
  let rs := ph_rslices ctx src ms in
  ztiles (map ts_src ts) 0 (Z.of_nat (length src))
  /\ ztiles (map ts_tpl ts) 0 (Z.of_nat (length out))
  /\ Forall (fun t => ts_templated t = false -> zslice src (ts_src t) = zslice out (ts_tpl t)) ts
  /\ concat (map rs_raw rs) = src
  /\ idx_chain 0 rs
  /\ map rs_templated rs = map ts_templated ts.
Proof. exact placeholder_slices_tile_lemma. Qed.
Print Assumptions C09_placeholder_slices_tile.

(* ---- the hypotheses are satisfiable by non-trivial values -------------------------------------------------------- *)

(* "SELECT {a.b:>6} FROM {t!r:>{w}} {{x}} {x.y}" is in the proved fragment *)
Example safe_example :
  let l := [TChr 83; TChr 32; TFld [97; 46; 98] None (Some [TChr 62; TChr 54]); TChr 32;
            TFld [116] (Some 114) (Some [TChr 62; TFld [119] None None]); TChr 32;
            TEsc 123; TChr 120; TEsc 125; TChr 32; TFld [120; 46; 121] None None]%N in
  safe_list l = true
  /\ unparse l = [83; 32; 123; 97; 46; 98; 58; 62; 54; 125; 32; 123; 116; 33; 114; 58; 62; 123; 119; 125; 125; 32;
                  123; 123; 120; 125; 125; 32; 123; 120; 46; 121; 125]%N.
Proof. vm_compute. split; reflexivity. Qed.

(* "a :x ? b ?" with a named and two positional matches: the positional ones are numbered 1 and 2 *)
Example spans_example :
  let ms := [mkPm 2 4 (Some [120%N]) None; mkPm 5 6 None None; mkPm 9 10 None None] in
  spans_ok 0 ms 10
  /\ ph_out (fun k => if text_eqb k [49%N] then Some [55; 55]%N else None)
            [97; 32; 58; 120; 32; 63; 32; 98; 32; 63]%N ms
     = [97; 32; 120; 32; 55; 55; 32; 98; 32; 50]%N.
Proof. split; [cbn [spans_ok pm_start pm_stop]; lia|vm_compute; reflexivity]. Qed.
