(* C06 — Parsing is deterministic and unaffected by parser optimisations.  Property theorems only.
   PARTIAL: the grammar combinators are abstract outcomes here.  Proved: exactly when first-token pruning and the parse cache are
   invisible -- pruning, for every option list, terminator set and position, if every pruned option would have matched nothing
   (completeness of simple()); the cache, for every request history, if the part of the context the key omits does not influence
   the match -- and that neither condition can be dropped (_refuted examples).  That the real grammars meet the two conditions
   is validated per parse by differential runs (cache off, pruning off, other histories). *)
From SF Require Import Base.Prelude Model.ParseOpt Proofs.ParseOptP.

Theorem C06_prune_sound : forall idx max_idx has_terms next_code term_at nseg opts,
  idx < max_idx -> prune_safe idx opts ->
  longest_match idx max_idx has_terms next_code term_at nseg true opts
  = longest_match idx max_idx has_terms next_code term_at nseg false opts.
Proof. intros. apply prune_sound; assumption. Qed.
Print Assumptions C06_prune_sound.

Theorem C06_prune_needs_completeness_refuted : exists idx max_idx ht nc ta n opts,
  longest_match idx max_idx ht nc ta n true opts <> longest_match idx max_idx ht nc ta n false opts.
Proof. do 7 eexists. exact prune_unsound_example. Qed.
Print Assumptions C06_prune_needs_completeness_refuted.

Theorem C06_cache_transparent : forall (K C V : Type) keq (f : K -> C -> V),
  (forall a b, keq a b = true <-> a = b) ->
  forall m reqs, cache_ok K C V keq f m reqs -> key_determines K C V f reqs ->
  run_cached K C V keq f m reqs = run_fresh K C V f reqs.
Proof. intros. apply cache_transparent; assumption. Qed.
Print Assumptions C06_cache_transparent.

Theorem C06_cache_needs_key_determines_refuted : exists (f : nat -> nat -> nat) reqs,
  run_cached nat nat nat Nat.eqb f [] reqs <> run_fresh nat nat nat f reqs.
Proof. do 2 eexists. exact cache_not_transparent_example. Qed.
Print Assumptions C06_cache_needs_key_determines_refuted.

(* the hypotheses are satisfiable: an empty cache and a trace whose repeated key sees the same context *)
Example C06_example : cache_ok nat nat nat Nat.eqb (fun k c => k + c) [] [(1, 0); (2, 3); (1, 0)]
                      /\ key_determines nat nat nat (fun k c => k + c) [(1, 0); (2, 3); (1, 0)].
Proof.
  split.
  - intros k c v _ H. discriminate H.
  - intros k c c' H1 H2. cbn [In] in H1, H2.
    destruct H1 as [H1|[H1|[H1|[]]]]; destruct H2 as [H2|[H2|[H2|[]]]]; inversion H1; inversion H2; subst; try reflexivity; discriminate.
Qed.
