(* C15 — Capitalisation fixes change only letter case.  Property theorems only.
   Model: Model/Caps.v (CP01._handle_segment and its reuse by CP02..CP05; ASCII case functions, see the header there). *)
From SF Require Import Base.Prelude Model.Caps Proofs.CapsP.

(* The concrete transforms of the policies upper, lower, capitalise, pascal, camel keep the length and change nothing but the
   case of ASCII letters:  case_only f := forall s, length (f s) = length s /\ lower (f s) = lower s. *)
Theorem C15_transforms_case_only :
  case_only upper /\ case_only lower /\ case_only capitalise /\ case_only pascal /\ case_only camel.
Proof.
  exact (conj upper_case_only (conj lower_case_only (conj capitalise_case_only (conj pascal_case_only camel_case_only)))).
Qed.
Print Assumptions C15_transforms_case_only.

(* The same statement for the sixth policy is false of the faithful model: snake turns aB into a_b (and col1 into col_1). *)
Theorem C15_snake_case_only_refuted : exists s, length (snake s) <> length s /\ snake s = [97; 95; 98]%N.
Proof. exists [97; 66]%N. split; [vm_compute; discriminate | vm_compute; reflexivity]. Qed.
Print Assumptions C15_snake_case_only_refuted.

(* ... what snake does preserve: the text up to letter case and underscores. *)
Theorem C15_snake_changes_only_case_and_underscores : forall s, drop_us (lower (snake s)) = drop_us (lower s).
Proof. exact snake_us_rel. Qed.
Print Assumptions C15_snake_changes_only_case_and_underscores.

(* The `consistent` policy: whatever the memory accumulated so far (latest_possible_case, if set, was set by this very code:
   mem_ok), whatever the configured option list and the token, a fix is always computed with upper, lower or capitalise
   (camel, pascal and snake are always refuted for inference), i.e. with a case-only transform. *)
Theorem C15_consistent_policy_choice : forall opts skip m raw m' p fixed,
  mem_ok m -> handle_segment Consistent opts skip m raw = (m', Some (p, fixed)) ->
  (p = PUpper \/ p = PLower \/ p = PCapitalise) /\ fixed = apply_policy p raw /\ mem_ok m'.
Proof.
  intros opts skip m raw m' p fixed Hm H. destruct (consistent_policy_choice opts skip m raw m' p fixed Hm H) as (Hb & Hf & Hm').
  split; [|split; assumption]. destruct p; try discriminate Hb; auto.
Qed.
Print Assumptions C15_consistent_policy_choice.

(* Main statement.  For the policy `consistent` and every explicit policy except snake, for every option list, ignore
   predicate, targeting predicate (which tokens the crawler and _eval hand to _handle_segment), every number of passes of the
   fix loop and every token list: the output has the same number of tokens, token by token the same kind, the same length
   and the same text up to ASCII letter case; and every token the rule does not target is unchanged. *)
Theorem C15_fix_changes_only_case : forall cap opts skip target loops toks,
  (cap = Consistent \/ exists p, cap = Explicit p /\ p <> PSnake) ->
  let out := fix_loop cap opts skip target loops toks in
  Forall2 (fun a b => t_kind b = t_kind a /\ length (t_raw b) = length (t_raw a) /\ lower (t_raw b) = lower (t_raw a)) toks out
  /\ (forall j t, nth_error toks j = Some t -> target j t = false -> nth_error out j = Some t).
Proof.
  intros cap opts skip target loops toks Hcap.
  assert (Hc : cap_case_only cap = true).
  { destruct Hcap as [->|(p & -> & Hp)]; [reflexivity|]. destruct p; try reflexivity. congruence. }
  exact (caps_fix_case_only cap opts skip target loops toks Hc).
Qed.
Print Assumptions C15_fix_changes_only_case.

(* With the snake policy the main statement is false of the faithful model (finding F13: by design of the rule). *)
Theorem C15_fix_snake_refuted : exists opts skip target toks,
  ~ Forall2 (fun a b => t_kind b = t_kind a /\ length (t_raw b) = length (t_raw a) /\ lower (t_raw b) = lower (t_raw a))
      toks (fix_loop (Explicit PSnake) opts skip target 1 toks).
Proof. exact snake_fix_refuted. Qed.
Print Assumptions C15_fix_snake_refuted.

(* For every policy, snake included: nothing changes but letter case and underscores, and untargeted tokens are unchanged. *)
Theorem C15_fix_any_policy_case_and_underscores : forall cap opts skip target loops toks,
  let out := fix_loop cap opts skip target loops toks in
  Forall2 (fun a b => t_kind b = t_kind a /\ drop_us (lower (t_raw b)) = drop_us (lower (t_raw a))) toks out
  /\ (forall j t, nth_error toks j = Some t -> target j t = false -> nth_error out j = Some t).
Proof. exact caps_fix_case_and_underscores. Qed.
Print Assumptions C15_fix_any_policy_case_and_underscores.

(* Frame of one crawl (every result is the single fix replace(anchor, [anchor.edit(fixed_raw)])): same kinds in the same
   order, and every token that is not targeted or is skipped (ignore_words, ignore_words_regex, templated) is unchanged,
   from any memory. *)
Theorem C15_single_replace_frame : forall cap opts skip target i m toks,
  map t_kind (crawl cap opts skip target i m toks) = map t_kind toks
  /\ (forall j t, nth_error toks j = Some t -> (target (i + j) t = false \/ skip (t_raw t) = true) ->
                  nth_error (crawl cap opts skip target i m toks) j = Some t).
Proof. exact crawl_frame. Qed.
Print Assumptions C15_single_replace_frame.

(* Second sentence of the property (quoted identifiers, string literals, comments and whitespace are unchanged), as far as the
   model can say it: IF the crawler and _eval never hand a token of a frozen kind to _handle_segment, then frozen tokens are
   unchanged by any number of passes under every policy.  PARTIAL: the hypothesis is a statement about the crawl sets of CP01..CP05
   against the segment types the 28 dialect grammars assign to raw tokens; it is not modelled, only monitored end to end by
   harness/props/c15.py -- and the monitor shows it is false of the implementation in three places (quoted function names typed
   function_name_identifier in bigquery/tsql; quoted option values parsed as KeywordSegment in snowflake/materialize; comments
   inside a data type handed to _handle_segment by CP05). *)
Theorem C15_frozen_tokens_unchanged_partial : forall (frozen : token -> bool) cap opts skip target loops toks,
  (forall j t, frozen t = true -> target j t = false) ->
  forall j t, nth_error toks j = Some t -> frozen t = true ->
              nth_error (fix_loop cap opts skip target loops toks) j = Some t.
Proof.
  intros frozen cap opts skip target loops toks Hfz j t Hn Hf.
  exact (proj2 (caps_fix_case_and_underscores cap opts skip target loops toks) j t Hn (Hfz j t Hf)).
Qed.
Print Assumptions C15_frozen_tokens_unchanged_partial.

(* Hypotheses are satisfiable by non-trivial values. *)
Example C15_ex_mem_ok : mem_ok mem0 /\ mem_ok (mkMem [PUpper; PCapitalise] (Some PLower)).
Proof. split; [exact I | reflexivity]. Qed.

(* select From WHERE Quoted-identifier (kinds: 0 keyword, 1 quoted identifier; only kind 0 targeted), consistent policy:
   first pass: select -> latest = lower; From, WHERE -> lower.  The quoted token is untouched. *)
Example C15_ex_consistent :
  fix_loop Consistent [PUpper; PLower; PCapitalise] (fun _ => false) (fun _ t => Nat.eqb (t_kind t) 0) 2
    [mkTok 0 [115;101;108]%N; mkTok 0 [70;114;111;109]%N; mkTok 1 [34;81;117;34]%N; mkTok 0 [87;72]%N]
  = [mkTok 0 [115;101;108]%N; mkTok 0 [102;114;111;109]%N; mkTok 1 [34;81;117;34]%N; mkTok 0 [119;104]%N].
Proof. vm_compute. reflexivity. Qed.

(* a fix under `consistent` really happens with a basic policy: memory after `select`, then `From` *)
Example C15_ex_choice :
  handle_segment Consistent [PUpper; PLower; PPascal; PCapitalise; PSnake; PCamel] (fun _ => false)
    (fst (handle_segment Consistent [PUpper; PLower; PPascal; PCapitalise; PSnake; PCamel] (fun _ => false) mem0 [115;101;108]%N))
    [70;114;111;109]%N
  = (mkMem [PUpper; PLower; PCamel; PPascal; PSnake; PUpper; PCapitalise; PCamel; PPascal; PSnake] (Some PLower),
     Some (PLower, [102;114;111;109]%N)).
Proof. vm_compute. reflexivity. Qed.

(* pascal and camel on  fooBar_baz1 : FooBar_Baz1 / fooBar_baz1; snake: foo_bar_baz_1 *)
Example C15_ex_pascal : pascal [102;111;111;66;97;114;95;98;97;122;49]%N = [70;111;111;66;97;114;95;66;97;122;49]%N.
Proof. vm_compute. reflexivity. Qed.
Example C15_ex_snake : snake [102;111;111;66;97;114;95;98;97;122;49]%N = [102;111;111;95;98;97;114;95;98;97;122;95;49]%N.
Proof. vm_compute. reflexivity. Qed.
