(* C25 — File discovery honours ignore files regardless of path spelling.  Property theorems only.

   Model: Model/Discovery.v (paths_from_path, _iter_files_in_path, _process_exact_path, iter_intermediate_paths, and the posixpath /
   os.walk fragments they use; paths are strings, the spelling of the path is the [path] argument; pathspec is the oracle [matches]).
   Vocabulary (Proofs/DiscoveryP.v):
     slashcat [a;b;c]      the string "/a/b/c";   abs_spelling ps p: p is "/a/b/c" or "/a/b/c/" for ps = [a;b;c]
     names_ok / wf_dir     names are non-empty, contain no '/', are not "." or ".."; sibling directories have distinct names
     selected … mode d cs f: the file f of the directory cs (names below the walked directory d) has a configured extension,
                           is not ignored, and no directory on the way down to it was pruned; "ignored" = matched by an outer spec or by
                           a spec loaded in a directory between d and cs (both included; mode = true throughout this file), the
                           path being taken relative to the directory of the spec.
   The model follows /repo after commit 08d2a28 (repair of finding F8: the relevance test of inner ignore specs compares absolute
   paths on both sides). *)
From SF Require Import Base.Prelude Base.Sort Model.Discovery Proofs.DiscoveryP.

(* For every ABSOLUTE spelling (with or without a trailing slash) of a directory, every tree, every oracle, every set of outer
   specs and extensions: the walk yields exactly the files under the path that have a configured extension, are matched by no
   applicable ignore spec (outer = ancestor directories; inner = directories between the path and the file) and have no pruned
   ancestor; each under its absolute name. *)
Theorem C25_walk_spec_abs :
  forall (matches : nat -> list text -> bool) (cwd : text) (ignore_files : bool) (outer : list specrec) (exts : list text)
         (ps : list text) (p : text) (d : dir),
    ps <> [] -> names_ok ps -> abs_spelling ps p -> wf_dir d ->
    forall rel out,
      In (rel, out) (iter_files_in_path matches cwd ignore_files outer exts d p) <->
      exists cs f, rel = cs ++ [f] /\ out = slashcat (ps ++ cs ++ [f])
                   /\ selected matches ignore_files exts (outer_hit_abs matches cwd outer ps) true d cs f.
Proof. intros. apply walk_spec_abs_lemma; assumption. Qed.
Print Assumptions C25_walk_spec_abs.

(* The same for the whole of paths_from_path: the outer specs are the ignore files of the directories from the common path of the
   working path and the given path down to the given path (outer_specs = iter_intermediate_paths + loaders). *)
Theorem C25_paths_from_path_abs :
  forall (matches : nat -> list text -> bool) (cwd : text) (root : dir) (ps : list text) (p : text) (d : dir)
         (ignore_non_existent_files ignore_files : bool) (working_path : text) (exts : list text),
    ps <> [] -> names_ok ps -> abs_spelling ps p -> lookup root ps = NDir d -> wf_dir d ->
    exists l, paths_from_path_g matches cwd root p ignore_non_existent_files ignore_files working_path exts false = Ok l /\
      forall id out, In (id, out) l <->
        exists cs f, id = ps ++ cs ++ [f] /\ out = slashcat (ps ++ cs ++ [f])
                     /\ selected matches ignore_files (map lower exts)
                                 (outer_hit_abs matches cwd (if ignore_files then outer_specs cwd root p working_path else []) ps)
                                 true d cs f.
Proof. intros. apply paths_from_path_abs; assumption. Qed.
Print Assumptions C25_paths_from_path_abs.

(* Spelling invariance, the part that holds: a trailing slash on an absolute path changes nothing. *)
Theorem C25_spelling_invariance_abs_trailing_slash :
  forall (matches : nat -> list text -> bool) (cwd : text) (ignore_files : bool) (outer : list specrec) (exts : list text)
         (ps : list text) (d : dir),
    ps <> [] -> names_ok ps -> wf_dir d ->
    forall x, In x (iter_files_in_path matches cwd ignore_files outer exts d (slashcat ps))
              <-> In x (iter_files_in_path matches cwd ignore_files outer exts d (slashcat ps ++ [slash])).
Proof. intros. apply abs_trailing_slash_same; assumption. Qed.
Print Assumptions C25_spelling_invariance_abs_trailing_slash.

(* RELATIVE spellings (any non-empty path string not starting with '/': "x", "./x", "x/", ".", "../x"; the working directory is
   "/c1/../cn"; the path does not denote the file-system root): since the repair of F8 the walk is characterised exactly as for the
   absolute spelling of the same directory (parts_of cwd p = its absolute components): inner specs apply in their whole subtree.
   Only the yielded names differ ([oname] = the normalised, still relative, name). *)
Theorem C25_walk_spec_rel :
  forall (matches : nat -> list text -> bool) (cwd : text) (ignore_files : bool) (outer : list specrec) (exts : list text)
         (cw : list text) (p : text) (d : dir),
    cw <> [] -> names_ok cw -> cwd = slashcat cw -> p <> [] -> isabs p = false -> parts_of cwd p <> [] -> wf_dir d ->
    forall rel out,
      In (rel, out) (iter_files_in_path matches cwd ignore_files outer exts d p) <->
      exists cs f, rel = cs ++ [f] /\ out = oname p (cs ++ [f])
                   /\ selected matches ignore_files exts (outer_hit_abs matches cwd outer (parts_of cwd p)) true d cs f.
Proof. intros matches cwd ignore_files outer exts cw p d. intros. apply (walk_spec_rel_lemma matches cwd ignore_files outer exts cw p d); assumption. Qed.
Print Assumptions C25_walk_spec_rel.

(* Spelling invariance of the WALK, in full (".." included): against the same outer specs, every relative spelling selects exactly the
   files that the absolute spelling of the same directory selects. *)
Theorem C25_spelling_invariance_walk :
  forall (matches : nat -> list text -> bool) (cwd : text) (ignore_files : bool) (outer : list specrec) (exts : list text)
         (cw : list text) (p : text) (d : dir),
    cw <> [] -> names_ok cw -> cwd = slashcat cw -> p <> [] -> isabs p = false -> parts_of cwd p <> [] -> wf_dir d ->
    forall rel, (exists out, In (rel, out) (iter_files_in_path matches cwd ignore_files outer exts d p))
                <-> (exists out, In (rel, out) (iter_files_in_path matches cwd ignore_files outer exts d (slashcat (parts_of cwd p)))).
Proof. intros matches cwd ignore_files outer exts cw p d. intros. apply (walk_spelling_invariance matches cwd ignore_files outer exts cw p d); assumption. Qed.
Print Assumptions C25_spelling_invariance_walk.

(* Spelling invariance of paths_from_path (outer ignore files included), PARTIAL: for every directory path spelled relatively WITHOUT a
   ".." component ("x", "./x", "x/", ".", "./", "a//b"), every working path, flags and extensions, the relative spelling and the
   absolute spelling "/cwd.../x" select the same set of files.  Together with C25_spelling_invariance_abs_trailing_slash this covers all
   the spellings of the property text (relative, absolute, ".").
   Missing for the full statement: (1) spellings with ".." - FALSE of the model, see C25_dotdot_spelling_refuted (open finding in
   iter_intermediate_paths); (2) exact-file targets (_process_exact_path; covered by correspondence and the oracles only); (3) the working
   directory "/" and paths denoting "/". *)
Theorem C25_spelling_invariance_partial :
  forall (matches : nat -> list text -> bool) (cwd : text) (cw : list text) (root : dir) (p : text) (d : dir)
         (ignore_non_existent_files ignore_files : bool) (working_path : text) (exts : list text),
    cw <> [] -> names_ok cw -> cwd = slashcat cw -> p <> [] -> isabs p = false -> ~ In dotdot_t (split_on p) ->
    lookup root (cw ++ pure_parts p) = NDir d -> wf_dir d ->
    exists l1 l2,
      paths_from_path_g matches cwd root p ignore_non_existent_files ignore_files working_path exts false = Ok l1 /\
      paths_from_path_g matches cwd root (slashcat (cw ++ pure_parts p)) ignore_non_existent_files ignore_files working_path exts false = Ok l2 /\
      forall id, In id (map fst l1) <-> In id (map fst l2).
Proof. intros matches cwd cw root p d ine ign wp exts. intros. apply (spelling_invariance_nodotdot matches cwd cw root p d ine ign wp exts); assumption. Qed.
Print Assumptions C25_spelling_invariance_partial.

(* ---------------------------------------------------------------------------------------------------------------------------- *)
(* Regression pin for finding F8 (repaired in /repo by 08d2a28; before the repair this was C25_spelling_invariance_refuted).

   /t/src/.sqlfluffignore contains "x.sql"; files /t/src/x.sql and /t/src/sub/x.sql; working directory /t.  The oracle table says what
   pathspec says: the spec matches "x.sql" and "sub/x.sql" (relative to /t/src).  Before the repair paths_from_path(".") selected
   src/sub/x.sql (the walk, spelled relatively, compared "./src/sub" with "/t/src/" and dropped the spec) while "/t" selected nothing.
   Now both select nothing. *)
Open Scope N_scope.
Definition w_ignore : text := [46;115;113;108;102;108;117;102;102;105;103;110;111;114;101].  (* .sqlfluffignore *)
Definition w_x : text := [120;46;115;113;108].                                                (* x.sql *)
Definition w_t : text := [116].  Definition w_src : text := [115;114;99].  Definition w_sub : text := [115;117;98].
Definition w_root : dir :=
  Dir [] [] [(w_t, Dir [] [] [(w_src, Dir [w_ignore; w_x] [(w_ignore, Some 0%nat)] [(w_sub, Dir [w_x] [] [])])])].
Definition w_tbl : list (nat * list text) := [(0%nat, [w_x]); (0%nat, [w_sub; w_x])].
Definition w_cwd : text := [47;116].             (* /t *)
Definition w_exts : list text := [[46;115;113;108]].
Close Scope N_scope.

Theorem C25_f8_witness_repaired :
  selected_ids (paths_from_path_g (tbl_matches w_tbl) w_cwd w_root [dot] false true w_cwd w_exts false)
  = selected_ids (paths_from_path_g (tbl_matches w_tbl) w_cwd w_root w_cwd false true w_cwd w_exts false)
  /\ paths_from_path (tbl_matches w_tbl) w_cwd w_root [dot] false true w_cwd w_exts false = Ok []
  /\ paths_from_path (tbl_matches w_tbl) w_cwd w_root w_src false true w_cwd w_exts false = Ok [].
Proof. vm_compute. repeat split. Qed.
Print Assumptions C25_f8_witness_repaired.

(* without the ignore file the file is selected under both spellings: the pin is not vacuous *)
Example C25_f8_witness_without_ignore_file :
  paths_from_path (tbl_matches []) w_cwd w_root [dot] false true w_cwd w_exts false
  = Ok [w_src ++ [slash] ++ w_sub ++ [slash] ++ w_x; w_src ++ [slash] ++ w_x].
Proof. vm_compute. reflexivity. Qed.

(* The spelling still matters for ".." (OPEN finding, not repaired): ".." keeps the directories it climbs out of in the search for outer ignore files
   (iter_intermediate_paths takes the common path of the UNRESOLVED path), so an ignore file in /t/src/sub is applied to files of /t/src
   when /t/src is spelled ".." from /t/src/sub: pathspec matches the pattern "x.sql" against "../x.sql". *)
Open Scope N_scope.
Definition w2_root : dir :=
  Dir [] [] [(w_t, Dir [] [] [(w_src, Dir [w_x] [] [(w_sub, Dir [w_ignore; w_x] [(w_ignore, Some 0%nat)] [])])])].
Definition w2_tbl : list (nat * list text) := [(0%nat, [w_x]); (0%nat, [dotdot_t; w_x])].
Definition w2_cwd : text := [47;116;47;115;114;99;47;115;117;98].     (* /t/src/sub *)
Definition w2_abs : text := [47;116;47;115;114;99].                   (* /t/src *)
Close Scope N_scope.

Theorem C25_dotdot_spelling_refuted :
  exists (matches : nat -> list text -> bool) (cwd : text) (root : dir) (p1 p2 : text) (exts : list text),
    parts_of cwd p1 = parts_of cwd p2 /\
    selected_ids (paths_from_path_g matches cwd root p1 false true cwd exts false)
    <> selected_ids (paths_from_path_g matches cwd root p2 false true cwd exts false).
Proof.
  exists (tbl_matches w2_tbl), w2_cwd, w2_root, dotdot_t, w2_abs, w_exts.
  split; [vm_compute; reflexivity|vm_compute; discriminate].
Qed.
Print Assumptions C25_dotdot_spelling_refuted.

Example C25_witness2_absolute :
  paths_from_path (tbl_matches w2_tbl) w2_cwd w2_root w2_abs false true w2_cwd w_exts false = Ok [w2_abs ++ [slash] ++ w_x].
Proof. vm_compute. reflexivity. Qed.
Example C25_witness2_dotdot :
  paths_from_path (tbl_matches w2_tbl) w2_cwd w2_root dotdot_t false true w2_cwd w_exts false = Ok [].
Proof. vm_compute. reflexivity. Qed.

(* the hypotheses of the positive theorems are satisfiable by non-trivial values *)
Example C25_hyps_satisfiable :
  names_ok [w_t] /\ abs_spelling [w_t] w_cwd /\ lookup w_root [w_t] = NDir (Dir [] [] [(w_src, Dir [w_ignore; w_x] [(w_ignore, Some 0)] [(w_sub, Dir [w_x] [] [])])])
  /\ wf_dir w_root.
Proof.
  split; [repeat constructor|]. split; [left; reflexivity|]. split; [reflexivity|].
  cbn [wf_dir w_root map fst snd]. repeat split; repeat constructor; cbn [In]; intuition discriminate.
Qed.
