(* C18 — Files with template or parse errors are never modified by fix.  Property theorems only.
   (The fix-loop part -- loop limit => tree rolled back -- is in Model/FixLoop.v, theorem C18_loop_limit_rollback.) *)
From SF Require Import Base.Prelude Model.Gate Proofs.GateP.

(* by path: a file is written only if fix_even_unparsable is set or it has NO templating/parsing violation at all
   (suppressed ones included: the count is taken before any filtering) *)
Theorem C18_paths_gate : forall f feu changed,
  paths_written f feu changed = true -> feu = true \/ (forall v, In v f -> is_tp v = false).
Proof. exact paths_gate_lemma. Qed.
Print Assumptions C18_paths_gate.

(* stdin: stdout is the fixed string only under the same condition *)
Theorem C18_stdin_gate : forall f feu,
  snd (stdin_fix f feu) = true -> feu = true \/ (forall v, In v f -> is_tp v = false).
Proof. exact stdin_gate_lemma. Qed.
Print Assumptions C18_stdin_gate.

(* Python API *)
Theorem C18_api_gate : forall f feu,
  api_should_fix f feu = true -> feu = true \/ (forall v, In v f -> is_tp v = false).
Proof. exact api_gate_lemma. Qed.
Print Assumptions C18_api_gate.

(* regression witness of the repaired defect F5: gating the API on the filtered count let a suppressed error through *)
Theorem C18_f5_api_filtered_gate_refuted :
  exists f, api_should_fix_f5 f false = true /\ exists v, In v f /\ is_tp v = true.
Proof. exact api_gate_f5_lemma. Qed.
Print Assumptions C18_f5_api_filtered_gate_refuted.
