(* C11 — Fixing preserves all untouched text.  Property theorems only.
   PARTIAL: proved for the patch-application layer: the fixed source equals the source with the applied patches substituted for
   exactly their own ranges (C30_apply_exact), hence any ascending list of ranges no applied patch overlaps is copied verbatim and in
   order (C11_untouched_ranges_survive), no patches means the text is returned unchanged (C11_no_patches_identity), and the
   newline normalisation applied on reading is idempotent and the identity on LF-only text (C11_newlines).  Bytes <-> text (codecs,
   BOMs, undecodable bytes) and the decision to rewrite a file are exercised end to end, not modelled. *)
From SF Require Import Base.Prelude Base.Sort Model.Patch Proofs.PatchP Proofs.FrameP Model.JinjaFast Proofs.JinjaFastP.

Theorem C11_untouched_ranges_survive : forall (bufs : list (list patch)) (src : text) (rs : list (nat * nat)),
  Forall (fun p => p_start p <= p_stop p /\ p_stop p <= length src) (concat bufs) ->
  ranges_ok 0 rs ->
  Forall (fun ab => Forall (avoids (fst ab) (snd ab)) (applied_from 0 (merge bufs))) rs ->
  in_order (map (fun ab => substr src (fst ab) (snd ab)) rs) (fix_source (merge bufs) [] src).
Proof.
  intros bufs src rs Hb Hr Hav. destruct (apply_exact_lemma bufs src Hb) as [E [C _]]. cbn zeta in E, C.
  rewrite E. apply protected_ranges_survive; assumption.
Qed.
Print Assumptions C11_untouched_ranges_survive.

Theorem C11_no_patches_identity : forall src : text, fix_source (merge []) [] src = src.
Proof.
  intros src. destruct (apply_exact_lemma [] src (Forall_nil _)) as [E _]. cbn zeta in E. rewrite E. reflexivity.
Qed.
Print Assumptions C11_no_patches_identity.

Theorem C11_newlines : forall s,
  (has_cr s = false -> normalise_newlines s = s) /\ normalise_newlines (normalise_newlines s) = normalise_newlines s.
Proof. intros s. split; [apply normalise_id_without_cr|apply normalise_idempotent]. Qed.
Print Assumptions C11_newlines.
