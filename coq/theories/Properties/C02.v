(* C02 — Parsing is lossless: tree leaves are exactly the lexed tokens.  Property theorems only.
   Tokens are indices into the lexed tuple, so "never discarded, duplicated or reordered" is `tokens = seq start len`. *)
From SF Require Import Base.Prelude Base.Sort Model.MatchResult Proofs.MatchResultP Proofs.MatchResultOps.

(* For EVERY match result, token count and nesting depth: if the certificate checker accepts it, materialising the tree
   (MatchResult.apply) succeeds -- no "Segment skip ahead" ValueError, no AssertionError, no IndexError -- and the leaves of the
   produced forest that are tokens are exactly the tokens start..stop-1, each once, in order. *)
Theorem C02_apply_lossless : forall n m,
  wf_b n m = true -> exists ts, apply n m = Ok ts /\ tokens_of_l ts = seq (mstart m) (mlen m).
Proof. exact apply_lossless. Qed.
Print Assumptions C02_apply_lossless.

(* File level (BaseFileSegment.root_parse): whatever the root grammar returns -- nothing, a partial match, a complete one -- provided a
   truthy result is certified, starts at the first code token and stays before the trimmed end: the file node's token leaves are
   exactly tokens 0..n-1 in order; what the grammar did not claim sits inside an unparsable node, nothing is discarded. *)
Theorem C02_root_parse_lossless : forall n is_code m t,
  start_idx n is_code <= end_idx n is_code -> end_idx n is_code <= n ->
  (truthy m = true -> wf_b n m = true /\ mstart m = start_idx n is_code /\ mstop m <= end_idx n is_code) ->
  root_parse n is_code m = Ok t -> tokens_of t = seq 0 n.
Proof. exact root_parse_lossless. Qed.
Print Assumptions C02_root_parse_lossless.

Example C02_root_parse_example :
  root_parse 6 (fun i => negb (i =? 0) && negb (i =? 3) && negb (i =? 5)) (MR 1 3 (Some 7) [] [])
  = Ok (Node 0 [Tok 0; Node 7 [Tok 1; Tok 2]; Tok 3; Node 1 [Tok 4]; Tok 5]).
Proof. reflexivity. Qed.

(* the hypothesis is satisfiable by a nested result with inserts, and the checker rejects overlapping children *)
Example C02_wf_example : wf_b 6 (MR 1 5 (Some 7) [(1, 0); (5, 1)] [MR 1 2 (Some 3) [] []; MR 3 5 None [(4, 0)] []]) = true.
Proof. reflexivity. Qed.
Example C02_overlap_rejected : wf_b 6 (MR 0 4 None [] [MR 0 3 (Some 1) [] []; MR 2 4 (Some 1) [] []]) = false.
Proof. reflexivity. Qed.
(* without the certificate apply can duplicate tokens silently: children given out of order make max_idx go backwards *)
Example C02_unordered_children_duplicate_refuted :
  exists ts, apply 6 (MR 0 5 None [] [MR 3 5 (Some 1) [] []; MR 3 3 None [(3, 0)] []]) = Ok ts /\ tokens_of_l ts <> seq 0 5.
Proof. eexists. split; [vm_compute; reflexivity|vm_compute; discriminate]. Qed.

(* The certificate is not only checked on finished root results: the two operations every grammar builds results with preserve it.
   Wrapping a certified result in a segment class (no extra inserts) is certified; appending two certified classed non-empty results
   that do not overlap is certified, holds exactly those two children, and apply returns the tokens of both and of the gap. *)
Theorem C02_wrap_keeps_certificate : forall n m outer m',
  wf_b n m = true -> wrap m outer [] = Ok m' -> wf_b n m' = true.
Proof. exact wrap_keeps_certificate. Qed.
Print Assumptions C02_wrap_keeps_certificate.

Theorem C02_append_classed_lossless : forall n a b ka kb m',
  wf_b n a = true -> wf_b n b = true -> mcls a = Some ka -> mcls b = Some kb -> 0 < mlen a -> 0 < mlen b ->
  append a b [] = Ok m' -> exists ts, apply n m' = Ok ts /\ tokens_of_l ts = seq (mstart a) (mstop b - mstart a).
Proof. exact append_classed_lossless. Qed.
Print Assumptions C02_append_classed_lossless.

Example C02_append_example :
  append (MR 1 2 (Some 3) [] []) (MR 3 5 (Some 4) [(4, 0)] []) [] = Ok (MR 1 5 None [] [MR 1 2 (Some 3) [] []; MR 3 5 (Some 4) [(4, 0)] []])
  /\ wf_b 6 (MR 1 2 (Some 3) [] []) = true /\ wf_b 6 (MR 3 5 (Some 4) [(4, 0)] []) = true.
Proof. repeat split; reflexivity. Qed.
