(* C22 — Exit codes reflect only unsuppressed failures.  Property theorems only. *)
From SF Require Import Base.Prelude Model.Gate Proofs.GateP.

(* lint exits 1 exactly when some file has a violation that is neither suppressed nor a warning
   (or files were skipped and large_file_skip_fail is set); --nofail always exits 0 *)
Theorem C22_lint_exit_spec : forall fs skipped skip_fail,
  lint_exit fs false skipped skip_fail = b2e (spec_lint_fail fs || ((0 <? skipped) && skip_fail)).
Proof. exact lint_exit_spec_lemma. Qed.
Print Assumptions C22_lint_exit_spec.

Theorem C22_lint_nofail : forall fs skipped skip_fail, lint_exit fs true skipped skip_fail = 0.
Proof. exact lint_nofail_lemma. Qed.
Print Assumptions C22_lint_nofail.

(* fix/format by path exits 1 exactly when an unsuppressed non-warning lint violation remains unfixable (no fix, or its
   fix was discarded because the file has a templating/parse error) or an unsuppressed TMP/PRS error blocks fixing *)
Theorem C22_paths_fix_exit_spec : forall fs feu skipped skip_fail,
  paths_fix_exit fs feu skipped skip_fail = b2e (spec_fix_fail fs feu || ((0 <? skipped) && skip_fail)).
Proof. exact paths_fix_exit_spec_lemma. Qed.
Print Assumptions C22_paths_fix_exit_spec.

(* warnings (and suppressed violations) never cause a non-zero exit *)
Theorem C22_warnings_never_fail : forall fs feu,
  (forall f v, In f fs -> In v f -> v_ign v = true \/ v_warn v = true) ->
  lint_exit fs false 0 false = 0 /\ paths_fix_exit fs feu 0 false = 0.
Proof. exact warnings_never_fail_lemma. Qed.
Print Assumptions C22_warnings_never_fail.

(* stdin fix follows the same rule whenever no unsuppressed fixable violation has its fix discarded ... *)
Theorem C22_stdin_exit_partial : forall f feu,
  (fixes_discarded f feu = true -> existsb (fun v => fixable v && visible v) f = false) ->
  fst (stdin_fix f feu) = paths_fix_exit [f] feu 0 false.
Proof. exact stdin_exit_agrees_partial_lemma. Qed.
Print Assumptions C22_stdin_exit_partial.

(* ... and not otherwise (F6, open finding: "unfixable" is computed before the fixes are discarded; pinned by the test-suite) *)
Theorem C22_stdin_exit_refuted :
  exists f, fst (stdin_fix f false) = 0 /\ paths_fix_exit [f] false 0 false = 1.
Proof. exact stdin_exit_f6_lemma. Qed.
Print Assumptions C22_stdin_exit_refuted.

(* regression witnesses of repaired defects (F15: warnings counted as unfixable; F17: templating error with
   fix_even_unparsable failed stdin only) *)
Theorem C22_f15_warning_counted_refuted :
  exists fs, paths_fix_exit_with discard_count_f15 fs false 0 false = 1 /\ spec_fix_fail fs false = false /\ spec_lint_fail fs = false.
Proof. exact warnings_fail_f15_lemma. Qed.
Print Assumptions C22_f15_warning_counted_refuted.

Theorem C22_f17_stdin_feu_templater_refuted :
  exists f, stdin_fix_f17 f true = 1 /\ paths_fix_exit [f] true 0 false = 0 /\ fst (stdin_fix f true) = 0.
Proof. exact stdin_exit_f17_lemma. Qed.
Print Assumptions C22_f17_stdin_feu_templater_refuted.
