(* C14 — Layout fixes change only whitespace.  Property theorems only.
   PARTIAL: the layout rules / reflow engine are an oracle.  Proved: "only whitespace changed" (same code-token texts in order, same
   multiset of comments) is an equivalence with a correct boolean checker, and it lifts through the whole fix loop: if every
   validated proposal of the enabled rules satisfies it, so does the final tree w.r.t. the input tree, for any number of passes,
   both phases and any loop limit.  Whether each layout rule's proposals satisfy it is checked on every adopted step of real runs
   (the checker is evaluated on the real before/after token lists) and on the final text. *)
From SF Require Import Base.Prelude Model.FixLoop Proofs.FixLoopP Model.TokenRel Proofs.TokenRelP.

Theorem C14_ws_only_equivalence :
  (forall a, ws_only a a) /\ (forall a b, ws_only a b -> ws_only b a) /\ (forall a b c, ws_only a b -> ws_only b c -> ws_only a c).
Proof. split; [exact ws_only_refl|split; [exact ws_only_sym|exact ws_only_trans]]. Qed.
Print Assumptions C14_ws_only_equivalence.

Theorem C14_checker_correct : forall a b, ws_only_b a b = true <-> ws_only a b.
Proof. exact ws_only_b_sound. Qed.
Print Assumptions C14_checker_correct.

Theorem C14_ws_only_through_loop : forall (T F : Type) teq feq (leaves : T -> list tk) limit rules t0,
  respects T F (fun s t => ws_only (leaves s) (leaves t)) rules ->
  ws_only (leaves t0) (leaves (fst (lint_fix T F teq feq limit rules t0))).
Proof.
  intros T F teq feq leaves limit rules t0 H.
  apply (lint_fix_rel T F teq feq (fun s t => ws_only (leaves s) (leaves t))); [intros t; apply ws_only_refl| |exact H].
  intros a b c; apply ws_only_trans.
Qed.
Print Assumptions C14_ws_only_through_loop.

Example C14_example : ws_only_b [Code [97]%N; Ws [32]%N; Comment [45;45]%N; Code [98]%N] [Code [97]%N; Code [98]%N; Ws [10]%N; Comment [45;45]%N] = true.
Proof. reflexivity. Qed.
Example C14_example_neg : ws_only_b [Code [97]%N; Code [98]%N] [Code [97;98]%N] = false.
Proof. reflexivity. Qed.
