(* C21 — Rule selection is exact and rules are independent.  Property theorems only. *)
From SF Require Import Base.Prelude Model.Glob Model.RuleSelect Proofs.GlobP Proofs.RuleSelectP.
From SFGen Require Import Gen_rules.

(* glob matching is exactly its declarative meaning *)
Theorem C21_glob_correct : forall p s, gmatch p s = true <-> gsem p s.
Proof. exact gmatch_correct. Qed.
Print Assumptions C21_glob_correct.

(* for any register and selector lists: the selected rules are exactly the registered rules matched by the allow list
   (an empty allow list = every rule) and not matched by the deny list; a reference matches through the reference map
   (codes > names > groups > aliases) or, if it is not a key, as a glob over all keys *)
Theorem C21_select_spec : forall reg allow deny c,
  In c (select reg allow deny) <->
  In c (codes reg) /\ matches reg (match allow with [] => codes reg | _ => allow end) c /\ ~ matches reg deny c.
Proof. exact select_spec_lemma. Qed.
Print Assumptions C21_select_spec.

(* a reference without glob metacharacters matches only the key equal to it *)
Theorem C21_nometa_literal : forall name pat, has_meta pat = false -> fnmatch name pat = text_eqb pat name.
Proof. exact fnmatch_nometa. Qed.
Print Assumptions C21_nometa_literal.

(* On the registry of /repo as translated on this run: codes are unique, no key contains a glob metacharacter, no
   name/group/alias is shadowed by a higher-priority key, and every rule is in the group `all`. *)
Theorem C21_bundled_registry_ok : registry_ok gen_register = true.
Proof. vm_compute. reflexivity. Qed.
Print Assumptions C21_bundled_registry_ok.
