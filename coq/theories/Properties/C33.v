(* C33 — Violations are reported once and in source order.  Property theorems only. *)
From SF Require Import Base.Prelude Base.Sort Model.Dedup Proofs.DedupP.

(* For every list of raw violations (any number of loop passes / variants): the reported list has no two entries with the
   same source signature, is sorted by (line, column), contains only input violations, and loses no signature. *)
Theorem C33_reported_once_in_order : forall l : list viol,
  NoDup (map signature (dedup_sort l))
  /\ StronglySorted (le pos_leb) (dedup_sort l)
  /\ (forall w, In w (dedup_sort l) -> In w l)
  /\ (forall v, In v l -> exists w, In w (dedup_sort l) /\ signature w = signature v).
Proof. exact dedup_sort_spec. Qed.
Print Assumptions C33_reported_once_in_order.

(* The signature does not look at templated-space positions: two loop passes of one source violation are equal under it. *)
Theorem C33_signature_ignores_templated_pos : forall c l p r t1 t2,
  signature (mkViol c l p r t1) = signature (mkViol c l p r t2).
Proof. reflexivity. Qed.
Print Assumptions C33_signature_ignores_templated_pos.
