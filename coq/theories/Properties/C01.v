(* C01 — Lexing is lossless, ordered and total.  Property theorems only.
   PARTIAL: the regex engine is an oracle (per position, which matcher matches and how its match is subdivided; the harness
   tabulates it with the real matcher objects) and the source-position assignment for templated files (_iter_segments) is
   monitored on real outputs, not modelled. *)
From SF Require Import Base.Prelude Model.Lexer Proofs.LexerP.

(* For every text length, matcher table and oracle whose elements are non-empty and stay inside the text: whatever the lexer loop
   returns tiles the rendered text exactly -- elements are non-empty, contiguous, increasing and cover [0, n) -- so the tokens
   concatenate to the rendered SQL and nothing is dropped or duplicated. *)
Theorem C01_lex_lossless_contiguous : forall n mt lastm,
  (forall p els, p < n -> In els (mt p) -> els_ok n p els) ->
  (forall p, p < n -> els_ok n p (lastm p)) ->
  forall fuel els, lex n mt lastm fuel 0 [] = Ok els ->
  tiles 0 n (slices 0 els).
Proof.
  intros n mt lastm H1 H2 fuel els H.
  destruct (lex_inv n mt lastm H1 H2 fuel 0 [] els) as [Hpos Hsum]; [repeat split; [constructor|lia]|exact H|].
  rewrite <- Hsum. apply (slices_tile els 0 Hpos).
Qed.
Print Assumptions C01_lex_lossless_contiguous.

(* Totality: if wherever the table matchers give up the last-resort matcher yields something (C29 proves this for every bundled
   dialect), lexing returns -- no "Fatal. Unable to lex" and the loops terminate within n+1 rounds. *)
Theorem C01_lex_total : forall n mt lastm,
  (forall p els, p < n -> In els (mt p) -> els_ok n p els) ->
  (forall p, p < n -> els_ok n p (lastm p)) ->
  (forall p, p < n -> first_match (mt p) = None -> lastm p <> []) ->
  exists els, lex n mt lastm (S n) 0 [] = Ok els.
Proof.
  intros n mt lastm H1 H2 H3. apply (lex_total n mt lastm H1 H2 H3 (S n) 0 []); [repeat split; [constructor|lia]|lia].
Qed.
Print Assumptions C01_lex_total.

Example C01_example : lex 5 (fun p => if p =? 0 then [[]; [2; 1]] else []) (fun p => [5 - p]) 6 0 [] = Ok [2; 1; 2].
Proof. reflexivity. Qed.
