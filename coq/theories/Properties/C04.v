(* C04 — Parse, lint and fix never crash.  Property theorems only.
   PARTIAL: the templater (Jinja), the regex engine, the grammar combinators and the rule bodies are opaque components.  What is
   proved is (i) the exception funnel around them -- for EVERY combination of stage outcomes, if each component raises only its
   documented exception class then lint returns violations, and these classes are exactly the ones the funnel converts
   (C04_funnel_total_partial, C04_other_exception_propagates); (ii) tree construction never raises on a certified match result
   (C04_apply_never_raises, from C02).  That the real components raise nothing else is searched, not proved (harness/props/c04.py). *)
From SF Require Import Base.Prelude Model.Funnel Proofs.FunnelP Model.MatchResult Proofs.MatchResultP.

Theorem C04_funnel_total_partial : forall max_nodes t,
  templ_ok t = true -> exists vs, lint_string max_nodes t = Val vs.
Proof. exact lint_string_total. Qed.
Print Assumptions C04_funnel_total_partial.

Theorem C04_other_exception_propagates : forall mx k v r n,
  (v_lex v = Raise (XOther k) \/ (exists lv, v_lex v = Val lv /\ ((0 <? mx) && (mx <? v_tokens v)) = false /\ v_parse v = Raise (XOther k)))
  -> lint_string mx (Val (v :: r, n)) = Raise (XOther k).
Proof. exact other_exception_propagates. Qed.
Print Assumptions C04_other_exception_propagates.

Theorem C04_apply_never_raises : forall n m, wf_b n m = true -> exists ts, apply n m = Ok ts.
Proof. intros n m H. destruct (apply_lossless n m H) as [ts [E _]]. exists ts. exact E. Qed.
Print Assumptions C04_apply_never_raises.

(* the node-limit pre-check reports PRS and skips parsing; a fatal templater error is reported as TMP *)
Example C04_node_limit : lint_string 3 (Val ([{| v_lex := Val []; v_tokens := 10; v_parse := Raise (XOther 0); v_rules := [] |}], 0)) = Val [PRS].
Proof. reflexivity. Qed.
Example C04_fatal_tmp : lint_string 0 (Raise XTemplater) = Val [TMP].
Proof. reflexivity. Qed.
