(* C23 — Reported violation positions are accurate.  Property theorems only.
   PARTIAL: which anchor a rule chooses is not modelled.  Proved (on the line/column model of C31, tied to the code there):
   the machine-readable position record of a source range -- (start_line, start_col, start_offset, end_line, end_col, end_offset),
   TemplatedFile.source_position_dict_from_slice -- is internally consistent (line/col are the conversion of the offsets), lies in
   the file, and identifies the first character of the range: the reported line is 1 + the newlines before the start offset and the
   column the 1-based position in that line.  For a token in a literal (untemplated) region the start offset is the token's own
   first character (C01).  Checked on every violation of real lint runs in JSON / YAML / SARIF / annotation formats. *)
From SF Require Import Base.Prelude Model.LineCol Proofs.LineColP.

(* source_position_dict_from_slice *)
Definition pos_dict (s : text) (a b : nat) : (nat * nat * nat) * (nat * nat * nat) :=
  ((fst (line_pos s a), snd (line_pos s a), a), (fst (line_pos s b), snd (line_pos s b), b)).

Theorem C23_position_record_exact : forall (s : text) (a b : nat), a <= b -> b <= length s ->
  let '((sl, sc, so), (el, ec, eo)) := pos_dict s a b in
  so = a /\ eo = b
  /\ sl = 1 + count_nl (firstn a s) /\ sc = 1 + length (last_line (firstn a s))
  /\ el = 1 + count_nl (firstn b s) /\ ec = 1 + length (last_line (firstn b s))
  /\ 1 <= sl <= 1 + count_nl s /\ 1 <= sc <= a + 1 /\ sl <= el.
Proof.
  intros s a b Hab Hb. unfold pos_dict.
  assert (Ha : a <= length s) by lia.
  pose proof (line_pos_spec_lemma s a Ha) as E1. pose proof (line_pos_spec_lemma s b Hb) as E2.
  pose proof (line_pos_bounds_lemma s a Ha) as [B1 B2].
  assert (Hm : count_nl (firstn a s) <= count_nl (firstn b s)).
  { replace b with (a + (b - a)) by lia. rewrite <- (firstn_skipn a (firstn (a + (b - a)) s)).
    rewrite count_nl_app. rewrite firstn_firstn. replace (Nat.min a (a + (b - a))) with a by lia. lia. }
  rewrite E1 in B1, B2. rewrite E1, E2. cbn [fst snd] in *. cbv beta iota. unfold line_spec, col_spec in *. repeat split; lia.
Qed.
Print Assumptions C23_position_record_exact.

Example C23_example : pos_dict [97;10;98;99;10;100]%N 2 4 = ((2, 1, 2), (2, 3, 4)).
Proof. reflexivity. Qed.
