(* C03 — Parse trees are well-formed.  Property theorems only.  (Indentation balance per dialect: see DESIGN §7; monitored.) *)
From SF Require Import Base.Prelude Base.Sort Model.MatchResult Proofs.MatchResultP.

(* Every node of the forest built from a certified match result covers a contiguous, increasing run of token indices equal to
   the concatenation of its children's runs: a node spans exactly its children and the children are in positional order, at
   every depth. *)
Theorem C03_nodes_span_children_in_order : forall n m ts,
  wf_b n m = true -> apply n m = Ok ts -> Forall contig ts.
Proof. exact apply_contig. Qed.
Print Assumptions C03_nodes_span_children_in_order.

Example C03_contig_example : contig (Node 7 [Meta 0 1; Node 3 [Tok 1]; Tok 2; Tok 3]).
Proof.
  apply (c_node 7 _ 1 3); [reflexivity|]. repeat constructor. apply (c_node 3 _ 1 1); [reflexivity|repeat constructor].
Qed.
