(* C03 — Parse trees are well-formed.  Property theorems only.  (Indentation balance per dialect: see DESIGN §7; monitored.) *)
From SF Require Import Base.Prelude Base.Sort Model.MatchResult Proofs.MatchResultP.

(* Every node of the forest built from a certified match result covers a contiguous, increasing run of token indices equal to
   the concatenation of its children's runs: a node spans exactly its children and the children are in positional order, at
   every depth. *)
Theorem C03_nodes_span_children_in_order : forall n m ts,
  wf_b n m = true -> apply n m = Ok ts -> Forall contig ts.
Proof. exact apply_contig. Qed.
Print Assumptions C03_nodes_span_children_in_order.

Example C03_contig_example : contig (Node 7 [Meta 0 1; Node 3 [Tok 1]; Tok 2; Tok 3]).
Proof.
  apply (c_node 7 _ 1 3); [reflexivity|]. repeat constructor. apply (c_node 3 _ 1 1); [reflexivity|repeat constructor].
Qed.

(* ---- indentation balance, statically, for whole dialect grammars (the "programs" quantifier) *)
From SF Require Import Model.IndentFlow Proofs.IndentFlowP.

(* If the certificate check accepts a grammar environment, a table and a valuation of the indentation-config keys, then EVERY complete
   derivation from the root -- any input, any nesting, any number of repetitions -- has net indent 0.  The generated files
   Gen_indent_<dialect>.v instantiate it: `indent_balanced_<d>` is `check ... = true` for all 64 valuations of the six config keys,
   kernel-checked on every run from the grammar objects of /repo (bundled_dialects_indent_balanced conjoins the dialects for which
   it holds). *)
Theorem C03_indent_certificate_sound : forall env t val root z,
  check env t val root = true -> der env val (GRef root) z -> z = 0%Z.
Proof. exact check_sound. Qed.
Print Assumptions C03_indent_certificate_sound.

Example C03_indent_example :
  check [(0%N, GSeq [GMeta 1; GStar [GRef 1%N]; GMeta (-1)]); (1%N, GAlt [GLeaf; GSeq [GCond [(0%N, true)] 1; GLeaf; GCond [(0%N, true)] (-1)]])]
        [] (val_of [0%N]) 0%N = true.
Proof. reflexivity. Qed.
Example C03_indent_example_unbalanced_rejected :
  check [(0%N, GSeq [GMeta 1; GStar [GRef 1%N]]); (1%N, GLeaf)] [(0%N, [1%Z])] (val_of []) 0%N = false.
Proof. reflexivity. Qed.
