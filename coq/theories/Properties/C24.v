(* C24 — Parallel and serial runs agree (bookkeeping).  Property theorems only. *)
From SF Require Import Base.Prelude Base.Sort Model.Gate Model.Runner Proofs.RunnerP.

(* For any completion order of the workers and any order of the given paths (any permutation of the per-file outcomes,
   distinct files): identical violation totals, skipped count, per-file records (sorted by path) and set of files written,
   hence identical exit codes. *)
Theorem C24_aggregate_perm : forall l l' : list outcome,
  Permutation l l' -> NoDup (map o_path l) -> aggregate l = aggregate l'.
Proof. exact aggregate_perm_lemma. Qed.
Print Assumptions C24_aggregate_perm.

Theorem C24_exit_perm : forall (l l' : list outcome) skip_fail,
  Permutation l l' -> NoDup (map o_path l) -> agg_lint_exit (aggregate l) skip_fail = agg_lint_exit (aggregate l') skip_fail.
Proof. intros l l' sf Hp Hn. rewrite (aggregate_perm_lemma l l' Hp Hn). reflexivity. Qed.
Print Assumptions C24_exit_perm.
