(* The Jinja templater's fast path (core/templaters/jinja.py process) and Linter._normalise_newlines.
   Jinja's lexer in its root state emits the text up to the first of `{{`, `{%`, `{#` as one data token (default delimiters; no
   line-statement or line-comment prefix is configured by _get_jinja_env), and a template consisting of one data token renders
   to that text (keep_trailing_newline=True, newlines already LF). *)
From SF Require Import Base.Prelude.

Definition c_lbrace : cp := 123%N.
Definition is_marker2 (c : cp) : bool := N.eqb c 123 (* { *) || N.eqb c 37 (* % *) || N.eqb c 35 (* # *).

Definition starts_marker (s : text) : bool :=
  match s with a :: b :: _ => N.eqb a c_lbrace && is_marker2 b | _ => false end.

(* re.search(r"\{[{%#]", s) *)
Fixpoint has_marker (s : text) : bool :=
  match s with [] => false | _ :: r => starts_marker s || has_marker r end.

(* the data token Jinja's root lexer state cuts off the front of s, and what is left (starting with a marker) *)
Fixpoint data_prefix (s : text) : text * text :=
  match s with
  | [] => ([], [])
  | a :: r => if starts_marker s then ([], s) else let '(d, rest) := data_prefix r in (a :: d, rest)
  end.

(* render of a template that lexes to a single data token *)
Definition render_data (keep_trailing_newline : bool) (d : text) : text :=
  if keep_trailing_newline then d
  else match rev d with 10%N :: r => rev r | _ => d end.

(* _normalise_newlines: regex.sub(r"\r\n|\r", "\n", s) *)
Fixpoint normalise_newlines (s : text) : text :=
  match s with
  | [] => []
  | c :: r => if N.eqb c 13 then 10%N :: match r with
                                         | d :: r' => if N.eqb d 10 then normalise_newlines r' else normalise_newlines r
                                         | [] => []
                                         end
              else c :: normalise_newlines r
  end.

Definition has_cr (s : text) : bool := existsb (N.eqb 13) s.
