(* Lexer matcher table of a dialect, seen through the first character: which of the three matchers that guarantee progress
   (whitespace, newline, last resort) claims a non-empty prefix.  Regex templates are compared as texts (the translator copies
   them from the dialect objects); their meaning as predicates below is the regex oracle, checked by the harness on every
   code point against the real `regex` module. *)
From SF Require Import Base.Prelude.

(* "[^\S\r\n]+"  "\r\n|\n"  "[^\t\n\ ]*"  "whitespace" "newline" as code points *)
Definition tpl_ws : text := [91;94;92;83;92;114;92;110;93;43]%N.
Definition tpl_nl : text := [92;114;92;110;124;92;110]%N.
Definition tpl_last : text := [91;94;92;116;92;110;92;32;93;42]%N.
Definition name_ws : text := [119;104;105;116;101;115;112;97;99;101]%N.
Definition name_nl : text := [110;101;119;108;105;110;101]%N.

(* \s of the `regex` module on str patterns *)
Definition is_space (c : cp) : bool :=
  existsb (N.eqb c) [9;10;11;12;13;32;133;160;5760;8192;8193;8194;8195;8196;8197;8198;8199;8200;8201;8202;8232;8233;8239;8287;12288]%N.

Definition ws_char (c : cp) : bool := is_space c && negb (N.eqb c 13) && negb (N.eqb c 10).
Definition last_char (c : cp) : bool := negb (N.eqb c 9) && negb (N.eqb c 10) && negb (N.eqb c 32).

Fixpoint prefix_len (p : cp -> bool) (s : text) : nat :=
  match s with c :: r => if p c then S (prefix_len p r) else 0 | [] => 0 end.

Definition ws_len (s : text) : nat := prefix_len ws_char s.
Definition last_len (s : text) : nat := prefix_len last_char s.
Definition nl_len (s : text) : nat :=
  match s with
  | 13%N :: 10%N :: _ => 2
  | 10%N :: _ => 1
  | _ => 0
  end.

Definition table := list (text * text).   (* (matcher name, regex template) in matching order *)

Definition has_matcher (t : table) (name tpl : text) : bool :=
  existsb (fun e => text_eqb (fst e) name && text_eqb (snd e) tpl) t.

Definition table_ok (t : table) (last_resort : text) : bool :=
  has_matcher t name_ws tpl_ws && has_matcher t name_nl tpl_nl && text_eqb last_resort tpl_last.
