(* Model of LintedFile._safe_create_replace_file (core/linter/linted_file.py) with faults. *)
From SF Require Import Base.Prelude.

Definition fobj := (text * nat)%type.          (* content, permission bits *)
Record fsst := mkFs { tgt : option fobj;       (* the output path *)
                      inp : option fobj;       (* the input path when a suffix makes it a different file *)
                      tmp : option fobj }.     (* the temporary file next to the output path *)

(* operations of the write path, in program order *)
Inductive wop := OStat | OCreate | OWrite | OFlush | OFsync | OClose | OChmod | ORename.
Definition ops : list wop := [OStat; OCreate; OWrite; OFlush; OFsync; OClose; OChmod; ORename].

Inductive fault :=
| FNone
| FRaise (k : nat) (j : nat)                (* op k raises; for OWrite, j characters may already be in the temp file *)
| FDie (k : nat) (j : nat) (after : bool).  (* the process dies at op k, before or after the op took effect *)

Inductive outcome := Done (s : fsst) | Raised (s : fsst) | Died (s : fsst).
Definition st_of (o : outcome) : fsst := match o with Done s | Raised s | Died s => s end.

Definition default_tmp_mode : nat := 384.  (* 0o600, mkstemp *)

Section Write.
  Variable suffix : bool.
  Variable new : text.

  Definition input_file (s : fsst) : option fobj := if suffix then inp s else tgt s.
  Definition mode_of (s : fsst) : option nat := match input_file s with Some (_, m) => Some m | None => None end.

  (* effect of one op; `m` is the mode captured by the initial stat *)
  Definition apply_op (o : wop) (m : option nat) (s : fsst) : fsst :=
    match o with
    | OStat => s
    | OCreate => mkFs (tgt s) (inp s) (Some ([], default_tmp_mode))
    | OWrite => mkFs (tgt s) (inp s) (match tmp s with Some (_, pm) => Some (new, pm) | None => None end)
    | OFlush | OFsync | OClose => s
    | OChmod => match m, tmp s with
                | Some md, Some (c, _) => mkFs (tgt s) (inp s) (Some (c, md))
                | _, _ => s
                end
    | ORename => match tmp s with
                 | Some f => mkFs (Some f) (inp s) None
                 | None => s
                 end
    end.

  (* a write interrupted after j characters *)
  Definition partial_write (j : nat) (s : fsst) : fsst :=
    mkFs (tgt s) (inp s) (match tmp s with Some (_, pm) => Some (firstn j new, pm) | None => None end).

  (* except BaseException: remove the temp file if it exists, re-raise *)
  Definition cleanup (s : fsst) : fsst := mkFs (tgt s) (inp s) None.

  Fixpoint run_ops (l : list wop) (idx : nat) (m : option nat) (f : fault) (s : fsst) : outcome :=
    match l with
    | [] => Done s
    | o :: r =>
        match f with
        | FRaise k j =>
            if idx =? k then
              match o with
              | OStat => Raised s                                   (* outside the try block; no temp file yet *)
              | OWrite => Raised (cleanup (partial_write j s))
              | _ => Raised (cleanup s)
              end
            else run_ops r (S idx) m f (apply_op o m s)
        | FDie k j after =>
            if idx =? k then
              match o with
              | OWrite => Died (if after then apply_op o m s else partial_write j s)
              | _ => Died (if after then apply_op o m s else s)
              end
            else run_ops r (S idx) m f (apply_op o m s)
        | FNone => run_ops r (S idx) m f (apply_op o m s)
        end
    end.

  Definition safe_write (f : fault) (s : fsst) : outcome := run_ops ops 0 (mode_of s) f s.
End Write.

(* several files written one after the other; the fault (if any) hits file number kf; an exception or death stops the run *)
Fixpoint write_all (suffix : bool) (files : list (fsst * text)) (i kf : nat) (f : fault) : list fsst * bool :=
  match files with
  | [] => ([], true)
  | (s, new) :: r =>
      match safe_write suffix new (if i =? kf then f else FNone) s with
      | Done s' => let '(rest, ok) := write_all suffix r (S i) kf f in (s' :: rest, ok)
      | Raised s' | Died s' => (s' :: map fst r, false)
      end
  end.
