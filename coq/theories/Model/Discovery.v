(* Model of core/linter/discovery.py (paths_from_path, _iter_files_in_path, _process_exact_path, _match_file_extension,
   _check_ignore_specs, _iter_config_files) and core/helpers/file.py:iter_intermediate_paths, together with the parts of
   posixpath (join, normpath, abspath, relpath, commonpath) and os.walk they use.  Executable definitions only.

   Paths are TEXT (lists of code points), because the code compares path strings: the test that decides whether an ignore
   file found during the walk is still relevant is
       dirname == inner_dirname or os.path.abspath(dirname).startswith(os.path.abspath(inner_dirname) + os.sep)
   (before commit 08d2a28 the left operand of startswith was the bare dirname, spelled the way the caller spelled the path: F8).  So the spelling (relative, absolute, ".", "./x",
   trailing slash, "..") is simply the [path] argument.

   The file system is a tree [dir] rooted at "/" (no symlinks; names are compared as texts).  pathspec is an oracle
   [matches : spec id -> list of components of the relative path -> bool]: the harness tabulates spec.match_file with the real
   library.  The relative path is handed to the oracle as its list of components, i.e. posixpath.relpath up to (but not
   including) its final "/".join. *)
From SF Require Import Base.Prelude Base.Sort.

Open Scope N_scope.
Definition slash : cp := 47.
Definition dot : cp := 46.
Definition star_t : text := [42].
Definition dot_t : text := [dot].
Definition dotdot_t : text := [dot; dot].
Close Scope N_scope.

(* ------------------------------------------------------------------------------------------------------------------ *)
(* small text utilities *)

Definition is_empty (s : text) : bool := match s with [] => true | _ => false end.
Definition nonempty (s : text) : bool := negb (is_empty s).

Fixpoint startswith (pre s : text) : bool :=
  match pre, s with
  | [], _ => true
  | a :: pre', b :: s' => N.eqb a b && startswith pre' s'
  | _ :: _, [] => false
  end.

Definition endswith (suf s : text) : bool := startswith (rev suf) (rev s).

(* str.lower(), ASCII range only (ASSUMPTION: file names and extensions outside ASCII are not case-mapped by the model) *)
Definition lower_cp (c : cp) : cp := if (N.leb 65 c && N.leb c 90)%bool then (c + 32)%N else c.
Definition lower (s : text) : text := map lower_cp s.

(* str.split("/") *)
Fixpoint split_on (s : text) : list text :=
  match s with
  | [] => [[]]
  | c :: r => if N.eqb c slash then [] :: split_on r
              else match split_on r with h :: t => (c :: h) :: t | [] => [[c]] end
  end.

(* "/".join(l) *)
Fixpoint intercalate (l : list text) : text :=
  match l with
  | [] => []
  | [a] => a
  | a :: r => a ++ slash :: intercalate r
  end.

(* lexicographic order on code points = Python's str comparison *)
Fixpoint text_leb (a b : text) : bool :=
  match a, b with
  | [], _ => true
  | _ :: _, [] => false
  | x :: a', y :: b' => if N.ltb x y then true else if N.eqb x y then text_leb a' b' else false
  end.

Fixpoint parts_eqb (a b : list text) : bool :=
  match a, b with
  | [], [] => true
  | x :: a', y :: b' => text_eqb x y && parts_eqb a' b'
  | _, _ => false
  end.

Definition mem_text (x : text) (l : list text) : bool := existsb (text_eqb x) l.

(* ------------------------------------------------------------------------------------------------------------------ *)
(* posixpath *)

Definition isabs (p : text) : bool := match p with c :: _ => N.eqb c slash | [] => false end.

(* posixpath.join(a, b) *)
Definition join (a b : text) : text :=
  if isabs b then b
  else if is_empty a || endswith [slash] a then a ++ b
  else a ++ slash :: b.

(* posixpath.normpath.  [initial_slashes] is 0, 1 or 2; the loop keeps new_comps reversed. *)
Definition initial_slashes (p : text) : nat :=
  match p with
  | a :: b :: c :: _ => if N.eqb a slash then (if N.eqb b slash && negb (N.eqb c slash) then 2 else 1) else 0
  | [a; b] => if N.eqb a slash then (if N.eqb b slash then 2 else 1) else 0
  | [a] => if N.eqb a slash then 1 else 0
  | [] => 0
  end.

Definition norm_step (init : nat) (acc : list text) (comp : text) : list text :=
  if is_empty comp || text_eqb comp dot_t then acc
  else if negb (text_eqb comp dotdot_t)
          || (Nat.eqb init 0 && match acc with [] => true | _ => false end)
          || (match acc with top :: _ => text_eqb top dotdot_t | [] => false end)
       then comp :: acc
       else match acc with _ :: r => r | [] => [] end.

Definition norm_comps (init : nat) (comps : list text) : list text := rev (fold_left (norm_step init) comps []).

Definition normpath (p : text) : text :=
  if is_empty p then dot_t
  else
    let init := initial_slashes p in
    let body := intercalate (norm_comps init (split_on p)) in
    let r := repeat slash init ++ body in
    if is_empty r then dot_t else r.

(* posixpath.abspath, with os.getcwd() = cwd *)
Definition abspath (cwd p : text) : text := normpath (if isabs p then p else join cwd p).

(* [x for x in abspath(p).split(sep) if x] *)
Definition parts_of (cwd p : text) : list text := filter nonempty (split_on (abspath cwd p)).

Fixpoint common_len (a b : list text) : nat :=
  match a, b with
  | x :: a', y :: b' => if text_eqb x y then S (common_len a' b') else 0
  | _, _ => 0
  end.

(* posixpath.relpath(path, start) as its rel_list (the final "/".join is left to the oracle's table key) *)
Definition relparts (cwd path start : text) : list text :=
  let s := parts_of cwd start in
  let p := parts_of cwd path in
  let i := common_len s p in
  repeat dotdot_t (length s - i) ++ skipn i p.

(* pathlib: parts of PurePosixPath(p) without the anchor ("" and "." components dropped, ".." kept) *)
Definition pure_parts (p : text) : list text :=
  filter (fun c => nonempty c && negb (text_eqb c dot_t)) (split_on p).

(* parts of Path(p).absolute() when os.getcwd() = cwd (cwd is an absolute normal path) *)
Definition absolute_parts (cwd p : text) : list text :=
  if isabs p then pure_parts p else pure_parts cwd ++ pure_parts p.

(* Path.resolve() without symlinks: ".." handled lexically, never above the root *)
Definition resolve_parts (parts : list text) : list text :=
  rev (fold_left (fun acc c => if text_eqb c dotdot_t then (match acc with _ :: r => r | [] => [] end) else c :: acc) parts []).

(* str(Path("/", *parts)) *)
Definition render_abs (parts : list text) : text := slash :: intercalate parts.

(* ------------------------------------------------------------------------------------------------------------------ *)
(* file system *)

(* [Dir files loads subs]: names of the non-directory entries (os.walk's filenames, ignore files included), the result of
   ignore_file_loaders[name](dirname, name) for the ignore-file names present (Some spec id, or None when the loader returns
   None, e.g. a .sqlfluff without ignore_paths), and the sub-directories. *)
Inductive dir := Dir (files : list text) (loads : list (text * option nat)) (subs : list (text * dir)).

Definition d_files (d : dir) := match d with Dir f _ _ => f end.
Definition d_loads (d : dir) := match d with Dir _ l _ => l end.
Definition d_subs (d : dir) := match d with Dir _ _ s => s end.

Fixpoint assoc {B} (n : text) (l : list (text * B)) : option B :=
  match l with
  | [] => None
  | (k, v) :: r => if text_eqb n k then Some v else assoc n r
  end.

Inductive node := NDir (d : dir) | NFile | NNone.

Fixpoint lookup (d : dir) (parts : list text) : node :=
  match parts with
  | [] => NDir d
  | n :: r =>
      match assoc n (d_subs d) with
      | Some sd => lookup sd r
      | None => match r with [] => if mem_text n (d_files d) then NFile else NNone | _ => NNone end
      end
  end.

Definition is_dir (n : node) : bool := match n with NDir _ => true | _ => false end.
Definition is_file (n : node) : bool := match n with NFile => true | _ => false end.

(* keys of discovery.ignore_file_loaders, in dict order: ".sqlfluffignore", "pyproject.toml", ".sqlfluff" *)
Open Scope N_scope.
Definition loader_names : list text :=
  [ [46;115;113;108;102;108;117;102;102;105;103;110;111;114;101];
    [112;121;112;114;111;106;101;99;116;46;116;111;109;108];
    [46;115;113;108;102;108;117;102;102] ].
Close Scope N_scope.

(* IgnoreSpecRecord = (dirname, filename, spec) *)
Definition specrec := (text * text * nat)%type.
Definition sr_dir (r : specrec) : text := fst (fst r).
Definition sr_spec (r : specrec) : nat := snd r.

(* for f in <names>: ignore_spec = ignore_file_loaders[f](dirname, f); if ignore_spec: append *)
Definition load_specs (dirname : text) (names : list text) (loads : list (text * option nat)) : list specrec :=
  flat_map (fun f => match assoc f loads with Some (Some s) => [(dirname, f, s)] | _ => [] end) names.

Section Discovery.
  Variable matches : nat -> list text -> bool.   (* spec.match_file("/".join(parts)) *)
  Variable cwd : text.                           (* os.getcwd(): absolute, normal *)

  (* _check_ignore_specs: truthiness of the result *)
  Definition check_ignore_specs (absolute_filepath : text) (specs : list specrec) : bool :=
    existsb (fun r => matches (sr_spec r) (relparts cwd absolute_filepath (sr_dir r))) specs.

  (* _match_file_extension; valid_extensions already lower-cased *)
  Definition match_file_extension (filepath : text) (exts : list text) : bool :=
    existsb (fun e => endswith e (lower filepath)) exts.

  (* the relevance test for an inner ignore spec while walking (after the repair of F8, commit 08d2a28: absolute on both sides):
       dirname == inner_dirname or os.path.abspath(dirname).startswith(os.path.abspath(inner_dirname) + os.sep) *)
  Definition keep_inner (dirname : text) (r : specrec) : bool :=
    text_eqb dirname (sr_dir r) || startswith (abspath cwd (sr_dir r) ++ [slash]) (abspath cwd dirname).

  Section Walk.
    Variable ignore_files : bool.
    Variable outer : list specrec.
    Variable exts : list text.

    Definition ignored (absolute_path : text) (inner : list specrec) : bool :=
      check_ignore_specs absolute_path outer || check_ignore_specs absolute_path inner.

    (* One file of one directory. The first component of the result is ghost: the component path of the file below the walk root. *)
    Definition walk_file (dirname : text) (cs : list text) (inner : list specrec) (filename : text)
      : list (list text * text) :=
      let relative_path := join dirname filename in
      let absolute_path := abspath cwd relative_path in
      if negb (match_file_extension filename exts) then []
      else if check_ignore_specs absolute_path outer then []
      else if check_ignore_specs absolute_path inner then []
      else [(cs ++ [filename], normpath relative_path)].

    Definition subdir_pruned (dirname : text) (inner : list specrec) (subdir : text) : bool :=
      ignored (abspath cwd (join (join dirname subdir) star_t)) inner.

    (* _iter_files_in_path over os.walk(path, topdown=True): one call = one (dirname, subdirs, filenames) step followed by the
       walk of the surviving sub-directories.  inner_ignore_specs is threaded through (the Python list is mutated when the
       NEXT directory is visited).  Returns the yielded files and the final inner_ignore_specs. *)
    Fixpoint walk (d : dir) (dirname : text) (cs : list text) (inner : list specrec) {struct d}
      : list (list text * text) * list specrec :=
      match d with
      | Dir files loads subs =>
          let inner1 := filter (keep_inner dirname) inner in
          let inner2 := if ignore_files
                        then inner1 ++ load_specs dirname (filter (fun f => mem_text f loader_names) files) loads
                        else inner1 in
          let here := flat_map (walk_file dirname cs inner2) files in
          let below :=
            (fix go (l : list (text * dir)) (st : list specrec) {struct l} : list (list text * text) * list specrec :=
               match l with
               | [] => ([], st)
               | (n, sd) :: r =>
                   if subdir_pruned dirname inner2 n then go r st
                   else let '(o, st1) := walk sd (join dirname n) (cs ++ [n]) st in
                        let '(o2, st2) := go r st1 in (o ++ o2, st2)
               end) subs inner2 in
          (here ++ fst below, snd below)
      end.

    Definition iter_files_in_path (d : dir) (path : text) : list (list text * text) := fst (walk d path [] []).
  End Walk.

  (* iter_intermediate_paths(Path(path).absolute(), Path(working_path)) as lists of resolved parts *)
  Definition iter_intermediate_paths (root : dir) (path working_path : text) : list (list text) :=
    let inner0 := absolute_parts cwd path in
    let outer := absolute_parts cwd working_path in
    let inner := if is_dir (lookup root (resolve_parts inner0)) then inner0 else removelast inner0 in
    let c := common_len inner outer in
    map (fun k => resolve_parts (firstn k inner)) (seq c (length inner - c)) ++ [resolve_parts inner].

  (* _iter_config_files followed by the loader calls of paths_from_path: the outer ignore specs *)
  Definition outer_specs (root : dir) (path working_path : text) : list specrec :=
    flat_map (fun sp =>
                match lookup root sp with
                | NDir d => load_specs (render_abs sp) (filter (fun f => mem_text f (d_files d)) loader_names) (d_loads d)
                | _ => []
                end)
             (iter_intermediate_paths root path working_path).

  (* _process_exact_path (the warning is not modelled) *)
  Definition process_exact_path (path : text) (lower_exts : list text) (outer : list specrec) : list (list text * text) :=
    if negb (match_file_extension path lower_exts) then []
    else if check_ignore_specs (abspath cwd path) outer then []
    else [(parts_of cwd path, normpath path)].

  Definition out_leb (a b : list text * text) : bool := text_leb (snd a) (snd b).

  (* paths_from_path; SQLFluffUserError is a ValueError.  The ghost first components are the absolute component paths. *)
  Definition paths_from_path_g (root : dir) (path : text) (ignore_non_existent_files ignore_files : bool)
             (working_path : text) (target_file_exts : list text) (check_non_existent_file : bool)
    : res (list (list text * text)) :=
    let tparts := parts_of cwd path in
    let nd := if is_empty path then NNone else lookup root tparts in
    if (match nd with NNone => true | _ => false end) && negb check_non_existent_file then
      (if ignore_non_existent_files then Ok [] else Err EValue)
    else
      let lower_exts := map lower target_file_exts in
      let outer := if ignore_files then outer_specs root path working_path else [] in
      match nd with
      | NDir d =>
          if check_non_existent_file then Ok (process_exact_path path lower_exts outer)
          else Ok (ssort out_leb (map (fun o => (tparts ++ fst o, snd o)) (iter_files_in_path ignore_files outer lower_exts d path)))
      | _ => Ok (process_exact_path path lower_exts outer)
      end.

  Definition paths_from_path (root : dir) (path : text) (ine ign : bool) (wp : text) (exts : list text) (cnef : bool)
    : res (list text) :=
    match paths_from_path_g root path ine ign wp exts cnef with Ok l => Ok (map snd l) | Err e => Err e end.
End Discovery.

(* the oracle as a table of the matching (spec, relative path) pairs; every pair not listed does not match *)
Definition tbl_matches (tbl : list (nat * list text)) (s : nat) (rel : list text) : bool :=
  existsb (fun e => Nat.eqb (fst e) s && parts_eqb (snd e) rel) tbl.

(* the selected files as a set of absolute component paths, for comparing spellings *)
Definition selected_ids (r : res (list (list text * text))) : res (list (list text)) :=
  match r with Ok l => Ok (map fst l) | Err e => Err e end.
