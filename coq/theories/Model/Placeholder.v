(* Model of PlaceholderTemplater.process (core/templaters/placeholder.py): the loop over regex.finditer(in_str) that
   builds out_str, template_slices and raw_slices.  The regex (KNOWN_STYLES[param_style] or the user's param_regex) is an
   oracle: the model receives the list of matches (span, the param_name group if the pattern has one, the quotation group
   if the pattern has one); the harness ships the real matches.  The context is an oracle too: ctx name = Some (str(value))
   when `name in context`.  Executable definitions only. *)
From SF Require Import Base.Prelude.
From Coq Require Import Decimal.

(* one finditer match.  pm_name = None: the pattern has no group called param_name (positional styles: the parameter
   is named by a 1-based counter).  pm_quot = None: the pattern has no group called quotation. *)
Record pmatch := mkPm { pm_start : nat; pm_stop : nat; pm_name : option text; pm_quot : option text }.

(* TemplatedFileSlice(slice_type, source_slice, templated_slice): kind true = "templated", false = "literal" *)
Record tslice := mkTs { ts_templated : bool; ts_src : Z * Z; ts_tpl : Z * Z }.
(* RawFileSlice(raw, slice_type, source_idx) *)
Record rslice := mkRs { rs_raw : text; rs_templated : bool; rs_idx : nat }.

(* Python s[a:b] for 0 <= a, b *)
Definition pslice (s : text) (a b : nat) : text := firstn (b - a) (skipn a s).

(* str(param_counter) *)
Fixpoint uint_text (u : Decimal.uint) : text :=
  match u with
  | Decimal.Nil => []
  | Decimal.D0 r => 48%N :: uint_text r
  | Decimal.D1 r => 49%N :: uint_text r
  | Decimal.D2 r => 50%N :: uint_text r
  | Decimal.D3 r => 51%N :: uint_text r
  | Decimal.D4 r => 52%N :: uint_text r
  | Decimal.D5 r => 53%N :: uint_text r
  | Decimal.D6 r => 54%N :: uint_text r
  | Decimal.D7 r => 55%N :: uint_text r
  | Decimal.D8 r => 56%N :: uint_text r
  | Decimal.D9 r => 57%N :: uint_text r
  end.
Definition dec (n : nat) : text := uint_text (Nat.to_uint n).

Section Placeholder.
  Variable ctx : text -> option text.

  (* (param_name, next counter) *)
  Definition param_name (cnt : nat) (m : pmatch) : text * nat :=
    match pm_name m with
    | None => (dec cnt, S cnt)
    | Some n => (n, cnt)
    end.

  Definition replacement (name : text) (m : pmatch) : text :=
    let r := match ctx name with Some v => v | None => name end in
    match pm_quot m with
    | Some q => q ++ r ++ q
    | None => r
    end.

  (* the for loop followed by "add the last literal, if any".
     last_raw = last_pos_raw, last_tpl = last_pos_templated, cnt = param_counter *)
  Fixpoint ph_loop (src : text) (last_raw : nat) (last_tpl : Z) (cnt : nat) (ms : list pmatch)
    : text * list tslice * list rslice :=
    match ms with
    | [] =>
        if last_raw <? length src then
          (pslice src last_raw (length src),
           [mkTs false (Z.of_nat last_raw, Z.of_nat (length src))
                       (last_tpl, last_tpl + (Z.of_nat (length src) - Z.of_nat last_raw))%Z],
           [mkRs (pslice src last_raw (length src)) false last_raw])
        else ([], [], [])
    | m :: rest =>
        let (name, cnt') := param_name cnt m in
        let lll := (Z.of_nat (pm_start m) - Z.of_nat last_raw)%Z in            (* last_literal_length *)
        let repl := replacement name m in
        let lit := pslice src last_raw (pm_start m) in
        let start_tpl := (last_tpl + lll)%Z in                                  (* start_template_pos *)
        let stop_tpl := (start_tpl + Z.of_nat (length repl))%Z in
        let '(out, ts, rs) := ph_loop src (pm_stop m) stop_tpl cnt' rest in
        (lit ++ repl ++ out,
         mkTs false (Z.of_nat last_raw, Z.of_nat (pm_start m)) (last_tpl, last_tpl + lll)%Z
           :: mkTs true (Z.of_nat (pm_start m), Z.of_nat (pm_stop m)) (start_tpl, stop_tpl) :: ts,
         mkRs lit false last_raw :: mkRs (pslice src (pm_start m) (pm_stop m)) true (pm_start m) :: rs)
    end.

  Definition ph_process (src : text) (ms : list pmatch) : text * list tslice * list rslice :=
    ph_loop src 0 0%Z 1 ms.

  Definition ph_out (src : text) (ms : list pmatch) : text := fst (fst (ph_process src ms)).
  Definition ph_tslices (src : text) (ms : list pmatch) : list tslice := snd (fst (ph_process src ms)).
  Definition ph_rslices (src : text) (ms : list pmatch) : list rslice := snd (ph_process src ms).
End Placeholder.

(* table-driven context for the harness *)
Fixpoint ctx_of (tab : list (text * text)) (k : text) : option text :=
  match tab with
  | [] => None
  | (k', v) :: r => if text_eqb k k' then Some v else ctx_of r k
  end.

(* Harness entry point: the raw slices are printed as (length, kind, index) plus one flag saying that every raw text is
   the source text at [index, index + length). *)
Definition harness_ph (c : text * list (text * text) * list pmatch)
  : text * list (bool * (Z * Z) * (Z * Z)) * list (nat * bool * nat) * bool :=
  let '(src, tab, ms) := c in
  let '(out, ts, rs) := ph_process (ctx_of tab) src ms in
  (out,
   map (fun t => (ts_templated t, ts_src t, ts_tpl t)) ts,
   map (fun r => (length (rs_raw r), rs_templated r, rs_idx r)) rs,
   forallb (fun r => text_eqb (rs_raw r) (pslice src (rs_idx r) (rs_idx r + length (rs_raw r)))) rs).
