(* The fix loop of Linter.lint_fix_parsed (core/linter/linter.py): phases, passes, the adoption gate around apply_fixes, the
   last_fixes short-circuit, previous_versions and the loop-limit rollback.  Rules and apply_fixes are an oracle:
   `propose r t` = the fixes rule r returns on tree t (an identifier), the tree apply_fixes builds from them, and whether the
   re-parse validation accepted it. *)
From SF Require Import Base.Prelude.

Section FixLoop.
  Variables T F : Type.
  Variable teq : T -> T -> bool.      (* equality of (raw, source_fixes) *)
  Variable feq : F -> F -> bool.      (* equality of fix lists *)

  Record rule := { r_post : bool; r_fixcompat : bool; propose : T -> option (F * T * bool) }.
  Record st := { tree : T; last : option F; prev : list T; changed : bool }.

  (* the `else:` happy path: remember the fixes, adopt the new tree only if it differs, is valid and was not seen before *)
  Definition adopt (s : st) (f : F) (nt : T) (valid : bool) : st :=
    let keep := {| tree := tree s; last := Some f; prev := prev s; changed := changed s |} in
    if teq nt (tree s) then keep
    else if negb valid then keep
    else if existsb (teq nt) (prev s) then keep
    else {| tree := nt; last := Some f; prev := nt :: prev s; changed := true |}.

  Definition run_rule (first : bool) (s : st) (r : rule) : st :=
    if negb first && negb (r_fixcompat r) then s
    else match propose r (tree s) with
         | None => s
         | Some (f, nt, v) =>
             if match last s with Some l => feq l f | None => false end then s   (* same fixes as last time: pass gracefully *)
             else adopt s f nt v
         end.

  Definition pass (first : bool) (rules : list rule) (s : st) : st :=
    fold_left (run_rule first) rules {| tree := tree s; last := last s; prev := prev s; changed := false |}.

  (* `for loop in range(n)`: Some = stable exit, None = limit reached *)
  Fixpoint loop (n : nat) (first : bool) (rules : list rule) (s : st) : option st :=
    match n with
    | 0 => None
    | S k => let s' := pass first rules s in if changed s' then loop k false rules s' else Some s'
    end.

  (* main phase: the first pass runs every rule and (as the code stands) so do the later main passes, restricted to
     fix-compatible rules; post phase: post rules, two passes.  Returns (tree, limit_hit). *)
  Definition lint_fix (limit : nat) (rules : list rule) (t0 : T) : T * bool :=
    match loop limit true rules {| tree := t0; last := None; prev := [t0]; changed := false |} with   (* previous_versions = {(tree.raw, ())} *)
    | None => (t0, true)
    | Some s1 => match loop 2 false (filter r_post rules) s1 with
                 | None => (t0, true)
                 | Some s2 => (tree s2, false)
                 end
    end.

  (* replay of the observed apply_fixes calls of one real run: events (fixes id, new tree, valid) in order *)
  Definition replay (t0 : T) (events : list (F * T * bool)) : st :=
    fold_left (fun s e => let '(f, nt, v) := e in adopt s f nt v) events {| tree := t0; last := None; prev := [t0]; changed := false |}.
End FixLoop.
