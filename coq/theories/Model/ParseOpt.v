(* Parser optimisations (core/parser/match_algorithms.py longest_match / prune_options, core/parser/context.py parse cache),
   modelled over abstract per-option match outcomes: what must hold of them for the optimisations to be invisible. *)
From SF Require Import Base.Prelude.

(* the outcome of option.match(segments, idx) as far as longest_match looks at it *)
Record outcome := { o_stop : nat ; o_truthy : bool ; o_keep : bool (* prune_options keeps this option *) ; o_id : nat }.

Section LM.
  Variables (idx max_idx : nat).
  Variable has_terms : bool.                 (* parse_context.terminators non-empty *)
  Variable next_code : nat -> nat.           (* skip_start_index_forward_to_code *)
  Variable term_at : nat -> bool.            (* some terminator matches at that index *)
  Variable nseg : nat.                       (* len(segments) *)

  Definition olen (o : outcome) : nat := o_stop o - idx.

  (* the loop over available_options; `best` = (stop, id) of best_match so far, None = MatchResult.empty_at(idx) *)
  Fixpoint lm_go (opts : list outcome) (best : option outcome) : option outcome :=
    match opts with
    | [] => best
    | o :: rest =>
        if o_truthy o && (o_stop o =? max_idx) then Some o
        else if (match best with Some b => olen b | None => 0 end) <? olen o then
          match rest with
          | [] => Some o
          | _ => if has_terms && ((next_code (o_stop o) =? nseg) || term_at (next_code (o_stop o))) then Some o
                 else lm_go rest (Some o)
          end
        else lm_go rest best
    end.

  Definition longest_match (prune : bool) (opts : list outcome) : option outcome :=
    if (match opts with [] => true | _ => false end) || (idx =? max_idx) then None
    else let avail := if prune then filter o_keep opts else opts in
         match avail with [] => None | _ => lm_go avail None end.
End LM.

(* ---- parse cache: results memoised by a key that omits part of the context *)
Section Cache.
  Variables (K C V : Type).
  Variable keq : K -> K -> bool.
  Variable f : K -> C -> V.                  (* the fresh match: key = (location, matcher), C = everything else (terminators, ...) *)

  Fixpoint lookup (m : list (K * V)) (k : K) : option V :=
    match m with [] => None | (k', v) :: r => if keq k' k then Some v else lookup r k end.

  (* answers given to a sequence of requests with a cache that starts from `m` *)
  Fixpoint run_cached (m : list (K * V)) (reqs : list (K * C)) : list V :=
    match reqs with
    | [] => []
    | (k, c) :: r => match lookup m k with
                     | Some v => v :: run_cached m r
                     | None => let v := f k c in v :: run_cached ((k, v) :: m) r
                     end
    end.
  Definition run_fresh (reqs : list (K * C)) : list V := map (fun kc => f (fst kc) (snd kc)) reqs.
End Cache.
