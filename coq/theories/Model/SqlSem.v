(* A small SQL expression semantics (SQLite flavour: three-valued logic, booleans are the integers 1/0) and the rewrites of the
   bundled rules that change the expression tree rather than layout: ST01 (ELSE NULL), ST02 (simple CASE -> COALESCE), ST04 (nested
   CASE flattening), CV02 (IFNULL/NVL -> COALESCE).  The semantics is validated against SQLite by the harness. *)
From SF Require Import Base.Prelude.

Inductive value := VNull | VInt (z : Z) | VText (t : nat).

Inductive expr :=
| ELit (v : value)
| ECol (n : nat)
| EEq (a b : expr) | ENe (a b : expr)
| EIsNull (a : expr)
| EAnd (a b : expr) | EOr (a b : expr) | ENot (a : expr)
| EAdd (a b : expr)
| ECase (whens : list (expr * expr)) (els : option expr)        (* searched CASE *)
| ECoalesce (args : list expr)
| EIfNull (a b : expr).

Definition env := nat -> value.

Definition vbool (b : bool) : value := VInt (if b then 1 else 0).
Definition value_eqb (a b : value) : bool :=
  match a, b with
  | VInt x, VInt y => Z.eqb x y
  | VText x, VText y => Nat.eqb x y
  | VNull, VNull => true
  | _, _ => false
  end.
(* truthiness of a WHEN / WHERE condition: NULL and 0 are not true; text is not true (SQLite: non-numeric text casts to 0) *)
Definition truthy (v : value) : bool := match v with VInt z => negb (Z.eqb z 0) | _ => false end.
(* three-valued view of a value used as a boolean operand *)
Definition tv (v : value) : option bool := match v with VNull => None | VInt z => Some (negb (Z.eqb z 0)) | VText _ => Some false end.

Fixpoint eval (rho : env) (e : expr) : value :=
  match e with
  | ELit v => v
  | ECol n => rho n
  | EEq a b => match eval rho a, eval rho b with
               | VNull, _ | _, VNull => VNull
               | x, y => vbool (value_eqb x y)
               end
  | ENe a b => match eval rho a, eval rho b with
               | VNull, _ | _, VNull => VNull
               | x, y => vbool (negb (value_eqb x y))
               end
  | EIsNull a => match eval rho a with VNull => vbool true | _ => vbool false end
  | EAnd a b => match tv (eval rho a), tv (eval rho b) with
                | Some false, _ | _, Some false => vbool false
                | Some true, Some true => vbool true
                | _, _ => VNull
                end
  | EOr a b => match tv (eval rho a), tv (eval rho b) with
               | Some true, _ | _, Some true => vbool true
               | Some false, Some false => vbool false
               | _, _ => VNull
               end
  | ENot a => match tv (eval rho a) with Some b => vbool (negb b) | None => VNull end
  | EAdd a b => match eval rho a, eval rho b with
                | VInt x, VInt y => VInt (x + y)
                | VNull, _ | _, VNull => VNull
                | _, _ => VNull
                end
  | ECase whens els =>
      (fix go (ws : list (expr * expr)) : value :=
         match ws with
         | [] => match els with Some e' => eval rho e' | None => VNull end
         | (c, r) :: rest => if truthy (eval rho c) then eval rho r else go rest
         end) whens
  | ECoalesce args =>
      (fix go (l : list expr) : value :=
         match l with
         | [] => VNull
         | a :: rest => match eval rho a with VNull => go rest | v => v end
         end) args
  | EIfNull a b => match eval rho a with VNull => eval rho b | v => v end
  end.

(* ---- the rewrites, as functions on the tree (applied at the root; the rules apply them wherever the pattern occurs) *)
Definition is_null_lit (e : expr) : bool := match e with ELit VNull => true | _ => false end.

(* ST01: CASE ... ELSE NULL END -> CASE ... END *)
Definition st01 (e : expr) : expr :=
  match e with
  | ECase ws (Some e') => if is_null_lit e' then ECase ws None else e
  | _ => e
  end.

Fixpoint expr_eqb (a b : expr) : bool :=
  match a, b with
  | ECol x, ECol y => Nat.eqb x y
  | ELit x, ELit y => value_eqb x y
  | _, _ => false                      (* ST02 only fires on simple column / literal operands in this model *)
  end.

(* ST02: CASE WHEN x IS NULL THEN y ELSE x END -> COALESCE(x, y) *)
Definition st02 (e : expr) : expr :=
  match e with
  | ECase [(EIsNull x, y)] (Some x') => if expr_eqb x x' then ECoalesce [x; y] else e
  | _ => e
  end.

(* ST04: CASE WHEN c1 THEN r1 ... ELSE CASE WHEN c2 THEN r2 ... [ELSE r3] END END -> one flat CASE *)
Definition st04 (e : expr) : expr :=
  match e with
  | ECase ws (Some (ECase ws2 els2)) => ECase (ws ++ ws2) els2
  | _ => e
  end.

(* CV02: IFNULL(a, b) / NVL(a, b) -> COALESCE(a, b) *)
Definition cv02 (e : expr) : expr :=
  match e with EIfNull a b => ECoalesce [a; b] | _ => e end.
