(* Model of the parse-tree serialisers (core/parser/segments/base.py, raw.py, meta.py):
     BaseSegment.raw / raw_segments / get_raw_segments / is_code,
     BaseSegment.to_tuple (+ the TemplateSegment.to_tuple override),
     BaseSegment.structural_simplify, BaseSegment.as_record,
     BaseSegment.stringify / RawSegment.stringify (the human format of `sqlfluff parse`).
   Executable definitions only.  Ordered Python dicts are association lists (insertion order, `d[k] = v` keeps the slot of
   an existing key). *)
From SF Require Import Base.Prelude.

(* PositionMarker.to_source_dict(): an ordered dict str -> int (six entries in the real code). *)
Definition posd := list (text * Z).

(* ---------------------------------------------------------------------------------------------------------------------
   Segments.  get_type() is abstracted to the field `ty`.
   SRaw : RawSegment that is not a MetaSegment: no children, `raw`, class flag _is_code, is_type("comment").
   SMeta: MetaSegment (Indent/Dedent/EndOfFile/TemplateLoop/TemplateSegment): raw = "", _is_code = False, is_meta = True;
          src = Some source_str for TemplateSegment (which overrides to_tuple), None for the other metas.
   SNode: BaseSegment with a `segments` tuple (class flag comment_separate, is_type("comment")).
   pos  : Some (pos_marker.to_source_dict()) when pos_marker is truthy, None otherwise. *)
Inductive seg :=
| SRaw (ty raw : text) (code cmt : bool) (pos : option posd)
| SMeta (ty : text) (src : option text) (pos : option posd)
| SNode (ty : text) (csep cmt : bool) (pos : option posd) (segs : list seg).

Definition seg_type (s : seg) : text :=
  match s with SRaw ty _ _ _ _ => ty | SMeta ty _ _ => ty | SNode ty _ _ _ _ => ty end.
Definition is_meta (s : seg) : bool := match s with SMeta _ _ _ => true | _ => false end.
Definition is_cmt (s : seg) : bool :=
  match s with SRaw _ _ _ c _ => c | SMeta _ _ _ => false | SNode _ _ c _ _ => c end.

(* BaseSegment.is_code: any child is code; RawSegment.is_code: the class flag. *)
Fixpoint is_code (s : seg) : bool :=
  match s with
  | SRaw _ _ c _ _ => c
  | SMeta _ _ _ => false
  | SNode _ _ _ _ segs => existsb is_code segs
  end.

(* BaseSegment.raw: "".join(seg.raw for seg in self.segments); RawSegment.raw: self._raw ("" for metas). *)
Fixpoint raw_of (s : seg) : text :=
  match s with
  | SRaw _ raw _ _ _ => raw
  | SMeta _ _ _ => []
  | SNode _ _ _ _ segs => concat (map raw_of segs)
  end.

(* BaseSegment.raw_segments / get_raw_segments: extend over children; RawSegment: [self]. *)
Fixpoint raw_segments (s : seg) : list seg :=
  match s with
  | SNode _ _ _ _ segs => flat_map raw_segments segs
  | _ => [s]
  end.

(* ---------------------------------------------------------------------------------------------------------------------
   TupleSerialisedSegment: (key, str) | (key, tuple of children), optionally with a position dict as third element. *)
Inductive tup :=
| TStr (k s : text) (p : option posd)
| TTup (k : text) (cs : list tup) (p : option posd).

(* `if include_position and self.pos_marker` *)
Definition with_pos (ip : bool) (p : option posd) : option posd := if ip then p else None.

Definition is_nil {A} (l : list A) : bool := match l with [] => true | _ => false end.

(* to_tuple(code_only, show_raw, include_meta, include_position) *)
Fixpoint to_tuple (co sr im ip : bool) (s : seg) : tup :=
  match s with
  | SRaw ty raw _ _ p =>
      (* `show_raw and not self.segments`; otherwise both loops run over the empty `segments` tuple *)
      if sr then TStr ty raw (with_pos ip p) else TTup ty [] (with_pos ip p)
  | SMeta ty (Some src) p =>
      (* TemplateSegment.to_tuple: (get_type(), source_str) whatever the flags *)
      TStr ty src (with_pos ip p)
  | SMeta ty None p =>
      if sr then TStr ty [] (with_pos ip p) else TTup ty [] (with_pos ip p)
  | SNode ty _ _ p segs =>
      if sr && is_nil segs then TStr ty (concat (map raw_of segs)) (with_pos ip p)
      else if co then
        TTup ty (flat_map (fun c => if is_code c && negb (is_meta c) then [to_tuple co sr im ip c] else []) segs)
             (with_pos ip p)
      else
        TTup ty (flat_map (fun c => if im || negb (is_meta c) then [to_tuple co sr im ip c] else []) segs)
             (with_pos ip p)
  end.

(* ---------------------------------------------------------------------------------------------------------------------
   RecordSerialisedSegment: dict str -> None | str | int | record | list of records. *)
Inductive rval :=
| RNone
| RStr (s : text)
| RInt (z : Z)
| RDict (d : list (text * rval))
| RList (l : list (list (text * rval))).
Definition record := list (text * rval).

(* d[k] = v on an insertion-ordered dict *)
Fixpoint dict_set (d : record) (k : text) (v : rval) : record :=
  match d with
  | [] => [(k, v)]
  | (k', v') :: r => if text_eqb k' k then (k', v) :: r else (k', v') :: dict_set r k v
  end.

(* result.update(position) *)
Definition dict_update_pos (d : record) (p : posd) : record :=
  fold_left (fun acc kz => dict_set acc (fst kz) (RInt (snd kz))) p d.

(* for k, v in record.items(): content_dict[k] = v *)
Definition dict_update (d r : record) : record :=
  fold_left (fun acc kv => dict_set acc (fst kv) (snd kv)) r d.

Definition dict_keys (d : record) : list text := map fst d.

Fixpoint nodupb (l : list text) : bool :=
  match l with
  | [] => true
  | x :: r => negb (existsb (text_eqb x) r) && nodupb r
  end.

(* result = {}; if position is not None: result.update(position) *)
Definition result0 (p : option posd) : record :=
  match p with None => [] | Some d => dict_update_pos [] d end.

(* structural_simplify on a well-typed tuple (the three asserts hold by typing; see simplify_pv below for the asserts). *)
Fixpoint simplify (t : tup) : record :=
  match t with
  | TStr k s p => dict_set (result0 p) k (RStr s)
  | TTup k cs p =>
      match cs with
      | [] => dict_set (result0 p) k RNone
      | _ =>
          let contents := map simplify cs in
          let subkeys := flat_map dict_keys contents in
          (* `len(set(subkeys)) != len(subkeys)`: some key occurs twice *)
          if negb (nodupb subkeys) then dict_set (result0 p) k (RList contents)
          else dict_set (result0 p) k (RDict (fold_left dict_update contents []))
      end
  end.

(* as_record(kwargs) = structural_simplify(to_tuple(kwargs)) *)
Definition as_record (co sr im ip : bool) (s : seg) : record := simplify (to_tuple co sr im ip s).

(* ---------------------------------------------------------------------------------------------------------------------
   structural_simplify on arbitrary Python values built from str / tuple / dict(str->int) / None / int, with its asserts.
   Only tuple-shaped `elem`s are in scope (Err EValue = outside the modelled scope, never generated by the harness). *)
Inductive pv := PStr (s : text) | PTup (l : list pv) | PDict (d : posd) | PNone | PInt (z : Z).

Definition seq_res {A} (l : list (res A)) : res (list A) :=
  fold_right (fun r acc => do x <- r; do xs <- acc; Ok (x :: xs)) (Ok []) l.

Fixpoint simplify_pv (e : pv) : res record :=
  match e with
  | PTup l =>
      let go (key value : pv) (position : option pv) : res record :=
        match key with
        | PStr k =>                                          (* assert isinstance(key, str) *)
            do result <- match position with
                         | None | Some PNone => Ok []
                         | Some (PDict d) => Ok (dict_update_pos [] d)
                         | Some _ => Err EValue
                         end;
            match value with
            | PStr s => Ok (dict_set result k (RStr s))
            | PTup vs =>                                     (* assert isinstance(value, tuple) *)
                match vs with
                | [] => Ok (dict_set result k RNone)
                | _ =>
                    do contents <- seq_res (map simplify_pv vs);
                    if negb (nodupb (flat_map dict_keys contents)) then Ok (dict_set result k (RList contents))
                    else Ok (dict_set result k (RDict (fold_left dict_update contents [])))
                end
            | _ => Err EAssert
            end
        | _ => Err EAssert
        end in
      match l with                                           (* assert len(elem) in (2, 3) *)
      | [key; value] => go key value None
      | [key; value; position] => go key value (Some position)
      | _ => Err EAssert
      end
  | _ => Err EValue
  end.

Definition embed_pos (p : option posd) : list pv := match p with None => [] | Some d => [PDict d] end.
Fixpoint embed (t : tup) : pv :=
  match t with
  | TStr k s p => PTup (PStr k :: PStr s :: embed_pos p)
  | TTup k cs p => PTup (PStr k :: PTup (map embed cs) :: embed_pos p)
  end.

(* ---------------------------------------------------------------------------------------------------------------------
   Generic in-order traversals, used to state what a serialised form "contains".
   leaf k s: a token (string-valued entry); node k l: a container whose children produced l.
   On records, int-valued entries (positions) contribute nothing and None is an empty container. *)
Section Trav.
  Variable B : Type.
  Variable leaf : text -> text -> list B.
  Variable node : text -> list B -> list B.

  Fixpoint trav_tup (t : tup) : list B :=
    match t with
    | TStr k s _ => leaf k s
    | TTup k cs _ => node k (flat_map trav_tup cs)
    end.

  Fixpoint trav_val (k : text) (v : rval) : list B :=
    match v with
    | RNone => node k []
    | RStr s => leaf k s
    | RInt _ => []
    | RDict d => node k (flat_map (fun kv => let '(k', v') := kv in trav_val k' v') d)
    | RList l => node k (flat_map (fun d => flat_map (fun kv => let '(k', v') := kv in trav_val k' v') d) l)
    end.

  Definition trav_rec (r : record) : list B := flat_map (fun kv => let '(k, v) := kv in trav_val k v) r.
End Trav.

(* tokens (type, text) in order *)
Definition tok := (text * text)%type.
Definition leaves_tup : tup -> list tok := trav_tup tok (fun k s => [(k, s)]) (fun _ l => l).
Definition leaves_rec : record -> list tok := trav_rec tok (fun k s => [(k, s)]) (fun _ l => l).

(* tokens with the type path from the root (own type last) *)
Definition ptok := (list text * text)%type.
Definition push (k : text) (l : list ptok) : list ptok := map (fun pt => (k :: fst pt, snd pt)) l.
Definition paths_tup : tup -> list ptok := trav_tup ptok (fun k s => [([k], s)]) push.
Definition paths_rec : record -> list ptok := trav_rec ptok (fun k s => [([k], s)]) push.

(* the tuple a record stands for (positions forgotten) *)
Fixpoint erase_pos (t : tup) : tup :=
  match t with
  | TStr k s _ => TStr k s None
  | TTup k cs _ => TTup k (map erase_pos cs) None
  end.
Definition untuple : record -> list tup := trav_rec tup (fun k s => [TStr k s None]) (fun k l => [TTup k l None]).

Definition texts (l : list tok) : text := concat (map snd l).

(* the same on segment trees: every raw segment with its ancestor type path *)
Fixpoint paths_seg (s : seg) : list (list text * seg) :=
  match s with
  | SNode ty _ _ _ segs => map (fun pr => (ty :: fst pr, snd pr)) (flat_map paths_seg segs)
  | _ => [([seg_type s], s)]
  end.

(* every BaseSegment has at least one child (BaseSegment.__init__ raises on an empty tuple) *)
Fixpoint nonempty_nodes (s : seg) : bool :=
  match s with
  | SNode _ _ _ _ segs => negb (is_nil segs) && forallb nonempty_nodes segs
  | _ => true
  end.

Definition is_node (s : seg) : bool := match s with SNode _ _ _ _ _ => true | _ => false end.

(* metas are recognisable by type: mt holds exactly of the types of meta segments *)
Fixpoint meta_typed (mt : text -> bool) (s : seg) : bool :=
  match s with
  | SRaw ty _ _ _ _ => negb (mt ty)
  | SMeta ty _ _ => mt ty
  | SNode ty _ _ _ segs => negb (mt ty) && forallb (meta_typed mt) segs
  end.

(* ---------------------------------------------------------------------------------------------------------------------
   Human format: one line per segment (BaseSegment._preface), `Comments:` / `Code:` headers under comment_separate.
   HSeg ident is_meta type (Some raw for RawSegment._suffix = repr(raw); None otherwise). *)
Inductive hline :=
| HSeg (ident : nat) (meta : bool) (ty : text) (leaf : option text)
| HHdr (ident : nat) (comments : bool).

Fixpoint stringify (ident : nat) (co : bool) (s : seg) : list hline :=
  match s with
  | SRaw ty raw _ _ _ => [HSeg ident false ty (Some raw)]
  | SMeta ty _ _ => [HSeg ident true ty None]
  | SNode ty csep _ _ segs =>
      HSeg ident false ty None ::
      (if negb co && csep && negb (is_nil (filter is_cmt segs)) then
         (* `if self._comments:` is true here *)
         (HHdr (ident + 1) true :: flat_map (fun c => if is_cmt c then stringify (ident + 2) co c else []) segs)
         ++ (if negb (is_nil (filter (fun c => negb (is_cmt c)) segs)) then
               HHdr (ident + 1) false :: flat_map (fun c => if negb (is_cmt c) then stringify (ident + 2) co c else []) segs
             else [])
       else flat_map (fun c => if negb co || is_code c then stringify (ident + 1) co c else []) segs)
  end.

Definition hleaves (l : list hline) : list tok :=
  flat_map (fun h => match h with HSeg _ _ ty (Some raw) => [(ty, raw)] | _ => [] end) l.

Definition seg_tok (s : seg) : tok := (seg_type s, raw_of s).

(* some comment_separate node has a direct comment child *)
Fixpoint separates (s : seg) : bool :=
  match s with
  | SNode _ csep _ _ segs => (csep && negb (is_nil (filter is_cmt segs))) || existsb separates segs
  | _ => false
  end.
