(* Model of RuleSet.rule_reference_map, _expand_rule_refs and the allow/deny filter of get_rulepack (core/rules/base.py),
   and of split_comma_separated_string (core/helpers/string.py). *)
From SF Require Import Base.Prelude Model.Glob.

Record manifest := mkM { m_code : text; m_name : text; m_groups : list text; m_aliases : list text }.
Definition register := list manifest.

Definition tmem (x : text) (l : list text) : bool := existsb (text_eqb x) l.

Definition codes (reg : register) : list text := map m_code reg.
Definition is_code reg k := tmem k (codes reg).
Definition is_name reg k := existsb (fun m => negb (match m_name m with [] => true | _ => false end) && text_eqb (m_name m) k) reg.

(* rule_reference_map as a lookup function: codes > names > groups > aliases *)
Definition last_code_named (reg : register) (k : text) : list text :=
  match rev (filter (fun m => text_eqb (m_name m) k) reg) with m :: _ => [m_code m] | [] => [] end.
Definition codes_in_group reg k := map m_code (filter (fun m => tmem k (m_groups m)) reg).
Definition codes_with_alias reg k := map m_code (filter (fun m => tmem k (m_aliases m)) reg).

Definition lookup (reg : register) (k : text) : option (list text) :=
  if is_code reg k then Some [k]
  else if is_name reg k then Some (last_code_named reg k)
  else match codes_in_group reg k with
       | (_ :: _) as cs => Some cs
       | [] => match codes_with_alias reg k with
               | (_ :: _) as cs => Some cs
               | [] => None
               end
       end.

Definition keys (reg : register) : list text :=
  codes reg ++ map m_name (filter (fun m => match m_name m with [] => false | _ => true end) reg)
  ++ concat (map m_groups reg) ++ concat (map m_aliases reg).

Definition odflt (o : option (list text)) : list text := match o with Some l => l | None => [] end.

(* _expand_rule_refs *)
Definition expand1 (reg : register) (r : text) : list text :=
  match lookup reg r with
  | Some cs => cs
  | None => concat (map (fun k => if fnmatch k r then odflt (lookup reg k) else []) (keys reg))
  end.
Definition expand (reg : register) (refs : list text) : list text := concat (map (expand1 reg) refs).

(* the filter of get_rulepack; an empty allowlist means every rule *)
Definition select (reg : register) (allow deny : list text) : list text :=
  let allow' := match allow with [] => codes reg | _ => allow end in
  let ea := expand reg allow' in
  let ed := expand reg deny in
  filter (fun c => tmem c ea && negb (tmem c ed)) (codes reg).

(* ---- split_comma_separated_string: split on ",", strip, drop empties ---- *)
Definition c_comma : N := 44.
Definition is_ws (c : N) : bool := N.eqb c 32 || ((9 <=? c)%N && (c <=? 13)%N) || ((28 <=? c)%N && (c <=? 31)%N) || N.eqb c 133 || N.eqb c 160.
Fixpoint lstrip (s : text) : text := match s with c :: r => if is_ws c then lstrip r else s | [] => [] end.
Definition strip (s : text) : text := rev (lstrip (rev (lstrip s))).
Fixpoint split_on (sep : N) (s : text) (cur : text) : list text :=
  match s with
  | [] => [rev cur]
  | c :: r => if N.eqb c sep then rev cur :: split_on sep r [] else split_on sep r (c :: cur)
  end.
Definition split_commas (s : text) : list text :=
  filter (fun x => match x with [] => false | _ => true end) (map strip (split_on c_comma s [])).

(* ---- well-formedness of a register: what makes "matching" the naive reading ---- *)
Definition registry_ok (reg : register) : bool :=
  (* codes are unique *)
  (fix nodup (l : list text) := match l with [] => true | x :: r => negb (tmem x r) && nodup r end) (codes reg)
  (* no key contains a glob metacharacter *)
  && forallb (fun k => negb (has_meta k)) (keys reg)
  (* no name / group / alias is shadowed by a higher-priority key: each resolves to its own rule(s) *)
  && forallb (fun m => tmem (m_code m) (odflt (lookup reg (m_name m)))
                       && forallb (fun g => tmem (m_code m) (odflt (lookup reg g))) (m_groups m)
                       && forallb (fun a => tmem (m_code m) (odflt (lookup reg a))) (m_aliases m)) reg
  (* every rule is in the group `all` *)
  && forallb (fun m => tmem [97; 108; 108]%N (m_groups m)) reg.
