(* Model of the capitalisation rules CP01..CP05 (src/sqlfluff/rules/capitalisation/CP01.py: Rule_CP01._handle_segment, _get_fix;
   CP02..CP05 inherit _handle_segment and only differ in which segments they hand to it and in the list of valid policies).

   Text is a list of code points.  The case functions are the ASCII ones: for code points >= 128 the model leaves the
   character unchanged, whereas Python's str.upper/lower/capitalize/isupper know Unicode.  The two regular expressions of the
   pascal / camel transforms only mention [a-zA-Z0-9], so those two transforms are modelled exactly for ALL code points; the
   others (upper, lower, capitalise, snake, the refuted-cases inference) exactly for ASCII text (correspondence scope). *)
From SF Require Import Base.Prelude.

Local Open Scope N_scope.

Definition is_upper (c : cp) : bool := (65 <=? c) && (c <=? 90).
Definition is_lower (c : cp) : bool := (97 <=? c) && (c <=? 122).
Definition is_digit (c : cp) : bool := (48 <=? c) && (c <=? 57).
Definition is_alpha (c : cp) : bool := is_upper c || is_lower c.
Definition is_alnum (c : cp) : bool := is_alpha c || is_digit c.          (* the regex class [a-zA-Z0-9] *)

Definition up (c : cp) : cp := if is_lower c then c - 32 else c.
Definition lo (c : cp) : cp := if is_upper c then c + 32 else c.

(* str.upper(), str.lower(), str.capitalize() *)
Definition upper (s : text) : text := map up s.
Definition lower (s : text) : text := map lo s.
Definition capitalise (s : text) : text := match s with [] => [] | c :: r => up c :: lower r end.

(* regex.sub(P, lambda m: m.group(1) + F(m.group(2)) + m.group(3), raw)  with the pattern
       P = ( [^a-zA-Z0-9]+ | ^ ) ( [a-zA-Z0-9] ) ( [a-zA-Z0-9]* )          (written here with spaces between the three groups)
   A match starts at the beginning of the string or at a run of non-alphanumerics that is followed by an alphanumeric, and then
   swallows the complete alphanumeric run; so exactly the first character of every maximal [a-zA-Z0-9] run is rewritten by F.
   Scanner: [prev] = the previous character was alphanumeric. *)
Fixpoint runs_first (f : cp -> cp) (prev : bool) (s : text) : text :=
  match s with
  | [] => []
  | c :: r => (if is_alnum c && negb prev then f c else c) :: runs_first f (is_alnum c) r
  end.
Definition pascal (s : text) : text := runs_first up false s.
Definition camel (s : text) : text := runs_first lo false s.

(* str.isupper(): at least one cased character and no lower-case one *)
Definition str_isupper (s : text) : bool := existsb is_upper s && negb (existsb is_lower s).

(* regex.sub(Q, lambda m: '_' + m.group(), raw)  with the pattern
       Q = (?<=[a-z0-9])([A-Z]) | (?<=[A-Za-z])([0-9]) | (?<=[0-9])([A-Za-z])
   every match is one character, the look-behinds read the ORIGINAL string, so: an underscore (95) is put in front of c when
   the character before it makes one of the three alternatives match. *)
Definition snake_gap (p c : cp) : bool :=
  (is_upper c && (is_lower p || is_digit p)) || (is_digit c && is_alpha p) || (is_alpha c && is_digit p).
Fixpoint snake_ins (prev : option cp) (s : text) : text :=
  match s with
  | [] => []
  | c :: r => (if match prev with Some p => snake_gap p c | None => false end then [95; c] else [c]) ++ snake_ins (Some c) r
  end.
Definition snake (s : text) : text := if str_isupper s then lower s else lower (snake_ins None s).

Close Scope N_scope.

(* ------------------------------------------------------------------------------------------------------------------ *)
Inductive policy := PUpper | PLower | PCapitalise | PPascal | PCamel | PSnake.
Inductive cap_policy := Consistent | Explicit (p : policy).

Definition policy_eqb (a b : policy) : bool :=
  match a, b with
  | PUpper, PUpper | PLower, PLower | PCapitalise, PCapitalise | PPascal, PPascal | PCamel, PCamel | PSnake, PSnake => true
  | _, _ => false
  end.
Definition pmem (p : policy) (l : list policy) : bool := existsb (policy_eqb p) l.

(* the if/elif chain under the comment: We need to change the segment to match the concrete policy *)
Definition apply_policy (p : policy) (s : text) : text :=
  match p with
  | PUpper => upper s | PLower => lower s | PCapitalise => capitalise s
  | PPascal => pascal s | PCamel => camel s | PSnake => snake s
  end.

(* The policies that only change letter case. *)
Definition case_only_policy (p : policy) : bool := match p with PSnake => false | _ => true end.
(* The ones the `consistent` inference can ever choose. *)
Definition basic_policy (p : policy) : bool := match p with PUpper | PLower | PCapitalise => true | _ => false end.

(* context.memory: refuted_cases (a Python set; here a list used through pmem only) and latest_possible_case. *)
Record memory := mkMem { refuted : list policy; latest : option policy }.
Definition mem0 : memory := mkMem [] None.

(* for character in raw: if is_capitalizable(character): first_letter_is_lowercase = character != character.upper(); break *)
Fixpoint first_letter_is_lowercase (s : text) : bool :=
  match s with
  | [] => false
  | c :: r => if is_alpha c then is_lower c else first_letter_is_lowercase r
  end.

Definition refute (raw : text) (r0 : list policy) : list policy :=
  let r1 := [PCamel; PPascal; PSnake] ++ r0 in
  if first_letter_is_lowercase raw then
    let r2 := [PUpper; PCapitalise] ++ r1 in
    if negb (text_eqb raw (lower raw)) then PLower :: r2 else r2
  else
    let r2 := PLower :: r1 in
    let r3 := if negb (text_eqb raw (upper raw)) then PUpper :: r2 else r2 in
    if negb (text_eqb raw (capitalise raw)) then PCapitalise :: r3 else r3.

(* Result of _handle_segment: the new memory, and (when a LintResult with a fix is returned) the concrete policy and the
   fixed raw.  [cap] / [opts]: cap_policy and cap_policy_opts (valid options minus consistent, in configuration order);
   [skip]: the three early returns (ignore_words, ignore_words_regex, templated with ignore_templated_areas) as one predicate. *)
Definition handle_segment (cap : cap_policy) (opts : list policy) (skip : text -> bool) (m : memory) (raw : text)
  : memory * option (policy * text) :=
  if skip raw then (m, None) else
  match raw with [] => (m, None) | _ =>
    let rc := refute raw (refuted m) in
    let decide (m' : memory) (concrete : policy) :=
      let fixed := apply_policy concrete raw in
      if text_eqb fixed raw then (m', None) else (m', Some (concrete, fixed)) in
    match cap with
    | Consistent =>
        match filter (fun c => negb (pmem c rc)) opts with
        | c :: _ => (mkMem rc (Some c), None)
        | [] => decide (mkMem rc (latest m)) (match latest m with Some c => c | None => PUpper end)
        end
    | Explicit p =>
        if negb (pmem p rc) then (mkMem rc (latest m), None) else decide (mkMem rc (latest m)) p
    end
  end.

(* ------------------------------------------------------------------------------------------------------------------ *)
(* One crawl of one CP rule over the raw tokens of a file, and the fix loop.
   A token is (kind, raw).  [target] says whether the crawler + _eval hand the token to _handle_segment (segment type in the
   rule's crawl set, parent not excluded, identifier policy applicable, ...): it may look at the token's position, kind and
   raw.  Each result carries the single fix  LintFix.replace(segment, [segment.edit(fixed_raw)])  (_get_fix): the anchor is
   replaced by a copy of itself that differs in `raw` only; all fixes of a crawl have distinct anchors, so applying them is
   a point-wise replacement. *)
Record token := mkTok { t_kind : nat; t_raw : text }.

Fixpoint crawl (cap : cap_policy) (opts : list policy) (skip : text -> bool) (target : nat -> token -> bool)
         (i : nat) (m : memory) (toks : list token) : list token :=
  match toks with
  | [] => []
  | t :: r =>
      if target i t then
        let '(m', fx) := handle_segment cap opts skip m (t_raw t) in
        (match fx with Some (_, raw') => mkTok (t_kind t) raw' | None => t end) :: crawl cap opts skip target (S i) m' r
      else t :: crawl cap opts skip target (S i) m r
  end.

Definition fix_pass cap opts skip target (toks : list token) : list token := crawl cap opts skip target 0 mem0 toks.

(* the linter's fix loop: at most [loops] passes (runaway_limit), memory starts empty in every pass *)
Fixpoint fix_loop cap opts skip target (loops : nat) (toks : list token) : list token :=
  match loops with
  | 0 => toks
  | S k => fix_loop cap opts skip target k (fix_pass cap opts skip target toks)
  end.

(* the per-step trace used by the correspondence: for every raw handed to _handle_segment, the fix (if any) and the memory *)
Fixpoint trace (cap : cap_policy) (opts : list policy) (skip : text -> bool) (m : memory) (raws : list text)
  : list (option (policy * text) * (list bool * option policy)) :=
  match raws with
  | [] => []
  | raw :: r =>
      let '(m', fx) := handle_segment cap opts skip m raw in
      (fx, (map (fun p => pmem p (refuted m')) [PUpper; PLower; PCapitalise; PPascal; PCamel; PSnake], latest m'))
        :: trace cap opts skip m' r
  end.

(* ignore_words: segment.raw.lower() in ignore_words_list *)
Definition skip_words (words : list text) (raw : text) : bool := existsb (text_eqb (lower raw)) words.

(* differs only by inserted underscores and letter case (what snake does): equal after lower-casing and dropping underscores *)
Definition drop_us (s : text) : text := filter (fun c => negb (N.eqb c 95)) s.
