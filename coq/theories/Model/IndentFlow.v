(* Static indent-balance analysis of a dialect grammar (C03, "programs" quantifier).
   A grammar is abstracted to what matters for indentation markers: which Indent (+1) / Dedent (-1) metas a COMPLETE match of it
   inserts.  `nets` computes, relative to a table giving the possible net indents of every named element, the set of possible net
   indents of a term; a table that is closed under one unfolding of every definition is an invariant of all (finite) derivations
   (Proofs/IndentFlowP.v).  Conditional metas depend on the indentation config: the analysis is run for every valuation of the
   config keys the dialect mentions. *)
From SF Require Import Base.Prelude.

Inductive g :=
| GLeaf                                   (* terminals, Anything, Nothing, non-code: no metas *)
| GMeta (v : Z)                           (* Indent / ImplicitIndent = +1, Dedent = -1, other metas = 0 *)
| GCond (conds : list (N * bool)) (v : Z) (* Conditional(meta, key=value, ...): present iff every key has that value *)
| GRef (n : N)
| GSeq (l : list g)                       (* Sequence (optional elements are GAlt [x; GSeq []]); Bracketed = Indent, content, Dedent *)
| GAlt (l : list g)                       (* OneOf, optional *)
| GStar (l : list g).                     (* AnyNumberOf, AnySetOf, Delimited: any number of matches of any option *)

Definition valuation := N -> bool.
Definition table := list (N * list Z).     (* sparse: names not listed have {0} *)

Definition tbl_get (t : table) (n : N) : list Z :=
  match find (fun e => N.eqb (fst e) n) t with Some e => snd e | None => [0%Z] end.

Definition zmem (z : Z) (l : list Z) : bool := existsb (Z.eqb z) l.
Definition zadd_set (a b : list Z) : list Z :=
  fold_right (fun x acc => if zmem x acc then acc else x :: acc) [] (flat_map (fun x => map (Z.add x) b) a).
Definition zunion (a b : list Z) : list Z := fold_right (fun x acc => if zmem x acc then acc else x :: acc) b a.
Definition all_zero (l : list Z) : bool := forallb (Z.eqb 0) l.
Definition cond_on (val : valuation) (conds : list (N * bool)) : bool := forallb (fun kv => Bool.eqb (val (fst kv)) (snd kv)) conds.

(* None = unbounded (a repeated element with a non-zero net) *)
Fixpoint nets (t : table) (val : valuation) (x : g) : option (list Z) :=
  match x with
  | GLeaf => Some [0%Z]
  | GMeta v => Some [v]
  | GCond conds v => Some [if cond_on val conds then v else 0%Z]
  | GRef n => Some (tbl_get t n)
  | GSeq l => (fix go (l : list g) : option (list Z) :=
                 match l with
                 | [] => Some [0%Z]
                 | y :: r => match nets t val y, go r with Some a, Some b => Some (zadd_set a b) | _, _ => None end
                 end) l
  | GAlt l => (fix go (l : list g) : option (list Z) :=
                 match l with
                 | [] => Some []
                 | y :: r => match nets t val y, go r with Some a, Some b => Some (zunion a b) | _, _ => None end
                 end) l
  | GStar l => (fix go (l : list g) : option (list Z) :=
                  match l with
                  | [] => Some [0%Z]
                  | y :: r => match nets t val y, go r with
                              | Some a, Some b => if all_zero a then Some b else None
                              | _, _ => None
                              end
                  end) l
  end.

Definition subset (a b : list Z) : bool := forallb (fun x => zmem x b) a.

(* the certificate check for one valuation: every definition, unfolded once over the table, stays inside its table entry; the root is
   balanced *)
Definition check (env : list (N * g)) (t : table) (val : valuation) (root : N) : bool :=
  forallb (fun d => match nets t val (snd d) with Some s => subset s (tbl_get t (fst d)) | None => false end) env
  && all_zero (tbl_get t root) && negb (match tbl_get t root with [] => true | _ => false end).

Definition val_of (ons : list N) : valuation := fun k => existsb (N.eqb k) ons.
