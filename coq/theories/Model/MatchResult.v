(* Model of core/parser/match_result.py: MatchResult (append, wrap, apply) and BaseFileSegment.root_parse's assembly.
   Tokens are INDICES into the lexed token tuple, so dropping, duplicating or reordering a token is visible even when texts are
   equal.  Segment classes and meta classes are abstract ids. *)
From SF Require Import Base.Prelude Base.Sort.

Inductive mr := MR (s e : nat) (c : option nat) (ins : list (nat * nat)) (ch : list mr).

Definition mstart (m : mr) := match m with MR s _ _ _ _ => s end.
Definition mstop (m : mr) := match m with MR _ e _ _ _ => e end.
Definition mcls (m : mr) := match m with MR _ _ c _ _ => c end.
Definition mins (m : mr) := match m with MR _ _ _ i _ => i end.
Definition mch (m : mr) := match m with MR _ _ _ _ ch => ch end.
Definition mlen (m : mr) := mstop m - mstart m.

Definition is_nil {A} (l : list A) : bool := match l with [] => true | _ => false end.

(* MatchResult.__bool__ *)
Definition truthy (m : mr) : bool := (0 <? mlen m) || negb (is_nil (mins m)).
Definition is_better_than (a b : mr) : bool := mlen b <? mlen a.
Definition empty_at (i : nat) : mr := MR i i None [] [].

(* the dataclass constructor with __post_init__'s assertions *)
Definition mk (s e : nat) (c : option nat) (ins : list (nat * nat)) (ch : list mr) : res mr :=
  if (e - s =? 0) && (match c with Some _ => true | None => false end || negb (is_nil ch)) then Err EAssert
  else Ok (MR s e c ins ch).

Definition append (a b : mr) (extra : list (nat * nat)) : res mr :=
  if (mlen a =? 0) && is_nil (mins a) then Ok b
  else if (mlen b =? 0) && is_nil (mins b) then Ok a
  else if mstop a <=? mstart b then
    let part (m : mr) := match mcls m with Some _ => ([], [m]) | None => (mins m, mch m) end in
    mk (mstart a) (mstop b) None (extra ++ fst (part a) ++ fst (part b)) (snd (part a) ++ snd (part b))
  else Err EAssert.

Definition wrap (m : mr) (outer : nat) (extra : list (nat * nat)) : res mr :=
  if (mlen m =? 0) && is_nil (mins m) then (if is_nil extra then Ok m else Err EAssert)
  else match mcls m with
       | Some _ => mk (mstart m) (mstop m) (Some outer) extra [m]
       | None => mk (mstart m) (mstop m) (Some outer) (mins m ++ extra) (mch m)
       end.

(* ---- apply *)
Inductive tree := Tok (i : nat) | Meta (m pos : nat) | Node (c : nat) (l : list tree).

Definition toks (from len : nat) : list tree := map Tok (seq from len).

(* _get_point_pos_at_idx: position before token k, or after token k-1 when k = n; IndexError otherwise *)
Definition point_ok (n k : nat) : bool := (k <? n) || ((0 <? k) && (k <=? n)).

Inductive trig := TIns (m : nat) | TChild (stop : nat) (r : res (list tree)).

Definition key_leb (a b : nat * trig) : bool := fst a <=? fst b.

(* the loop `for idx in sorted(trigger_locs): ... for trigger in trigger_locs[idx]` over the stably sorted (idx, trigger) list;
   `prev` is the key of the group being processed: the gap / skip-ahead test runs once per key *)
Fixpoint walk (n : nat) (prev : option nat) (mx : nat) (acc : list tree) (ts : list (nat * trig)) : res (nat * list tree) :=
  match ts with
  | [] => Ok (mx, acc)
  | (k, t) :: r =>
      let same := match prev with Some p => p =? k | None => false end in
      if negb same && (k <? mx) then Err EValue
      else
        let mx1 := if same then mx else if mx <? k then k else mx in
        let acc1 := if same then acc else if mx <? k then acc ++ toks mx (k - mx) else acc in
        match t with
        | TIns m => if point_ok n k then walk n (Some k) mx1 (acc1 ++ [Meta m k]) r else Err EIndex
        | TChild stop rr => match rr with
                            | Ok l => walk n (Some k) stop (acc1 ++ l) r
                            | Err e => Err e
                            end
        end
  end.

Fixpoint zero_len_inserts (n s : nat) (ins : list (nat * nat)) : res (list tree) :=
  match ins with
  | [] => Ok []
  | (i, m) :: r =>
      if negb (i =? s) then Err EAssert
      else if negb (point_ok n i) then Err EIndex
      else match zero_len_inserts n s r with Ok l => Ok (Meta m i :: l) | Err e => Err e end
  end.

Fixpoint apply (n : nat) (m : mr) : res (list tree) :=
  match m with
  | MR s e c ins ch =>
      if e - s =? 0 then
        match c with
        | Some _ => Err EAssert
        | None => if negb (is_nil ch) then Err EAssert
                  else if is_nil ins then Ok []
                  else if n =? 0 then Err EAssert
                  else zero_len_inserts n s ins
        end
      else if n <? e then Err EAssert
      else
        let cts := (fix amap (l : list mr) : list (nat * trig) :=
                      match l with
                      | [] => []
                      | x :: r => (mstart x, TChild (mstop x) (apply n x)) :: amap r
                      end) ch in
        let ts := ssort key_leb (map (fun i => (fst i, TIns (snd i))) ins ++ cts) in
        match walk n None s [] ts with
        | Err er => Err er
        | Ok (mx, acc) =>
            let acc' := if mx <? e then acc ++ toks mx (e - mx) else acc in
            match c with None => Ok acc' | Some k => Ok [Node k acc'] end
        end
  end.

(* leaves of a forest that are real tokens, in order *)
Fixpoint tokens_of (t : tree) : list nat :=
  match t with
  | Tok i => [i]
  | Meta _ _ => []
  | Node _ l => (fix go (l : list tree) : list nat := match l with [] => [] | x :: r => tokens_of x ++ go r end) l
  end.
Definition tokens_of_l (l : list tree) : list nat := flat_map tokens_of l.

(* ---- the certificate: a walk over the match result that mirrors apply's control flow and accepts only results on which apply
   succeeds and is lossless (Proofs/MatchResultP.v).  Every real root MatchResult is checked with it at run time. *)
Inductive ctrig := CIns | CChild (stop : nat) (ok : bool).
Definition ckey_leb (a b : nat * ctrig) : bool := fst a <=? fst b.

(* returns the final max index *)
Fixpoint cwalk (n e : nat) (prev : option nat) (mx : nat) (ts : list (nat * ctrig)) : option nat :=
  match ts with
  | [] => Some mx
  | (k, t) :: r =>
      let same := match prev with Some p => p =? k | None => false end in
      if negb same && (k <? mx) then None
      else if e <? k then None
      else
        let mx1 := if same then mx else if mx <? k then k else mx in
        match t with
        | CIns => if point_ok n k then cwalk n e (Some k) mx1 r else None
        | CChild stop ok => if ok && (mx1 =? k) && (k <=? stop) && (stop <=? e) then cwalk n e (Some k) stop r else None
        end
  end.

Fixpoint wf_b (n : nat) (m : mr) : bool :=
  match m with
  | MR s e c ins ch =>
      if e - s =? 0 then
        (s <=? e) && (e <=? n) && match c with Some _ => false | None => true end && is_nil ch
        && (is_nil ins || ((0 <? n) && forallb (fun i => (fst i =? s) && point_ok n (fst i)) ins))
      else
        (e <=? n) &&
        let cts := (fix amap (l : list mr) : list (nat * ctrig) :=
                      match l with
                      | [] => []
                      | x :: r => (mstart x, CChild (mstop x) (wf_b n x)) :: amap r
                      end) ch in
        match cwalk n e None s (ssort ckey_leb (map (fun i => (fst i, CIns)) ins ++ cts)) with
        | Some mx => mx <=? e
        | None => false
        end
  end.


(* ---- BaseFileSegment.root_parse (segments/file.py): trim non-code at both ends, match the middle, wrap what the grammar did
   not claim into an unparsable node.  `is_code i` for token i; the root grammar's match is a parameter. *)
Section RootParse.
  Variable n : nat.
  Variable is_code : nat -> bool.

  (* `for _start_idx in range(n): if is_code: break` -- the loop variable after the loop *)
  Fixpoint scan_start (i cnt : nat) : nat :=
    match cnt with
    | 0 => i
    | S c => if is_code i then i else match c with 0 => i | _ => scan_start (S i) c end
    end.
  Definition start_idx : nat := scan_start 0 n.

  (* `for _end_idx in range(n, start - 1, -1): if is_code(_end_idx - 1): break` *)
  Fixpoint scan_end (e cnt : nat) : nat :=
    match cnt with
    | 0 => e
    | S c => if is_code (e - 1) then e else match c with 0 => e | _ => scan_end (e - 1) c end
    end.
  Definition end_idx : nat := scan_end n (S n - start_idx).

  Definition cls_file : nat := 0.
  Definition cls_unparsable : nat := 1.

  (* first code index within [a, b), else the last index visited (loop variable semantics of `for _idx in range(len): if code: break`) *)
  Fixpoint first_code_off (a cnt off : nat) : nat :=
    match cnt with
    | 0 => off
    | S c => if is_code (a + off) then off else match c with 0 => off | _ => first_code_off a c (S off) end
    end.

  Definition root_parse (m : mr) : res tree :=
    let s := start_idx in let e := end_idx in
    if s =? e then Ok (Node cls_file (toks 0 n))
    else
      match apply n m with
      | Err er => Err er
      | Ok matched =>
          let content :=
            if negb (truthy m) then [Node cls_unparsable (toks s (e - s))]
            else if mstop m <? e then
              let k := first_code_off (mstop m) (e - mstop m) 0 in
              matched ++ toks (mstop m) k ++ [Node cls_unparsable (toks (mstop m + k) (e - (mstop m + k)))]
            else matched ++ toks (mstop m) (e - mstop m)
          in Ok (Node cls_file (toks 0 s ++ content ++ toks e (n - e)))
      end.
End RootParse.
