(* Decision layer of lint / fix / format: violation counters (LintedFile.num_violations, LintedDir.add,
   discard_fixes_for_lint_errors_in_files_with_tmp_or_prs_errors), exit codes (cli/commands.py lint, _paths_fix,
   _stdin_fix, _handle_unparsable), the persist gate of Linter.lint_paths / LintedFile.persist_tree, api/simple.fix. *)
From SF Require Import Base.Prelude.

Inductive vkind := KTmp | KPrs | KLxr | KLint | KOther.

(* one violation as the counters see it.  v_ign: v.ignore (config `ignore`) or hidden by the noqa mask. *)
Record vsum := mkVS { v_kind : vkind; v_fixable : bool; v_ign : bool; v_warn : bool }.
Definition file := list vsum.

Definition is_tmp v := match v_kind v with KTmp => true | _ => false end.
Definition is_tp v := match v_kind v with KTmp | KPrs => true | _ => false end.
Definition is_lint v := match v_kind v with KLint => true | _ => false end.
(* SQLLintError.fixable: only lint errors carry fixes *)
Definition fixable v := is_lint v && v_fixable v.
(* default filters of get_violations: filter_ignore=True, filter_warning=True *)
Definition visible v := negb (v_ign v) && negb (v_warn v).

Definition count (p : vsum -> bool) (f : file) : nat := length (filter p f).
Fixpoint sumf (g : file -> nat) (fs : list file) : nat := match fs with [] => 0 | f :: r => g f + sumf g r end.

Definition num_viol (f : file) := count visible f.
Definition unfiltered_tp (f : file) := count is_tp f.
Definition filtered_tp (f : file) := count (fun v => is_tp v && visible v) f.
Definition unfixable_lint (f : file) := count (fun v => is_lint v && negb (fixable v) && visible v) f.

(* records keep warnings, drop ignored/masked; discard_fixes... walks the records of files with any TMP/PRS error
   and counts every record that still has fixes and is not a warning *)
Definition discard_count (f : file) : nat :=
  if 0 <? unfiltered_tp f then count (fun v => fixable v && negb (v_ign v) && negb (v_warn v)) f else 0.
(* the variant before the F15 repair: warnings were counted as well *)
Definition discard_count_f15 (f : file) : nat :=
  if 0 <? unfiltered_tp f then count (fun v => fixable v && negb (v_ign v)) f else 0.

Definition b2e (b : bool) : nat := if b then 1 else 0.

(* sqlfluff lint *)
Definition lint_exit (fs : list file) (nofail : bool) (skipped : nat) (skip_fail : bool) : nat :=
  if nofail then 0 else b2e ((0 <? sumf num_viol fs) || ((0 <? skipped) && skip_fail)).

(* _handle_unparsable *)
Definition unparsable_exit (fs : list file) (feu : bool) : nat :=
  if feu then 0 else b2e (0 <? sumf filtered_tp fs).

(* _paths_fix (no --check prompt) *)
Definition paths_fix_exit_with (dc : file -> nat) (fs : list file) (feu : bool) (skipped : nat) (skip_fail : bool) : nat :=
  let e1 := unparsable_exit fs feu in
  let unfix := sumf unfixable_lint fs + (if feu then 0 else sumf dc fs) in
  let e2 := Nat.max e1 (b2e (0 <? unfix)) in
  Nat.max e2 (b2e ((0 <? skipped) && skip_fail)).
Definition paths_fix_exit := paths_fix_exit_with discard_count.

(* lint_paths persist gate + persist_tree; `changed` = fix_string differs from the source (oracle) *)
Definition paths_written (f : file) (feu changed : bool) : bool :=
  (feu || (unfiltered_tp f =? 0)) && (0 <? count (fun v => fixable v && negb (v_ign v)) f) && changed.

(* _stdin_fix: (exit code, stdout is the fixed string rather than the input) *)
Definition fixes_discarded (f : file) (feu : bool) : bool := negb feu && (0 <? unfiltered_tp f).
Definition stdin_fix (f : file) (feu : bool) : nat * bool :=
  let templater_error := negb feu && (0 <? count (fun v => is_tmp v && visible v) f) in
  let e1 := unparsable_exit [f] feu in
  (* computed BEFORE the fixes are discarded (F6, pinned by the test-suite: see known findings) *)
  let unfixable_error := 0 <? unfixable_lint f in
  let use_fixed := negb (fixes_discarded f feu) && (0 <? count (fun v => fixable v && negb (v_ign v)) f) in
  (if templater_error || unfixable_error then 1 else e1, use_fixed).
(* before the F17 repair: a visible templating error failed the run even with fix_even_unparsable *)
Definition stdin_fix_f17 (f : file) (feu : bool) : nat :=
  let templater_error := 0 <? count (fun v => is_tmp v && visible v) f in
  if templater_error || (0 <? unfixable_lint f) then 1 else unparsable_exit [f] feu.
(* before the F18 repair: warning-level fixes were not applied on stdin *)
Definition stdin_use_fixed_f18 (f : file) (feu : bool) : bool :=
  negb (fixes_discarded f feu) && (0 <? count (fun v => fixable v && visible v) f).

(* api.simple.fix: does it return fix_string() rather than the input? *)
Definition api_should_fix (f : file) (feu : bool) : bool := feu || (unfiltered_tp f =? 0).
(* before the F5 repair: the *filtered* count gated the API *)
Definition api_should_fix_f5 (f : file) (feu : bool) : bool := feu || (filtered_tp f =? 0).

(* ---------- specification in the property's words ---------- *)
(* C22 lint: exit 1 exactly when some file has a violation neither suppressed nor a warning *)
Definition spec_lint_fail (fs : list file) : bool := existsb (existsb visible) fs.
(* C22 fix: such a (lint) violation remains unfixable -- no fix, or its fixes are discarded because the file has a
   templating/parse error and fixing unparsable files is off -- or an unsuppressed TMP/PRS error blocks fixing *)
Definition remains_unfixable (f : file) (feu : bool) (v : vsum) : bool :=
  is_lint v && visible v && (negb (fixable v) || fixes_discarded f feu).
Definition spec_fix_fail (fs : list file) (feu : bool) : bool :=
  existsb (fun f => existsb (remains_unfixable f feu) f || (negb feu && existsb (fun v => is_tp v && visible v) f)) fs.
