(* Model of LintedFile.deduplicate_in_source_space (core/linter/linted_file.py) and source_signature (core/errors.py). *)
From SF Require Import Base.Prelude Base.Sort.

(* A violation as far as de-duplication is concerned.  v_code: rule code (abstract id); v_line/v_pos: source line and
   column; v_rest: everything else that source_signature looks at (description, fix raws, source-fix source slices),
   abstracted to an id; v_tpos: templated-space information (NOT part of the signature), kept to show it is ignored. *)
Record viol := mkViol { v_code : nat; v_line : nat; v_pos : nat; v_rest : nat; v_tpos : nat }.

Definition sig := (nat * nat * nat * nat)%type.
Definition signature (v : viol) : sig := (v_code v, v_line v, v_pos v, v_rest v).
Definition sig_eqb (a b : sig) : bool :=
  let '(a1, a2, a3, a4) := a in let '(b1, b2, b3, b4) := b in
  (a1 =? b1) && (a2 =? b2) && (a3 =? b3) && (a4 =? b4).

Fixpoint dedup_seen (seen : list sig) (l : list viol) : list viol :=
  match l with
  | [] => []
  | v :: r => if existsb (sig_eqb (signature v)) seen then dedup_seen seen r
              else v :: dedup_seen (signature v :: seen) r
  end.

Definition pos_leb (a b : viol) : bool :=
  (v_line a <? v_line b) || ((v_line a =? v_line b) && (v_pos a <=? v_pos b)).

Definition dedup_sort (l : list viol) : list viol := ssort pos_leb (dedup_seen [] l).
