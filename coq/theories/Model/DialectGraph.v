(* Reference graph of a dialect: name ids (N) -> ids each entry may resolve through dialect.ref(). *)
From SF Require Import Base.Prelude.

Definition graph := list (N * list N).

Definition nmemN (n : N) (l : list N) : bool := existsb (N.eqb n) l.

Definition entry (g : graph) (n : N) : option (list N) :=
  match find (fun e => N.eqb (fst e) n) g with Some e => Some (snd e) | None => None end.

(* certificate check: `visited` contains the root and is closed under successors; every visited name has an entry or is
   listed in `dangling`; the names in `dangling` really have no entry *)
Definition closed_check (g : graph) (root : N) (visited dangling : list N) : bool :=
  nmemN root visited
  && forallb (fun n => match entry g n with
                       | Some succs => forallb (fun s => nmemN s visited) succs
                       | None => nmemN n dangling
                       end) visited
  && forallb (fun n => match entry g n with None => true | Some _ => false end) dangling.

(* reachability through library entries *)
Inductive path (g : graph) (a : N) : N -> Prop :=
| p_refl : path g a a
| p_step b c succs : path g a b -> entry g b = Some succs -> In c succs -> path g a c.

(* The same check with trie-based lookup (what the generated per-dialect theorems run; 10^3 names would make the list version
   slow).  Proofs/DialectGraphP.v shows closed_check_fast = closed_check. *)
From Coq Require Import FMapPositive MSetPositive.

Definition key (n : N) : positive := N.succ_pos n.

Fixpoint map_of (g : graph) : PositiveMap.t (list N) :=
  match g with
  | [] => PositiveMap.empty _
  | (k, v) :: r => PositiveMap.add (key k) v (map_of r)     (* first occurrence wins, as `find` *)
  end.

Fixpoint set_of (l : list N) : PositiveSet.t :=
  match l with [] => PositiveSet.empty | n :: r => PositiveSet.add (key n) (set_of r) end.

Definition closed_check_fast (g : graph) (root : N) (visited dangling : list N) : bool :=
  let m := map_of g in
  let vs := set_of visited in
  let ds := set_of dangling in
  PositiveSet.mem (key root) vs
  && forallb (fun n => match PositiveMap.find (key n) m with
                       | Some succs => forallb (fun s => PositiveSet.mem (key s) vs) succs
                       | None => PositiveSet.mem (key n) ds
                       end) visited
  && forallb (fun n => match PositiveMap.find (key n) m with None => true | Some _ => false end) dangling.
