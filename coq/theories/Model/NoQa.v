(* Model of IgnoreMask.ignore_masked_violations and the `used` bookkeeping (core/rules/noqa.py). *)
From SF Require Import Base.Prelude Base.Sort.

Inductive action := Plain | Disable | Enable.
Record directive := mkDir { d_id : nat; d_line : nat; d_rules : option (list nat); d_action : action }.
Record violn := mkV { n_code : nat; n_line : nat }.

Definition mem (x : nat) (l : list nat) : bool := existsb (Nat.eqb x) l.

(* NoQaDirective._filter_violations_single_line's predicate *)
Definition sl_match (d : directive) (v : violn) : bool :=
  (n_line v =? d_line d) && match d_rules d with None => true | Some rs => mem (n_code v) rs end.

Fixpoint sl_pass (ds : list directive) (vs : list violn) (used : list nat) : list violn * list nat :=
  match ds with
  | [] => (vs, used)
  | d :: r =>
      match filter (sl_match d) vs with
      | [] => sl_pass r vs used
      | _ :: _ => sl_pass r (filter (fun v => negb (sl_match d v)) vs) (d_id d :: used)
      end
  end.

(* `ignore.rules is None or (v.rule_code() in ignore.rules)` *)
Definition covers (d : directive) (v : violn) : bool :=
  match d_rules d with
  | None => true
  | Some rs => mem (n_code v) rs
  end.

(* what the property says "covers" means: no rule list = all rules; a list covers its members *)
Definition covers_spec (d : directive) (v : violn) : bool :=
  match d_rules d with
  | None => true
  | Some rs => mem (n_code v) rs
  end.

Definition line_leb (a b : directive) : bool := d_line a <=? d_line b.

Definition is_enable (d : directive) : bool := match d_action d with Enable => true | _ => false end.
Definition is_disable (d : directive) : bool := match d_action d with Disable => true | _ => false end.

(* _should_ignore_violation_line_range *)
Fixpoint scan (rel : list directive) (line : nat) (ignore : bool) (last : option directive) (used : list nat)
  : bool * option directive * list nat :=
  match rel with
  | [] => (ignore, last, used)
  | d :: r =>
      if line <? d_line d then (ignore, last, if is_enable d then d_id d :: used else used)
      else match d_action d with
           | Enable => scan r line false None (match last with Some _ => d_id d :: used | None => used end)
           | Disable => scan r line true (Some d) used
           | Plain => scan r line ignore last used
           end
  end.

Fixpoint range_pass (cov : directive -> violn -> bool) (ds : list directive) (vs : list violn) (used : list nat)
  : list violn * list nat :=
  match vs with
  | [] => ([], used)
  | v :: r =>
      let rel := ssort line_leb (filter (fun d => cov d v) ds) in
      let '(ig, last, used1) := scan rel (n_line v) false None used in
      if ig then range_pass cov ds r (match last with Some d => d_id d :: used1 | None => used1 end)
      else let '(out, used2) := range_pass cov ds r used1 in (v :: out, used2)
  end.

Definition is_plain (d : directive) : bool := match d_action d with Plain => true | _ => false end.

Definition mask_with (cov : directive -> violn -> bool) (ds : list directive) (vs : list violn) : list violn * list nat :=
  let '(vs1, u1) := sl_pass (filter is_plain ds) vs [] in
  range_pass cov (filter (fun d => negb (is_plain d)) ds) vs1 u1.

Definition mask := mask_with covers.

(* ---------- specification ---------- *)
Definition hidden_single (ds : list directive) (v : violn) : bool :=
  existsb (fun d => is_plain d && sl_match d v) ds.

Fixpoint last_opt {A} (l : list A) : option A :=
  match l with [] => None | [x] => Some x | _ :: r => last_opt r end.

(* the most recent range directive at or before v's line that covers v's rule (ties on a line: file order) *)
Definition most_recent (cov : directive -> violn -> bool) (ds : list directive) (v : violn) : option directive :=
  last_opt (filter (fun d => d_line d <=? n_line v)
              (ssort line_leb (filter (fun d => negb (is_plain d) && cov d v) ds))).

Definition hidden_range (cov : directive -> violn -> bool) (ds : list directive) (v : violn) : bool :=
  match most_recent cov ds v with Some d => is_disable d | None => false end.

Definition hidden_spec (ds : list directive) (v : violn) : bool :=
  hidden_single ds v || hidden_range covers_spec ds v.

(* ---------- small-scope enumeration support (alphabets indexed by nat) ---------- *)
Definition rules_of_nat (k : nat) : option (list nat) :=
  match k with 0 => None | 1 => Some [0] | 2 => Some [1] | 3 => Some [] | _ => Some [0; 1] end.
Definition action_of_nat (k : nat) : action := match k with 0 => Plain | 1 => Disable | _ => Enable end.
(* directive code c = ((line-1) * 3 + action) * 5 + rules *)
Definition dir_of_nat (id c : nat) : directive :=
  mkDir id (1 + (c / 15)) (rules_of_nat (c mod 5)) (action_of_nat ((c / 5) mod 3)).
Definition viol_of_nat (c : nat) : violn := mkV (c mod 3) (1 + c / 3).
Fixpoint dirs_of (id : nat) (cs : list nat) : list directive :=
  match cs with [] => [] | c :: r => dir_of_nat id c :: dirs_of (S id) r end.
Definition run_case (c : list nat * list nat) : list (nat * nat) * list nat :=
  let '(out, used) := mask (dirs_of 0 (fst c)) (map viol_of_nat (snd c)) in
  (map (fun v => (n_code v, n_line v)) out, used).
