(* Token-level relations used as certified comparators by the fix monitors (C12, C14). *)
From SF Require Import Base.Prelude.

Inductive tk := Code (t : text) | Comment (t : text) | Ws (t : text).

Definition text_dec : forall a b : text, {a = b} + {a <> b} := list_eq_dec N.eq_dec.

Fixpoint codes (l : list tk) : list text :=
  match l with [] => [] | Code t :: r => t :: codes r | _ :: r => codes r end.
Fixpoint comments (l : list tk) : list text :=
  match l with [] => [] | Comment t :: r => t :: comments r | _ :: r => comments r end.

(* "only whitespace changed": same code-token texts in the same order, same multiset of comments *)
Definition ws_only (a b : list tk) : Prop :=
  codes a = codes b /\ forall c, count_occ text_dec (comments a) c = count_occ text_dec (comments b) c.

Fixpoint texts_eqb (a b : list text) : bool :=
  match a, b with
  | [], [] => true
  | x :: a', y :: b' => text_eqb x y && texts_eqb a' b'
  | _, _ => false
  end.

Definition ws_only_b (a b : list tk) : bool :=
  texts_eqb (codes a) (codes b)
  && forallb (fun c => count_occ text_dec (comments a) c =? count_occ text_dec (comments b) c) (comments a ++ comments b).

(* re-lex comparison: same boundaries (texts) and same kinds, position by position *)
Definition tok := (text * nat)%type.    (* (raw, lexer kind id) *)
Fixpoint toks_eqb (a b : list tok) : bool :=
  match a, b with
  | [], [] => true
  | (x, k) :: a', (y, j) :: b' => text_eqb x y && (k =? j) && toks_eqb a' b'
  | _, _ => false
  end.
