(* TemplatedFile.__init__'s consistency checks (core/templaters/base.py) and JinjaTracer.record_trace (slicers/tracer.py). *)
From SF Require Import Base.Prelude.

(* raw slice: (source_idx, length); file slice: ((src_start, src_stop), (tpl_start, tpl_stop)) -- slice kinds do not matter here *)
Definition rawslice := (nat * nat)%type.
Definition fslice := ((nat * nat) * (nat * nat))%type.

(* the two loops of __init__: raw slices must start where the previous one ended and end at len(source) (AssertionError);
   templated slices must start at 0, follow each other, and end at len(templated) (SQLFluffSkipFile) *)
Fixpoint raw_check (pos : nat) (rs : list rawslice) : option nat :=
  match rs with
  | [] => Some pos
  | (idx, len) :: r => if idx =? pos then raw_check (pos + len) r else None
  end.

Fixpoint tpl_check (prev : option nat) (fs : list fslice) : option (option nat) :=
  match fs with
  | [] => Some prev
  | (_, (ts, te)) :: r =>
      let ok := match prev with Some p => ts =? p | None => ts =? 0 end in
      if ok then tpl_check (Some te) r else None
  end.

Definition ctor_check (nsrc ntpl : nat) (rs : list rawslice) (fs : list fslice) : res unit :=
  match raw_check 0 rs with
  | None => Err EAssert
  | Some p => if negb (p =? nsrc) then Err EAssert
              else match tpl_check None fs with
                   | None => Err ESkipFile
                   | Some None => Ok tt
                   | Some (Some last) => if last =? ntpl then Ok tt else Err ESkipFile
                   end
  end.

(* what the property asks *)
Fixpoint raw_tiles (pos n : nat) (rs : list rawslice) : Prop :=
  match rs with [] => pos = n | (idx, len) :: r => idx = pos /\ raw_tiles (pos + len) n r end.
Fixpoint tpl_tiles (pos n : nat) (fs : list fslice) : Prop :=
  match fs with [] => pos = n | (_, (ts, te)) :: r => ts = pos /\ tpl_tiles te n r end.

(* JinjaTracer.record_trace: raw slice starts `starts` (ascending source indices), source length nsrc;
   state = (templated position, recorded slices in order) *)
Definition tstate := (nat * list fslice)%type.
Definition record_trace (starts : list nat) (nsrc : nat) (st : tstate) (len idx : nat) : tstate :=
  let '(cur, acc) := st in
  let s := nth idx starts 0 in
  let e := if S idx <? length starts then nth (S idx) starts 0 else nsrc in
  (cur + len, acc ++ [((s, e), (cur, cur + len))]).

Definition run_trace (starts : list nat) (nsrc : nat) (calls : list (nat * nat)) : tstate :=
  fold_left (fun st c => record_trace starts nsrc st (fst c) (snd c)) calls (0, []).

(* boolean form of the whole property for one rendering (used as a certified monitor):
   lit = is this a literal slice; texts are compared by the harness (eq_text i = source text = templated text for slice i) *)
Definition in_bounds (nsrc : nat) (f : fslice) : bool :=
  let '((ss, se), _) := f in (ss <=? se) && (se <=? nsrc).
