(* Model of core/linter/patch.py (_patches_conflict, merge_source_patches) and
   LintedFile._slice_source_file_using_patches / _build_up_fixed_source_string. *)
From SF Require Import Base.Prelude Base.Sort.

Record patch := mkPatch { p_start : nat; p_stop : nat; p_text : text }.

Definition same_slice (a b : patch) : bool := (p_start a =? p_start b) && (p_stop a =? p_stop b).
Definition same_dedupe (a b : patch) : bool := same_slice a b && text_eqb (p_text a) (p_text b).

(* _patches_conflict(first, second) *)
Definition conflict (a b : patch) : bool :=
  if same_slice a b then negb (text_eqb (p_text a) (p_text b))
  else if (p_start a =? p_stop a) && (p_stop a =? p_start b) && (p_start b =? p_stop b)
       then p_start a =? p_start b
       else Nat.max (p_start a) (p_start b) <? Nat.min (p_stop a) (p_stop b).

(* sort key (source_slice.start, source_slice.stop) *)
Definition key_leb (a b : patch) : bool :=
  (p_start a <? p_start b) || ((p_start a =? p_start b) && (p_stop a <=? p_stop b)).

Definition merge_step (merged : list patch) (p : patch) : list patch :=
  if existsb (same_dedupe p) merged then merged
  else if existsb (fun e => conflict e p) merged then merged
  else merged ++ [p].

Definition merge (bufs : list (list patch)) : list patch :=
  fold_left merge_step (ssort key_leb (concat bufs)) [].

(* Python s[a:b] for 0 <= a, b *)
Definition substr (src : text) (a b : nat) : text := firstn (b - a) (skipn a src).

(* source-only slices are (start, stop) pairs, ascending *)
Definition sl := (nat * nat)%type.
Definition sl_eqb (x y : sl) : bool := (fst x =? fst y) && (snd x =? snd y).

(* the `while source_only_slices and source_only_slices[0].source_idx < patch.start` loop;
   returns (emitted slices, remaining so, new source_idx) *)
Fixpoint pop_so (so : list sl) (idx pstart : nat) : list sl * list sl * nat :=
  match so with
  | s :: rest =>
      if fst s <? pstart then
        let pre := if idx <? fst s then [(idx, fst s)] else [] in
        let '(out, so', idx') := pop_so rest (snd s) pstart in
        (pre ++ s :: out, so', idx')
      else ([], so, idx)
  | [] => ([], [], idx)
  end.

Fixpoint slice_loop (ps : list patch) (so : list sl) (idx n : nat) : list sl :=
  match ps with
  | [] => if idx <? n then [(idx, n)] else []
  | p :: r =>
      let '(out, so1, idx1) := pop_so so idx (p_start p) in
      let so2 := match so1 with
                 | s :: rest => if sl_eqb s (p_start p, p_stop p) then rest else so1
                 | [] => so1
                 end in
      let gap := if idx1 <? p_start p then [(idx1, p_start p)] else [] in
      if p_start p <? idx1 then out ++ gap ++ slice_loop r so2 idx1 n
      else out ++ gap ++ (p_start p, p_stop p) :: slice_loop r so2 (p_stop p) n
  end.

Definition slice_source (ps : list patch) (so : list sl) (n : nat) : list sl := slice_loop ps so 0 n.

Definition piece (ps : list patch) (src : text) (s : sl) : text :=
  match find (fun p => sl_eqb (p_start p, p_stop p) s) ps with
  | Some p => p_text p
  | None => substr src (fst s) (snd s)
  end.

Definition build (slices : list sl) (ps : list patch) (src : text) : text :=
  concat (map (piece ps src) slices).

(* fix_string's core, given already-filtered patches *)
Definition fix_source (ps : list patch) (so : list sl) (src : text) : text :=
  build (slice_source ps so (length src)) ps src.

(* --- specification-side definitions --- *)

(* the patches the slicer actually applies *)
Fixpoint applied_from (idx : nat) (ps : list patch) : list patch :=
  match ps with
  | [] => []
  | p :: r => if p_start p <? idx then applied_from idx r else p :: applied_from (p_stop p) r
  end.

(* src with each patch of an ascending disjoint list substituted for its own range *)
Fixpoint splice_from (idx : nat) (src : text) (ps : list patch) : text :=
  match ps with
  | [] => skipn idx src
  | p :: r => substr src idx (p_start p) ++ p_text p ++ splice_from (p_stop p) src r
  end.

Fixpoint chain (idx : nat) (ps : list patch) : Prop :=
  match ps with
  | [] => True
  | p :: r => idx <= p_start p /\ p_start p <= p_stop p /\ chain (p_stop p) r
  end.
