(* Model of TemplatedFile.get_line_pos_of_char_pos, iter_indices_of_newlines and
   PositionMarker.infer_next_position (core/templaters/base.py, core/parser/markers.py). *)
From SF Require Import Base.Prelude.

(* iter_indices_of_newlines: indices of every "\n", ascending. *)
Fixpoint nl_indices_from (base : nat) (s : text) : list nat :=
  match s with
  | [] => []
  | c :: r => if is_nl c then base :: nl_indices_from (S base) r else nl_indices_from (S base) r
  end.
Definition nl_indices (s : text) : list nat := nl_indices_from 0 s.

(* bisect.bisect_left on an ascending list: the number of elements < x. *)
Fixpoint bisect_left (l : list nat) (x : nat) : nat :=
  match l with
  | [] => 0
  | y :: r => if y <? x then S (bisect_left r x) else 0
  end.

(* get_line_pos_of_char_pos, given the pre-computed newline index list *)
Definition line_pos_idx (idx : list nat) (p : nat) : nat * nat :=
  let k := bisect_left idx p in
  if 0 <? k then (k + 1, p - nth (k - 1) idx 0) else (1, p + 1).

Definition line_pos (s : text) (p : nat) : nat * nat := line_pos_idx (nl_indices s) p.

(* infer_next_position(raw, line_no, line_pos) *)
Definition infer_next (raw : text) (lc : nat * nat) : nat * nat :=
  match raw with
  | [] => lc
  | _ => let k := count_nl raw in
         (fst lc + k, if k =? 0 then snd lc + length raw else length (last_line raw) + 1)
  end.

(* Independent specification: the property's words. *)
Definition line_spec (s : text) (p : nat) : nat := 1 + count_nl (firstn p s).
Definition col_spec (s : text) (p : nat) : nat := 1 + length (last_line (firstn p s)).
