(* Model of the runner bookkeeping: byte/char size gates (load_raw_file_and_config, large_file_check, render_string),
   per-file outcomes, aggregation into LintingResult (counters, records sorted by path, skipped count, exit code). *)
From SF Require Import Base.Prelude Base.Sort Model.Gate.

(* ---- size gates ---- *)
(* load_raw_file_and_config: `if limit:` ... `if file_size > limit: raise SQLFluffSkipFile` *)
Definition byte_skip (limit size : nat) : bool := (0 <? limit) && (limit <? size).
(* large_file_check: `if limit and len(in_str) > limit: raise SQLFluffSkipFile` *)
Definition char_skip (limit chars : nat) : bool := (0 <? limit) && (limit <? chars).

(* what the runner hands to the aggregator for one file *)
Inductive outcome :=
| OLinted (path : nat) (viols : file) (fixed : option text)   (* a LintedFile; fixed = Some new content if it is to be written *)
| OSkipped (path : nat)                                        (* SQLFluffSkipFile reached the runner *)
| OFailed (path : nat).                                        (* internal error: logged, file dropped *)

Definition o_path (o : outcome) : nat := match o with OLinted p _ _ | OSkipped p | OFailed p => p end.

(* one file through render_file + lint (oracle `lint` gives its violations and fixed text when it is processed):
   byte gate -> skipped; char gate -> the SkipFile is swallowed by render_string: an EMPTY LintedFile comes back *)
Definition process_file (blimit climit : nat) (path size chars : nat) (lint : file * option text) : outcome :=
  if byte_skip blimit size then OSkipped path
  else if char_skip climit chars then OLinted path [] None
  else OLinted path (fst lint) (snd lint).

(* what the property asks of the char gate: counted as skipped as well *)
Definition process_file_spec (blimit climit : nat) (path size chars : nat) (lint : file * option text) : outcome :=
  if byte_skip blimit size || char_skip climit chars then OSkipped path else OLinted path (fst lint) (snd lint).

(* ---- aggregation ---- *)
Record agg := mkAgg { a_viol : nat; a_skipped : nat; a_records : list (nat * file); a_writes : list (nat * text) }.

Definition rec_leb (a b : nat * file) : bool := fst a <=? fst b.
Definition wr_leb (a b : nat * text) : bool := fst a <=? fst b.

Fixpoint records_of (l : list outcome) : list (nat * file) :=
  match l with
  | [] => []
  | OLinted p v _ :: r => (p, filter (fun x => negb (v_ign x)) v) :: records_of r
  | _ :: r => records_of r
  end.
Fixpoint writes_of (l : list outcome) : list (nat * text) :=
  match l with
  | [] => []
  | OLinted p _ (Some t) :: r => (p, t) :: writes_of r
  | _ :: r => writes_of r
  end.
Fixpoint viols_of (l : list outcome) : nat :=
  match l with [] => 0 | OLinted _ v _ :: r => num_viol v + viols_of r | _ :: r => viols_of r end.
Fixpoint skipped_of (l : list outcome) : nat :=
  match l with [] => 0 | OSkipped _ :: r => 1 + skipped_of r | _ :: r => skipped_of r end.

(* the order of `l` is the completion order (serial: path order; parallel: arbitrary) *)
Definition aggregate (l : list outcome) : agg :=
  mkAgg (viols_of l) (skipped_of l) (ssort rec_leb (records_of l)) (ssort wr_leb (writes_of l)).

Definition agg_lint_exit (a : agg) (skip_fail : bool) : nat :=
  b2e ((0 <? a_viol a) || ((0 <? a_skipped a) && skip_fail)).
