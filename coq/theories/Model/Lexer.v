(* PyLexer.lex / lex_match / map_template_slices (core/parser/lexer.py), over positions in the rendered text.
   A matcher's behaviour at a position (its regex match and the subdivision of the matched text into elements) is an oracle:
   `mt p` lists, per matcher in table order, the lengths of the elements it yields on the text from p on ([] = no match);
   `lastm p` is the last-resort matcher.  The harness tabulates both with the real matcher objects. *)
From SF Require Import Base.Prelude.

Section Lex.
  Variable n : nat.                              (* len(str_buff) *)
  Variable mt : nat -> list (list nat).
  Variable lastm : nat -> list nat.

  Fixpoint first_match (ms : list (list nat)) : option (list nat) :=
    match ms with [] => None | [] :: r => first_match r | l :: _ => Some l end.

  (* lex_match: `fuel` bounds the `while True` *)
  Fixpoint lex_match (fuel p : nat) (acc : list nat) : res (nat * list nat) :=
    match fuel with
    | 0 => Err EFuel
    | S f => if n <=? p then Ok (p, acc)
             else match first_match (mt p) with
                  | Some els => lex_match f (p + sum_nat els) (acc ++ els)
                  | None => Ok (p, acc)
                  end
    end.

  (* the outer loop of lex(): lex_match, then the last resort on what is left *)
  Fixpoint lex (fuel p : nat) (acc : list nat) : res (list nat) :=
    match fuel with
    | 0 => Err EFuel
    | S f => match lex_match (S n) p acc with
             | Err e => Err e
             | Ok (p1, acc1) =>
                 if p1 <? n then
                   match lastm p1 with
                   | [] => Err ESQLLex                       (* "Fatal. Unable to lex characters" *)
                   | els => lex f (p1 + sum_nat els) (acc1 ++ els)
                   end
                 else Ok acc1
             end
    end.

  (* map_template_slices: running offsets *)
  Fixpoint slices (idx : nat) (els : list nat) : list (nat * nat) :=
    match els with [] => [] | l :: r => (idx, idx + l) :: slices (idx + l) r end.
End Lex.

(* contiguous tiling of [a, b) by non-empty slices, in order *)
Fixpoint tiles (a b : nat) (l : list (nat * nat)) : Prop :=
  match l with
  | [] => a = b
  | (s, e) :: r => s = a /\ s < e /\ tiles e b r
  end.
