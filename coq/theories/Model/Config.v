(* Model of the configuration stack of sqlfluff (C27).
     core/helpers/dict.py    nested_combine, records_to_nested_dict, iter_records_from_nested_dict
     core/helpers/string.py  split_colon_separated_string, should_split_on_colon
     core/helpers/file.py    iter_intermediate_paths
     core/config/ini.py      load_ini_string          (configparser's sections()/items() are the input)
     core/config/toml.py     load_toml_file_config    (the `tool.sqlfluff` table after _validate_structure is the input)
     core/config/file.py     load_config_file_as_dict (@cache)
     core/config/loader.py   load_config_file, load_config_at_path (@cache), _load_user_appdir_config, load_config_up_to_path
     core/config/fluffconfig.py  FluffConfig.__init__ (the nested_combine of defaults/configs/overrides), from_path,
                             make_child_from_path, set_value, process_inline_config, process_raw_file_for_config
     core/linter/linter.py   load_raw_file_and_config (per-file child config + inline scan), parse_string (copy + inline scan)
   Executable definitions only.

   Conventions.  A Python dict is an association list in insertion order (`dset` overwrites in place or appends, as `d[k] = v`
   does); Python dict keys are distinct, lists with repeated keys are junk that no Python run produces.  Keys and raw text are
   `text` (code points); config *values* are an abstract type V with `coerce : text -> V` standing for ini.coerce_value.
   Exceptions: ValueError -> EValue, AssertionError -> EAssert, IndexError -> EIndex; TypeError / AttributeError (set_value
   walking through a non-dict), OSError (listdir of a missing directory) and SQLFluffUserError (bad extra config path) have no
   kind of their own in Base/Prelude.v and are all ERuntime.
   `is_none : V -> bool` stands for `value is None` (the dialect requirement of FluffConfig.__init__).
   Not modelled (stated as assumptions of the correspondence): validate_config_dict (identity on the key vocabulary used),
   unknown dialect / templater names (SQLFluffUserError from dialect_selector / get_templater_class),
   _resolve_paths_in_config (no `*_path`/`*_dir` keys), symlinks (`Path.resolve`), the derived keys written back into `core`
   after combination (color, rule_allowlist, rule_denylist, dialect_obj, templater_obj and the comma-splitting of
   ignore/warnings) -- the monitor checks those against the effective raw values on the Python side. *)
From SF Require Import Base.Prelude.
From Coq Require Import String Ascii.

Definition lit (s : string) : text := map N_of_ascii (list_ascii_of_string s).

Definition key := text.
Definition path := list text.     (* components below a common root; [] is that root *)

Fixpoint path_eqb (a b : path) : bool :=
  match a, b with
  | [], [] => true
  | x :: a', y :: b' => text_eqb x y && path_eqb a' b'
  | _, _ => false
  end.

(* ------------------------------------------------------------------------------------------------------------------ *)
(* Text helpers (Python str methods used by the inline-directive scanner)                                               *)

(* str.isspace() code points: what str.strip() removes *)
Definition is_space (c : cp) : bool :=
  ((9 <=? c) && (c <=? 13) || (28 <=? c) && (c <=? 32) || (c =? 133) || (c =? 160) || (c =? 5760)
   || (8192 <=? c) && (c <=? 8202) || (c =? 8232) || (c =? 8233) || (c =? 8239) || (c =? 8287) || (c =? 12288))%N.

Fixpoint lstrip (s : text) : text :=
  match s with
  | [] => []
  | c :: r => if is_space c then lstrip r else s
  end.
Definition strip (s : text) : text := rev (lstrip (rev (lstrip s))).

Fixpoint startswith (pre s : text) : bool :=
  match pre, s with
  | [], _ => true
  | a :: pre', b :: s' => N.eqb a b && startswith pre' s'
  | _ :: _, [] => false
  end.

(* str.split(sep) for a one-character separator: "a::b" -> ["a";"";"b"], "" -> [""] *)
Fixpoint split_on (sep : cp) (s : text) : list text :=
  match s with
  | [] => [[]]
  | c :: r => if N.eqb c sep then [] :: split_on sep r
              else match split_on sep r with
                   | [] => [[c]]            (* not reached: split_on never returns [] *)
                   | h :: t => (c :: h) :: t
                   end
  end.

(* str.partition(sep): None when sep does not occur *)
Fixpoint partition_on (sep : cp) (s : text) : option (text * text) :=
  match s with
  | [] => None
  | c :: r => if N.eqb c sep then Some ([], r)
              else match partition_on sep r with
                   | Some (a, b) => Some (c :: a, b)
                   | None => None
                   end
  end.

(* str.splitlines(): line boundaries \n \r \r\n \v \f \x1c \x1d \x1e \x85    ; no trailing empty line *)
Definition is_linebreak (c : cp) : bool :=
  ((10 <=? c) && (c <=? 13) || (28 <=? c) && (c <=? 30) || (c =? 133) || (c =? 8232) || (c =? 8233))%N.

Fixpoint splitlines_aux (s : text) (cur : text) (* reversed current line *) : list text :=
  match s with
  | [] => match cur with [] => [] | _ => [rev cur] end
  | c :: r =>
      if is_linebreak c then
        match r with
        | c2 :: r' => if N.eqb c 13 && N.eqb c2 10 then rev cur :: splitlines_aux r' []     (* \r\n is one boundary *)
                      else rev cur :: splitlines_aux r []
        | [] => rev cur :: splitlines_aux r []
        end
      else splitlines_aux r (c :: cur)
  end.
Definition splitlines (s : text) : list text := splitlines_aux s [].

Fixpoint join_with (sep : text) (l : list text) : text :=
  match l with
  | [] => []
  | [a] => a
  | a :: r => a ++ sep ++ join_with sep r
  end.

Definition colon : cp := 58%N.
Definition dot : cp := 46%N.

(* helpers/string.py: should_split_on_colon *)
Definition should_split_on_colon (value : text) : bool :=
  let n := List.length value in
  if (3 <=? n) && N.eqb (nth 1 value 0%N) 58 && N.eqb (nth 2 value 0%N) 92 then false     (* value[1] == ":" and value[2] == "\\" *)
  else if (2 <=? n) && N.eqb (nth 0 value 0%N) 91 && N.eqb (last value 0%N) 93 then false  (* "[" ... "]" *)
  else if (2 <=? n) && N.eqb (nth 0 value 0%N) 123 && N.eqb (last value 0%N) 125 then false (* "{" ... "}" *)
  else true.

(* helpers/string.py: split_colon_separated_string.  The `while ":" in leftover` loop consumes at least the colon in each
   round; fuel = length of the input + 1 is never exhausted (None = out of fuel). Returns (config_path[:-1], config_path[-1]). *)
Fixpoint split_colon_loop (fuel : nat) (leftover : text) (acc : list text) : option (list text * text) :=
  match fuel with
  | O => None
  | S f =>
      match partition_on colon leftover with
      | None => Some (acc, leftover)
      | Some (element, value) =>
          let element := strip element in
          let value := strip value in
          if should_split_on_colon value then split_colon_loop f value (acc ++ [element])
          else Some (acc ++ [element], value)
      end
  end.
Definition split_colon_separated_string (s : text) : option (list text * text) :=
  split_colon_loop (S (List.length s)) s [].

(* ------------------------------------------------------------------------------------------------------------------ *)
Section WithValues.
Variable V : Type.
Variable coerce : text -> V.       (* ini.coerce_value *)
Variable is_none : V -> bool.      (* `value is None` *)

Inductive cfg := Leaf (v : V) | Dict (l : list (key * cfg)).
Definition dict := list (key * cfg).

Fixpoint dget (k : key) (d : dict) : option cfg :=
  match d with
  | [] => None
  | (k', x) :: r => if text_eqb k k' then Some x else dget k r
  end.

Fixpoint dset (k : key) (x : cfg) (d : dict) : dict :=
  match d with
  | [] => [(k, x)]
  | (k', y) :: r => if text_eqb k k' then (k', x) :: r else (k', y) :: dset k x r
  end.

(* ---- helpers/dict.py ------------------------------------------------------------------------------------------- *)

(* One `for k in d:` pass of nested_combine over the entries of the dict node `c`, updating r.
   `nested_combine(r[k], d[k])` starts from a fresh {} and first runs over r[k], where every key takes the `else` branch
   (keys of a dict are distinct): a deep copy of r[k].  So the recursive call is the merge of d[k] into r[k]. *)
Fixpoint merge_cfg (c : cfg) : dict -> res dict :=
  match c with
  | Leaf _ => fun r => Ok r          (* not reached: only called on dict nodes *)
  | Dict l =>
      (fix go (l : list (key * cfg)) (r : dict) {struct l} : res dict :=
         match l with
         | [] => Ok r
         | (k, x) :: l' =>
             match dget k r with
             | Some (Dict rk) =>
                 match x with
                 | Dict _ => do rk' <- merge_cfg x rk; go l' (dset k (Dict rk') r)
                 | Leaf _ => Err EValue                      (* "Key is a dict in one config but not another! PANIC" *)
                 end
             | _ => go l' (dset k x r)                       (* r[k] = deepcopy(d[k]) : absent, or a leaf overwritten *)
             end
         end) l
  end.

Definition merge (r d : dict) : res dict := merge_cfg (Dict d) r.

(* nested_combine of a list of dicts *)
Definition nested_combine (ds : list dict) : res dict :=
  fold_left (fun acc d => do r <- acc; merge r d) ds (Ok []).

(* records_to_nested_dict: one record *)
Fixpoint rec_insert (ks : list key) (v : V) (d : dict) : res dict :=
  match ks with
  | [] => Err EIndex                                          (* key[-1] of an empty tuple *)
  | [k] => Ok (dset k (Leaf v) d)                             (* ref[key[-1]] = val *)
  | k :: rest =>
      match dget k d with
      | None => do s <- rec_insert rest v []; Ok (dset k (Dict s) d)
      | Some (Dict s0) => do s <- rec_insert rest v s0; Ok (dset k (Dict s) d)
      | Some (Leaf _) => Err EAssert                          (* assert isinstance(subsection, dict) *)
      end
  end.

Definition records_to_nested_dict (recs : list (list key * V)) : res dict :=
  fold_left (fun acc kv => do d <- acc; rec_insert (fst kv) (snd kv) d) recs (Ok []).

(* iter_records_from_nested_dict *)
Fixpoint iter_cfg (c : cfg) : list (list key * V) :=
  match c with
  | Leaf v => [([], v)]
  | Dict l =>
      (fix go (l : list (key * cfg)) : list (list key * V) :=
         match l with
         | [] => []
         | (k, x) :: l' => map (fun kv => (k :: fst kv, snd kv)) (iter_cfg x) ++ go l'
         end) l
  end.
Definition iter_records (d : dict) : list (list key * V) := iter_cfg (Dict d).

(* Lookup used by the specifications (FluffConfig.get_section walks the same way). *)
Fixpoint lookup (p : list key) (d : dict) : option cfg :=
  match p with
  | [] => None
  | [k] => dget k d
  | k :: p' => match dget k d with Some (Dict s) => lookup p' s | _ => None end
  end.

(* What sits at a path: None = nothing; Some None = a section; Some (Some v) = the value v. *)
Definition kind_of (c : cfg) : option V := match c with Leaf v => Some v | Dict _ => None end.
Definition kind_at (p : list key) (d : dict) : option (option V) := option_map kind_of (lookup p d).

(* ---- config/ini.py: load_ini_string ---------------------------------------------------------------------------- *)
(* input: configparser's view -- sections in order, each with its (option name, raw value) items *)
Definition ini := list (text * list (text * text)).

Definition sqlfluff_colon : text := lit "sqlfluff:".
Definition core : key := lit "core".

Definition ini_section_key (sec : text) : option (list key) :=
  if text_eqb sec (lit "sqlfluff") then Some [core]
  else if startswith sqlfluff_colon sec then Some (split_on colon (skipn 9 sec))
  else None.                                                  (* not a sqlfluff section: ignored *)

Definition ini_records (i : ini) : list (list key * V) :=
  flat_map (fun sec =>
    match ini_section_key (fst sec) with
    | None => []
    | Some k => map (fun nv => (k ++ split_on dot (fst nv), coerce (snd nv))) (snd sec)
    end) i.

Definition load_ini (i : ini) : res dict := records_to_nested_dict (ini_records i).

(* ---- config/toml.py: load_toml_file_config (after _validate_structure) ------------------------------------------- *)
Definition rules_key : key := lit "rules".

Definition condense_rule_record (kv : list key * V) : list key * V :=
  let '(k, v) := kv in
  if 2 <? List.length k then ([join_with [dot] (removelast k); last k []], v) else (k, v).

Definition load_toml (d : dict) : res dict :=
  match dget rules_key d with
  | None => Ok d
  | Some (Leaf _) => Err EAssert
  | Some (Dict rs) =>
      do rs' <- records_to_nested_dict (map condense_rule_record (iter_records rs));
      Ok (dset rules_key (Dict rs') d)
  end.

(* ---- config/file.py ---------------------------------------------------------------------------------------------- *)
Inductive fcontent := FIni (i : ini) | FToml (d : dict).

Definition pyproject : text := lit "pyproject.toml".

(* _load_raw_file_as_dict: the *file name* selects the parser.  The content is given as the chosen parser's view of it; a
   file whose content is supplied in the other parser's view is outside the model (ERuntime). *)
Definition load_file (name : text) (c : fcontent) : res dict :=
  if text_eqb name pyproject
  then match c with FToml d => load_toml d | FIni _ => Err ERuntime end
  else match c with FIni i => load_ini i | FToml _ => Err ERuntime end.

(* the file system: every directory with its config files *)
Definition fsys := list (path * list (text * fcontent)).

Fixpoint assoc_path {A} (p : path) (l : list (path * A)) : option A :=
  match l with
  | [] => None
  | (q, a) :: r => if path_eqb p q then Some a else assoc_path p r
  end.
Fixpoint assoc_text {A} (k : text) (l : list (text * A)) : option A :=
  match l with
  | [] => None
  | (q, a) :: r => if text_eqb k q then Some a else assoc_text k r
  end.

Definition is_dir (f : fsys) (p : path) : bool := match assoc_path p f with Some _ => true | None => false end.

(* load_config_file_as_dict(filepath) without the cache: file `name` in directory `p` *)
Definition file_at (f : fsys) (p : path) (name : text) : option fcontent :=
  match assoc_path p f with Some files => assoc_text name files | None => None end.

(* ---- config/loader.py -------------------------------------------------------------------------------------------- *)
Definition filename_options : list text :=
  [lit "setup.cfg"; lit "tox.ini"; lit "pep8.ini"; lit ".sqlfluff"; lit "pyproject.toml"].

(* load_config_file(p, fname, configs) = nested_combine(configs or {}, load_config_file_as_dict(join(p, fname))) *)
Definition load_config_file (name : text) (c : fcontent) (configs : dict) : res dict :=
  do raw <- load_file name c; nested_combine [configs; raw].

(* load_config_at_path(path) without the cache *)
Definition load_config_at_path (f : fsys) (pth : path) : res dict :=
  let p := if is_dir f pth then pth else removelast pth in
  match assoc_path p f with
  | None => Err ERuntime                                       (* os.listdir raises *)
  | Some files =>
      fold_left (fun acc fname =>
                   do configs <- acc;
                   match assoc_text fname files with            (* fname in d and isfile(...) *)
                   | Some c => load_config_file fname c configs
                   | None => Ok configs
                   end) filename_options (Ok [])
  end.

(* helpers/file.py: iter_intermediate_paths(inner, outer) on POSIX (a common path always exists) *)
Fixpoint common_prefix (a b : path) : path :=
  match a, b with
  | x :: a', y :: b' => if text_eqb x y then x :: common_prefix a' b' else []
  | _, _ => []
  end.

Fixpoint walk_down (cur : path) (rest : path) : list path :=
  match rest with
  | [] => [cur]                                                (* yield inner_path *)
  | x :: r => cur :: walk_down (cur ++ [x]) r                  (* while path_to_visit != inner_path: yield; descend *)
  end.

Definition iter_intermediate_paths (f : fsys) (inner outer : path) : list path :=
  let inner := if is_dir f inner then inner else removelast inner in
  let c := common_prefix inner outer in
  walk_down c (skipn (List.length c) inner).

Record env := mkEnv { e_home : path; e_xdg : option path; e_cwd : path }.

(* _get_user_config_dir_path("linux") *)
Definition cross_dir (e : env) : path := e_home e ++ [lit ".config"; lit "sqlfluff"].     (* ~/.config/sqlfluff *)
Definition user_config_dir (f : fsys) (e : env) : path :=
  let cross := cross_dir e in
  if is_dir f cross then cross
  else match e_xdg e with
       | Some x => x ++ [lit "sqlfluff"]
       | None => cross
       end.

Definition load_user_appdir_config (f : fsys) (e : env) : res dict :=
  let d := user_config_dir f e in
  if is_dir f d then load_config_at_path f d else Ok [].

Fixpoint sequence {A} (l : list (res A)) : res (list A) :=
  match l with
  | [] => Ok []
  | r :: t => do a <- r; do t' <- sequence t; Ok (a :: t')
  end.

(* the extra config file: `--config` / extra_config_path *)
Definition load_extra (f : fsys) (extra : option path) : res dict :=
  match extra with
  | None => Ok []
  | Some x =>
      if is_dir f x then Err ERuntime                            (* "is a directory, not a config file" *)
      else match file_at f (removelast x) (last x []) with
           | None => Err ERuntime                                (* "does not exist" *)
           | Some c => load_file (last x []) c
           end
  end.

Definition load_config_up_to_path (f : fsys) (e : env) (pth : path) (extra : option path) (ignore_local : bool)
  : res dict :=
  do user_appdir <- (if ignore_local then Ok [] else load_user_appdir_config f e);
  do user <- (if ignore_local then Ok [] else load_config_at_path f (e_home e));
  do parents <- (if ignore_local then Ok []
                 else sequence (map (load_config_at_path f)
                                    (removelast (tl (iter_intermediate_paths f pth (e_home e))))));
  do stack <- (if ignore_local then Ok []
               else sequence (map (load_config_at_path f) (iter_intermediate_paths f pth (e_cwd e))));
  do extra_config <- load_extra f extra;
  nested_combine ([user_appdir; user] ++ parents ++ stack ++ [extra_config]).

(* ---- config/fluffconfig.py ---------------------------------------------------------------------------------------- *)

(* FluffConfig.__init__: self._configs = nested_combine(defaults, configs or {"core": {}}, {"core": overrides} or {}) *)
Definition core_wrap (overrides : dict) : dict :=
  match overrides with [] => [] | _ => [(core, Dict overrides)] end.
Definition configs_or_empty (configs : dict) : dict :=
  match configs with [] => [(core, Dict [])] | _ => configs end.

Definition fluff_init (defaults configs overrides : dict) : res dict :=
  nested_combine [defaults; configs_or_empty configs; core_wrap overrides].

(* what a root config hands to its children (make_child_from_path): extra path, ignore flag, overrides *)
Record root := mkRoot { r_defaults : dict; r_extra : option path; r_ignore_local : bool; r_overrides : dict }.

(* FluffConfig.__init__, after the combination: _dialect = self._configs["core"]["dialect"]; a dialect that is None is a
   SQLFluffUserError ("No dialect was specified") when require_dialect.  (An unknown dialect name is outside the model.) *)
Definition dialect_key : key := lit "dialect".
Definition dialect_check (require_dialect : bool) (c : dict) : res unit :=
  match lookup [core; dialect_key] c with
  | Some (Leaf v) => if is_none v && require_dialect then Err ERuntime else Ok tt
  | Some (Dict _) => Err EAssert                              (* assert _dialect is None or isinstance(_dialect, str) *)
  | None => Err EKey
  end.

(* FluffConfig.from_path; make_child_from_path(path) is from_path with require_dialect = True *)
Definition from_path (f : fsys) (e : env) (rt : root) (require_dialect : bool) (pth : path) : res dict :=
  do configs <- load_config_up_to_path f e pth (r_extra rt) (r_ignore_local rt);
  do c <- fluff_init (r_defaults rt) configs (r_overrides rt);
  do _ <- dialect_check require_dialect c;
  Ok c.

(* FluffConfig.set_value(config_path, val) with len(config_path) >= 2 (the caller has put "core" in front).
   dict_buff[-1].get(elem, {}) returns whatever sits at elem; a non-dict there makes the later item assignment / .get fail
   (TypeError / AttributeError -> ERuntime). *)
Fixpoint set_value (p : list key) (v : V) (d : dict) : res dict :=
  match p with
  | [] => Err EIndex
  | [k] => Ok (dset k (Leaf v) d)
  | k :: rest =>
      match dget k d with
      | None => do s <- set_value rest v []; Ok (dset k (Dict s) d)
      | Some (Dict s0) => do s <- set_value rest v s0; Ok (dset k (Dict s) d)
      | Some (Leaf _) => Err ERuntime
      end
  end.

(* process_inline_config(config_line): None = the line is ignored (warning); Some (path, raw value) = a setting *)
Definition parse_inline (line : text) : res (option (list key * text)) :=
  let l1 := if startswith (lit "--") line then strip (skipn 2 line) else line in
  if negb (startswith sqlfluff_colon l1) then Ok None
  else
    let l2 := strip (skipn 9 l1) in
    match split_colon_separated_string l2 with
    | None => Err EFuel
    | Some ([], _) => Ok None                                    (* malformed: no colon after "sqlfluff:" *)
    | Some ([k], v) => Ok (Some ([core; k], v))
    | Some (ks, v) => Ok (Some (ks, v))
    end.

Definition is_inline_line (line : text) : bool :=
  startswith (lit "-- sqlfluff") line || startswith (lit "--sqlfluff") line.

Definition process_inline_config (d : dict) (line : text) : res dict :=
  do o <- parse_inline line;
  match o with
  | None => Ok d
  | Some (p, raw) => set_value p (coerce raw) d
  end.

(* process_raw_file_for_config(raw_str) *)
Definition process_raw_file_for_config (d : dict) (raw : text) : res dict :=
  fold_left (fun acc line => do c <- acc; if is_inline_line line then process_inline_config c line else Ok c)
            (splitlines raw) (Ok d).

(* ---- linter: the config a file is linted with ---------------------------------------------------------------------- *)
(* FluffConfig.verify_dialect_specified: self._configs["core"].get("dialect", None) is None -> SQLFluffUserError *)
Definition verify_dialect (c : dict) : res unit :=
  match lookup [core; dialect_key] c with
  | Some (Leaf v) => if is_none v then Err ERuntime else Ok tt
  | Some (Dict _) => Ok tt
  | None => Err ERuntime
  end.

(* the first half of Linter.load_raw_file_and_config(fname, root_config):
   root_config.make_child_from_path(fname, require_dialect=False), then the file's inline directives *)
Definition inline_config (f : fsys) (e : env) (rt : root) (sqlfile : path * text) : res dict :=
  do c <- from_path f e rt false (fst sqlfile);
  process_raw_file_for_config c (snd sqlfile).

(* Linter.load_raw_file_and_config: ... and only now, with the inline directives applied, is a dialect required *)
Definition file_config (f : fsys) (e : env) (rt : root) (sqlfile : path * text) : res dict :=
  do c <- inline_config f e rt sqlfile;
  do _ <- verify_dialect c;
  Ok c.

(* a run over a sequence of files (Linter.lint_paths, sequential runner) *)
Definition run (f : fsys) (e : env) (rt : root) (files : list (path * text)) : list (res dict) :=
  map (file_config f e rt) files.

(* Linter.parse_string / lint_string: a copy of the given config plus the string's inline directives ... *)
Definition string_config (base : dict) (raw : text) : res dict := process_raw_file_for_config base raw.
(* ... and render_string's config.verify_dialect_specified() *)
Definition string_lint_config (base : dict) (raw : text) : res dict :=
  do c <- string_config base raw;
  do _ <- verify_dialect c;
  Ok c.

(* ---- the same run with the two functools caches as explicit state ---------------------------------------------------- *)
(* load_config_file_as_dict is cached per file path, load_config_at_path per directory path (the argument string).
   Only returned values are cached (an exception leaves the cache as it is). *)
Record caches := mkCaches { c_file : list (path * dict); c_dir : list (path * dict) }.

Definition M (A : Type) := caches -> res A * caches.
Definition mret {A} (a : A) : M A := fun c => (Ok a, c).
Definition mlift {A} (r : res A) : M A := fun c => (r, c).
Definition mbind {A B} (m : M A) (k : A -> M B) : M B :=
  fun c => match m c with (Ok a, c') => k a c' | (Err e, c') => (Err e, c') end.

Definition load_file_c (p : path) (name : text) (content : fcontent) : M dict :=
  fun c => match assoc_path (p ++ [name]) (c_file c) with
           | Some d => (Ok d, c)
           | None => match load_file name content with
                     | Ok d => (Ok d, mkCaches ((p ++ [name], d) :: c_file c) (c_dir c))
                     | Err e => (Err e, c)
                     end
           end.

Fixpoint at_path_files_c (p : path) (files : list (text * fcontent)) (names : list text) (configs : dict) : M dict :=
  match names with
  | [] => mret configs
  | fname :: rest =>
      match assoc_text fname files with
      | Some content =>
          mbind (load_file_c p fname content) (fun raw =>
          mbind (mlift (nested_combine [configs; raw])) (fun configs' => at_path_files_c p files rest configs'))
      | None => at_path_files_c p files rest configs
      end
  end.

Definition load_config_at_path_c (f : fsys) (pth : path) : M dict :=
  fun c => match assoc_path pth (c_dir c) with
           | Some d => (Ok d, c)
           | None =>
               let p := if is_dir f pth then pth else removelast pth in
               match assoc_path p f with
               | None => (Err ERuntime, c)
               | Some files =>
                   match at_path_files_c p files filename_options [] c with
                   | (Ok d, c') => (Ok d, mkCaches (c_file c') ((pth, d) :: c_dir c'))
                   | (Err e, c') => (Err e, c')
                   end
               end
           end.

Fixpoint msequence {A} (l : list (M A)) : M (list A) :=
  match l with
  | [] => mret []
  | m :: t => mbind m (fun a => mbind (msequence t) (fun t' => mret (a :: t')))
  end.

Definition load_extra_c (f : fsys) (extra : option path) : M dict :=
  match extra with
  | None => mret []
  | Some x =>
      if is_dir f x then mlift (Err ERuntime)
      else match file_at f (removelast x) (last x []) with
           | None => mlift (Err ERuntime)
           | Some content => load_file_c (removelast x) (last x []) content
           end
  end.

Definition load_config_up_to_path_c (f : fsys) (e : env) (pth : path) (extra : option path) (ignore_local : bool)
  : M dict :=
  mbind (if ignore_local then mret []
         else let d := user_config_dir f e in if is_dir f d then load_config_at_path_c f d else mret []) (fun user_appdir =>
  mbind (if ignore_local then mret [] else load_config_at_path_c f (e_home e)) (fun user =>
  mbind (if ignore_local then mret []
         else msequence (map (load_config_at_path_c f)
                             (removelast (tl (iter_intermediate_paths f pth (e_home e)))))) (fun parents =>
  mbind (if ignore_local then mret []
         else msequence (map (load_config_at_path_c f) (iter_intermediate_paths f pth (e_cwd e)))) (fun stack =>
  mbind (load_extra_c f extra) (fun extra_config =>
  mlift (nested_combine ([user_appdir; user] ++ parents ++ stack ++ [extra_config]))))))).

Definition file_config_c (f : fsys) (e : env) (rt : root) (sqlfile : path * text) : M dict :=
  mbind (load_config_up_to_path_c f e (fst sqlfile) (r_extra rt) (r_ignore_local rt)) (fun configs =>
  mlift (do c <- fluff_init (r_defaults rt) configs (r_overrides rt);
         do _ <- dialect_check false c;
         do c' <- process_raw_file_for_config c (snd sqlfile);
         do _ <- verify_dialect c';
         Ok c')).

(* the run with the caches threaded from file to file; a failing file does not stop the run (each file has its own result) *)
Fixpoint run_c (f : fsys) (e : env) (rt : root) (files : list (path * text)) (c : caches) : list (res dict) * caches :=
  match files with
  | [] => ([], c)
  | sf :: rest =>
      let '(r, c1) := file_config_c f e rt sf c in
      let '(rs, c2) := run_c f e rt rest c1 in
      (r :: rs, c2)
  end.

(* ---- specification side: the precedence order as a flat list of layers --------------------------------------------- *)

(* the parsed files of one directory, lowest precedence first (filename_options order) *)
Definition dir_layers (f : fsys) (pth : path) : list (res dict) :=
  let p := if is_dir f pth then pth else removelast pth in
  match assoc_path p f with
  | None => [Err ERuntime]
  | Some files =>
      flat_map (fun fname => match assoc_text fname files with
                             | Some c => [load_file fname c]
                             | None => []
                             end) filename_options
  end.

Definition extra_layers (f : fsys) (extra : option path) : list (res dict) :=
  match extra with
  | None => []
  | Some _ => [load_extra f extra]
  end.

(* every file-based source of a sql file, lowest precedence first:
   user appdir < home < directories between home and the file < directories from the working directory to the file < extra *)
Definition file_layers (f : fsys) (e : env) (pth : path) (extra : option path) (ignore_local : bool) : list (res dict) :=
  (if ignore_local then []
   else (let d := user_config_dir f e in if is_dir f d then dir_layers f d else [])
        ++ dir_layers f (e_home e)
        ++ flat_map (dir_layers f) (removelast (tl (iter_intermediate_paths f pth (e_home e))))
        ++ flat_map (dir_layers f) (iter_intermediate_paths f pth (e_cwd e)))
  ++ extra_layers f extra.

(* the last non-None of a list of observations *)
Fixpoint last_some {A} (l : list (option A)) : option A :=
  match l with
  | [] => None
  | o :: r => match last_some r with Some a => Some a | None => o end
  end.

(* is p a (non-strict) prefix of q *)
Fixpoint is_prefix (p q : list key) : bool :=
  match p, q with
  | [], _ => true
  | a :: p', b :: q' => text_eqb a b && is_prefix p' q'
  | _ :: _, [] => false
  end.

(* what one `set_value q v` does to the observation at path p *)
Definition inline_effect (p : list key) (qv : list key * V) (before : option (option V)) : option (option V) :=
  let '(q, v) := qv in
  if is_prefix q p then (if is_prefix p q then Some (Some v) (* q = p: the value *) else None (* a value now sits above p *))
  else if is_prefix p q then Some None                        (* p is a section on the way to q *)
  else before.

Definition inline_over (p : list key) (dirs : list (list key * V)) (before : option (option V)) : option (option V) :=
  fold_left (fun acc qv => inline_effect p qv acc) dirs before.

(* the settings of a file's inline directives, in file order (errors of the parser aside) *)
Definition inline_settings (raw : text) : list (list key * V) :=
  flat_map (fun line => if is_inline_line line
                        then match parse_inline line with
                             | Ok (Some (p, v)) => [(p, coerce v)]
                             | _ => []
                             end
                        else []) (splitlines raw).


(* observation of a layer that may have failed to load *)
Definition okind (p : list key) (r : res dict) : option (option V) :=
  match r with Ok d => kind_at p d | Err _ => None end.

(* THE PRECEDENCE ORDER, as a specification: what is observed at path p in the config file `sf` is linted with.
   defaults < file layers (file_layers order; `{"core": {}}` stands in when they are all empty) < overrides (under core),
   then the file's own inline directives in file order. *)
Definition spec_kind (f : fsys) (e : env) (rt : root) (sf : path * text) (configs_empty : bool) (p : list key)
  : option (option V) :=
  inline_over p (inline_settings (snd sf))
    (last_some ([kind_at p (r_defaults rt)]
                ++ (if configs_empty then [kind_at p [(core, Dict [])]]
                    else map (okind p) (file_layers f e (fst sf) (r_extra rt) (r_ignore_local rt)))
                ++ [kind_at p (core_wrap (r_overrides rt))])).

(* is what is observed at core:dialect a dialect (verify_dialect_specified in terms of the observation) *)
Definition dialect_ok (k : option (option V)) : bool :=
  match k with Some (Some v) => negb (is_none v) | Some None => true | None => false end.

Definition is_nil {A} (l : list A) : bool := match l with [] => true | _ => false end.

(* the directories (and paths tested for being directories) that the config of the file at `pth` is read from *)
Definition dir_of (f : fsys) (q : path) : path := if is_dir f q then q else removelast q.
Definition relevant (f : fsys) (e : env) (extra : option path) (pth : path) : list path :=
  let ups := e_home e :: user_config_dir f e
             :: iter_intermediate_paths f pth (e_home e) ++ iter_intermediate_paths f pth (e_cwd e) in
  [cross_dir e; pth] ++ ups ++ map (dir_of f) ups
  ++ match extra with Some x => [x; removelast x] | None => [] end.


(* decidable well-formedness (distinct keys at every level), for the examples and for the harness to check its inputs *)
Fixpoint nodupb (l : list key) : bool :=
  match l with [] => true | k :: r => negb (existsb (text_eqb k) r) && nodupb r end.
Fixpoint wfb (c : cfg) : bool :=
  match c with
  | Leaf _ => true
  | Dict l => nodupb (map fst l) &&
              (fix all (l : list (key * cfg)) : bool := match l with [] => true | (_, x) :: r => wfb x && all r end) l
  end.
Definition wfdb (d : dict) : bool := wfb (Dict d).
Definition content_wfb (c : fcontent) : bool := match c with FToml d => wfdb d | FIni _ => true end.
Definition fs_wfb (f : fsys) : bool := forallb (fun pf => forallb (fun nc => content_wfb (snd nc)) (snd pf)) f.

End WithValues.

Arguments Leaf {V} v.
Arguments Dict {V} l.
Arguments FIni {V} i.
Arguments FToml {V} d.
Arguments mkRoot {V}.
Arguments mkCaches {V}.
