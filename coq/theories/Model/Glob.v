(* fnmatch-style glob matching (fnmatch.translate + re.match, posix: normcase is the identity). *)
From SF Require Import Base.Prelude.

Inductive ptok := PStar | PAny | PLit (c : N) | PSet (neg : bool) (items : list (N * N)).

Definition in_set (d : N) (items : list (N * N)) : bool :=
  existsb (fun r => (fst r <=? d)%N && (d <=? snd r)%N) items.

Definition c_star : N := 42.  Definition c_q : N := 63.  Definition c_lb : N := 91.  Definition c_rb : N := 93.
Definition c_bang : N := 33.  Definition c_dash : N := 45.

(* items of a bracket expression body: `a-b` is a range, anything else a single character.
   (Corner cases of fnmatch -- reversed ranges, `--`, `&&` escapes -- are outside this model: see supported_body.) *)
Fixpoint set_items (body : text) : list (N * N) :=
  match body with
  | [] => []
  | a :: r =>
      match r with
      | d :: b :: r' => if N.eqb d c_dash then (a, b) :: set_items r' else (a, a) :: set_items r
      | _ => (a, a) :: set_items r
      end
  end.

(* split at the first `]` (not counting position 0 of the body, which may be a literal `]`) *)
Fixpoint until_rb (s : text) : option (text * text) :=
  match s with
  | [] => None
  | c :: r => if N.eqb c c_rb then Some ([], r)
              else match until_rb r with Some (b, rest) => Some (c :: b, rest) | None => None end
  end.

Definition parse_set (after_lb : text) : option (ptok * text) :=
  let '(neg, s1) := match after_lb with c :: r => if N.eqb c c_bang then (true, r) else (false, after_lb) | [] => (false, []) end in
  let '(lead, s2) := match s1 with c :: r => if N.eqb c c_rb then ([c_rb], r) else ([], s1) | [] => ([], []) end in
  match until_rb s2 with
  | Some (body, rest) => Some (PSet neg (set_items (lead ++ body)), rest)
  | None => None
  end.

(* fuel = length of the pattern is always enough: every step consumes at least one character *)
Fixpoint parse_pat_fuel (fuel : nat) (p : text) : list ptok :=
  match fuel with
  | 0 => []
  | S f =>
      match p with
      | [] => []
      | c :: r =>
          if N.eqb c c_star then
            match parse_pat_fuel f r with
            | PStar :: t => PStar :: t        (* consecutive `*` compress into one *)
            | t => PStar :: t
            end
          else if N.eqb c c_q then PAny :: parse_pat_fuel f r
          else if N.eqb c c_lb then
            match parse_set r with
            | Some (tok, rest) => tok :: parse_pat_fuel f rest
            | None => PLit c_lb :: parse_pat_fuel f r
            end
          else PLit c :: parse_pat_fuel f r
      end
  end.
Definition parse_pat (p : text) : list ptok := parse_pat_fuel (length p) p.

Fixpoint gmatch (p : list ptok) (s : text) {struct p} : bool :=
  match p with
  | [] => match s with [] => true | _ => false end
  | PStar :: p' =>
      (fix star (s : text) : bool :=
         gmatch p' s || match s with [] => false | _ :: s' => star s' end) s
  | PAny :: p' => match s with [] => false | _ :: s' => gmatch p' s' end
  | PLit c :: p' => match s with [] => false | d :: s' => N.eqb c d && gmatch p' s' end
  | PSet neg items :: p' => match s with [] => false | d :: s' => xorb neg (in_set d items) && gmatch p' s' end
  end.

(* fnmatch.fnmatchcase(name, pat) *)
Definition fnmatch (name pat : text) : bool := gmatch (parse_pat pat) name.

Definition has_meta (s : text) : bool := existsb (fun c => N.eqb c c_star || N.eqb c c_q || N.eqb c c_lb) s.

(* declarative meaning of a token list *)
Inductive gsem : list ptok -> text -> Prop :=
| gs_nil : gsem [] []
| gs_star p s1 s2 : gsem p s2 -> gsem (PStar :: p) (s1 ++ s2)
| gs_any p c s : gsem p s -> gsem (PAny :: p) (c :: s)
| gs_lit p c s : gsem p s -> gsem (PLit c :: p) (c :: s)
| gs_set p neg items c s : xorb neg (in_set c items) = true -> gsem p s -> gsem (PSet neg items :: p) (c :: s).
