(* Model of the rendering part of PythonTemplater.process (core/templaters/python.py, render_func):

     raw_str_with_dot_notation_hack = re.sub(DOT_REGEX, DOT_REPL, raw_str)
     rendered_str = raw_str_with_dot_notation_hack.format( **live_context )      (KeyError -> SQLTemplaterError)

   where DOT_REGEX is: lbrace, group 1 = (not-colon-or-rbrace)* dot (not-colon-or-rbrace)*, optional group 2 = colon
   followed by non-whitespace*, rbrace; and DOT_REPL is: lbrace sqlfluff[ group1 ] group2 rbrace.
   (The regex is not quoted literally because its text would close this comment.)
   Also modelled, because render_func calls it: CPython's str.format (Objects/stringlib/unicode_format.h:
   MarkupIterator_next, parse_field, field_name_split, FieldNameIterator_next, get_field_object, output_markup,
   build_string).  Values are abstract: attribute/item lookup, !r/!s/!a conversion and format(value, spec) are oracles
   (Section variables).  Executable definitions only. *)
From SF Require Import Base.Prelude.

Definition c_lb : cp := 123%N.     (* { *)
Definition c_rb : cp := 125%N.     (* } *)
Definition c_colon : cp := 58%N.
Definition c_bang : cp := 33%N.
Definition c_lsq : cp := 91%N.     (* [ *)
Definition c_rsq : cp := 93%N.     (* ] *)
Definition c_dot : cp := 46%N.
Definition t_sqlfluff : text := [115; 113; 108; 102; 108; 117; 102; 102]%N.

Definition has_c (c : cp) (s : text) : bool := existsb (N.eqb c) s.
Definition has_dot (s : text) : bool := has_c c_dot s.

(* ------------------------------------------------------------------------------------------------------------
   1. The regex substitution, as a leftmost scanner with Python's backtracking priorities.

   At a '{':  group 1 must be followed by ':' or '}', so it is the whole maximal run of characters
   other than ':' and '}' and that run must contain a '.';  then either '}' follows (group 2 unset, substituted as the empty string), or ':'
   follows and group 2 is ':' + the greedy run of non-whitespace characters, backtracked to the LAST '}' in that run (which is the
   closing '}' of the pattern).  No other alternative can match.  re.sub then resumes after the match. *)

(* \s for a str pattern = Py_UNICODE_ISSPACE *)
Definition is_space (c : cp) : bool :=
  ((9 <=? c) && (c <=? 13) || (28 <=? c) && (c <=? 32) || (c =? 133) || (c =? 160) || (c =? 5760)
   || (8192 <=? c) && (c <=? 8202) || (c =? 8232) || (c =? 8233) || (c =? 8239) || (c =? 8287) || (c =? 12288))%N.

(* maximal prefix of characters that are neither ':' nor '}' and the remainder *)
Fixpoint span_run (s : text) : text * text :=
  match s with
  | [] => ([], [])
  | c :: r => if N.eqb c c_colon || N.eqb c c_rb then ([], s)
              else let (a, b) := span_run r in (c :: a, b)
  end.

(* maximal prefix of non-whitespace characters and the remainder *)
Fixpoint span_nonws (s : text) : text * text :=
  match s with
  | [] => ([], [])
  | c :: r => if is_space c then ([], s) else let (a, b) := span_nonws r in (c :: a, b)
  end.

(* t = u ++ '}' :: v with no '}' in v  (split at the last '}') *)
Fixpoint split_last_rb (t : text) : option (text * text) :=
  match t with
  | [] => None
  | c :: r =>
      match split_last_rb r with
      | Some (u, v) => Some (c :: u, v)
      | None => if N.eqb c c_rb then Some ([], r) else None
      end
  end.

(* r = the text after a '{'.  Some (group1, group2, number of characters of r consumed by the match) *)
Definition try_match (r : text) : option (text * text * nat) :=
  let (g1, r1) := span_run r in
  if has_dot g1 then
    match r1 with
    | [] => None
    | c :: r2 =>
        if N.eqb c c_rb then Some (g1, [], S (length g1))
        else (* c = ':' *)
          let (t, _) := span_nonws r2 in
          match split_last_rb t with
          | Some (u, _) => Some (g1, c_colon :: u, length g1 + S (length u) + 1)
          | None => None
          end
    end
  else None.

(* skip = characters of the current match still to be passed over *)
Fixpoint hack_aux (skip : nat) (s : text) : text :=
  match s with
  | [] => []
  | c :: r =>
      match skip with
      | S k => hack_aux k r
      | 0 =>
          if N.eqb c c_lb then
            match try_match r with
            | Some (g1, g2, n) => c_lb :: t_sqlfluff ++ c_lsq :: g1 ++ c_rsq :: g2 ++ c_rb :: hack_aux n r
            | None => c :: hack_aux 0 r
            end
          else c :: hack_aux 0 r
      end
  end.

Definition dot_hack (s : text) : text := hack_aux 0 s.

(* ------------------------------------------------------------------------------------------------------------
   2. The format-string grammar (MarkupIterator_next / parse_field).  Parsing is lazy in CPython: a malformed
   construct raises only when it is reached, after everything before it has been rendered.  `Bad` marks that point. *)

Inductive item :=
| Lit (c : cp)
| Fld (name : text) (conv : option cp) (spec : text) (expand : bool)
| Bad.

Definition is_term (c : cp) : bool := N.eqb c c_rb || N.eqb c c_colon || N.eqb c c_bang.

(* field name: up to '}' ':' '!' ; '{' is an error ; '[' skips to the next ']' ; end of string is an error.
   Result: (name, terminator, text after the terminator) *)
Fixpoint scan_name (inbr : bool) (s : text) : option (text * cp * text) :=
  match s with
  | [] => None
  | c :: r =>
      if inbr then
        match scan_name (negb (N.eqb c c_rsq)) r with
        | Some (n, t, rest) => Some (c :: n, t, rest)
        | None => None
        end
      else if N.eqb c c_lb then None
      else if is_term c then Some ([], c, r)
      else
        match scan_name (N.eqb c c_lsq) r with
        | Some (n, t, rest) => Some (c :: n, t, rest)
        | None => None
        end
  end.

(* format spec: up to the matching '}' (d = number of '{' currently open inside the spec) *)
Fixpoint scan_spec (d : nat) (s : text) : option (text * text) :=
  match s with
  | [] => None
  | c :: r =>
      if N.eqb c c_rb then
        match d with
        | 0 => Some ([], r)
        | S d' => match scan_spec d' r with Some (sp, rest) => Some (c :: sp, rest) | None => None end
        end
      else
        match scan_spec (if N.eqb c c_lb then S d else d) r with
        | Some (sp, rest) => Some (c :: sp, rest)
        | None => None
        end
  end.

Definition spec_item (n : text) (cv : option cp) (r : text) : option (item * text) :=
  match scan_spec 0 r with
  | Some (sp, rest) => Some (Fld n cv sp (has_c c_lb sp), rest)
  | None => None
  end.

(* r = the text after a '{' that is not an escape *)
Definition parse_field (r : text) : option (item * text) :=
  match scan_name false r with
  | None => None
  | Some (n, t, r1) =>
      if N.eqb t c_rb then Some (Fld n None [] false, r1)
      else if N.eqb t c_colon then spec_item n None r1
      else (* '!' *)
        match r1 with
        | [] => None
        | cv :: [] => None
        | cv :: c2 :: r3 =>
            if N.eqb c2 c_rb then Some (Fld n (Some cv) [] false, r3)
            else if N.eqb c2 c_colon then spec_item n (Some cv) r3
            else None
        end
  end.

Fixpoint parse_aux (skip : nat) (s : text) : list item :=
  match s with
  | [] => []
  | c :: r =>
      match skip with
      | S k => parse_aux k r
      | 0 =>
          if N.eqb c c_lb then
            match r with
            | [] => [Bad]
            | c2 :: _ =>
                if N.eqb c2 c_lb then Lit c_lb :: parse_aux 1 r
                else
                  match parse_field r with
                  | None => [Bad]
                  | Some (it, rest) => it :: parse_aux (length r - length rest) r
                  end
            end
          else if N.eqb c c_rb then
            match r with
            | [] => [Bad]
            | c2 :: _ => if N.eqb c2 c_rb then Lit c_rb :: parse_aux 1 r else [Bad]
            end
          else Lit c :: parse_aux 0 r
      end
  end.

Definition parse_fmt (s : text) : list item := parse_aux 0 s.

(* ------------------------------------------------------------------------------------------------------------
   3. Field lookup and rendering *)

Definition is_digit (c : cp) : bool := ((48 <=? c) && (c <=? 57))%N.
Definition ssize_max : N := 9223372036854775807%N.

(* get_integer: Ok None = "not an integer" (-1 without an exception); overflow is a ValueError *)
Fixpoint get_int_acc (acc : N) (s : text) : res (option N) :=
  match s with
  | [] => Ok (Some acc)
  | c :: r =>
      if is_digit c then
        let d := (c - 48)%N in
        if ((ssize_max - d) / 10 <? acc)%N then Err EValue else get_int_acc (acc * 10 + d)%N r
      else Ok None
  end.
Definition get_integer (s : text) : res (option N) :=
  match s with [] => Ok None | _ => get_int_acc 0%N s end.

(* field_name_split: `first` = up to the first '.' or '[' *)
Fixpoint split_first (s : text) : text * text :=
  match s with
  | [] => ([], [])
  | c :: r => if N.eqb c c_dot || N.eqb c c_lsq then ([], s)
              else let (a, b) := split_first r in (c :: a, b)
  end.

(* FieldNameIterator as a state machine over the characters of `rest` (accumulators are reversed) *)
Inductive wmode := WSep | WAttr (acc : text) | WItem (acc : text).

Section Render.
  Variable val : Type.
  Variable kw : text -> option val.                  (* the keyword arguments of .format( **live_context ) *)
  Variable getattr_ : val -> text -> res val.
  Variable getitem_int : val -> N -> res val.
  Variable getitem_str : val -> text -> res val.
  Variable convert : cp -> val -> res val.            (* called with r / s / a only *)
  Variable fmt : val -> text -> res text.             (* format(value, spec) *)

  Definition fin_attr (v : val) (acc : text) : res val :=
    match acc with [] => Err EValue | _ => getattr_ v (rev acc) end.

  Definition fin_item (v : val) (acc : text) : res val :=
    match acc with
    | [] => Err EValue
    | _ => do oi <- get_integer (rev acc);
           match oi with Some i => getitem_int v i | None => getitem_str v (rev acc) end
    end.

  Fixpoint walk (m : wmode) (v : val) (s : text) : res val :=
    match s with
    | [] =>
        match m with
        | WSep => Ok v
        | WAttr acc => fin_attr v acc
        | WItem _ => Err EValue                       (* Missing ']' in format string *)
        end
    | c :: r =>
        match m with
        | WSep =>
            if N.eqb c c_dot then walk (WAttr []) v r
            else if N.eqb c c_lsq then walk (WItem []) v r
            else Err EValue                           (* Only '.' or '[' may follow ']' *)
        | WAttr acc =>
            if N.eqb c c_dot then do v' <- fin_attr v acc; walk (WAttr []) v' r
            else if N.eqb c c_lsq then do v' <- fin_attr v acc; walk (WItem []) v' r
            else walk (WAttr (c :: acc)) v r
        | WItem acc =>
            if N.eqb c c_rsq then do v' <- fin_item v acc; walk WSep v' r
            else walk (WItem (c :: acc)) v r
        end
    end.

  (* get_field_object with args = () : an empty or numeric first component indexes the empty positional tuple *)
  Definition get_field (name : text) : res val :=
    let (first, rest) := split_first name in
    do oi <- get_integer first;
    match first, oi with
    | [], _ => Err EIndex
    | _, Some _ => Err EIndex
    | _, None => match kw first with None => Err EKey | Some v => walk WSep v rest end
    end.

  (* The documented convention (the specification): a field name with a '.' (and no brackets) is ONE key of the
     `sqlfluff` mapping of the context; every other name is looked up the way str.format does. *)
  Definition dotted (name : text) : bool := has_dot name && negb (has_c c_lsq name) && negb (has_c c_rsq name).

  Definition get_field_spec (name : text) : res val :=
    if dotted name then
      match kw t_sqlfluff with None => Err EKey | Some v => getitem_str v name end
    else get_field name.

  Definition do_conv (cv : option cp) (v : val) : res val :=
    match cv with
    | None => Ok v
    | Some c =>
        if N.eqb c 0 then Ok v
        else if N.eqb c 114 || N.eqb c 115 || N.eqb c 97 then convert c v
        else Err EValue
    end.

  Section Build.
    Variable gf : text -> res val.

    (* build_string; depth = recursion_depth (2 at top level) *)
    Fixpoint build (depth : nat) (s : text) : res text :=
      match depth with
      | 0 => Err EValue                               (* Max string recursion exceeded *)
      | S d =>
          (fix go (its : list item) : res text :=
             match its with
             | [] => Ok []
             | Lit c :: r => do t <- go r; Ok (c :: t)
             | Bad :: _ => Err EValue
             | Fld n cv sp ex :: r =>
                 do v <- gf n;
                 do v' <- do_conv cv v;
                 do sp' <- (if ex then build d sp else Ok sp);
                 do t <- fmt v' sp';
                 do t' <- go r;
                 Ok (t ++ t')
             end) (parse_fmt s)
      end.
  End Build.

  (* str.format( **ctx ) *)
  Definition py_format (s : text) : res text := build get_field 2 s.
  (* the specification *)
  Definition spec_render (s : text) : res text := build get_field_spec 2 s.
  (* render_func *)
  (* every way str.format rejects the string (KeyError, IndexError, ValueError, AttributeError, TypeError) is reported as a
     templating error (repaired in /repo: before, only KeyError was) *)
  Definition py_render (s : text) : res text :=
    match py_format (dot_hack s) with
    | Err _ => Err ETemplater
    | r => r
    end.
  Definition spec_process (s : text) : res text :=
    match spec_render s with
    | Err _ => Err ETemplater
    | r => r
    end.
End Render.

(* ------------------------------------------------------------------------------------------------------------
   4. Table-driven oracles, so that the harness can run the model on values it ships (value = index into its table).
   A query outside the tables is `Err EFuel` ("oracle exhausted"), which the harness reports as its own fault. *)

Record otab := mkOtab {
  o_kw : list (text * nat);
  o_attr : list (nat * text * res nat);
  o_iint : list (nat * N * res nat);
  o_istr : list (nat * text * res nat);
  o_conv : list (cp * nat * res nat);
  o_fmt : list (nat * text * res text) }.

Fixpoint assoc {K V} (eqb : K -> K -> bool) (k : K) (l : list (K * V)) : option V :=
  match l with
  | [] => None
  | (k', v) :: r => if eqb k k' then Some v else assoc eqb k r
  end.
Definition miss {V} (o : option (res V)) : res V := match o with Some r => r | None => Err EFuel end.
Definition nt_eqb (a b : nat * text) : bool := Nat.eqb (fst a) (fst b) && text_eqb (snd a) (snd b).
Definition nn_eqb (a b : nat * N) : bool := Nat.eqb (fst a) (fst b) && N.eqb (snd a) (snd b).
Definition cn_eqb (a b : cp * nat) : bool := N.eqb (fst a) (fst b) && Nat.eqb (snd a) (snd b).

Definition t_kw (o : otab) (k : text) : option nat := assoc text_eqb k (o_kw o).
Definition t_attr (o : otab) (v : nat) (k : text) : res nat := miss (assoc nt_eqb (v, k) (o_attr o)).
Definition t_iint (o : otab) (v : nat) (k : N) : res nat := miss (assoc nn_eqb (v, k) (o_iint o)).
Definition t_istr (o : otab) (v : nat) (k : text) : res nat := miss (assoc nt_eqb (v, k) (o_istr o)).
Definition t_conv (o : otab) (c : cp) (v : nat) : res nat := miss (assoc cn_eqb (c, v) (o_conv o)).
Definition t_fmt (o : otab) (v : nat) (sp : text) : res text := miss (assoc nt_eqb (v, sp) (o_fmt o)).

Definition t_format (o : otab) (s : text) : res text :=
  py_format nat (t_kw o) (t_attr o) (t_iint o) (t_istr o) (t_conv o) (t_fmt o) s.
Definition t_render (o : otab) (s : text) : res text :=
  py_render nat (t_kw o) (t_attr o) (t_iint o) (t_istr o) (t_conv o) (t_fmt o) s.
Definition t_spec (o : otab) (s : text) : res text :=
  spec_process nat (t_kw o) (t_attr o) (t_iint o) (t_istr o) (t_conv o) (t_fmt o) s.

(* ------------------------------------------------------------------------------------------------------------
   5. Format strings as trees (used to state for which format strings the regex rewrite is right).
   A format string is a sequence of: a literal character other than a brace, an escaped brace, or a replacement field
   with a name, an optional conversion and an optional spec which is again such a sequence. *)

Inductive tok :=
| TChr (c : cp)
| TEsc (c : cp)                                   (* c c : an escaped brace *)
| TFld (name : text) (conv : option cp) (spec : option (list tok)).

Fixpoint unparse_tok (t : tok) : text :=
  match t with
  | TChr c => [c]
  | TEsc c => [c; c]
  | TFld n cv sp =>
      c_lb :: n ++ (match cv with Some c => [c_bang; c] | None => [] end)
           ++ (match sp with Some l => c_colon :: flat_map unparse_tok l | None => [] end) ++ [c_rb]
  end.
Definition unparse (l : list tok) : text := flat_map unparse_tok l.

Definition plain_char (c : cp) : bool := negb (N.eqb c c_lb) && negb (N.eqb c c_rb).
Definition name_char (c : cp) : bool :=
  negb (N.eqb c c_lb) && negb (N.eqb c c_rb) && negb (N.eqb c c_colon) && negb (N.eqb c c_bang)
  && negb (N.eqb c c_lsq) && negb (N.eqb c c_rsq).
Definition conv_char (c : cp) : bool :=
  negb (N.eqb c c_lb) && negb (N.eqb c c_rb) && negb (N.eqb c c_colon) && negb (N.eqb c c_dot).
Definition spec_plain_tok (t : tok) : bool :=
  match t with TChr c => plain_char c && negb (is_space c) | _ => false end.
Definition not_int (n : text) : bool := match get_integer n with Ok None => true | _ => false end.

(* The format strings for which the rewrite is proved right (top = not inside a format spec):
   - literal characters and, at top level, escaped braces;
   - fields whose name has no brace, colon, bang or bracket;
   - a field with a '.' in its name has no conversion; it has no spec, or (top level only) a spec made of plain
     non-whitespace characters; its name does not start with 19+ digits (get_integer overflow);
   - any other field: conversion character other than brace, colon, dot; spec = such a sequence again. *)
Fixpoint safe_tok (top : bool) (t : tok) : bool :=
  match t with
  | TChr c => plain_char c
  | TEsc c => top && (N.eqb c c_lb || N.eqb c c_rb)
  | TFld n cv sp =>
      forallb name_char n &&
      if has_dot n then
        not_int n &&
        match cv, sp with
        | None, None => true
        | None, Some l => top && forallb spec_plain_tok l
        | _, _ => false
        end
      else
        match cv with Some c => conv_char c | None => true end &&
        match sp with
        | None => true
        | Some l => (fix all (l : list tok) : bool := match l with [] => true | x :: r => safe_tok false x && all r end) l
        end
  end.

(* what must hold of the text that FOLLOWS a token:
   - after an escaped open brace: no '.' before the next ':' or close brace (else the regex matches at the escape);
   - after a dotted field with a spec: no close brace before the next whitespace (else group 2 runs past the field). *)
Definition follow_ok (t : tok) (rest : text) : bool :=
  match t with
  | TEsc c => if N.eqb c c_lb then negb (has_dot (fst (span_run rest))) else true
  | TFld n _ (Some _) => if has_dot n then negb (has_c c_rb (fst (span_nonws rest))) else true
  | _ => true
  end.

Fixpoint safe_list (l : list tok) : bool :=
  match l with
  | [] => true
  | t :: r => safe_tok true t && follow_ok t (unparse r) && safe_list r
  end.

(* the rewrite, on trees *)
Fixpoint rw_tok (t : tok) : tok :=
  match t with
  | TFld n cv sp =>
      if has_dot n then TFld (t_sqlfluff ++ c_lsq :: n ++ [c_rsq]) cv sp
      else TFld n cv (match sp with Some l => Some (map rw_tok l) | None => None end)
  | _ => t
  end.

(* ------------------------------------------------------------------------------------------------------------
   6. Harness entry point: everything the correspondence compares, printed compactly (a component equal to the one it
   is derived from is printed as None). *)
Definition ek_code (e : ekind) : nat :=
  match e with
  | EAssert => 0 | EIndex => 1 | EValue => 2 | EKey => 3 | ESQLParse => 4 | ESQLLex => 5 | ESkipFile => 6
  | ETemplater => 7 | EFuel => 8 | ERuntime => 9
  end.
Definition res_text_eqb (a b : res text) : bool :=
  match a, b with
  | Ok x, Ok y => text_eqb x y
  | Err e, Err f => Nat.eqb (ek_code e) (ek_code f)
  | _, _ => false
  end.
Definition harness_case (c : text * otab * bool)
  : option text * option (list item) * res text * option (res text) * option (res text) :=
  let '(s, o, want_parse) := c in
  let h := dot_hack s in
  let r := t_render o s in
  let sp := t_spec o s in
  let f := t_format o s in
  (if text_eqb h s then None else Some h,
   if want_parse then Some (parse_fmt s) else None,
   r,
   if res_text_eqb sp r then None else Some sp,
   if res_text_eqb f r then None else Some f).
