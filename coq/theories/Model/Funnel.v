(* Exception funnel of the lint pipeline (core/linter/linter.py render_string, _lex_templated_file, _parse_tokens; core/rules/base.py
   BaseRule.crawl).  Components are opaque: all that is modelled is which exception classes each stage converts into violations
   and which it lets through. *)
From SF Require Import Base.Prelude.

(* exception classes as the handlers distinguish them *)
Inductive exc := XTemplater | XSkipFile | XLex | XParse | XInterrupt (* KeyboardInterrupt / BdbQuit: BaseException *) | XOther (k : nat).
Inductive out (A : Type) := Val (a : A) | Raise (x : exc).
Arguments Val {A} a.
Arguments Raise {A} x.

Inductive vkind := TMP | LXR | PRS | LINT (rule : nat) | UNEXPECTED (rule : nat).

(* one rendering variant: what lexing and parsing do, and per rule the outcome of each _eval call in crawl order
   (Val n = returned n violations) *)
Record variant := { v_lex : out (list vkind) (* lex violations *) ; v_tokens : nat ; v_parse : out (nat (* unparsable sections *)) ;
                    v_rules : list (nat * list (out nat)) }.

(* BaseRule.crawl: run the evals in order; the first one raising an Exception adds one "Unexpected exception" violation and stops
   the rule; KeyboardInterrupt/BdbQuit propagate *)
Fixpoint crawl (rule : nat) (evals : list (out nat)) (acc : list vkind) : out (list vkind) :=
  match evals with
  | [] => Val acc
  | Val n :: r => crawl rule r (acc ++ repeat (LINT rule) n)
  | Raise XInterrupt :: _ => Raise XInterrupt
  | Raise _ :: _ => Val (acc ++ [UNEXPECTED rule])
  end.

Fixpoint run_rules (rs : list (nat * list (out nat))) (acc : list vkind) : out (list vkind) :=
  match rs with
  | [] => Val acc
  | (r, evals) :: rest => match crawl r evals [] with
                          | Val vs => run_rules rest (acc ++ vs)
                          | Raise x => Raise x
                          end
  end.

(* _lex_templated_file + _parse_tokens + rule loop for one variant; max_nodes = 0 means no limit *)
Definition lint_variant (max_nodes : nat) (v : variant) : out (list vkind) :=
  match v_lex v with
  | Raise XLex => Val [LXR]                                  (* lexing failed: violation, no tokens, nothing further *)
  | Raise x => Raise x
  | Val lex_vs =>
      if (0 <? max_nodes) && (max_nodes <? v_tokens v) then Val (lex_vs ++ [PRS])      (* node limit pre-check: parse skipped *)
      else match v_parse v with
           | Raise XParse => Val (lex_vs ++ [PRS])           (* fatal parse error: no tree, rules do not run *)
           | Raise x => Raise x
           | Val unparsable =>
               match run_rules (v_rules v) [] with
               | Val vs => Val (lex_vs ++ repeat PRS unparsable ++ vs)
               | Raise x => Raise x
               end
           end
  end.

Fixpoint lint_variants (max_nodes : nat) (vs : list variant) (acc : list vkind) : out (list vkind) :=
  match vs with
  | [] => Val acc
  | v :: r => match lint_variant max_nodes v with Val l => lint_variants max_nodes r (acc ++ l) | Raise x => Raise x end
  end.

(* render_string: the templater yields variants (with non-fatal TMP errors) or raises *)
Definition lint_string (max_nodes : nat) (templ : out (list variant * nat (* non-fatal templater errors *))) : out (list vkind) :=
  match templ with
  | Raise XTemplater => Val [TMP]
  | Raise XSkipFile => Val []
  | Raise x => Raise x
  | Val (vs, ntmp) => lint_variants max_nodes vs (repeat TMP ntmp)
  end.

(* "components raise only their documented exception class" *)
Definition rule_evals_ok (evals : list (out nat)) : bool :=
  forallb (fun o => match o with Raise XInterrupt => false | _ => true end) evals.
Definition variant_ok (v : variant) : bool :=
  match v_lex v with Val _ | Raise XLex => true | _ => false end
  && match v_parse v with Val _ | Raise XParse => true | _ => false end
  && forallb (fun re => rule_evals_ok (snd re)) (v_rules v).
Definition templ_ok (t : out (list variant * nat)) : bool :=
  match t with Val (vs, _) => forallb variant_ok vs | Raise XTemplater | Raise XSkipFile => true | _ => false end.

Definition is_unexpected (k : vkind) : bool := match k with UNEXPECTED _ => true | _ => false end.
Definition raised {A} (o : out A) : bool := match o with Raise _ => true | Val _ => false end.
