"""C34 — oversized files are skipped, never parsed or modified."""
import os
import shutil
import tempfile
from concurrent.futures import ThreadPoolExecutor

from harness import coq, pathrun

LEVEL = "proof"
COQ_TARGETS = ["theories/Properties/C34.vo"]
PROPERTY_FILES = ["theories/Properties/C34.v"]
RULE = ("files of limit-1 / limit / limit+1 bytes and characters (multi-byte content so bytes != chars) x byte limit / char limit / both / "
        "zero (disabled) x lint / fix x processes {1,2} x large_file_skip_fail on/off; observed: parse/lint call trace (sitecustomize in "
        "workers), file bytes, files_skipped, exit code; compared with Model.Runner.process_file. "
        "non-trivial = a run containing a file over a limit; distinct = distinct (limits, sizes, mode, processes, skip_fail)")
ASSUMPTIONS = ["os.path.getsize gives the byte size used by the gate", "len(in_str) after newline normalisation is the character count"]
TRUSTED_BASE = ["hand model Model/Runner.v (byte_skip, char_skip, process_file, agg_lint_exit)"]

UNIT = "é"  # 2 bytes, 1 char


def content(nbytes):
    """exactly nbytes bytes of a fixable statement: 'SELECT a  from b -- ééé\n' padded with 2-byte chars and 1 'x' if odd"""
    head = "SELECT a  from b -- "
    rest = nbytes - len(head.encode()) - 1
    assert rest >= 0
    body = UNIT * (rest // 2) + ("x" if rest % 2 else "")
    s = head + body + "\n"
    assert len(s.encode("utf-8")) == nbytes
    return s


def one(args):
    blimit, climit, sizes, mode, processes, skip_fail = args
    base = os.environ.get("TMPDIR") or "/var/tmp"
    d = tempfile.mkdtemp(prefix="verif-c34-", dir=base)
    try:
        files = {}
        for i, nb in enumerate(sizes):
            t = content(nb)
            name = "f%d_%d.sql" % (i, nb)
            files[name] = t
            with open(os.path.join(d, name), "w", encoding="utf-8", newline="") as f:
                f.write(t)
        cfg = "[sqlfluff]\ndialect = ansi\nrules = LT01,CP01\nencoding = utf-8\nlarge_file_skip_byte_limit = %d\nlarge_file_skip_char_limit = %d\n" % (blimit, climit)
        if skip_fail:
            cfg += "large_file_skip_fail = True\n"
        open(os.path.join(d, ".sqlfluff"), "w").write(cfg)
        trace = os.path.join(d, "trace.log")
        rc, out, err = pathrun.cli([mode, ".", "--processes", str(processes)], cwd=d, trace=trace)
        after = {n: open(os.path.join(d, n), encoding="utf-8", newline="").read() for n in files}
        tr = pathrun.read_trace(trace)
        drv, _ = pathrun.driver({"paths": ["."], "processes": processes, "fix": False}, cwd=d) if mode == "lint" else ({"files_skipped": None}, "")
        return {"exit": rc, "files": files, "after": after, "parsed": sorted(set(t[2] for t in tr if t[0] == "parse")),
                "linted": sorted(set(t[2] for t in tr if t[0] == "lint")), "files_skipped": drv.get("files_skipped"), "driver": drv, "stderr": err[-300:]}
    finally:
        shutil.rmtree(d, ignore_errors=True)


def run(ctx, coq_ok):
    L = 60
    cases = []
    for mode in ("lint", "fix"):
        for processes in (1, 2):
            for skip_fail in (False, True):
                cases.append((L, 0, [L - 1, L, L + 1], mode, processes, skip_fail))
    # char limit: chars(nb) = 21 + (nb-21)//2 (+1): pick sizes around a char limit
    cl = 40
    for mode in ("lint", "fix"):
        for processes in (1, 2):
            cases.append((0, cl, [58, 59, 60, 61, 62], mode, processes, True))
    cases.append((0, 0, [L + 50, 300], "fix", 1, True))           # disabled limits
    cases.append((L, cl, [50, 58, 61, 62, 80], "lint", 2, True))    # both
    cases.append((20000, 20000, [60, 61], "fix", 2, False))         # default-ish limits, nothing skipped
    if ctx.tier == "thorough":
        for L2 in (30, 100, 257):
            for mode in ("lint", "fix"):
                cases.append((L2, 0, [L2 - 1, L2, L2 + 1, L2 + 2], mode, 4, True))
                cases.append((0, L2 - 10, [L2 - 1, L2, L2 + 1, 2 * L2], mode, 1, False))
    with ThreadPoolExecutor(max_workers=5) as ex:
        results = list(ex.map(one, cases))
    model_cases = []
    for c, r in zip(cases, results):
        blimit, climit, sizes, mode, processes, skip_fail = c
        inp = {"byte_limit": blimit, "char_limit": climit, "sizes_bytes": sizes, "mode": mode, "processes": processes, "large_file_skip_fail": skip_fail}
        over_b = [n for n, t in r["files"].items() if blimit and len(t.encode()) > blimit]
        over_c = [n for n, t in r["files"].items() if climit and len(t) > climit and n not in over_b]
        nt = bool(over_b or over_c)
        ctx.case(tuple(map(str, c)) if nt else None, bucket="%s,p=%d,%s" % (mode, processes, "byte" if blimit and not climit else "char" if climit and not blimit else "both" if blimit else "off"),
                 sample={"input": inp, "parsed": r["parsed"], "files_skipped": r["files_skipped"], "exit": r["exit"]} if nt and mode == "lint" else None)
        for n in over_b + over_c:
            kind = "byte" if n in over_b else "char"
            if n in r["parsed"]:
                ctx.violation("oversized-parsed", "a file over the %s limit was parsed" % kind, {"input": inp, "file": n, "parsed": r["parsed"]}, attrs={"limit": kind})
            if r["after"][n] != r["files"][n]:
                ctx.violation("oversized-modified", "a file over the %s limit was rewritten" % kind, {"input": inp, "file": n}, attrs={"limit": kind})
        for n in r["files"]:
            if n not in over_b and n not in over_c:
                if n not in r["parsed"]:
                    ctx.violation("within-limit-not-parsed", "a file within the limits was not parsed", {"input": inp, "file": n, "parsed": r["parsed"], "stderr": r["stderr"]})
                if mode == "fix" and r["after"][n] == r["files"][n]:
                    ctx.violation("within-limit-not-fixed", "a fixable file within the limits was not fixed", {"input": inp, "file": n})
        if mode == "lint" and r["files_skipped"] is None:
            ctx.broken_obligation("lint_paths driver failed", r["driver"])
        if mode == "lint" and r["files_skipped"] is not None:
            if r["files_skipped"] != len(over_b) + len(over_c):
                ctx.violation("skipped-count", "files_skipped=%s but %d files are over a limit" % (r["files_skipped"], len(over_b) + len(over_c)),
                              {"input": inp, "over_byte_limit": over_b, "over_char_limit": over_c},
                              attrs={"char_limit_only_miscount": r["files_skipped"] == len(over_b) and bool(over_c)})
        # exit: lint of fixable files always has violations unless all were skipped; check the skip_fail clause on fix mode
        if mode == "fix":
            want = 1 if (skip_fail and (over_b or over_c)) else 0
            if r["exit"] != want:
                ctx.violation("skip-exit", "fix exit %d, expected %d (large_file_skip_fail=%s, %d skipped)" % (r["exit"], want, skip_fail, len(over_b) + len(over_c)),
                              {"input": inp, "stderr": r["stderr"]},
                              attrs={"char_limit_only_miscount": bool(over_c) and not over_b and r["exit"] == 0})
        model_cases.append((c, r))
    if not coq_ok:
        return
    lits, exp = [], []
    for c, r in model_cases:
        blimit, climit, sizes, mode, processes, skip_fail = c
        for n, t in sorted(r["files"].items()):
            lits.append("(%d, %d, %d, %d)" % (blimit, climit, len(t.encode()), len(t)))
            exp.append((c, n, 0 if n not in r["parsed"] else 1))
    res = coq.eval_sharded(["Model.Gate", "Model.Runner"],
                           "fun c : nat*nat*nat*nat => let '(bl, cl, sz, ch) := c in match process_file bl cl 0 sz ch ([mkVS KLint true false false], None) with OLinted _ [] _ => 0 | OLinted _ _ _ => 1 | _ => 0 end",
                           lits, shard=500)
    for (c, n, parsed), m in zip(exp, res):
        if parsed != m:
            ctx.broken_obligation("correspondence Model.Runner.process_file vs parse trace", {"case": list(map(str, c)), "file": n, "model_processed": m, "impl_parsed": parsed})
            break
    ctx.coverage_extra["model_vs_impl_cases"] = len(lits)
    ctx.coverage_extra["exhaustive"] = True
