"""C24 — parallel and serial runs agree."""
import json
import os
import shutil
import tempfile
from concurrent.futures import ThreadPoolExecutor

from harness import coq, pathrun

LEVEL = "proof"
COQ_TARGETS = ["theories/Properties/C24.vo"]
PROPERTY_FILES = ["theories/Properties/C24.v"]
RULE = ("directories of 9-12 generated files (clean, fixable, unfixable, unparsable, templated, large) linted and fixed through the real CLI "
        "with processes in {1,2,4,8}, worker delays injected per file (reverse / random patterns, sitecustomize in the spawned workers) and "
        "permuted path lists; compared with the serial run: per-file violations, fixed file contents, exit code; the same on a PROJECT tree "
        "(jinja templater, nested .sqlfluff files changing rules / exclude_rules / rule options / jinja context, a library_path with filters "
        "and functions, a macro path, inline `-- sqlfluff:` directives; sibling directories using the same filter / function / macro names "
        "without the library) with directory and file path lists in sorted, reversed and shuffled order for processes 1, 2 and 4. "
        "non-trivial = a parallel run whose worker completion order differs from submission order; distinct = distinct (dir, processes, delays, path order)")
ASSUMPTIONS = ["multiprocessing delivers each task's result exactly once", "files given are distinct", "no violation is `fatal` (no bundled code sets it)"]
TRUSTED_BASE = ["hand model Model/Runner.v of the aggregation; process-level nondeterminism itself is exercised, not modelled"]

FILES = {
    "a_clean.sql": "SELECT a FROM b\n",
    "b_fix.sql": "SELECT a  from b\n",
    "c_unfix.sql": "SELECT DISTINCT a FROM b GROUP BY a\n",
    "d_prs.sql": "SELECT a FROM b WHERE;\nSELECT c  from d\n",
    "e_tmpl.sql": "SELECT {{ 'x' }}  from {% for t in ['p','q'] %}{{ t }}{% if not loop.last %}, {% endif %}{% endfor %}\n",
    "f_fix2.sql": "select A,b from T\n",
    "g_noqa.sql": "SELECT a  from b -- noqa\nSELECT a  from c\n",
    "h_long.sql": "".join("SELECT col_%d  from tbl_%d;\n" % (i, i) for i in range(60)),
    "sub/i_fix.sql": "SELECT x  from y\n",
    "sub/j_clean.sql": "SELECT 1\n",
}
CFG = "[sqlfluff]\ndialect = ansi\ntemplater = jinja\nrules = LT01,CP01,AM01,LT02\n"


# A project whose files are governed by DIFFERENT effective configurations: whatever process lints a file, and whatever it linted before,
# the file's own configuration (root + nested .sqlfluff + inline directives) alone decides its result.
LIB_PY = '''"""Project jinja helpers."""


def quote_ident(value):
    return '"' + str(value) + '"'


def shout(value):
    return str(value).upper()


def tbl(name):
    return "warehouse." + name


SQLFLUFF_JINJA_FILTERS = {"quote_ident": quote_ident, "shout": shout}
'''
PROJECT = {
    ".sqlfluff": "[sqlfluff]\ndialect = ansi\ntemplater = jinja\nrules = LT01,CP01,CP02,LT09,AM01,AL01\n"
                 "[sqlfluff:rules:capitalisation.keywords]\ncapitalisation_policy = upper\n"
                 "[sqlfluff:templater:jinja:context]\nschema_name = analytics\n",
    "core/c1.sql": "select a,b from {{ schema_name }}.t1\n",
    "core/c2.sql": "SELECT a  FROM t2 x\n",
    "core/c3.sql": "SELECT DISTINCT a from b GROUP BY a\n",
    "adhoc/q1.sql": "SELECT a,b FROM {{ 'scratch' | quote_ident }}\n",
    "adhoc/q2.sql": "SELECT d  FROM plain_table\n",
    "adhoc/q3.sql": "SELECT {{ cols(2) }}  from t\n",
    "adhoc/q4.sql": "SELECT a  from {{ tbl('x') }}\n",
    "legacy/.sqlfluff": "[sqlfluff]\nexclude_rules = LT09,AL01\n[sqlfluff:rules:capitalisation.keywords]\ncapitalisation_policy = lower\n",
    "legacy/l1.sql": "SELECT a,b from T1 x\n",
    "legacy/l2.sql": "select a  FROM {{ schema_name }}.t2\n",
    "legacy/deep/.sqlfluff": "[sqlfluff]\nrules = CP01,CP02\n[sqlfluff:rules:capitalisation.identifiers]\nextended_capitalisation_policy = upper\n",
    "legacy/deep/d1.sql": "SELECT Col_a,col_b from Tbl x\n",
    "macros/.sqlfluff": "[sqlfluff:templater:jinja]\nload_macros_from_path = defs\n[sqlfluff:templater:jinja:context]\nschema_name = staging\n",
    "macros/defs/m.sql": "{% macro cols(n) %}{% for i in range(n) %}c{{ i }}{% if not loop.last %},{% endif %}{% endfor %}{% endmacro %}\n",
    "macros/u1.sql": "SELECT {{ cols(3) }}  from {{ schema_name }}.t\n",
    "reports/.sqlfluff": "[sqlfluff]\nexclude_rules = CP02\n[sqlfluff:templater:jinja]\nlibrary_path = libs\n",
    "reports/libs/__init__.py": LIB_PY,
    "reports/r1.sql": "SELECT a,b FROM {{ 'sales' | quote_ident }}\n",
    "reports/r2.sql": "SELECT c  FROM {{ tbl('stock') }} where d = '{{ 'x' | shout }}'\n",
    "strict/.sqlfluff": "[sqlfluff]\nrules = CP01,CP02,LT01,LT09\n[sqlfluff:rules:capitalisation.identifiers]\nextended_capitalisation_policy = upper\n"
                        "[sqlfluff:rules:layout.select_targets]\nwildcard_policy = multiple\n",
    "strict/s1.sql": "SELECT Col_a, col_b FROM Tbl\n",
    "strict/s2.sql": "select *\nfrom Tbl\n",
    "inline/i1.sql": "-- sqlfluff:rules:CP01\nselect a,b from t x\n",
    "inline/i2.sql": "-- sqlfluff:exclude_rules:LT09,LT01\nSELECT a,b  from t\n",
    "inline/i3.sql": "-- sqlfluff:rules:capitalisation.keywords:capitalisation_policy:lower\nSELECT a from t\n",
    "zz_adhoc/z1.sql": "SELECT e,f FROM {{ 'late' | quote_ident }}\n",
    "zz_adhoc/z2.sql": "SELECT {{ cols(2) }}  from {{ tbl('y') }}\n",
}
TREES = {"flat": dict(FILES, **{".sqlfluff": CFG}), "project": PROJECT}


def make_tree(d, tree="flat"):
    for n, t in TREES[tree].items():
        p = os.path.join(d, n)
        os.makedirs(os.path.dirname(p), exist_ok=True)
        with open(p, "w") as f:
            f.write(t)


def snapshot(d, tree="flat"):
    return {n: open(os.path.join(d, n)).read() for n in TREES[tree]}


def one_run(args):
    tree, mode, processes, delays, paths = args
    base = os.environ.get("TMPDIR") or "/var/tmp"
    d = tempfile.mkdtemp(prefix="verif-c24-", dir=base)
    try:
        make_tree(d, tree)
        trace = os.path.join(d, "trace.log")
        if mode == "lint":
            rc, out, err = pathrun.cli(["lint"] + paths + ["--format", "json", "--processes", str(processes)], cwd=d, trace=trace, delays=delays)
            try:
                data = json.loads(out)
                recs = sorted((r["filepath"], sorted((v["code"], v["start_line_no"], v["start_line_pos"], v["description"], bool(v.get("warning")))
                                                     for v in r["violations"])) for r in data)
            except Exception:
                recs = "unparseable: " + (out + err)[-300:]
            res = {"exit": rc, "records": recs}
        else:
            rc, out, err = pathrun.cli([mode] + paths + ["--processes", str(processes)], cwd=d, trace=trace, delays=delays)
            known = set(os.path.basename(n) for n in TREES[tree]) | {"trace.log"}
            res = {"exit": rc, "files": snapshot(d, tree),
                   "extra": sorted(f for _, _, fs in os.walk(d) for f in fs if f not in known and not f.endswith(".pyc"))}
        order = [t[2] for t in pathrun.read_trace(trace) if t[0] == "lint"]
        res["completion_order"] = order
        return res
    finally:
        shutil.rmtree(d, ignore_errors=True)


def project_runs(ctx):
    """Schedules for the project tree: directory lists and file lists in sorted / reversed / shuffled order x processes 1, 2, 4."""
    rng = ctx.rng
    sqls = sorted(n for n in PROJECT if n.endswith(".sql"))
    dirs = sorted({n.split("/")[0] for n in sqls})
    rdirs = list(reversed(dirs))
    sdirs = list(dirs)
    rng.shuffle(sdirs)
    sfiles = list(sqls)
    rng.shuffle(sfiles)
    rev = {os.path.basename(n): 0.03 * (len(sqls) - i) for i, n in enumerate(sqls)}
    rnd = {os.path.basename(n): rng.choice([0, 0, 0.1, 0.3]) for n in sqls}
    runs = [("project", "lint", 1, None, ["."]), ("project", "fix", 1, None, ["."]),
            ("project", "lint", 1, None, rdirs), ("project", "lint", 1, None, sfiles),
            ("project", "lint", 2, rev, ["."]), ("project", "lint", 4, rnd, rdirs),
            ("project", "fix", 1, None, rdirs), ("project", "fix", 2, rev, ["."]), ("project", "fix", 4, rnd, sfiles)]
    if ctx.tier == "thorough":
        runs += [("project", "lint", 1, None, sdirs), ("project", "lint", 2, rnd, sfiles),
                 ("project", "fix", 1, None, sdirs), ("project", "format", 1, None, ["."]), ("project", "format", 2, rnd, rdirs)]
        for _ in range(6):
            p2 = list(rng.choice([dirs, sqls]))
            rng.shuffle(p2)
            r2 = {os.path.basename(n): rng.choice([0, 0.05, 0.2, 0.5]) for n in sqls}
            runs.append(("project", rng.choice(["lint", "fix"]), rng.choice([1, 1, 2, 3, 4]), r2, p2))
    return runs


def run(ctx, coq_ok):
    names = sorted(FILES)
    base_delays = {os.path.basename(n): 0.0 for n in names}
    rev = {os.path.basename(n): 0.15 * (len(names) - i) for i, n in enumerate(names)}
    rnd = {os.path.basename(n): ctx.rng.choice([0, 0.1, 0.3, 0.6]) for n in names}
    perm = list(names)
    ctx.rng.shuffle(perm)
    runs = [("lint", 1, None, ["."]), ("fix", 1, None, ["."])]
    procs = [2, 4] if ctx.tier == "quick" else [2, 4, 8]
    for p in procs:
        runs.append(("lint", p, rev, ["."]))
        runs.append(("lint", p, rnd, ["."]))
        runs.append(("fix", p, rev, ["."]))
    runs.append(("lint", 4, rnd, perm))
    runs.append(("lint", 1, None, list(reversed(names))))
    runs.append(("fix", 4, rnd, perm))
    runs.append(("format", 1, None, ["."]))
    runs.append(("format", 4, rev, ["."]))
    if ctx.tier == "thorough":
        for _ in range(6):
            r2 = {os.path.basename(n): ctx.rng.choice([0, 0.05, 0.2, 0.5, 0.9]) for n in names}
            p2 = list(names)
            ctx.rng.shuffle(p2)
            runs.append(("lint", ctx.rng.choice([2, 3, 8]), r2, p2))
            runs.append(("fix", ctx.rng.choice([2, 3, 8]), r2, ["."]))
    runs = [("flat",) + r for r in runs] + project_runs(ctx)
    with ThreadPoolExecutor(max_workers=4) as ex:
        results = list(ex.map(one_run, runs))
    ref = {}
    for r, res in zip(runs, results):
        if r[2] == 1 and r[4] == ["."]:
            ref[r[0], r[1]] = res
    sub_orders = {t: [os.path.basename(n) for n in sorted(TREES[t]) if n.endswith(".sql")] for t in TREES}
    for r, res in zip(runs, results):
        tree, mode, p, delays, paths = r
        order = res.get("completion_order", [])
        reordered = p > 1 and order != [o for o in sub_orders[tree] if o in order]
        ctx.case((tree, mode, p, json.dumps(delays, sort_keys=True), tuple(paths)) if (reordered or paths != ["."]) else None,
                 bucket="%s,%s,p=%d" % (tree, mode, p),
                 sample={"tree": tree, "mode": mode, "processes": p, "paths": paths, "completion_order": order, "exit": res["exit"]} if reordered else None)
        base = ref[tree, mode]
        inp = {"tree": tree, "mode": mode, "processes": p, "delays": delays, "paths": paths,
               "files": "harness/props/c24.py %s" % ("FILES + CFG" if tree == "flat" else "PROJECT")}
        attrs = {"tree": tree}

        def norm(recs):
            # paths may be spelled './x' or 'x' depending on how they were given
            return sorted((os.path.normpath(a), b) for a, b in recs) if isinstance(recs, list) else recs
        if mode == "lint":
            if norm(res["records"]) != norm(base["records"]):
                got, ser = norm(res["records"]), norm(base["records"])
                if isinstance(got, list) and isinstance(ser, list):
                    gd, sd = dict(got), dict(ser)
                    diff = {f: {"this_run": gd.get(f), "serial": sd.get(f)} for f in sorted(set(gd) | set(sd)) if gd.get(f) != sd.get(f)}
                else:
                    diff = {"this_run": got, "serial": ser}
                ctx.violation("parallel-violations-differ", "per-file violations differ from the serial run over '.' (processes=%d, paths %s)" % (
                    p, "as given by the directory walk" if paths == ["."] else "permuted"), {"input": inp, "differing_files": diff}, attrs=attrs)
        else:
            if res["files"] != base["files"]:
                diff = {n: [res["files"][n], base["files"][n]] for n in TREES[tree] if res["files"][n] != base["files"][n]}
                ctx.violation("parallel-fixed-files-differ", "fixed file contents differ from the serial run", {"input": inp, "diff": diff}, attrs=attrs)
            if res["extra"]:
                ctx.violation("parallel-extra-files", "unexpected files left behind", {"input": inp, "extra": res["extra"]}, attrs=attrs)
        if res["exit"] != base["exit"]:
            ctx.violation("parallel-exit-differs", "exit code %d differs from the serial run's %d" % (res["exit"], base["exit"]), {"input": inp}, attrs=attrs)
    # the project tree must really exercise what it is there for: some file of every directory reports something, the files that use a
    # filter / function / macro their own configuration does not provide fail to template in the serial reference
    pref = ref["project", "lint"]["records"]
    if isinstance(pref, list):
        byf = {os.path.normpath(a): b for a, b in pref}
        for f in ("adhoc/q1.sql", "adhoc/q3.sql", "adhoc/q4.sql", "zz_adhoc/z1.sql", "zz_adhoc/z2.sql"):
            if not any(v[0] == "TMP" for v in byf.get(f, [])):
                ctx.count("project-tree-unintended:%s" % f)
        for f in ("reports/r1.sql", "reports/r2.sql", "macros/u1.sql"):
            if any(v[0] == "TMP" for v in byf.get(f, [("TMP",)])):
                ctx.count("project-tree-unintended:%s" % f)
    else:
        ctx.broken_obligation("harness: serial lint of the project tree gave no JSON", str(pref))
    runs = [r[1:] for r in runs if r[0] == "flat"]
    results = results[:len(runs)]
    ref = {m: v for (t, m), v in ref.items() if t == "flat"}
    if not coq_ok:
        return
    # model: aggregate the serial per-file outcomes in the observed completion orders
    recs = ref["lint"]["records"]
    if isinstance(recs, list):
        idx = {os.path.basename(a): i for i, (a, b) in enumerate(sorted(recs))}
        nv = {os.path.basename(a): len(b) for a, b in recs}

        def outcome(name):
            return "(OLinted %d %s None)" % (idx[name], coq.clist(["(mkVS KLint false false false)"] * nv[name]) if nv[name] else "(@nil vsum)")
        orders = [res["completion_order"] for r, res in zip(runs, results) if r[0] == "lint" and set(res["completion_order"]) == set(idx)]
        terms = ["let a := aggregate %s in (a_viol a, map fst (a_records a), agg_lint_exit a false)" % coq.clist([outcome(n) for n in o]) for o in orders]
        vals = coq.eval_terms(["Model.Gate", "Model.Runner"], terms) if terms else []
        total = sum(nv.values())
        for o, v in zip(orders, vals):
            if v[0] != total or list(v[1]) != sorted(idx.values()) or v[2] != ref["lint"]["exit"]:
                ctx.broken_obligation("correspondence Model.Runner.aggregate vs observed serial result", {"order": o, "model": v, "impl": [total, ref["lint"]["exit"]]})
                break
        ctx.coverage_extra["model_vs_impl_cases"] = len(terms)
