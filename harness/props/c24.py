"""C24 — parallel and serial runs agree."""
import json
import os
import shutil
import tempfile
from concurrent.futures import ThreadPoolExecutor

from harness import coq, pathrun

LEVEL = "proof"
COQ_TARGETS = ["theories/Properties/C24.vo"]
PROPERTY_FILES = ["theories/Properties/C24.v"]
RULE = ("directories of 9-12 generated files (clean, fixable, unfixable, unparsable, templated, large) linted and fixed through the real CLI "
        "with processes in {1,2,4,8}, worker delays injected per file (reverse / random patterns, sitecustomize in the spawned workers) and "
        "permuted path lists; compared with the serial run: per-file violations, fixed file contents, exit code. "
        "non-trivial = a parallel run whose worker completion order differs from submission order; distinct = distinct (dir, processes, delays, path order)")
ASSUMPTIONS = ["multiprocessing delivers each task's result exactly once", "files given are distinct", "no violation is `fatal` (no bundled code sets it)"]
TRUSTED_BASE = ["hand model Model/Runner.v of the aggregation; process-level nondeterminism itself is exercised, not modelled"]

FILES = {
    "a_clean.sql": "SELECT a FROM b\n",
    "b_fix.sql": "SELECT a  from b\n",
    "c_unfix.sql": "SELECT DISTINCT a FROM b GROUP BY a\n",
    "d_prs.sql": "SELECT a FROM b WHERE;\nSELECT c  from d\n",
    "e_tmpl.sql": "SELECT {{ 'x' }}  from {% for t in ['p','q'] %}{{ t }}{% if not loop.last %}, {% endif %}{% endfor %}\n",
    "f_fix2.sql": "select A,b from T\n",
    "g_noqa.sql": "SELECT a  from b -- noqa\nSELECT a  from c\n",
    "h_long.sql": "".join("SELECT col_%d  from tbl_%d;\n" % (i, i) for i in range(60)),
    "sub/i_fix.sql": "SELECT x  from y\n",
    "sub/j_clean.sql": "SELECT 1\n",
}
CFG = "[sqlfluff]\ndialect = ansi\ntemplater = jinja\nrules = LT01,CP01,AM01,LT02\n"


def make_tree(d):
    for n, t in FILES.items():
        p = os.path.join(d, n)
        os.makedirs(os.path.dirname(p), exist_ok=True)
        with open(p, "w") as f:
            f.write(t)
    with open(os.path.join(d, ".sqlfluff"), "w") as f:
        f.write(CFG)


def snapshot(d):
    return {n: open(os.path.join(d, n)).read() for n in FILES}


def one_run(args):
    mode, processes, delays, paths = args
    base = os.environ.get("TMPDIR") or "/var/tmp"
    d = tempfile.mkdtemp(prefix="verif-c24-", dir=base)
    try:
        make_tree(d)
        trace = os.path.join(d, "trace.log")
        if mode == "lint":
            rc, out, err = pathrun.cli(["lint"] + paths + ["--format", "json", "--processes", str(processes)], cwd=d, trace=trace, delays=delays)
            try:
                data = json.loads(out)
                recs = sorted((r["filepath"], sorted((v["code"], v["start_line_no"], v["start_line_pos"]) for v in r["violations"])) for r in data)
            except Exception:
                recs = "unparseable: " + (out + err)[-300:]
            res = {"exit": rc, "records": recs}
        else:
            rc, out, err = pathrun.cli([mode] + paths + ["--processes", str(processes)], cwd=d, trace=trace, delays=delays)
            res = {"exit": rc, "files": snapshot(d), "extra": sorted(set(f for _, _, fs in os.walk(d) for f in fs) - set(os.path.basename(n) for n in FILES) - {".sqlfluff", "trace.log"})}
        order = [t[2] for t in pathrun.read_trace(trace) if t[0] == "lint"]
        res["completion_order"] = order
        return res
    finally:
        shutil.rmtree(d, ignore_errors=True)


def run(ctx, coq_ok):
    names = sorted(FILES)
    base_delays = {os.path.basename(n): 0.0 for n in names}
    rev = {os.path.basename(n): 0.15 * (len(names) - i) for i, n in enumerate(names)}
    rnd = {os.path.basename(n): ctx.rng.choice([0, 0.1, 0.3, 0.6]) for n in names}
    perm = list(names)
    ctx.rng.shuffle(perm)
    runs = [("lint", 1, None, ["."]), ("fix", 1, None, ["."])]
    procs = [2, 4] if ctx.tier == "quick" else [2, 4, 8]
    for p in procs:
        runs.append(("lint", p, rev, ["."]))
        runs.append(("lint", p, rnd, ["."]))
        runs.append(("fix", p, rev, ["."]))
    runs.append(("lint", 4, rnd, perm))
    runs.append(("lint", 1, None, list(reversed(names))))
    runs.append(("fix", 4, rnd, perm))
    runs.append(("format", 1, None, ["."]))
    runs.append(("format", 4, rev, ["."]))
    if ctx.tier == "thorough":
        for _ in range(6):
            r2 = {os.path.basename(n): ctx.rng.choice([0, 0.05, 0.2, 0.5, 0.9]) for n in names}
            p2 = list(names)
            ctx.rng.shuffle(p2)
            runs.append(("lint", ctx.rng.choice([2, 3, 8]), r2, p2))
            runs.append(("fix", ctx.rng.choice([2, 3, 8]), r2, ["."]))
    with ThreadPoolExecutor(max_workers=4) as ex:
        results = list(ex.map(one_run, runs))
    ref = {}
    for r, res in zip(runs, results):
        mode = r[0]
        if r[1] == 1 and r[3] == ["."]:
            ref[mode] = res
    sub_order = [os.path.basename(n) for n in names]
    for r, res in zip(runs, results):
        mode, p, delays, paths = r
        order = res.get("completion_order", [])
        reordered = p > 1 and order != [o for o in sub_order if o in order]
        ctx.case((mode, p, json.dumps(delays, sort_keys=True), tuple(paths)) if (reordered or paths != ["."]) else None,
                 bucket="%s,p=%d" % (mode, p),
                 sample={"mode": mode, "processes": p, "paths": paths, "completion_order": order, "exit": res["exit"]} if reordered else None)
        base = ref[mode]
        inp = {"mode": mode, "processes": p, "delays": delays, "paths": paths, "files": "harness/props/c24.py FILES"}

        def norm(recs):
            # paths may be spelled './x' or 'x' depending on how they were given
            return sorted((os.path.normpath(a), b) for a, b in recs) if isinstance(recs, list) else recs
        if mode == "lint":
            if norm(res["records"]) != norm(base["records"]):
                ctx.violation("parallel-violations-differ", "per-file violations differ from the serial run", {"input": inp, "got": res["records"], "serial": base["records"]})
        else:
            if res["files"] != base["files"]:
                diff = {n: [res["files"][n], base["files"][n]] for n in FILES if res["files"][n] != base["files"][n]}
                ctx.violation("parallel-fixed-files-differ", "fixed file contents differ from the serial run", {"input": inp, "diff": diff})
            if res["extra"]:
                ctx.violation("parallel-extra-files", "unexpected files left behind", {"input": inp, "extra": res["extra"]})
        if res["exit"] != base["exit"]:
            ctx.violation("parallel-exit-differs", "exit code %d differs from the serial run's %d" % (res["exit"], base["exit"]), {"input": inp})
    if not coq_ok:
        return
    # model: aggregate the serial per-file outcomes in the observed completion orders
    recs = ref["lint"]["records"]
    if isinstance(recs, list):
        idx = {os.path.basename(a): i for i, (a, b) in enumerate(sorted(recs))}
        nv = {os.path.basename(a): len(b) for a, b in recs}

        def outcome(name):
            return "(OLinted %d %s None)" % (idx[name], coq.clist(["(mkVS KLint false false false)"] * nv[name]) if nv[name] else "(@nil vsum)")
        orders = [res["completion_order"] for r, res in zip(runs, results) if r[0] == "lint" and set(res["completion_order"]) == set(idx)]
        terms = ["let a := aggregate %s in (a_viol a, map fst (a_records a), agg_lint_exit a false)" % coq.clist([outcome(n) for n in o]) for o in orders]
        vals = coq.eval_terms(["Model.Gate", "Model.Runner"], terms) if terms else []
        total = sum(nv.values())
        for o, v in zip(orders, vals):
            if v[0] != total or list(v[1]) != sorted(idx.values()) or v[2] != ref["lint"]["exit"]:
                ctx.broken_obligation("correspondence Model.Runner.aggregate vs observed serial result", {"order": o, "model": v, "impl": [total, ref["lint"]["exit"]]})
                break
        ctx.coverage_extra["model_vs_impl_cases"] = len(terms)
