"""C06 — parsing is deterministic and unaffected by parser optimisations."""
import contextlib

from harness import corpus

LEVEL = "proof"
COQ_TARGETS = ["theories/Properties/C06.vo"]
PROPERTY_FILES = ["theories/Properties/C06.v"]
RULE = ("differential parses of the same text on the real parser: parse cache disabled, first-token pruning disabled, both disabled, the same file "
        "parsed again after other files (incl. files that fail to lex/parse) in the same process, and in another process with a different "
        "history; trees compared canonically (types, raws, meta markers, positions). The hypothesis of theorem C06_prune_sound is checked "
        "directly on a third of the parses: every option that prune_options drops is matched anyway and must match nothing. Fixtures of every "
        "dialect + token-level mutations. non-trivial = parse with >= 20 tokens or a mutation; distinct by (dialect, sql)")
ASSUMPTIONS = ["PARTIAL: grammar combinators are not modelled; the two side conditions (completeness of simple(), key-determined matches) are validated per parse",
               "identifiers that differ by design between parses (uuids, cache keys) are not compared"]
TRUSTED_BASE = ["hand model Model/ParseOpt.v of longest_match / prune_options / the parse cache", "monkeypatch wrappers in this module"]


def canon(tree):
    if tree is None:
        return None
    pos = [(s.raw, s.get_type(), s.pos_marker.source_slice.start, s.pos_marker.source_slice.stop, s.pos_marker.templated_slice.start,
            s.pos_marker.templated_slice.stop) for s in tree.raw_segments]
    return (tree.to_tuple(show_raw=True, include_meta=True), tuple(pos))


@contextlib.contextmanager
def patched(no_cache=False, no_prune=False, check_prune=None):
    from sqlfluff.core.parser import match_algorithms as ma
    from sqlfluff.core.parser.context import ParseContext
    o_check, o_prune = ParseContext.check_parse_cache, ma.prune_options
    if no_cache:
        ParseContext.check_parse_cache = lambda self, loc_key, matcher_key: None
    if no_prune:
        ma.prune_options = lambda options, segments, parse_context, start_idx=0: list(options)
    elif check_prune is not None:
        def wrapped(options, segments, parse_context, start_idx=0):
            avail = o_prune(options, segments, parse_context=parse_context, start_idx=start_idx)
            if len(avail) != len(options) and len(check_prune) < 3:
                kept = set(id(x) for x in avail)
                for opt in options:
                    if id(opt) not in kept:
                        m = opt.match(segments, start_idx, parse_context)
                        if len(m) > 0:
                            check_prune.append("pruned option %r matches %d tokens at %d (%r)" % (str(opt)[:80], len(m), start_idx, segments[start_idx].raw))
            return avail
        ma.prune_options = wrapped
    try:
        yield
    finally:
        ParseContext.check_parse_cache, ma.prune_options = o_check, o_prune


def _parse(dialect, sql):
    from harness.treecheck import lex_and_parse
    r = lex_and_parse(dialect, sql)
    return (canon(r["tree"]), r["exc"], len(r["parse_errors"]), len(r["tokens"] or []))


_PARSERS = {}


def _parse_reused(dialect, sql):
    """Parse with ONE long-lived Parser object per dialect (public API: Parser(config).parse(tokens) may be called many times)."""
    from sqlfluff.core import Linter
    from sqlfluff.core.errors import SQLParseError
    from sqlfluff.core.parser import Parser
    from sqlfluff.core.templaters.base import TemplatedFile
    from harness.treecheck import cfg_for
    cfg = cfg_for(dialect)
    if dialect not in _PARSERS:
        _PARSERS[dialect] = Parser(config=cfg)
    tokens, _ = Linter._lex_templated_file(TemplatedFile(source_str=sql, fname="t.sql"), cfg)
    if tokens is None:
        return None
    try:
        tree = _PARSERS[dialect].parse(tuple(tokens), fname="t.sql")
        return (canon(tree), None, sum(1 for _ in tree.iter_unparsables()) if tree is not None else 0)
    except SQLParseError as e:
        return (None, "SQLParseError", 1)


def diff_case(dialect, label, sql, others, do_check_prune):
    out = {"diffs": [], "ntokens": 0, "prune_findings": [], "base": None}
    base = _parse(dialect, sql)
    out["ntokens"] = base[3]
    variants = [("no-cache", {"no_cache": True}), ("no-prune", {"no_prune": True})]
    if do_check_prune:
        variants.append(("no-cache-no-prune", {"no_cache": True, "no_prune": True}))
    for name, kw in variants:
        with patched(**kw):
            r = _parse(dialect, sql)
        if r != base:
            out["diffs"].append(name)
    if do_check_prune:
        found = []
        with patched(check_prune=found):
            _parse(dialect, sql)
        out["prune_findings"] = found
    for od, osql in others:
        _parse(od, osql)
    if _parse(dialect, sql) != base:
        out["diffs"].append("after-history")
    # the same text through a Parser object that has already parsed other (similar) texts
    ru = _parse_reused(dialect, sql)
    if ru is not None and not base[1] and (ru[0] != base[0] or (ru[0] is None) != (base[0] is None)):
        out["diffs"].append("reused-parser-object")
    import hashlib
    out["base"] = hashlib.sha1(repr(base).encode("utf-8", "backslashreplace")).hexdigest()
    return out


def run(ctx, coq_ok):
    import hashlib
    rng = ctx.rng
    per = 1 if ctx.tier == "quick" else 10
    muts = 2 if ctx.tier == "quick" else 4
    items = corpus.corpus(rng, per, muts, max_chars=500 if ctx.tier == "quick" else 2500)
    bad = ["SELECT 'abc", "SELECT ((((", "\x00\x01", "SELECT {{ x", "select a from b where (c > 1"]
    jobs = []
    for k, (d, label, sql) in enumerate(items):
        others = [(rng.choice(["ansi", "tsql", "mysql", d]), rng.choice(bad + [items[rng.randrange(len(items))][2]])) for _ in range(2)]
        jobs.append((d, label, sql, others, k % 3 == 0))
    # hand-made statements that make the parser revisit a location with different alternatives in play (two-token operators inside a
    # simple-CASE operand, nested functions, BETWEEN/IN/LIKE chains, set operators, casts), plus the fix monitors' adjacency cases
    from harness import fixjobs
    extra = [("ansi", "SELECT CASE x >= 1 WHEN TRUE THEN 1 END FROM t\n"), ("ansi", "SELECT CASE x <= 1 WHEN TRUE THEN 1 WHEN FALSE THEN 2 ELSE 3 END FROM t\n"),
             ("ansi", "SELECT CASE a <> b WHEN TRUE THEN 'x' END, CASE WHEN a >= b THEN 1 END FROM t\n"), ("ansi", "SELECT a BETWEEN b AND c AND d, e NOT IN (1, 2) OR f LIKE 'x' FROM t\n"),
             ("ansi", "SELECT f(g(h(a, b), c), d) OVER (PARTITION BY x ORDER BY y) FROM t\n"), ("ansi", "SELECT 1 UNION SELECT 2 EXCEPT SELECT 3 INTERSECT SELECT 4\n"),
             ("postgres", "SELECT a::int::text, b->>'c' >= 'd', ARRAY[1,2][1] FROM t\n"), ("tsql", "SELECT CASE x >= 1 WHEN 1 THEN 2 END, [a] FROM [t]\n"),
             ("bigquery", "SELECT CASE x >= 1 WHEN TRUE THEN STRUCT(1 AS a) END, arr[OFFSET(0)] FROM `p.d.t`\n"), ("snowflake", "SELECT CASE x <> 1 WHEN TRUE THEN v:a.b::string END FROM t\n"),
             ("mysql", "SELECT CASE x <=> 1 WHEN TRUE THEN 1 END, a != b FROM t\n"), ("sqlite", "SELECT CASE x >= 1 WHEN 1 THEN 2 END, a IS NOT b FROM t\n")]
    for d, _l, sql in fixjobs.HOSTILE:
        extra.append((d, sql))
    for k, (d, sql) in enumerate(extra):
        jobs.append((d, "hostile", sql, [], k % 3 == 0))
    results = []
    for (d, label, sql, others, cp), st, res in corpus.pmap("harness.props.c06", "diff_case", jobs):
        if st != "ok":
            ctx.broken_obligation("harness worker crashed on %s/%s" % (d, label), res)
            continue
        nontriv = res["ntokens"] >= 20 or "~" in label
        ctx.case((d, sql) if nontriv else None, bucket="diff:%s" % ("differs" if res["diffs"] else "same"),
                 sample={"dialect": d, "label": label, "tokens": res["ntokens"], "variants_compared": 5} if nontriv and len(ctx.samples) < 4 else None)
        for name in res["diffs"]:
            ctx.violation("parse-differs", "parse tree differs with %s [dialect %s, %s]" % (name, d, label),
                          {"input": {"dialect": d, "label": label, "sql": sql, "variant": name, "history": others}}, attrs={"variant": name})
        for f in res["prune_findings"]:
            ctx.violation("prune-incomplete", "simple() hint is incomplete: %s [dialect %s]" % (f, d),
                          {"input": {"dialect": d, "label": label, "sql": sql}, "finding": f}, attrs={"dialect": d})
        results.append((d, label, sql, res["base"]))
    # another process / another history: this (main) process parses a sample in a different order
    sample = results[:: max(1, len(results) // (40 if ctx.tier == "quick" else 300))]
    rng.shuffle(sample)
    for d, label, sql, h in sample:
        mine = hashlib.sha1(repr(_parse(d, sql)).encode("utf-8", "backslashreplace")).hexdigest()
        ctx.case(("xproc", d, sql), bucket="cross-process")
        if mine != h:
            ctx.violation("parse-differs", "parse tree differs between two processes with different histories [dialect %s, %s]" % (d, label),
                          {"input": {"dialect": d, "label": label, "sql": sql, "variant": "cross-process"}}, attrs={"variant": "cross-process"})
    ctx.coverage_extra["parses_compared"] = len(jobs) * 5 + len(sample)
