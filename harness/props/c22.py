"""C22 — exit codes reflect only unsuppressed failures."""
from harness import scenarios

LEVEL = "proof"
COQ_TARGETS = ["theories/Properties/C22.vo"]
PROPERTY_FILES = ["theories/Properties/C22.v"]
RULE = ("scenario grid: {no, fatal, non-fatal templating error} x {no, fatal, non-fatal parse error} x {no, fixable, unfixable, both lint} x "
        "suppression of TMP/PRS {none, noqa, ignore=, warnings=} x suppression of lint {none, noqa, warnings=} x fix_even_unparsable; "
        "33 fixed core scenarios + seeded sample (quick) / all 864 (thorough), each through lint/fix/format by path, lint/fix by stdin, "
        "--nofail, API. non-trivial = scenario with at least one violation; distinct = distinct scenario")
ASSUMPTIONS = ["the violation summaries captured at LintedDir.add (kind, fixable, ignored-or-masked, warning) are the decision layer's whole input",
               "first clause of the fix statement is read for lint violations; LXR errors are outside the statement"]
TRUSTED_BASE = ["hand model Model/Gate.v of num_violations filters, LintedDir counters, discard_fixes..., lint/_paths_fix/_stdin_fix exit logic"]


def usage_errors(ctx):
    from click.testing import CliRunner
    from sqlfluff.cli import commands
    runner = CliRunner()
    for cmd, args, what in [
        (commands.lint, ["/nonexistent/path/x.sql"], "nonexistent path"),
        (commands.lint, ["-", "--dialect", "no_such_dialect"], "unknown dialect"),
        (commands.fix, ["/nonexistent/path/x.sql"], "nonexistent path (fix)"),
        (commands.lint, ["-", "--dialect", "ansi", "--format", "nonsense"], "bad option value"),
        (commands.cli_format, ["-", "--dialect", "ansi", "--nosuchoption"], "unknown option"),
    ]:
        res = runner.invoke(cmd, args, input="select 1\n")
        ctx.case(("usage", what), bucket="usage-error")
        if res.exit_code != 2:
            ctx.violation("usage-exit", "usage/configuration error (%s) exited %d, not 2" % (what, res.exit_code),
                          {"input": {"args": args}, "exit": res.exit_code, "output": res.output[-300:]}, attrs={"what": what})


def run(ctx, coq_ok):
    specs = scenarios.choose_specs(ctx, 45 if ctx.tier == "quick" else None)
    obs = scenarios.run_specs(specs)
    for o in obs:
        nt = any(o[e]["files"] and any(o[e]["files"]) for e in ("lint_path", "fix_path"))
        ctx.case(tuple(o["spec"]) if nt else None, bucket="tmp=%s,prs=%s" % (o["spec"][0], o["spec"][1]),
                 sample={"spec": o["spec"], "sql": o["sql"], "exits": {e: o[e]["exit"] for e in ("lint_path", "fix_path", "fix_stdin", "format_path")}} if nt else None)
        scenarios.eval_c22(ctx, o)
    usage_errors(ctx)
    if coq_ok:
        ctx.coverage_extra["model_vs_impl_cases"] = scenarios.correspond(ctx, obs)
    ctx.coverage_extra["exhaustive"] = ctx.tier == "thorough"
