"""C31 — offset-to-line/column conversion is exact."""
import itertools

from harness import coq

LEVEL = "proof"
COQ_TARGETS = ["theories/Properties/C31.vo", "theories/Base/Enum.vo"]
PROPERTY_FILES = ["theories/Properties/C31.v"]
RULE = ("exhaustive: every string over {a,\\n,\\r} up to length L and every offset 0..len+1, source and templated side; "
        "plus seeded random Unicode strings; infer_next_position on every raw up to length 4. "
        "non-trivial = offset strictly after at least one newline; distinct = distinct (string, offset)")
ASSUMPTIONS = ["bisect.bisect_left on an ascending list returns the number of elements < x (stdlib, modelled as a linear scan)"]
TRUSTED_BASE = ["hand model Model/LineCol.v of TemplatedFile.get_line_pos_of_char_pos / iter_indices_of_newlines / infer_next_position"]

ALPHA = ["a", "\n", "\r"]


def spec(s, p):
    before = s[:p]
    return 1 + before.count("\n"), 1 + len(before) - (before.rfind("\n") + 1)


def run(ctx, coq_ok):
    from sqlfluff.core.parser.markers import PositionMarker
    from sqlfluff.core.templaters.base import TemplatedFile

    L = 6 if ctx.tier == "quick" else 8
    strings = ["".join(t) for n in range(L + 1) for t in itertools.product(ALPHA, repeat=n)]
    impl = []
    for s in strings:
        tf_src = TemplatedFile(source_str=s, fname="f.sql")
        for p in range(len(s) + 2):
            r = tf_src.get_line_pos_of_char_pos(p, source=True)
            r2 = tf_src.get_line_pos_of_char_pos(p, source=False)
            impl.append(tuple(r))
            nontriv = "\n" in s[:p]
            ctx.case((s, p) if nontriv else None, sample={"text": s, "offset": p, "impl": list(r)} if nontriv and len(s) == L else None,
                     bucket="len%d" % len(s))
            if tuple(r2) != tuple(r):
                ctx.violation("linecol-source-vs-templated", "source and rendered conversion differ",
                              {"input": {"text": s, "offset": p}, "source": list(r), "templated": list(r2)})
            if p <= len(s) and tuple(r) != spec(s, p):
                ctx.violation("linecol-spec", "line/col of offset is not (1+#newlines before, 1-based column)",
                              {"input": {"text": s, "offset": p}, "impl": list(r), "spec": list(spec(s, p))})
    # infer_next_position
    raws = ["".join(t) for n in range(5) for t in itertools.product(ALPHA, repeat=n)]
    starts = [(1, 1), (1, 5), (3, 2)]
    impl_inf = []
    for raw in raws:
        for (ln, lp) in starts:
            r = PositionMarker.infer_next_position(raw, ln, lp)
            impl_inf.append(tuple(r))
            ctx.case(("inf", raw, ln, lp) if "\n" in raw else None, bucket="infer_next")
    # random long strings
    rnd = []
    nrand = 150 if ctx.tier == "quick" else 1500
    pool = ["\n", "\n", "\r", " ", "a", "é", " ", "\x85", "\x0b", "\x0c", "\U0001F600", "\t", "b"]
    for _ in range(nrand):
        n = ctx.rng.randrange(0, 120)
        s = "".join(ctx.rng.choice(pool) for _ in range(n))
        p = ctx.rng.randrange(0, n + 1)
        r = TemplatedFile(source_str=s, fname="f.sql").get_line_pos_of_char_pos(p)
        rnd.append((s, p, tuple(r)))
        ctx.case((s, p) if "\n" in s[:p] else None, bucket="random")
        if tuple(r) != spec(s, p):
            ctx.violation("linecol-spec", "line/col of offset is not (1+#newlines before, 1-based column)",
                          {"input": {"text": s, "offset": p}, "impl": list(r), "spec": list(spec(s, p))})
    # pipeline-level: the position markers produced by a real lex agree with the conversion spec
    from sqlfluff.core import FluffConfig, Lexer
    cfg = FluffConfig(overrides={"dialect": "ansi"})
    for sql in ["select a,\n  b\nfrom t\n", "\n\nselect\r\n 1 -- x\n/* a\nb */ + 2", "select 'a\nb', \"c\nd\"\n from  x\n\n"]:
        toks, _ = Lexer(config=cfg).lex(sql)
        for t in toks:
            pm = t.pos_marker
            want = spec(sql, pm.source_slice.start)
            got = pm.source_position()
            ctx.case(("lex", sql, pm.source_slice.start) if want[0] > 1 else None, bucket="lexed-token")
            if tuple(got) != want or (pm.working_line_no, pm.working_line_pos) != want:
                ctx.violation("linecol-lexed-token", "position marker of a lexed token disagrees with its source offset",
                              {"input": {"text": sql, "offset": pm.source_slice.start}, "impl": [list(got), pm.working_line_no, pm.working_line_pos], "spec": list(want)})

    if not coq_ok:
        return
    # model side
    alpha = "[97; 10; 13]%N"
    t_table = ("flat_map (fun s => map (line_pos s) (seq 0 (S (S (length s))))) (strings_upto %s %d)" % (alpha, L))
    t_inf = ("flat_map (fun raw => map (infer_next raw) [(1,1);(1,5);(3,2)]) (strings_upto %s 4)" % alpha)
    t_rnd = coq.clist(["line_pos %s %d" % (coq.ctext(s), p) for (s, p, _) in rnd])
    table, inf, rndm = coq.eval_terms(["Base.Enum", "Model.LineCol"], [t_table, t_inf, t_rnd])
    ctx.disagreements_checked = 0
    if len(table) != len(impl):
        ctx.broken_obligation("correspondence line_pos: enumeration size mismatch", "%d vs %d" % (len(table), len(impl)))
    else:
        i = 0
        for s in strings:
            for p in range(len(s) + 2):
                if tuple(table[i]) != impl[i]:
                    ctx.broken_obligation("correspondence Model.LineCol.line_pos vs get_line_pos_of_char_pos",
                                          {"text": s, "offset": p, "model": list(table[i]), "impl": list(impl[i])})
                    return
                i += 1
    j = 0
    for raw in raws:
        for st in starts:
            if tuple(inf[j]) != impl_inf[j]:
                # is it a property failure? compare with recomputation from scratch
                ctx.broken_obligation("correspondence Model.LineCol.infer_next vs infer_next_position",
                                      {"raw": raw, "start": list(st), "model": list(inf[j]), "impl": list(impl_inf[j])})
                ln, lp = st
                pre = "\n" * (ln - 1) + "x" * (lp - 1)
                want = spec(pre + raw, len(pre) + len(raw))
                if tuple(impl_inf[j]) != want:
                    ctx.violation("infer-next-spec", "infer_next_position disagrees with recomputing the position",
                                  {"input": {"raw": raw, "start": list(st)}, "impl": list(impl_inf[j]), "spec": list(want)})
                return
            j += 1
    for (s, p, r), m in zip(rnd, rndm):
        if tuple(m) != r:
            ctx.broken_obligation("correspondence Model.LineCol.line_pos vs get_line_pos_of_char_pos (random)",
                                  {"text": s, "offset": p, "model": list(m), "impl": list(r)})
            return
    ctx.coverage_extra["exhaustive"] = True
    ctx.coverage_extra["model_vs_impl_cases"] = len(impl) + len(impl_inf) + len(rnd)
