"""C25 — file discovery honours ignore files regardless of path spelling.

Correspondence: the real `paths_from_path` vs Model/Discovery.v on real directory trees built in a temp dir (the model's file system is obtained
by SCANNING the real tree, the pathspec oracle table by calling the real library on every (ignore file, candidate path) pair).
Monitor: two oracles written from the property text run on the real outputs: (O1) the selection is the same for every spelling of one target
from one working directory; (O2) the selection is exactly {files under the path with a configured extension, not matched by an applicable
ignore file}.
"""
import itertools
import json
import os
import shutil
import tempfile

from harness import coq

LEVEL = "proof"
COQ_TARGETS = ["theories/Properties/C25.vo"]
PROPERTY_FILES = ["theories/Properties/C25.v"]
RULE = ("real directory trees under a temp dir: full binary trees (dirs sub/oth) of depth 2 (quick) and 3 (thorough), every sub-shape of them, "
        "files {a.sql,b.sql,c.txt} in every directory, one or two ignore files (.sqlfluffignore or .sqlfluff ignore_paths; 1-2 patterns from "
        "{a.sql, sub/, *.sql, /b.sql, sub/a.sql, !a.sql}) at every level x every target directory/file x spellings {x, ./x, x/, ., ./, absolute, "
        "absolute/, ../..} x working directories (tree root, inner directories, outside; working_path = cwd, a different directory, or the "
        "import-time default); seeded random trees; malformed stream (missing path, empty path, other extensions, flags). Each evaluation = one "
        "real paths_from_path call compared with the Coq model and with both oracles. non-trivial = a call on a tree where at least one ignore "
        "spec matches at least one candidate; distinct = distinct (tree, ignore files, cwd, working_path, path, flags)")
ASSUMPTIONS = ["no symlinks, no mount points: Path.resolve()/os.path.exists are modelled lexically ('..' never crosses a non-directory)",
               "file and directory names are ASCII, non-empty, contain no '/', are not '.' or '..'; str.lower modelled on ASCII",
               "pathspec is an oracle: spec.match_file tabulated with the real library for every (ignore file, file or dir/*) pair of the case; "
               "unparsable ignore patterns (SQLFluffUserError from the loader) are outside the model",
               "os.walk visits sub-directories in scandir order and does not fail; the selection does not depend on that order (result is sorted)",
               "exactness oracle O2 reads 'ancestor directory' as the documented search area: directories from the common path of the working "
               "path and the given path down to the given path, then down to the file"]
TRUSTED_BASE = ["hand model Model/Discovery.v of discovery.py, iter_intermediate_paths and the posixpath/os.walk fragments (tied by correspondence "
                "on every case, helper functions normpath/join/abspath/relpath additionally compared with posixpath directly)",
                "pathspec (oracle), the scanning adapter in harness/props/c25.py"]

FILES = ["a.sql", "b.sql", "c.txt"]
PATTERNS = ["a.sql", "sub/", "*.sql", "/b.sql", "sub/a.sql", "!a.sql"]
DIRNAMES = ["sub", "oth"]
ROOT = "w"        # name of the tree root below the temp dir
OUTSIDE = "out"   # a sibling directory of the tree root: a working directory outside the tree


# --------------------------------------------------------------------------------------------------------------------------------
# trees on disk

def full_shape(depth, names=DIRNAMES):
    return {} if depth == 0 else {n: full_shape(depth - 1, names) for n in names}


def all_shapes(depth, names=DIRNAMES):
    """every tree of directories with names from `names`, depth <= depth"""
    if depth == 0:
        return [{}]
    below = all_shapes(depth - 1, names)
    out = []
    for present in itertools.product([None] + below, repeat=len(names)):
        out.append({n: s for n, s in zip(names, present) if s is not None})
    return out


def shape_dirs(shape, prefix=ROOT):
    out = [prefix]
    for n, s in shape.items():
        out.extend(shape_dirs(s, prefix + "/" + n))
    return out


def shape_depth(shape):
    return 0 if not shape else 1 + max(shape_depth(s) for s in shape.values())


def build_shape(top, shape, files=None):
    """create the directories of `shape` under top/ROOT, with `files` (dict rel dir -> names; default FILES everywhere)"""
    for d in shape_dirs(shape):
        os.makedirs(os.path.join(top, d))
        for f in (files.get(d, []) if files is not None else FILES):
            with open(os.path.join(top, d, f), "w") as fh:
                fh.write("select 1\n")
    os.makedirs(os.path.join(top, OUTSIDE), exist_ok=True)


def write_ignores(top, ignores):
    """ignores: {rel dir: {".sqlfluffignore": [lines]} and/or {".sqlfluff": "p1,p2"}}"""
    for d, spec in ignores.items():
        for fname, content in spec.items():
            p = os.path.join(top, d, fname)
            with open(p, "w") as fh:
                if fname == ".sqlfluffignore":
                    fh.write("".join(l + "\n" for l in content))
                elif fname == ".sqlfluff":
                    fh.write("[sqlfluff]\n" + ("ignore_paths = %s\n" % content if content is not None else "dialect = ansi\n"))
                else:  # pyproject.toml
                    fh.write("[tool.sqlfluff.core]\n" + ("ignore_paths = [%s]\n" % ", ".join('"%s"' % x for x in content) if content is not None
                                                        else 'dialect = "ansi"\n'))


def remove_ignores(top, ignores):
    for d, spec in ignores.items():
        for fname in spec:
            try:
                os.remove(os.path.join(top, d, fname))
            except FileNotFoundError:
                pass


# --------------------------------------------------------------------------------------------------------------------------------
# scanning the real tree into the model's inputs

class Scan:
    """The model's view of the real file system: a tree rooted at '/', the loaded ignore specs and the oracle table."""

    def __init__(self, top):
        from sqlfluff.core.config.file import load_config_file_as_dict
        from sqlfluff.core.linter.discovery import ignore_file_loaders
        load_config_file_as_dict.cache_clear()   # config files are cached by path; the harness rewrites them between cases
        self.loaders = ignore_file_loaders
        self.records = []       # (abs dir, filename, PathSpec)
        self.candidates = []    # abs paths of every file and every "dir/*" below top
        self.top = top
        node = self._scan(top, True)
        # the chain of ancestors of top: only their ignore files matter (iter_intermediate_paths may visit them)
        cur = top
        while cur != "/":
            parent, name = os.path.split(cur)
            files = [n for n in self.loaders if os.path.isfile(os.path.join(parent, n))]
            node = {"files": files, "loads": self._loads(parent, files), "subs": [(name, node)]}
            cur = parent
        self.root = node
        self.table = []
        self.nmatch = 0
        for sid, (d, _f, spec) in enumerate(self.records):
            for x in self.candidates:
                rel = os.path.relpath(x, d)
                if spec.match_file(rel):
                    self.table.append((sid, rel.split("/")))
                    if not rel.startswith(".."):
                        self.nmatch += 1

    def _loads(self, path, files):
        loads = []
        for f in files:
            if f in self.loaders:
                rec = self.loaders[f](path, f)
                if rec:
                    self.records.append(rec)
                    loads.append((f, len(self.records) - 1))
                else:
                    loads.append((f, None))
        return loads

    def _scan(self, path, is_top=False):
        files, subs = [], []
        with os.scandir(path) as it:
            for e in it:
                (subs if e.is_dir() else files).append(e.name)
        for f in files:
            self.candidates.append(os.path.join(path, f))
        if not is_top:
            self.candidates.append(os.path.join(path, "*"))
        loads = self._loads(path, files)
        return {"files": files, "loads": loads, "subs": [(n, self._scan(os.path.join(path, n))) for n in subs]}

    def add_candidate(self, abspath):
        """an exact path outside the scanned candidates (check_non_existent_file)"""
        if abspath in self.candidates:
            return
        self.candidates.append(abspath)
        for sid, (d, _f, spec) in enumerate(self.records):
            rel = os.path.relpath(abspath, d)
            if spec.match_file(rel):
                self.table.append((sid, rel.split("/")))


class Intern:
    def __init__(self):
        self.ids = {}

    def t(self, s):
        if s not in self.ids:
            self.ids[s] = "t%d" % len(self.ids)
        return self.ids[s]

    def tl(self, l):
        return "[" + "; ".join(self.t(x) for x in l) + "]" if l else "(@nil text)"

    def defs(self):
        return "".join("Definition %s : text := %s.\n" % (v, coq.ctext(k)) for k, v in self.ids.items())


def dir_lit(node, it):
    loads = "[" + "; ".join("(%s, %s)" % (it.t(f), "None" if s is None else "Some %d" % s) for f, s in node["loads"]) + "]" \
        if node["loads"] else "(@nil (text * option nat))"
    subs = "[" + "; ".join("(%s, %s)" % (it.t(n), dir_lit(s, it)) for n, s in node["subs"]) + "]" if node["subs"] else "(@nil (text * dir))"
    return "(Dir %s %s %s)" % (it.tl(node["files"]), loads, subs)


def table_lit(table, it):
    return "[" + "; ".join("(%d, %s)" % (sid, it.tl(parts)) for sid, parts in table) + "]" if table else "(@nil (nat * list text))"


COQ_DEFS = """
Definition c25_ok (r : res (list (list text * text))) (cwd : text) (e : option (list text)) : bool :=
  match r, e with
  | Ok l, Some x => parts_eqb (map snd l) x && forallb (fun o => parts_eqb (fst o) (parts_of cwd (snd o))) l
  | Err EValue, None => true
  | _, _ => false
  end.
Definition c25_q := (text * text * bool * bool * text * list text * bool * option (list text))%type.
Definition c25_case (c : dir * list (nat * list text) * list c25_q) : list bool :=
  let '(root, tbl, qs) := c in
  map (fun q : c25_q => let '(cwd, path, ine, ign, wp, exts, cnef, e) := q in
                        c25_ok (paths_from_path_g (tbl_matches tbl) cwd root path ine ign wp exts cnef) cwd e) qs.
Definition c25_show (c : dir * list (nat * list text) * list c25_q) : list (res (list text)) :=
  let '(root, tbl, qs) := c in
  map (fun q : c25_q => let '(cwd, path, ine, ign, wp, exts, cnef, e) := q in
                        paths_from_path (tbl_matches tbl) cwd root path ine ign wp exts cnef) qs.
"""


def query_lit(q, it):
    e = "None" if q["real"] is None else "(Some %s)" % it.tl(q["real"])
    return "(%s, %s, %s, %s, %s, %s, %s, %s)" % (it.t(q["abs_cwd"]), it.t(q["path"]), coq.cbool(q["ine"]), coq.cbool(q["ign"]), it.t(q["abs_wp"]),
                                                 it.tl(q["exts"]), coq.cbool(q["cnef"]), e)


# --------------------------------------------------------------------------------------------------------------------------------
# queries

def spellings(cwd, target, is_dir=True):
    """spellings of `target` (relative to top) from working directory `cwd` (relative to top); ABS is substituted later"""
    c, t = cwd.split("/"), target.split("/")
    out = [("absolute", "ABS")]
    if is_dir:
        out.append(("absolute-trailing-slash", "ABS/"))
    if t[:len(c)] == c:
        rel = "/".join(t[len(c):])
        if rel == "":
            out += [("dot", "."), ("dot-slash", "./")]
        else:
            out += [("relative", rel), ("dot-slash", "./" + rel)]
            if is_dir:
                out.append(("trailing-slash", rel + "/"))
    else:
        i = 0
        while i < len(c) and i < len(t) and c[i] == t[i]:
            i += 1
        out.append(("dotdot", "/".join([".."] * (len(c) - i) + t[i:])))
    return out


def mkq(cwd, target, spelling, path, wp="=", ine=False, ign=True, exts=(".sql",), cnef=False, is_dir=True):
    return {"cwd": cwd, "target": target, "spelling": spelling, "path": path, "wp": cwd if wp == "=" else wp, "ine": ine, "ign": ign,
            "exts": list(exts), "cnef": cnef, "is_dir": is_dir}


def grid_queries(dirs, cwds, file_targets=(), wps=("=",)):
    qs = []
    for cwd in cwds:
        for wp in wps:
            if wp != "=" and wp == cwd:
                continue
            for target in dirs:
                for kind, sp in spellings(cwd, target):
                    qs.append(mkq(cwd, target, kind, sp, wp=wp))
            for target in file_targets:
                for kind, sp in spellings(cwd, target, is_dir=False):
                    qs.append(mkq(cwd, target, kind, sp, wp=wp, is_dir=False))
    return qs


# --------------------------------------------------------------------------------------------------------------------------------
# oracle O2, written from the property text with pathspec only (no sqlfluff code)

def expected_selection(top, q, ignore_specs):
    """ignore_specs: {abs dir: [PathSpec]} for every directory holding ignore patterns.  Returns (set of abs files, {file: abs dir of an
    ignore file that excludes it})."""
    target = os.path.normpath(os.path.join(top, q["target"]))
    wp = os.path.normpath(os.path.join(top, q["wp"])) if q["wp"] is not None else q["abs_wp"]
    exts = tuple(e.lower() for e in q["exts"])
    tdir = target if os.path.isdir(target) else os.path.dirname(target)
    # directories between the working path (its common ancestor with the target) and the target ...
    common = os.path.commonpath([tdir, wp])
    chain = []
    cur = tdir
    while True:
        chain.append(cur)
        if cur == common or cur == "/":
            break
        cur = os.path.dirname(cur)
    if os.path.isdir(target):
        files = [os.path.join(d, f) for d, _s, fs in os.walk(target) for f in fs]
    else:
        files = [target]
    sel, why = set(), {}
    for f in files:
        if not f.lower().endswith(exts) if os.path.isfile(target) else not os.path.basename(f).lower().endswith(exts):
            continue
        # ... plus the directories between the target and the file
        app = list(chain)
        cur = os.path.dirname(f)
        while cur != tdir and len(cur) > len(tdir):
            app.append(cur)
            cur = os.path.dirname(cur)
        hit = None
        if q["ign"]:
            for d in app:
                for spec in ignore_specs.get(d, []):
                    rel = os.path.relpath(f, d)
                    # the file itself, or a directory on the way to it that lies inside the walked tree, is matched
                    if spec.match_file(rel):
                        hit = d
                    parts = rel.split("/")
                    for k in range(1, len(parts)):
                        dd = os.path.join(d, *parts[:k])
                        if len(dd) > len(tdir) and dd.startswith(tdir + "/") and spec.match_file("/".join(parts[:k]) + "/"):
                            hit = d
        if hit is None:
            sel.add(f)
        else:
            why[f] = hit
    return sel, why


# --------------------------------------------------------------------------------------------------------------------------------

class Runner:
    def __init__(self, ctx, top):
        self.ctx = ctx
        self.top = top
        self.it = Intern()
        self.lits = []      # Coq literal per case
        self.meta = []      # (case description, queries) per case
        self.calls = 0

    def run_case(self, desc, shape, ignores, queries, files=None):
        """the tree of `shape` is on disk already; write the ignore files, run every query on the real code, evaluate the oracles, queue the
        model evaluation, remove the ignore files"""
        from sqlfluff.core.errors import SQLFluffUserError
        from sqlfluff.core.linter import discovery
        ctx, top = self.ctx, self.top
        write_ignores(top, ignores)
        home = os.getcwd()
        try:
            scan = Scan(top)
            ignore_specs = {}
            for d, _f, spec in scan.records:
                ignore_specs.setdefault(d, []).append(spec)
            default_wp = discovery.paths_from_path.__defaults__[2]
            groups = {}
            for q in queries:
                q["abs_cwd"] = os.path.join(top, q["cwd"])
                q["abs_wp"] = default_wp if q["wp"] is None else os.path.join(top, q["wp"])
                q["path"] = q["path"].replace("ABS", os.path.join(top, q["target"]))
                os.chdir(q["abs_cwd"])
                kw = dict(ignore_non_existent_files=q["ine"], ignore_files=q["ign"], target_file_exts=tuple(q["exts"]),
                          check_non_existent_file=q["cnef"])
                if q["wp"] is not None:
                    kw["working_path"] = q["abs_wp"]
                try:
                    q["real"] = discovery.paths_from_path(q["path"], **kw)
                except SQLFluffUserError:
                    q["real"] = None
                self.calls += 1
                if q["cnef"]:
                    scan.add_candidate(os.path.abspath(q["path"]))
                ctx.case((desc, q["cwd"], q["wp"], q["path"], q["ine"], q["ign"], tuple(q["exts"]), q["cnef"]) if scan.nmatch else None,
                         bucket="spelling=%s" % q["spelling"],
                         sample={"tree": desc, "cwd": q["cwd"], "path": q["path"].replace(top, "<top>"), "selected": q["real"] and
                                 [r.replace(top, "<top>") for r in q["real"]]} if scan.nmatch and q["spelling"] == "dot" and self.calls % 97 == 0 else None)
                if q["real"] is not None and q.get("oracle", True):
                    q["ids"] = frozenset(os.path.normpath(os.path.join(q["abs_cwd"], r)) for r in q["real"])
                    groups.setdefault((q["cwd"], q["wp"], q["target"], q["ine"], q["ign"], tuple(q["exts"]), q["cnef"]), []).append(q)
            os.chdir(home)
            self._oracles(desc, shape, ignores, files, groups, ignore_specs)
            self.lits.append("(%s, %s, [%s])" % (dir_lit(scan.root, self.it), table_lit(scan.table, self.it),
                                                 "; ".join(query_lit(q, self.it) for q in queries)))
            self.meta.append((desc, shape, ignores, files, queries))
        finally:
            os.chdir(home)
            remove_ignores(top, ignores)

    def _oracles(self, desc, shape, ignores, files, groups, ignore_specs):
        ctx, top = self.ctx, self.top
        for key, qs in groups.items():
            ref = next((q for q in qs if q["spelling"] == "absolute"), qs[0])
            exp, why = expected_selection(top, ref, ignore_specs) if not ref["cnef"] else (None, {})
            for q in qs:
                rep = {"input": {"shape": shape, "files": files or "a.sql,b.sql,c.txt in every directory", "ignore_files": ignores,
                                 "cwd": q["cwd"], "working_path": q["wp"], "path": q["path"].replace(top, "<top>"),
                                 "reference_path": ref["path"].replace(top, "<top>")},
                       "selected": sorted(x.replace(top, "<top>") for x in q["ids"]),
                       "selected_for_reference_spelling": sorted(x.replace(top, "<top>") for x in ref["ids"])}
                if q["ids"] != ref["ids"]:
                    # O1: same target, same working directory, different spelling, different selection
                    extra, missing = q["ids"] - ref["ids"], ref["ids"] - q["ids"]
                    attrs = {"spelling": "relative" if q["spelling"] in ("relative", "dot", "dot-slash", "trailing-slash") else q["spelling"],
                             "direction": "extra" if extra and not missing else "missing" if missing and not extra else "both"}
                    tdir = os.path.join(top, q["target"])
                    if extra and not missing and exp is not None and all(f in why for f in extra):
                        # the reference spelling excludes them because of an ignore file: where is it?
                        ds = set()
                        for f in extra:
                            d = why[f]
                            ds.add("above the given path" if not (d + "/").startswith(tdir + "/") else "in the given path" if d == tdir
                                   else ">=1 below the given path")
                        attrs["ignore_file_depth"] = "|".join(sorted(ds))
                    elif missing and not extra:
                        # which ignore file excludes them for this spelling? (one that is not in a directory containing the file)
                        cwd_abs = os.path.join(top, q["cwd"])
                        ds = set()
                        for f in missing:
                            for d, specs in ignore_specs.items():
                                rel = os.path.relpath(f, d)
                                if rel.startswith("..") and (cwd_abs + "/").startswith(d + "/") and any(s.match_file(rel) for s in specs):
                                    ds.add("between the given path and the working directory, not above the file")
                        attrs["ignore_file_location"] = "|".join(sorted(ds)) or "?"
                    rep["extra"] = sorted(x.replace(top, "<top>") for x in extra)
                    rep["missing"] = sorted(x.replace(top, "<top>") for x in missing)
                    ctx.violation("spelling-dependent-selection",
                                  "paths_from_path(%r) and paths_from_path(%r) name the same directory from the same working directory but select "
                                  "different files" % (rep["input"]["path"], rep["input"]["reference_path"]), rep, attrs=attrs)
                elif exp is not None and q["ids"] != exp:
                    rep["expected"] = sorted(x.replace(top, "<top>") for x in exp)
                    ctx.violation("selection-not-exact", "the selected files are not exactly the files with a configured extension that no applicable "
                                  "ignore file matches", rep,
                                  attrs={"direction": "extra" if q["ids"] - exp and not exp - q["ids"] else "missing" if exp - q["ids"] and
                                         not q["ids"] - exp else "both", "spelling": q["spelling"]})

    def flush_model(self, tag):
        """evaluate the queued cases in Coq and compare"""
        ctx = self.ctx
        if not self.lits:
            return
        defs = self.it.defs() + COQ_DEFS
        try:
            res = coq.eval_sharded(["Model.Discovery"], "c25_case", self.lits, shard=max(1, min(60, (len(self.lits) + 3) // 4)), jobs=4, defs=defs)
            for ci, (bools, (desc, shape, ignores, files, queries)) in enumerate(zip(res, self.meta)):
                if len(bools) != len(queries):
                    raise coq.CoqError("result length mismatch")
                for b, q in zip(bools, queries):
                    if b is not True:
                        shown = coq.eval_terms(["Model.Discovery"], ["c25_show %s" % self.lits[ci]], defs=defs)[0]
                        qi = queries.index(q)
                        m = shown[qi]
                        model = "".join(map(chr, [])) if False else m
                        if isinstance(m, tuple) and m[0] == "Ok":
                            model = ["".join(chr(c) for c in t) for t in m[1]]
                        ctx.broken_obligation(
                            "correspondence Model.Discovery.paths_from_path vs discovery.paths_from_path (%s)" % tag,
                            json.dumps({"tree": desc, "shape": shape, "files": files, "ignore_files": ignores,
                                        "query": {k: v for k, v in q.items() if k not in ("ids",)}, "model": model, "impl": q["real"]}, default=repr))
                        return
            ctx.count("model_vs_impl_calls", sum(len(m[4]) for m in self.meta))
        finally:
            self.lits, self.meta = [], []


# --------------------------------------------------------------------------------------------------------------------------------
# case streams

def one_pattern_ignores(dirs, loader=".sqlfluffignore"):
    for d in dirs:
        for p in PATTERNS:
            yield {d: {loader: [p] if loader != ".sqlfluff" else p}}


def two_dir_ignores(pairs):
    for d1, d2 in pairs:
        for p1 in PATTERNS:
            for p2 in PATTERNS:
                yield {d1: {".sqlfluffignore": [p1]}, d2: {".sqlfluffignore": [p2]}}


def two_line_ignores(dirs):
    for d in dirs:
        for p1 in PATTERNS:
            for p2 in PATTERNS:
                if p1 != p2:
                    yield {d: {".sqlfluffignore": [p1, p2]}}


def ancestor_pairs(dirs):
    return [(a, b) for a in dirs for b in dirs if b.startswith(a + "/")]


def helper_correspondence(ctx, coq_ok):
    """posixpath fragments of the model vs the real posixpath, on an exhaustive small alphabet"""
    import posixpath
    if not coq_ok:
        return
    alphabet = ["/", ".", "a"]
    strs = [""] + ["".join(t) for n in range(1, 6 if ctx.tier == "quick" else 7) for t in itertools.product(alphabet, repeat=n)]
    cwd = "/c/d"
    lits = [coq.ctext(s) for s in strs]
    func = ("fun s => (normpath s, abspath %s s, join %s s, join s %s, relparts %s s %s, (isabs s, pure_parts s))"
            % (coq.ctext(cwd), coq.ctext("x/"), coq.ctext("y"), coq.ctext(cwd), coq.ctext("/c/e")))
    res = coq.eval_sharded(["Model.Discovery"], func, lits, shard=400, jobs=4)
    home = os.getcwd()
    fake = {"cwd": cwd}
    real_getcwd = os.getcwd
    os.getcwd = lambda: fake["cwd"]   # posixpath.abspath/relpath read os.getcwd()
    try:
        for s, r in zip(strs, res):
            dec = lambda t: "".join(chr(c) for c in t)
            from pathlib import PurePosixPath
            pp = PurePosixPath(s)
            real = (posixpath.normpath(s), posixpath.abspath(s), posixpath.join("x/", s), posixpath.join(s, "y"),
                    posixpath.relpath(s, "/c/e").split("/") if s else None, (posixpath.isabs(s), [p for p in pp.parts if p != pp.anchor]))
            model = (dec(r[0]), dec(r[1]), dec(r[2]), dec(r[3]), [dec(x) for x in r[4]] or ["."], (r[5][0], [dec(x) for x in r[5][1]]))
            ctx.case(None, bucket="posixpath-helper")
            if s and s.startswith("//") and not s.startswith("///"):
                real = real[:5] + ((real[5][0], model[5][1]),)   # pathlib keeps a '//' anchor; such spellings are not generated
            if real[4] is None:
                real = real[:4] + (model[4],) + real[5:]
            if real != model:
                ctx.broken_obligation("correspondence Model.Discovery posixpath fragment vs posixpath", json.dumps({"input": s, "model": model, "impl": real}))
                break
    finally:
        os.getcwd = real_getcwd
        assert os.getcwd() == home


def run(ctx, coq_ok):
    import logging
    from sqlfluff.core.linter import discovery
    logging.getLogger("sqlfluff.linter").setLevel(logging.ERROR)   # the "exact file path ... was ignored" warning is not part of the property
    if coq_ok:
        names = coq.eval_terms(["Model.Discovery"], ["loader_names"])[0]
        if ["".join(chr(c) for c in t) for t in names] != list(discovery.ignore_file_loaders.keys()):
            ctx.broken_obligation("constant Model.Discovery.loader_names vs discovery.ignore_file_loaders", repr(list(discovery.ignore_file_loaders)))
    helper_correspondence(ctx, coq_ok)
    quick = ctx.tier == "quick"
    tmp = tempfile.mkdtemp(prefix="verif-c25-", dir=os.environ.get("TMPDIR") or "/var/tmp")
    tmp = os.path.realpath(tmp)
    assert not tmp.startswith("/repo") and not tmp.startswith("/verif")
    serial = [0]

    def fresh(shape, files=None):
        serial[0] += 1
        top = os.path.join(tmp, "t%d" % serial[0])
        os.makedirs(top)
        build_shape(top, shape, files)
        return top

    try:
        # ---- A. full tree of depth 2: one ignore file anywhere; two ignore files on an ancestor chain; two-line files
        shape = full_shape(2)
        dirs = shape_dirs(shape)
        top = fresh(shape)
        r = Runner(ctx, top)
        cwds = [ROOT, ROOT + "/sub", ROOT + "/sub/sub", OUTSIDE]
        ftargets = [ROOT + "/sub/a.sql", ROOT + "/sub/sub/b.sql", ROOT + "/oth/c.txt"]
        qs_full = lambda: grid_queries(dirs, cwds, ftargets)
        for ig in one_pattern_ignores(dirs):
            r.run_case("full2", shape, ig, qs_full())
        for ig in one_pattern_ignores([ROOT, ROOT + "/sub"] if quick else dirs, loader=".sqlfluff"):
            r.run_case("full2", shape, ig, qs_full())
        if coq_ok:
            r.flush_model("full depth-2 tree, one ignore file")
        chain = [(ROOT, ROOT + "/sub"), (ROOT + "/sub", ROOT + "/sub/sub"), (ROOT, ROOT + "/sub/sub"), (ROOT + "/sub", ROOT + "/sub/oth")]
        pairs = chain if quick else [(a, b) for a in dirs for b in dirs if a < b]
        for ig in two_dir_ignores(pairs):
            r.run_case("full2", shape, ig, grid_queries(dirs, [ROOT, ROOT + "/sub"] if quick else cwds))
        if coq_ok:
            r.flush_model("full depth-2 tree, two ignore files")
        for ig in two_line_ignores([ROOT + "/sub"] if quick else [ROOT, ROOT + "/sub", ROOT + "/sub/sub"]):
            r.run_case("full2", shape, ig, grid_queries(dirs, [ROOT]))
        # working path different from the working directory (a process that changed directory), and the import-time default
        for ig in one_pattern_ignores([ROOT, ROOT + "/sub", ROOT + "/oth"]):
            qs = grid_queries([ROOT + "/sub", ROOT + "/sub/sub"], [ROOT + "/sub"], wps=(ROOT, ROOT + "/oth", ROOT + "/sub/sub", OUTSIDE, None))
            r.run_case("full2", shape, ig, qs)
        if coq_ok:
            r.flush_model("full depth-2 tree, two-line files and working paths")
        shutil.rmtree(top)

        # ---- B. depth 3
        shape = full_shape(3)
        dirs = shape_dirs(shape)
        top = fresh(shape)
        r = Runner(ctx, top)
        spine = [ROOT, ROOT + "/sub", ROOT + "/sub/sub", ROOT + "/sub/sub/sub"]
        for ig in one_pattern_ignores(spine if quick else dirs):
            r.run_case("full3", shape, ig, grid_queries(spine + [ROOT + "/sub/oth", ROOT + "/oth"] if quick else dirs, [ROOT, ROOT + "/sub"] if quick else
                                                         [ROOT, ROOT + "/sub", ROOT + "/sub/sub", ROOT + "/oth/sub/oth"]))
        if not quick:
            if coq_ok:
                r.flush_model("full depth-3 tree, one ignore file")
            for ig in two_dir_ignores(ancestor_pairs(spine + [ROOT + "/oth", ROOT + "/oth/sub"])):
                r.run_case("full3", shape, ig, grid_queries(dirs, [ROOT, ROOT + "/sub"]))
        if coq_ok:
            r.flush_model("full depth-3 tree")
        shutil.rmtree(top)

        # ---- C. every sub-shape
        shapes = all_shapes(2) if quick else all_shapes(3)
        for si, shape in enumerate(shapes):
            dirs = shape_dirs(shape)
            if len(dirs) < 2:
                continue
            top = fresh(shape)
            r2 = Runner(ctx, top)
            inner = [d for d in dirs if d != ROOT]
            cands = [ROOT] + inner if (quick or shape_depth(shape) <= 2) else [d for d in inner if d.count("/") == 1]
            pats = PATTERNS if (quick or shape_depth(shape) <= 2) else ["a.sql", "sub/"]
            for d in cands:
                for p in pats:
                    r2.run_case("shape%d" % si, shape, {d: {".sqlfluffignore": [p]}},
                                grid_queries(dirs, [ROOT] if not quick and shape_depth(shape) > 2 else [ROOT, inner[0]]))
            r.lits += r2.lits
            r.meta += r2.meta
            r.it.ids.update({})  # (interning is per runner; merge below)
            if r2.lits:
                # evaluate per shape group lazily: merge interners by re-using r2's own
                if coq_ok and (len(r2.lits) and (si % 8 == 7 or si == len(shapes) - 1)):
                    pass
            # simplest: evaluate each shape's cases with its own interner
            r.lits, r.meta = [], []
            if coq_ok:
                r2.flush_model("sub-shapes")
            shutil.rmtree(top)

        # ---- D. seeded random trees, ignore files, flags
        nrand = 40 if quick else 400
        for i in range(nrand):
            random_case(ctx, fresh, coq_ok, i)

        # ---- E. malformed stream
        shape = full_shape(1)
        top = fresh(shape, files={ROOT: ["a.sql", "B.SQL", "c.txt", "noext"], ROOT + "/sub": ["a.sql", "x.Sql"], ROOT + "/oth": []})
        r = Runner(ctx, top)
        qs = []
        for cwd in [ROOT, OUTSIDE]:
            for path in ["nope", "nope/x.sql", "", "sub/nope.sql"]:
                for ine in (False, True):
                    for cnef in (False, True):
                        qs.append(dict(mkq(cwd, ROOT, "malformed", path, ine=ine, cnef=cnef, exts=("",) if cnef else (".sql",)), oracle=False))
        for exts in [(".sql",), (".SQL", ".txt"), ("",), (), ("sql",), (".sql", "noext")]:
            for ign in (True, False):
                for target, isd in [(ROOT, True), (ROOT + "/sub", True), (ROOT + "/B.SQL", False), (ROOT + "/noext", False), (ROOT + "/sub/x.Sql", False)]:
                    for kind, sp in spellings(ROOT, target, isd):
                        qs.append(mkq(ROOT, target, kind, sp, ign=ign, exts=exts, is_dir=isd))
        for ig in [{}, {ROOT: {".sqlfluffignore": ["*.sql"]}}, {ROOT: {".sqlfluffignore": ["noext", "x.*"]}},
                   {ROOT: {".sqlfluff": None, "pyproject.toml": ["b.sql", "sub/"]}, ROOT + "/sub": {"pyproject.toml": None, ".sqlfluff": "x.Sql"}}]:
            r.run_case("malformed", shape, ig, [dict(q) for q in qs], files="mixed-case extensions")
        if coq_ok:
            r.flush_model("malformed stream")
        shutil.rmtree(top)
    finally:
        shutil.rmtree(tmp, ignore_errors=True)
    ctx.coverage_extra["real_paths_from_path_calls"] = ctx.evaluations


def random_case(ctx, fresh, coq_ok, i):
    rng = ctx.rng
    names = ["sub", "oth", "a.sql", "Sub"]   # a directory may be called a.sql

    def rshape(depth):
        if depth == 0:
            return {}
        return {n: rshape(depth - 1) for n in rng.sample(names, rng.choice([0, 1, 1, 2, 2, 3]))}

    shape = rshape(3)
    dirs = shape_dirs(shape)
    files = {d: [f for f in FILES + ["A.SQL", "sub"] if rng.random() < 0.6 and f not in shape_sub(shape, d)] for d in dirs}
    top = fresh(shape, files)
    r = Runner(ctx, top)
    ignores = {}
    for d in dirs:
        if rng.random() < 0.35:
            k = rng.choice([1, 1, 2, 3])
            pats = [rng.choice(PATTERNS + ["Sub/", "/sub/*.sql", "**/b.sql", "oth", "#x", ""]) for _ in range(k)]
            loader = rng.choice([".sqlfluffignore", ".sqlfluffignore", ".sqlfluff", "pyproject.toml"])
            if loader == ".sqlfluff":
                pats = [p for p in pats if p and "#" not in p] or None
                ignores[d] = {loader: ",".join(pats) if pats else None}
            elif loader == "pyproject.toml":
                ignores[d] = {loader: [p for p in pats if p] or None}
            else:
                ignores[d] = {loader: pats}
    cwds = rng.sample(dirs, min(len(dirs), 2)) + [OUTSIDE]
    exts = rng.choice([(".sql",), (".sql",), (".sql", ".txt"), ("",)])
    qs = []
    for q in grid_queries(dirs, cwds, wps=("=", rng.choice(dirs))):
        q["exts"] = list(exts)
        q["ign"] = rng.random() < 0.9
        qs.append(q)
    # ign is part of the group key, so spellings of one group must share it
    by = {}
    for q in qs:
        k = (q["cwd"], q["wp"], q["target"])
        q["ign"] = by.setdefault(k, q["ign"])
    r.run_case("random%d" % i, shape, ignores, qs, files=files)
    if coq_ok:
        r.flush_model("random trees")
    shutil.rmtree(top)


def shape_sub(shape, d):
    cur = shape
    for n in d.split("/")[1:]:
        cur = cur[n]
    return cur
