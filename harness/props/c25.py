"""C25 — file discovery honours ignore files regardless of path spelling.

Correspondence: the real `paths_from_path` vs Model/Discovery.v on real directory trees built in a temp dir (the model's file system is obtained
by SCANNING the real tree, the pathspec oracle table by calling the real library on every (ignore file, candidate path) pair).
Monitor: two oracles written from the property text run on the real outputs: (O1) the selection is the same for every spelling of one target
from one working directory; (O2) the selection is exactly {files under the path with a configured extension, not matched by an applicable
ignore file}.
"""
import itertools
import json
import os
import shutil
import tempfile

from harness import coq

LEVEL = "proof"
COQ_TARGETS = ["theories/Properties/C25.vo"]
PROPERTY_FILES = ["theories/Properties/C25.v"]
RULE = ("real directory trees under a temp dir: full binary trees (dirs sub/oth) of depth 2 (quick) and 3 (thorough), every sub-shape of them, "
        "files {a.sql,b.sql,c.txt} in every directory, one or two ignore files (.sqlfluffignore or .sqlfluff ignore_paths; 1-2 patterns from "
        "{a.sql, sub/, *.sql, /b.sql, sub/a.sql, !a.sql}) at every level x every target directory/file x spellings {x, ./x, x/, ., ./, absolute, "
        "absolute/, ../..} x working directories (tree root, inner directories, outside; working_path = cwd, a different directory, or the "
        "import-time default); seeded random trees; malformed stream (missing path, empty path, other extensions, flags). Each evaluation = one "
        "real paths_from_path call compared with the Coq model and with both oracles. non-trivial = a call on a tree where at least one ignore "
        "spec matches at least one candidate; distinct = distinct (tree, ignore files, cwd, working_path, path, flags)")
ASSUMPTIONS = ["no symlinks, no mount points: Path.resolve()/os.path.exists are modelled lexically ('..' never crosses a non-directory)",
               "file and directory names are ASCII, non-empty, contain no '/', are not '.' or '..'; str.lower modelled on ASCII",
               "pathspec is an oracle: spec.match_file tabulated with the real library for every (ignore file, file or dir/*) pair of the case; "
               "unparsable ignore patterns (SQLFluffUserError from the loader) are outside the model",
               "os.walk visits sub-directories in scandir order and does not fail; the selection does not depend on that order (result is sorted)",
               "exactness oracle O2 reads 'ancestor directory' as the documented search area: directories from the common path of the working "
               "path and the given path down to the given path, then down to the file"]
TRUSTED_BASE = ["hand model Model/Discovery.v of discovery.py, iter_intermediate_paths and the posixpath/os.walk fragments (tied by correspondence "
                "on every case, helper functions normpath/join/abspath/relpath additionally compared with posixpath directly)",
                "pathspec (oracle), the scanning adapter in harness/props/c25.py"]

FILES = ["a.sql", "b.sql", "c.txt"]
PATTERNS = ["a.sql", "sub/", "*.sql", "/b.sql", "sub/a.sql", "!a.sql"]
DIRNAMES = ["sub", "oth"]
ROOT = "w"        # name of the tree root below the temp dir
OUTSIDE = "out"   # a sibling directory of the tree root: a working directory outside the tree


# --------------------------------------------------------------------------------------------------------------------------------
# trees on disk

def full_shape(depth, names=DIRNAMES):
    return {} if depth == 0 else {n: full_shape(depth - 1, names) for n in names}


def all_shapes(depth, names=DIRNAMES):
    """every tree of directories with names from `names`, depth <= depth"""
    if depth == 0:
        return [{}]
    below = all_shapes(depth - 1, names)
    out = []
    for present in itertools.product([None] + below, repeat=len(names)):
        out.append({n: s for n, s in zip(names, present) if s is not None})
    return out


def shape_dirs(shape, prefix=ROOT):
    out = [prefix]
    for n, s in shape.items():
        out.extend(shape_dirs(s, prefix + "/" + n))
    return out


def shape_depth(shape):
    return 0 if not shape else 1 + max(shape_depth(s) for s in shape.values())


def build_shape(top, shape, files=None):
    """create the directories of `shape` under top/ROOT, with `files` (dict rel dir -> names; default FILES everywhere)"""
    for d in shape_dirs(shape):
        os.makedirs(os.path.join(top, d))
        for f in (files.get(d, []) if files is not None else FILES):
            with open(os.path.join(top, d, f), "w") as fh:
                fh.write("select 1\n")
    os.makedirs(os.path.join(top, OUTSIDE), exist_ok=True)


def write_ignores(top, ignores):
    """ignores: {rel dir: {".sqlfluffignore": [lines]} and/or {".sqlfluff": "p1,p2"}}"""
    for d, spec in ignores.items():
        for fname, content in spec.items():
            p = os.path.join(top, d, fname)
            with open(p, "w") as fh:
                if fname == ".sqlfluffignore":
                    fh.write("".join(l + "\n" for l in content))
                elif fname == ".sqlfluff":
                    fh.write("[sqlfluff]\n" + ("ignore_paths = %s\n" % content if content is not None else "dialect = ansi\n"))
                else:  # pyproject.toml
                    fh.write("[tool.sqlfluff.core]\n" + ("ignore_paths = [%s]\n" % ", ".join('"%s"' % x for x in content) if content is not None
                                                        else 'dialect = "ansi"\n'))


def remove_ignores(top, ignores):
    for d, spec in ignores.items():
        for fname in spec:
            try:
                os.remove(os.path.join(top, d, fname))
            except FileNotFoundError:
                pass


# --------------------------------------------------------------------------------------------------------------------------------
# scanning the real tree into the model's inputs

class Scan:
    """The model's view of the real file system: a tree rooted at '/', the loaded ignore specs and the oracle table."""

    def __init__(self, top):
        from sqlfluff.core.config.file import load_config_file_as_dict
        from sqlfluff.core.linter.discovery import ignore_file_loaders
        load_config_file_as_dict.cache_clear()   # config files are cached by path; the harness rewrites them between cases
        self.loaders = ignore_file_loaders
        self.records = []       # (abs dir, filename, PathSpec)
        self.candidates = []    # abs paths of every file and every "dir/*" below top
        self.top = top
        node = self._scan(top, True)
        # the chain of ancestors of top: only their ignore files matter (iter_intermediate_paths may visit them)
        cur = top
        while cur != "/":
            parent, name = os.path.split(cur)
            files = [n for n in self.loaders if os.path.isfile(os.path.join(parent, n))]
            node = {"files": files, "loads": self._loads(parent, files), "subs": [(name, node)]}
            cur = parent
        self.root = node
        self.table = []
        self.nmatch = 0
        for sid, (d, _f, spec) in enumerate(self.records):
            for x in self.candidates:
                rel = os.path.relpath(x, d)
                if spec.match_file(rel):
                    self.table.append((sid, rel.split("/")))
                    if not rel.startswith(".."):
                        self.nmatch += 1

    def _loads(self, path, files):
        loads = []
        for f in files:
            if f in self.loaders:
                rec = self.loaders[f](path, f)
                if rec:
                    self.records.append(rec)
                    loads.append((f, len(self.records) - 1))
                else:
                    loads.append((f, None))
        return loads

    def _scan(self, path, is_top=False):
        files, subs = [], []
        with os.scandir(path) as it:
            for e in it:
                (subs if e.is_dir() else files).append(e.name)
        for f in files:
            self.candidates.append(os.path.join(path, f))
        if not is_top:
            self.candidates.append(os.path.join(path, "*"))
        loads = self._loads(path, files)
        return {"files": files, "loads": loads, "subs": [(n, self._scan(os.path.join(path, n))) for n in subs]}

    def add_candidate(self, abspath):
        """an exact path outside the scanned candidates (check_non_existent_file)"""
        if abspath in self.candidates:
            return
        self.candidates.append(abspath)
        for sid, (d, _f, spec) in enumerate(self.records):
            rel = os.path.relpath(abspath, d)
            if spec.match_file(rel):
                self.table.append((sid, rel.split("/")))


class Intern:
    """strings -> small numbers; the table is shipped to Coq once per coqc run as one decoded string literal"""

    def __init__(self):
        self.ids = {}

    def n(self, s):
        if s not in self.ids:
            self.ids[s] = len(self.ids)
        return self.ids[s]

    def ns(self, l):
        return ",".join(str(self.n(x)) for x in l)

    def names_defs(self):
        """Coq definitions of the string table, as several short string literals (Coq reads long string literals in quadratic time)"""
        chunks, cur = [], []
        for s in self.ids:
            cur.append(",".join(str(ord(c)) for c in s))
            if sum(len(x) + 1 for x in cur) > 1200:
                chunks.append(cur)
                cur = []
        if cur:
            chunks.append(cur)
        out = "".join('Definition c25_n%d := "%s"%%string.\n' % (i, "|".join(ch)) for i, ch in enumerate(chunks))
        return out + "Definition c25_names : list text := flat_map (fun s => map (fun e => hd [] e) (decode s)) [%s].\n" % "; ".join(
            "c25_n%d" % i for i in range(len(chunks)))


# Cases travel as Base/Decode.v strings (Coq reads a string literal in linear time, a nested list/tuple literal far slower):
#   "<ndirs>" | one entry per directory in preorder "parent,name;files;loader-file,spec+1 ..." | table rows "spec,parts.." joined by ';' |
#   one entry per query "cwd,path,ine,ign,wp,cnef,has_expected;exts;expected"
def case_string(scan, queries, it):
    ents = []

    def flat(node, parent, name):
        idx = len(ents)
        ents.append("%d,%d;%s;%s" % (parent, it.n(name), it.ns(node["files"]),
                                     ",".join("%d,%d" % (it.n(f), 0 if sp is None else sp + 1) for f, sp in node["loads"])))
        for n, sub in node["subs"]:
            flat(sub, idx, n)

    flat(scan.root, 0, "")
    tbl = ";".join("%d,%s" % (sid, it.ns(parts)) for sid, parts in scan.table)
    qs = ["%d,%d,%d,%d,%d,%d,%d;%s;%s" % (it.n(q["abs_cwd"]), it.n(q["path"]), q["ine"], q["ign"], it.n(q["abs_wp"]), q["cnef"], q["real"] is not None,
                                          it.ns(q["exts"]), it.ns(q["real"] or [])) for q in queries]
    ents = [str(len(ents))] + ents + [tbl] + qs
    chunks, cur = [], []
    for e in ents:
        cur.append(e)
        if sum(len(x) + 1 for x in cur) > 1200:
            chunks.append("|".join(cur))
            cur = []
    if cur:
        chunks.append("|".join(cur))
    return chunks


COQ_IMPORTS = ["From Coq Require Import String.", "From Coq Require Import List.", "Base.Decode", "Model.Discovery"]
COQ_DEFS = """
Definition c25_ok (r : res (list (list text * text))) (cwd : text) (e : option (list text)) : bool :=
  match r, e with
  | Ok l, Some x => parts_eqb (map snd l) x && forallb (fun o => parts_eqb (fst o) (parts_of cwd (snd o))) l
  | Err EValue, None => true
  | _, _ => false
  end.
Definition c25_q := (text * text * bool * bool * text * list text * bool * option (list text))%type.
Definition c25_case (c : dir * list (nat * list text) * list c25_q) : list bool :=
  let '(root, tbl, qs) := c in
  map (fun q : c25_q => let '(cwd, path, ine, ign, wp, exts, cnef, e) := q in
                        c25_ok (paths_from_path_g (tbl_matches tbl) cwd root path ine ign wp exts cnef) cwd e) qs.
Definition c25_show (c : dir * list (nat * list text) * list c25_q) : list (res (list text)) :=
  let '(root, tbl, qs) := c in
  map (fun q : c25_q => let '(cwd, path, ine, ign, wp, exts, cnef, e) := q in
                        paths_from_path (tbl_matches tbl) cwd root path ine ign wp exts cnef) qs.
@@NAMES@@
Definition tx (i : N) : text := nth (N.to_nat i) c25_names [].
Fixpoint c25_pairs (l : list N) : list (N * N) := match l with a :: b :: r => (a, b) :: c25_pairs r | _ => [] end.
Fixpoint c25_build (ents : list (list (list N))) (fuel i : nat) : dir :=
  match fuel with
  | O => Dir [] [] []
  | S f =>
      match nth i ents [] with
      | _ :: files :: loads :: _ =>
          Dir (map tx files)
              (map (fun ab => (tx (fst ab), if N.eqb (snd ab) 0 then None else Some (N.to_nat (snd ab - 1)))) (c25_pairs loads))
              (flat_map (fun j => match nth j ents [] with
                                  | (p :: nm :: _) :: _ =>
                                      if Nat.eqb (N.to_nat p) i && negb (Nat.eqb j 0) then [(tx nm, c25_build ents f j)] else []
                                  | _ => []
                                  end) (seq 0 (length ents)))
      | _ => Dir [] [] []
      end
  end.
Definition c25_decode_q (e : list (list N)) : c25_q :=
  match e with
  | [cwd; path; ine; ign; wp; cnef; hasexp] :: exts :: expd :: _ =>
      (tx cwd, tx path, negb (N.eqb ine 0), negb (N.eqb ign 0), tx wp, map tx exts, negb (N.eqb cnef 0),
       if N.eqb hasexp 0 then None else Some (map tx expd))
  | _ => ([], [], false, false, [], [], false, Some [[0%N]])
  end.
Definition c25_decode (ss : list String.string) : dir * list (nat * list text) * list c25_q :=
  match flat_map decode ss with
  | ([nd] :: _) :: rest =>
      let n := N.to_nat nd in
      match skipn n rest with
      | tbl :: qs => (c25_build (firstn n rest) n 0,
                      flat_map (fun row => match row with sp :: parts => [(N.to_nat sp, map tx parts)] | [] => [] end) tbl,
                      map c25_decode_q qs)
      | [] => (Dir [] [] [], [], [])
      end
  | _ => (Dir [] [] [], [], [])
  end.
Definition c25_run (ss : list String.string) : list bool := c25_case (c25_decode ss).
Definition c25_run_show (ss : list String.string) := c25_show (c25_decode ss).
Open Scope string_scope.
"""


# --------------------------------------------------------------------------------------------------------------------------------
# queries

def spellings(cwd, target, is_dir=True):
    """spellings of `target` (relative to top) from working directory `cwd` (relative to top); ABS is substituted later"""
    c, t = cwd.split("/"), target.split("/")
    out = [("absolute", "ABS")]
    if is_dir:
        out.append(("absolute-trailing-slash", "ABS/"))
    if t[:len(c)] == c:
        rel = "/".join(t[len(c):])
        if rel == "":
            out += [("dot", "."), ("dot-slash", "./")]
        else:
            out += [("relative", rel), ("dot-slash", "./" + rel)]
            if is_dir:
                out.append(("trailing-slash", rel + "/"))
    else:
        i = 0
        while i < len(c) and i < len(t) and c[i] == t[i]:
            i += 1
        out.append(("dotdot", "/".join([".."] * (len(c) - i) + t[i:])))
    return out


def mkq(cwd, target, spelling, path, wp="=", ine=False, ign=True, exts=(".sql",), cnef=False, is_dir=True):
    return {"cwd": cwd, "target": target, "spelling": spelling, "path": path, "wp": cwd if wp == "=" else wp, "ine": ine, "ign": ign,
            "exts": list(exts), "cnef": cnef, "is_dir": is_dir}


def grid_queries(dirs, cwds, file_targets=(), wps=("=",)):
    qs = []
    for cwd in cwds:
        for wp in wps:
            if wp != "=" and wp == cwd:
                continue
            for target in dirs:
                for kind, sp in spellings(cwd, target):
                    qs.append(mkq(cwd, target, kind, sp, wp=wp))
            for target in file_targets:
                for kind, sp in spellings(cwd, target, is_dir=False):
                    qs.append(mkq(cwd, target, kind, sp, wp=wp, is_dir=False))
    return qs


# --------------------------------------------------------------------------------------------------------------------------------
# oracle O2, written from the property text with pathspec only (no sqlfluff code)

def expected_selection(top, q, ignore_specs):
    """ignore_specs: {abs dir: [PathSpec]} for every directory holding ignore patterns.  Returns (set of abs files, {file: abs dir of an
    ignore file that excludes it})."""
    target = os.path.normpath(os.path.join(top, q["target"]))
    wp = os.path.normpath(os.path.join(top, q["wp"])) if q["wp"] is not None else q["abs_wp"]
    exts = tuple(e.lower() for e in q["exts"])
    tdir = target if os.path.isdir(target) else os.path.dirname(target)
    # directories between the working path (its common ancestor with the target) and the target ...
    common = os.path.commonpath([tdir, wp])
    chain = []
    cur = tdir
    while True:
        chain.append(cur)
        if cur == common or cur == "/":
            break
        cur = os.path.dirname(cur)
    if os.path.isdir(target):
        files = [os.path.join(d, f) for d, _s, fs in os.walk(target) for f in fs]
    else:
        files = [target]
    sel, why = set(), {}
    for f in files:
        if not f.lower().endswith(exts) if os.path.isfile(target) else not os.path.basename(f).lower().endswith(exts):
            continue
        # ... plus the directories between the target and the file
        app = list(chain)
        cur = os.path.dirname(f)
        while cur != tdir and len(cur) > len(tdir):
            app.append(cur)
            cur = os.path.dirname(cur)
        hit = None
        if q["ign"]:
            for d in app:
                for spec in ignore_specs.get(d, []):
                    rel = os.path.relpath(f, d)
                    # the file itself, or a directory on the way to it that lies inside the walked tree, is matched
                    if spec.match_file(rel):
                        hit = d
                    parts = rel.split("/")
                    for k in range(1, len(parts)):
                        dd = os.path.join(d, *parts[:k])
                        if len(dd) > len(tdir) and dd.startswith(tdir + "/") and spec.match_file("/".join(parts[:k]) + "/"):
                            hit = d
        if hit is None:
            sel.add(f)
        else:
            why[f] = hit
    return sel, why


# --------------------------------------------------------------------------------------------------------------------------------

class Queue:
    """model evaluations queued for a few large coqc runs (one coqc start costs seconds)"""

    def __init__(self, ctx, coq_ok):
        self.ctx, self.coq_ok = ctx, coq_ok
        self.it = Intern()
        self.lits, self.meta = [], []
        self.done = 0
        self.canary = None

    def add(self, lit, meta, scan):
        if self.coq_ok:
            self.lits.append(lit)
            self.meta.append(meta)
            q0 = meta["queries"][0]
            if self.canary is None and q0["real"] is not None:
                # a case again with a wrong expectation for its first query; the model comparison must say false
                self.canary = case_string(scan, [dict(q0, real=list(q0["real"]) + ["canary.sql"])], self.it)

    def flush(self, force=True):
        ctx = self.ctx
        if not self.lits or (not force and len(self.lits) < 1500):
            return
        from concurrent.futures import ThreadPoolExecutor
        lits, meta = self.lits, self.meta
        self.lits, self.meta = [], []
        canary, self.canary = self.canary, None
        defs = COQ_DEFS.replace("@@NAMES@@", self.it.names_defs())
        t0 = coq.now()

        def one(cases, func="c25_run"):
            # every case = a few short string definitions + the list of their names
            d, terms = [], []
            for ci, chunks in enumerate(cases):
                for k, ch in enumerate(chunks):
                    d.append('Definition c25_k%d_%d := "%s".\n' % (ci, k, ch))
                terms.append("[" + "; ".join("c25_k%d_%d" % (ci, k) for k in range(len(chunks))) + "]")
            return coq.eval_terms(COQ_IMPORTS, ["map %s %s" % (func, coq.clist(terms))], defs=defs + "".join(d))[0]

        allc = lits + ([canary] if canary else [])
        shards = list(coq.chunked(allc, max(1, min(250, (len(allc) + 3) // 4))))
        with ThreadPoolExecutor(max_workers=4) as ex:
            res = [r for part in ex.map(one, shards) for r in part]
        ctx.coverage_extra["coq_eval_s"] = round(ctx.coverage_extra.get("coq_eval_s", 0) + coq.now() - t0, 1)
        if len(res) != len(allc):
            raise coq.CoqError("result length mismatch")
        if canary:
            if res[-1] != [False]:
                ctx.broken_obligation("canary: the model comparison accepted a wrong expectation", repr(canary)[:2000])
            res = res[:-1]
        for lit, bools, m in zip(lits, res, meta):
            queries = m["queries"]
            if len(bools) != len(queries):
                raise coq.CoqError("result length mismatch")
            self.done += len(queries)
            for qi, (b, q) in enumerate(zip(bools, queries)):
                if b is not True:
                    mo = one([lit], "c25_run_show")[0][qi]
                    if isinstance(mo, tuple) and mo[0] == "Ok":
                        mo = ["".join(chr(c) for c in t) for t in mo[1]]
                    ctx.broken_obligation(
                        "correspondence Model.Discovery.paths_from_path vs discovery.paths_from_path",
                        json.dumps({"tree": m["desc"], "shape": m["shape"], "files": m["files"], "ignore_files": m["ignores"],
                                    "query": {k: v for k, v in q.items() if k != "ids"}, "model": mo, "impl": q["real"]}, default=repr))
                    return
        ctx.coverage_extra["model_vs_impl_calls"] = self.done


def _rel(top, x):
    return x.replace(top, "<top>")


class Runner:
    def __init__(self, ctx, queue, top):
        self.ctx, self.queue, self.top = ctx, queue, top

    def run_case(self, desc, shape, ignores, queries, files=None):
        """the tree of `shape` is on disk already; write the ignore files, run every query on the real code, evaluate the oracles, queue the
        model evaluation, remove the ignore files"""
        from sqlfluff.core.errors import SQLFluffUserError
        from sqlfluff.core.linter import discovery
        ctx, top, it = self.ctx, self.top, self.queue.it
        write_ignores(top, ignores)
        home = os.getcwd()
        try:
            scan = Scan(top)
            ignore_specs = {}
            for d, _f, spec in scan.records:
                ignore_specs.setdefault(d, []).append(spec)
            default_wp = discovery.paths_from_path.__defaults__[2]
            groups = {}
            for q in queries:
                q["abs_cwd"] = os.path.join(top, q["cwd"])
                q["abs_wp"] = default_wp if q["wp"] is None else os.path.join(top, q["wp"])
                q["path"] = q["path"].replace("ABS", os.path.join(top, q["target"]))
                os.chdir(q["abs_cwd"])
                kw = dict(ignore_non_existent_files=q["ine"], ignore_files=q["ign"], target_file_exts=tuple(q["exts"]),
                          check_non_existent_file=q["cnef"])
                if q["wp"] is not None:
                    kw["working_path"] = q["abs_wp"]
                try:
                    q["real"] = discovery.paths_from_path(q["path"], **kw)
                except SQLFluffUserError:
                    q["real"] = None
                if q["cnef"]:
                    scan.add_candidate(os.path.abspath(q["path"]))
                nt = scan.nmatch > 0
                ctx.case((desc, json.dumps(ignores, sort_keys=True), q["cwd"], q["wp"], q["path"], q["ine"], q["ign"], tuple(q["exts"]), q["cnef"])
                         if nt else None, bucket="spelling=%s" % q["spelling"],
                         sample={"tree": desc, "ignore_files": ignores, "cwd": q["cwd"], "path": _rel(top, q["path"]),
                                 "selected": q["real"] and [_rel(top, x) for x in q["real"]]}
                         if nt and q["spelling"] == "dot" and ctx.evaluations % 97 == 0 else None)
                if q["real"] is not None and q.get("oracle", True):
                    q["ids"] = frozenset(os.path.normpath(os.path.join(q["abs_cwd"], x)) for x in q["real"])
                    groups.setdefault((q["cwd"], q["wp"], q["target"], q["ine"], q["ign"], tuple(q["exts"]), q["cnef"]), []).append(q)
            os.chdir(home)
            self._oracles(desc, shape, ignores, files, groups, ignore_specs)
            self.queue.add(case_string(scan, queries, it),
                           {"desc": desc, "shape": shape, "ignores": ignores, "files": files, "queries": queries}, scan)
        finally:
            os.chdir(home)
            remove_ignores(top, ignores)

    def _oracles(self, desc, shape, ignores, files, groups, ignore_specs):
        ctx, top = self.ctx, self.top
        for _key, qs in groups.items():
            ref = next((q for q in qs if q["spelling"] == "absolute"), qs[0])
            exp, why = expected_selection(top, ref, ignore_specs) if not ref["cnef"] else (None, {})
            tdir = os.path.join(top, ref["target"])
            for q in qs:
                rep = {"input": {"shape": shape, "files": files or "a.sql,b.sql,c.txt in every directory", "ignore_files": ignores,
                                 "cwd": q["cwd"], "working_path": q["wp"], "path": _rel(top, q["path"]), "reference_path": _rel(top, ref["path"]),
                                 "ignore_files_flag": q["ign"], "exts": q["exts"]},
                       "selected": sorted(_rel(top, x) for x in q["ids"]),
                       "selected_for_reference_spelling": sorted(_rel(top, x) for x in ref["ids"])}
                extra, missing = q["ids"] - ref["ids"], ref["ids"] - q["ids"]
                # O1: same target, same working directory and working path, different spelling => same selection
                what = ("paths_from_path(%r) and paths_from_path(%r) name the same path from the same working directory but select different "
                        "files" % (rep["input"]["path"], rep["input"]["reference_path"]))
                spelling = "absolute" if q["spelling"].startswith("absolute") else "relative"
                if extra:
                    # the reference spelling leaves them out: because of which ignore file?
                    ds = set()
                    for f in extra:
                        d = why.get(f)
                        ds.add("?" if d is None else "above the given path" if not (d + "/").startswith(tdir + "/") else
                               "in the given path" if d == tdir else ">=1 below the given path")
                    ctx.violation("spelling-dependent-selection", what + " (more files than the absolute spelling)",
                                  dict(rep, extra=sorted(_rel(top, x) for x in extra)),
                                  attrs={"spelling": spelling, "dotdot": q["spelling"] == "dotdot", "direction": "extra",
                                         "ignore_file_depth": "|".join(sorted(ds))})
                if missing:
                    # this spelling leaves them out: because of which ignore file?
                    ds = set()
                    for f in missing:
                        found = "?"
                        for d, specs in ignore_specs.items():
                            rel = os.path.relpath(f, d)
                            if any(s.match_file(rel) for s in specs):
                                if rel.startswith(".."):
                                    found = "in a directory that does not contain the file"
                                elif not (d + "/").startswith(tdir + "/") and found == "?":
                                    found = "above the given path"
                        ds.add(found)
                    ctx.violation("spelling-dependent-selection", what + " (fewer files than the absolute spelling)",
                                  dict(rep, missing=sorted(_rel(top, x) for x in missing)),
                                  attrs={"spelling": spelling, "dotdot": q["spelling"] == "dotdot", "direction": "missing",
                                         "ignore_file_location": "|".join(sorted(ds))})
                if not extra and not missing and exp is not None and q["ids"] != exp:
                    # O2 (a spelling that deviates from the reference spelling is already reported above)
                    rep["expected"] = sorted(_rel(top, x) for x in exp)
                    ctx.violation("selection-not-exact", "the selected files are not exactly the files with a configured extension that no applicable "
                                  "ignore file matches", rep,
                                  attrs={"direction": "extra" if q["ids"] - exp and not exp - q["ids"] else "missing" if exp - q["ids"] and
                                         not q["ids"] - exp else "both", "spelling": q["spelling"]})


# --------------------------------------------------------------------------------------------------------------------------------
# case streams

def one_pattern_ignores(dirs, loader=".sqlfluffignore"):
    for d in dirs:
        for p in PATTERNS:
            yield {d: {loader: [p] if loader != ".sqlfluff" else p}}


def two_dir_ignores(pairs, second=PATTERNS):
    for d1, d2 in pairs:
        for p1 in PATTERNS:
            for p2 in second:
                yield {d1: {".sqlfluffignore": [p1]}, d2: {".sqlfluffignore": [p2]}}


def two_line_ignores(dirs):
    for d in dirs:
        for p1 in PATTERNS:
            for p2 in PATTERNS:
                if p1 != p2:
                    yield {d: {".sqlfluffignore": [p1, p2]}}


def ancestor_pairs(dirs):
    return [(a, b) for a in dirs for b in dirs if b.startswith(a + "/")]


def helper_correspondence(ctx, coq_ok):
    """loader names, and the posixpath/pathlib fragments of the model vs the real ones on every string over {/ . a} up to length 5 (6)"""
    import posixpath
    from pathlib import PurePosixPath
    from sqlfluff.core.linter import discovery
    if not coq_ok:
        return
    alphabet = ["/", ".", "a"]
    strs = [""] + ["".join(t) for n in range(1, 6 if ctx.tier == "quick" else 7) for t in itertools.product(alphabet, repeat=n)]
    cwd = "/c/d"
    func = ("fun s => (normpath s, abspath %s s, join %s s, join s %s, relparts %s s %s, (isabs s, pure_parts s, resolve_parts (pure_parts s)))"
            % (coq.ctext(cwd), coq.ctext("x/"), coq.ctext("y"), coq.ctext(cwd), coq.ctext("/c/e")))
    terms = ["loader_names"] + ["map (%s) %s" % (func, coq.clist([coq.ctext(s) for s in ch])) for ch in coq.chunked(strs, 300)]
    vals = coq.eval_terms(["Model.Discovery"], terms)
    dec = lambda t: "".join(chr(c) for c in t)
    if [dec(t) for t in vals[0]] != list(discovery.ignore_file_loaders.keys()):
        ctx.broken_obligation("constant Model.Discovery.loader_names vs discovery.ignore_file_loaders", repr(list(discovery.ignore_file_loaders)))
    res = [r for v in vals[1:] for r in v]
    real_getcwd = os.getcwd
    os.getcwd = lambda: cwd   # posixpath.abspath/relpath read os.getcwd()
    try:
        for s, r in zip(strs, res):
            model = (dec(r[0]), dec(r[1]), dec(r[2]), dec(r[3]), [dec(x) for x in r[4]] or ["."], r[5][0], [dec(x) for x in r[5][1]],
                     [dec(x) for x in r[5][2]])
            pp = PurePosixPath(s)
            parts = [p for p in pp.parts if p != pp.anchor]
            res_parts = []
            for p in parts:
                if p == "..":
                    res_parts = res_parts[:-1]
                else:
                    res_parts.append(p)
            real = (posixpath.normpath(s), posixpath.abspath(s), posixpath.join("x/", s), posixpath.join(s, "y"),
                    posixpath.relpath(s, "/c/e").split("/") if s else model[4], posixpath.isabs(s), parts, res_parts)
            ctx.case(None, bucket="posixpath-helper")
            if real != model:
                ctx.broken_obligation("correspondence Model.Discovery posixpath fragment vs posixpath/pathlib",
                                      json.dumps({"input": s, "model": model, "impl": real}))
                break
    finally:
        os.getcwd = real_getcwd


def run(ctx, coq_ok):
    import logging
    logging.getLogger("sqlfluff.linter").setLevel(logging.ERROR)   # the "exact file path ... was ignored" warning is not part of the property
    helper_correspondence(ctx, coq_ok)
    quick = ctx.tier == "quick"
    tmp = os.path.realpath(tempfile.mkdtemp(prefix="verif-c25-", dir=os.environ.get("TMPDIR") or "/var/tmp"))
    assert not tmp.startswith("/repo") and not tmp.startswith("/verif")
    serial = [0]
    queue = Queue(ctx, coq_ok)

    def fresh(shape, files=None):
        serial[0] += 1
        top = os.path.join(tmp, "t%d" % serial[0])
        os.makedirs(top)
        build_shape(top, shape, files)
        return Runner(ctx, queue, top)

    R = ROOT
    try:
        # ---- A. full tree of depth 2: one ignore file anywhere; two ignore files; two-line files; working paths
        shape = full_shape(2)
        dirs = shape_dirs(shape)
        r = fresh(shape)
        cwds = [R, R + "/sub", OUTSIDE] if quick else [R, R + "/sub", R + "/sub/sub", OUTSIDE]
        ftargets = [R + "/sub/a.sql", R + "/sub/sub/b.sql", R + "/oth/c.txt"]
        for ig in one_pattern_ignores(dirs):
            r.run_case("full2", shape, ig, grid_queries(dirs, cwds, ftargets))
        for ig in one_pattern_ignores([R, R + "/sub"] if quick else dirs, loader=".sqlfluff"):
            r.run_case("full2", shape, ig, grid_queries(dirs, cwds[:2] if quick else cwds, ftargets))
        chain = [(R, R + "/sub"), (R + "/sub", R + "/sub/sub"), (R, R + "/sub/sub"), (R + "/sub", R + "/sub/oth")]
        for ig in two_dir_ignores(chain, ["a.sql", "sub/", "!a.sql"]) if quick else two_dir_ignores([(a, b) for a in dirs for b in dirs if a < b]):
            r.run_case("full2", shape, ig, grid_queries(dirs, [R] if quick else cwds))
            queue.flush(force=False)
        for ig in two_line_ignores([R + "/sub"] if quick else [R, R + "/sub", R + "/sub/sub"]):
            r.run_case("full2", shape, ig, grid_queries(dirs, [R]))
        # working path different from the working directory (a process that changed directory), and the import-time default
        for ig in one_pattern_ignores([R, R + "/sub", R + "/oth"]):
            r.run_case("full2", shape, ig, grid_queries([R + "/sub", R + "/sub/sub"], [R + "/sub"], wps=(R, R + "/oth", R + "/sub/sub", OUTSIDE, None)))
        shutil.rmtree(r.top)

        # ---- B. depth 3
        shape = full_shape(3)
        dirs = shape_dirs(shape)
        r = fresh(shape)
        spine = [R, R + "/sub", R + "/sub/sub", R + "/sub/sub/sub"]
        for ig in one_pattern_ignores(spine if quick else dirs):
            r.run_case("full3", shape, ig, grid_queries(spine + [R + "/sub/oth", R + "/oth"] if quick else dirs,
                                                         [R, R + "/sub"] if quick else [R, R + "/sub", R + "/sub/sub", R + "/oth/sub/oth"]))
            queue.flush(force=False)
        if not quick:
            for ig in two_dir_ignores(ancestor_pairs(spine + [R + "/oth", R + "/oth/sub"])):
                r.run_case("full3", shape, ig, grid_queries(dirs, [R, R + "/sub"]))
                queue.flush(force=False)
        shutil.rmtree(r.top)

        # ---- C. every sub-shape of the full tree (depth 2 quick, depth 3 thorough), one ignore file
        for si, shape in enumerate(all_shapes(2) if quick else all_shapes(3)):
            dirs = shape_dirs(shape)
            if len(dirs) < 2:
                continue
            deep = shape_depth(shape) > 2
            r = fresh(shape)
            inner = [d for d in dirs if d != R]
            for d in ([d for d in inner if d.count("/") == 1] if deep or quick else dirs):
                for p in (["a.sql", "sub/"] if deep or quick else PATTERNS):
                    r.run_case("shape%d" % si, shape, {d: {".sqlfluffignore": [p]}}, grid_queries(dirs, [R] if deep or quick else [R, inner[0]]))
            queue.flush(force=False)
            shutil.rmtree(r.top)

        # ---- D. seeded random trees, ignore files, flags
        for i in range(20 if quick else 400):
            random_case(ctx, fresh, i)
            queue.flush(force=False)

        # ---- E. malformed stream
        shape = full_shape(1)
        r = fresh(shape, files={R: ["a.sql", "B.SQL", "c.txt", "noext"], R + "/sub": ["a.sql", "x.Sql"], R + "/oth": []})
        qs = []
        for cwd in [R, OUTSIDE]:
            for path in ["nope", "nope/x.sql", "", "sub/nope.sql"]:
                for ine in (False, True):
                    for cnef in (False, True):
                        qs.append(dict(mkq(cwd, R, "malformed", path, ine=ine, cnef=cnef, exts=("",) if cnef else (".sql",)), oracle=False))
        for exts in [(".sql",), (".SQL", ".txt"), ("",), (), ("sql",), (".sql", "noext")]:
            for ign in (True, False):
                for target, isd in [(R, True), (R + "/sub", True), (R + "/B.SQL", False), (R + "/noext", False), (R + "/sub/x.Sql", False)]:
                    for kind, sp in spellings(R, target, isd):
                        qs.append(mkq(R, target, kind, sp, ign=ign, exts=exts, is_dir=isd))
        for ig in [{}, {R: {".sqlfluffignore": ["*.sql"]}}, {R: {".sqlfluffignore": ["noext", "x.*"]}},
                   {R: {".sqlfluff": None, "pyproject.toml": ["b.sql", "sub/"]}, R + "/sub": {"pyproject.toml": None, ".sqlfluff": "x.Sql"}}]:
            r.run_case("malformed", shape, ig, [dict(q) for q in qs], files="mixed-case extensions")
        shutil.rmtree(r.top)
        queue.flush()
    finally:
        shutil.rmtree(tmp, ignore_errors=True)
    ctx.coverage_extra["real_paths_from_path_calls"] = ctx.evaluations - ctx.dist.get("posixpath-helper", 0)


def random_case(ctx, fresh, i):
    rng = ctx.rng
    names = ["sub", "oth", "a.sql", "Sub"]   # a directory may be called a.sql

    def rshape(depth):
        if depth == 0:
            return {}
        return {n: rshape(depth - 1) for n in rng.sample(names, rng.choice([0, 1, 1, 2, 2, 3]))}

    shape = rshape(3)
    dirs = shape_dirs(shape)
    files = {d: [f for f in FILES + ["A.SQL", "sub"] if rng.random() < 0.6 and f not in shape_sub(shape, d)] for d in dirs}
    r = fresh(shape, files)
    ignores = {}
    for d in dirs:
        if rng.random() < 0.35:
            k = rng.choice([1, 1, 2, 3])
            pats = [rng.choice(PATTERNS + ["Sub/", "/sub/*.sql", "**/b.sql", "oth", "#x", ""]) for _ in range(k)]
            loader = rng.choice([".sqlfluffignore", ".sqlfluffignore", ".sqlfluff", "pyproject.toml"])
            if loader == ".sqlfluff":
                pats = [p for p in pats if p and "#" not in p]
                ignores[d] = {loader: ",".join(pats) if pats else None}
            elif loader == "pyproject.toml":
                ignores[d] = {loader: [p for p in pats if p] or None}
            else:
                ignores[d] = {loader: pats}
    cwds = rng.sample(dirs, min(len(dirs), 2)) + [OUTSIDE]
    exts = rng.choice([(".sql",), (".sql",), (".sql", ".txt"), ("",)])
    flag = {}
    qs = []
    for q in grid_queries(dirs, cwds, wps=("=", rng.choice(dirs))):
        q["exts"] = list(exts)
        q["ign"] = flag.setdefault((q["cwd"], q["wp"], q["target"]), rng.random() < 0.9)   # one flag per group of spellings
        qs.append(q)
    r.run_case("random%d" % i, shape, ignores, qs, files=files)
    shutil.rmtree(r.top)


def shape_sub(shape, d):
    cur = shape
    for n in d.split("/")[1:]:
        cur = cur[n]
    return cur


def replay(ctx, data):
    """./check C25 --replay <file>: rebuild the tree of a violation record and show the selections of the two spellings"""
    import logging
    from sqlfluff.core.linter import discovery
    logging.getLogger("sqlfluff.linter").setLevel(logging.ERROR)
    inp = data["replay"]["input"]
    tmp = os.path.realpath(tempfile.mkdtemp(prefix="verif-c25-", dir=os.environ.get("TMPDIR") or "/var/tmp"))
    home = os.getcwd()
    try:
        build_shape(tmp, inp["shape"], inp["files"] if isinstance(inp["files"], dict) else None)
        write_ignores(tmp, inp["ignore_files"])
        os.chdir(os.path.join(tmp, inp["cwd"]))
        out = {}
        for k in ("path", "reference_path"):
            p = inp[k].replace("<top>", tmp)
            kw = {} if inp["working_path"] is None else {"working_path": os.path.join(tmp, inp["working_path"])}
            res = discovery.paths_from_path(p, ignore_files=inp.get("ignore_files_flag", True), target_file_exts=tuple(inp.get("exts", [".sql"])), **kw)
            out[k] = sorted(os.path.normpath(os.path.join(os.getcwd(), x)).replace(tmp, "<top>") for x in res)
            print("paths_from_path(%r) from cwd <top>/%s selects %s" % (inp[k], inp["cwd"], out[k]))
        same = out["path"] == out["reference_path"]
        print("same selection" if same else "DIFFERENT selections: the violation reproduces")
        return 0 if same else 1
    finally:
        os.chdir(home)
        shutil.rmtree(tmp, ignore_errors=True)
