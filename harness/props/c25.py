"""C25 — file discovery honours ignore files regardless of path spelling.

Correspondence: the real `paths_from_path` vs Model/Discovery.v on real directory trees built in a temp dir (the model's file system is obtained
by SCANNING the real tree, the pathspec oracle table by calling the real library on every (ignore file, candidate path) pair).
The model follows /repo after commit 08d2a28 (repair of finding F8); the F8 witness is kept as a pinned scenario (section 0 of run()).
Monitor: two oracles written from the property text run on the real outputs: (O1) the selection is the same for every spelling of one target
from one working directory; (O2) the selection is exactly {files under the path with a configured extension, not matched by an applicable
ignore file}.
"""
import itertools
import json
import os
import shutil
import tempfile

from harness import coq

LEVEL = "proof"
COQ_TARGETS = ["theories/Properties/C25.vo"]
PROPERTY_FILES = ["theories/Properties/C25.v"]
RULE = ("real directory trees under a temp dir: the full binary tree (directories sub/oth) of depth 2 and of depth 3 and every sub-shape of them "
        "(25 shapes quick, 676 thorough), files {a.sql,b.sql,c.txt} in every directory, ignore files (.sqlfluffignore, .sqlfluff ignore_paths, "
        "pyproject.toml) with 1-2 patterns from {a.sql, sub/, *.sql, /b.sql, sub/a.sql, !a.sql} in one directory (every directory) or in two "
        "directories (chain pairs quick, all pairs thorough) x every directory and some files as target x spellings {x, ./x, x/, ., ./, absolute, "
        "absolute/, ../x} x working directories (tree root, inner directories, a directory outside the tree) x working_path (= cwd, another "
        "directory, the import-time default); seeded random trees (names sub/oth/Sub/a.sql, mixed-case files, 1-3 patterns incl. **, #, empty, "
        "random flags); malformed stream (missing path, empty path, extensions '', 'sql', upper case, no extension, ignore_files=False, "
        "check_non_existent_file). One evaluation = one real paths_from_path call, compared with the Coq model (exact output strings) and judged "
        "by the two oracles. non-trivial = a call on a tree in which at least one ignore spec matches at least one file or directory; distinct = "
        "distinct (tree, ignore files, cwd, working_path, path, flags)")
ASSUMPTIONS = ["no symlinks, no mount points: Path.resolve()/os.path.exists are modelled lexically ('..' never crosses a file or a missing directory)",
               "file and directory names are non-empty, contain no '/', are not '.' or '..' (theorem hypotheses names_ok / wf_dir: true of every POSIX "
               "directory tree); str.lower is modelled on ASCII only",
               "pathspec is an oracle: spec.match_file is tabulated with the real library for every (ignore file, file or dir/*) pair of the case; "
               "unparsable ignore patterns (SQLFluffUserError raised by the loader) are outside the model",
               "os.walk visits sub-directories in scandir order and does not fail; the selection does not depend on that order (result is sorted)",
               "exactness oracle O2 reads 'applicable ignore file' as the documented search area: directories from the common path of the working "
               "path and the given path down to the given path, then down to the file; ignore files above the working path are by design not read",
               "C25_walk_spec_rel assumes the working directory is not '/'"]
TRUSTED_BASE = ["hand model Model/Discovery.v of discovery.py, iter_intermediate_paths and the posixpath/pathlib/os.walk fragments (tied by exact-output "
                "correspondence on every real call of the run; normpath/abspath/join/relpath/isabs/PurePath.parts/resolve additionally compared with "
                "posixpath/pathlib on every string over {/ . a} up to length 4 (quick) / 6 (thorough))",
                "pathspec (oracle), the scanning/encoding adapter in harness/props/c25.py (fail-closed: a decoding slip makes the comparison false; "
                "a canary case with a wrong expectation must come back false)"]

FILES = ["a.sql", "b.sql", "c.txt"]
PATTERNS = ["a.sql", "sub/", "*.sql", "/b.sql", "sub/a.sql", "!a.sql"]
DIRNAMES = ["sub", "oth"]
ROOT = "w"        # name of the tree root below the temp dir
OUTSIDE = "out"   # a sibling directory of the tree root: a working directory outside the tree


# --------------------------------------------------------------------------------------------------------------------------------
# trees on disk

def full_shape(depth, names=DIRNAMES):
    return {} if depth == 0 else {n: full_shape(depth - 1, names) for n in names}


def all_shapes(depth, names=DIRNAMES):
    """every tree of directories with names from `names`, depth <= depth"""
    if depth == 0:
        return [{}]
    below = all_shapes(depth - 1, names)
    out = []
    for present in itertools.product([None] + below, repeat=len(names)):
        out.append({n: s for n, s in zip(names, present) if s is not None})
    return out


def shape_dirs(shape, prefix=ROOT):
    out = [prefix]
    for n, s in shape.items():
        out.extend(shape_dirs(s, prefix + "/" + n))
    return out


def shape_depth(shape):
    return 0 if not shape else 1 + max(shape_depth(s) for s in shape.values())


def build_shape(top, shape, files=None):
    """create the directories of `shape` under top/ROOT, with `files` (dict rel dir -> names; default FILES everywhere)"""
    for d in shape_dirs(shape):
        os.makedirs(os.path.join(top, d))
        for f in (files.get(d, []) if files is not None else FILES):
            with open(os.path.join(top, d, f), "w") as fh:
                fh.write("select 1\n")
    os.makedirs(os.path.join(top, OUTSIDE), exist_ok=True)


def write_ignores(top, ignores):
    """ignores: {rel dir: {".sqlfluffignore": [lines]} and/or {".sqlfluff": "p1,p2"}}"""
    for d, spec in ignores.items():
        for fname, content in spec.items():
            p = os.path.join(top, d, fname)
            with open(p, "w") as fh:
                if fname == ".sqlfluffignore":
                    fh.write("".join(l + "\n" for l in content))
                elif fname == ".sqlfluff":
                    fh.write("[sqlfluff]\n" + ("ignore_paths = %s\n" % content if content is not None else "dialect = ansi\n"))
                else:  # pyproject.toml
                    fh.write("[tool.sqlfluff.core]\n" + ("ignore_paths = [%s]\n" % ", ".join('"%s"' % x for x in content) if content is not None
                                                        else 'dialect = "ansi"\n'))


def remove_ignores(top, ignores):
    for d, spec in ignores.items():
        for fname in spec:
            try:
                os.remove(os.path.join(top, d, fname))
            except FileNotFoundError:
                pass


# --------------------------------------------------------------------------------------------------------------------------------
# scanning the real tree into the model's inputs

class Scan:
    """The model's view of the real file system: the directories from '/' down (preorder, with parent index), the loaded ignore specs and
    the oracle table."""

    def __init__(self, top):
        from sqlfluff.core.config.file import load_config_file_as_dict
        from sqlfluff.core.linter.discovery import ignore_file_loaders
        load_config_file_as_dict.cache_clear()   # config files are cached by path; the harness rewrites them between cases
        self.loaders = ignore_file_loaders
        self.records = []       # (abs dir, filename, PathSpec)
        self.candidates = []    # abs paths of every file and every "dir/*" below top
        self.top = top
        self.dirs = []          # (abs path, parent index, name, files, loads)
        # the chain of ancestors of top: only their ignore files matter (iter_intermediate_paths may visit them)
        chain = []
        cur = top
        while cur != "/":
            cur = os.path.dirname(cur)
            chain.append(cur)
        for anc in reversed(chain):
            files = [n for n in self.loaders if os.path.isfile(os.path.join(anc, n))]
            self.dirs.append((anc, max(0, len(self.dirs) - 1), os.path.basename(anc), files, self._loads(anc, files)))
        self._scan(top, len(self.dirs) - 1, True)
        self.table = []
        self.nmatch = 0
        for sid, (d, _f, spec) in enumerate(self.records):
            for x in self.candidates:
                rel = os.path.relpath(x, d)
                if spec.match_file(rel):
                    self.table.append((sid, rel.split("/")))
                    if not rel.startswith(".."):
                        self.nmatch += 1

    def _loads(self, path, files):
        loads = []
        for f in files:
            if f in self.loaders:
                rec = self.loaders[f](path, f)
                if rec:
                    self.records.append(rec)
                    loads.append((f, len(self.records) - 1))
                else:
                    loads.append((f, None))
        return loads

    def _scan(self, path, parent, is_top=False):
        files, subs = [], []
        with os.scandir(path) as it:
            for e in it:
                (subs if e.is_dir() else files).append(e.name)
        for f in files:
            self.candidates.append(os.path.join(path, f))
        if not is_top:
            self.candidates.append(os.path.join(path, "*"))
        idx = len(self.dirs)
        self.dirs.append((path, parent, os.path.basename(path), files, self._loads(path, files)))
        for n in subs:
            self._scan(os.path.join(path, n), idx)

    def add_candidate(self, abspath):
        """an exact path outside the scanned candidates (check_non_existent_file)"""
        if abspath in self.candidates:
            return
        self.candidates.append(abspath)
        for sid, (d, _f, spec) in enumerate(self.records):
            rel = os.path.relpath(abspath, d)
            if spec.match_file(rel):
                self.table.append((sid, rel.split("/")))


# Shipping cases to Coq.  Coq's front end reads ~20 KB/s, so the volume matters.  Cases are grouped: a GROUP is one tree on disk (without its
# ignore files) and one list of calls; it is written once (skeleton, calls, and per call the sorted universe of file names any case of the group
# returned).  A CASE of the group is then only: the ignore files present (directory index, name, loader result), the oracle table (per spec the
# indices of the matching relative paths) and per call a bit mask over the call's universe (or None when SQLFluffUserError was raised).

class Intern:
    def __init__(self, prefix):
        self.ids, self.prefix = {}, prefix

    def t(self, s):
        if s not in self.ids:
            self.ids[s] = "%s%d" % (self.prefix, len(self.ids))
        return self.ids[s]

    def tl(self, l):
        return "[" + "; ".join(self.t(x) for x in l) + "]" if l else "(@nil text)"

    def defs(self):
        """long absolute paths share the temp-dir prefix: define it once (Coq reads long literals slowly)"""
        absn = [k for k in self.ids if k.startswith("/") and len(k) > 12]
        pre = os.path.commonprefix(absn) if len(absn) > 3 else ""
        use = len(pre) > 8
        out = "Definition %s_pre : text := %s.\n" % (self.prefix, ctext_ids(pre)) if use else ""
        for k, v in self.ids.items():
            if use and k.startswith(pre):
                out += "Definition %s : text := %s_pre ++ %s.\n" % (v, self.prefix, ctext_ids(k[len(pre):]))
            else:
                out += "Definition %s : text := %s.\n" % (v, ctext_ids(k))
        return out


def qstatic(q):
    return (q["abs_cwd"], q["path"], q["ine"], q["ign"], q["abs_wp"], tuple(q["exts"]), q["cnef"])


class Group:
    def __init__(self, scan, queries):
        self.skel = [(parent, name, tuple(sorted(f for f in files if f not in scan.loaders))) for (_p, parent, name, files, _l) in scan.dirs]
        self.statics = [qstatic(q) for q in queries]
        self.key = (tuple(self.skel), tuple(self.statics))
        self.cases = []     # (ignore entries, {spec: [rel parts tuple]}, [real result or None per query], meta)
        self.rels = {}      # relative path (tuple of parts) -> index

    def add(self, scan, queries, meta):
        igs = [(di, f, sp) for di, (_p, _pa, _n, _files, loads) in enumerate(scan.dirs) for f, sp in loads]
        tbl = {}
        for sid, parts in scan.table:
            tbl.setdefault(sid, []).append(self.rels.setdefault(tuple(parts), len(self.rels)))
        self.cases.append((igs, tbl, [q["real"] for q in queries], meta))

    def coq(self, gi):
        """(definitions, [terms], n_cases): each term evaluates to a list (one per case) of lists of booleans (one per call)"""
        it = Intern("g%dt" % gi)
        universes = []
        for qi in range(len(self.statics)):
            u = set()
            for _i, _t, reals, _m in self.cases:
                if reals[qi] is not None:
                    if sorted(set(reals[qi])) != reals[qi]:
                        raise ValueError("result not sorted/duplicate free: %r" % (reals[qi],))
                    u.update(reals[qi])
            universes.append(sorted(u))
        skel = "[" + "; ".join("(%s, %s, %s)" % (nid(pa), it.t(n), it.tl(fs)) for pa, n, fs in self.skel) + "]"
        qs = "[" + ";\n ".join("(%s, %s, %s, %s, %s, %s, %s, %s)" % (it.t(c), it.t(p), coq.cbool(ine), coq.cbool(ign), it.t(wp), it.tl(ex), coq.cbool(cn),
                                                                     it.tl(u)) for (c, p, ine, ign, wp, ex, cn), u in zip(self.statics, universes)) + "]"
        rels = sorted(self.rels, key=self.rels.get)
        lits = []
        for igs, tbl, reals, _m in self.cases:
            ig = "[" + "; ".join("(%s, %s, %s)" % (nid(di), it.t(f), "None" if sp is None else "Some %s" % nid(sp)) for di, f, sp in igs) + "]" \
                if igs else "(@nil (nat * text * option nat))"
            tb = "[" + "; ".join("(%s, [%s])" % (nid(sid), "; ".join(map(nid, ix))) for sid, ix in sorted(tbl.items())) + "]" \
                if tbl else "(@nil (nat * list nat))"
            ms = []
            for real, u in zip(reals, universes):
                # None = SQLFluffUserError, Some mask = which names of the universe were returned (booleans: Coq reads numerals slowly)
                if real is None:
                    ms.append("None")
                else:
                    have = set(real)
                    ms.append("Some [%s]" % "; ".join("true" if x in have else "false" for x in u) if u else "Some (@nil bool)")
            lits.append("(%s, %s, [%s])" % (ig, tb, "; ".join(ms)))
        defs = ""
        defs += "Definition g%d_skel : list (nat * text * list text) := %s.\n" % (gi, skel)
        defs += "Definition g%d_qs : list c25_qs :=\n %s.\n" % (gi, qs)
        # the relative paths of the oracle table, in chunks (long list literals parse slowly)
        chunks = list(coq.chunked(rels, 200)) or [[]]
        for k, ch in enumerate(chunks):
            defs += "Definition g%d_rels%d : list (list text) := %s.\n" % (
                gi, k, "[" + "; ".join(it.tl(list(r)) for r in ch) + "]" if ch else "(@nil (list text))")
        defs += "Definition g%d_rels := %s.\n" % (gi, " ++ ".join("g%d_rels%d" % (gi, k) for k in range(len(chunks))))
        defs = it.defs() + defs   # the definitions of the texts precede their uses
        terms = ["map (c25_fcase g%d_skel g%d_rels g%d_qs) %s" % (gi, gi, gi, coq.clist(ch)) for ch in coq.chunked(lits, 200)]
        return it, defs, terms


def cid(c):
    """a code point as a Coq term: Coq reads numerals slowly (~1 ms each), identifiers fast; the constants are defined once per coqc run"""
    return "c%d" % ord(c) if ord(c) < 128 else "%d%%N" % ord(c)


def ctext_ids(s):
    return "[" + "; ".join(cid(c) for c in s) + "]" if s else "(@nil N)"


def nid(n):
    return "i%d" % n if n < 256 else "%d" % n


COQ_IMPORTS = ["Model.Discovery"]
COQ_CONSTS = "".join("Definition c%d : cp := %d%%N.\n" % (i, i) for i in range(128)) + "".join("Definition i%d : nat := %d.\n" % (i, i) for i in range(256))
COQ_DEFS = COQ_CONSTS + """
Definition c25_ok (r : res (list (list text * text))) (cwd : text) (e : option (list text)) : bool :=
  match r, e with
  | Ok l, Some x => parts_eqb (map snd l) x && forallb (fun o => parts_eqb (fst o) (parts_of cwd (snd o))) l
  | Err EValue, None => true
  | _, _ => false
  end.
(* cwd, path, ignore_non_existent_files, ignore_files, working_path, target_file_exts, check_non_existent_file, universe of results *)
Definition c25_qs := (text * text * bool * bool * text * list text * bool * list text)%type.
Fixpoint c25_select (m : list bool) (u : list text) : list text :=
  match m, u with b :: m', x :: r => if b then x :: c25_select m' r else c25_select m' r | _, _ => [] end.
Fixpoint c25_build (skel : list (nat * text * list text)) (igs : list (nat * text * option nat)) (fuel i : nat) : dir :=
  match fuel with
  | O => Dir [] [] []
  | S f =>
      match nth_error skel i with
      | Some (_, _, files) =>
          let mine := filter (fun g => Nat.eqb (fst (fst g)) i) igs in
          Dir (files ++ map (fun g => snd (fst g)) mine) (map (fun g => (snd (fst g), snd g)) mine)
              (flat_map (fun j => match nth_error skel j with
                                  | Some (p, nm, _) => if Nat.eqb p i && negb (Nat.eqb j 0) then [(nm, c25_build skel igs f j)] else []
                                  | None => []
                                  end) (seq 0 (length skel)))
      | None => Dir [] [] []
      end
  end.
Definition c25_table (rels : list (list text)) (tb : list (nat * list nat)) : list (nat * list text) :=
  flat_map (fun e => map (fun k => (fst e, nth k rels [[c0]])) (snd e)) tb.
Fixpoint c25_zip {A B} (a : list A) (b : list B) : list (A * B) :=
  match a, b with x :: a', y :: b' => (x, y) :: c25_zip a' b' | _, _ => [] end.
Definition c25_fcase (skel : list (nat * text * list text)) (rels : list (list text)) (qs : list c25_qs)
           (c : list (nat * text * option nat) * list (nat * list nat) * list (option (list bool))) : list bool :=
  let '(igs, tb, masks) := c in
  let root := c25_build skel igs (length skel) 0 in
  let tbl := c25_table rels tb in
  if negb (Nat.eqb (length qs) (length masks)) then [] else
  map (fun qm : c25_qs * option (list bool) =>
         let '(cwd, path, ine, ign, wp, exts, cnef, u, m) := qm in
         c25_ok (paths_from_path_g (tbl_matches tbl) cwd root path ine ign wp exts cnef) cwd
                (match m with Some m => if Nat.eqb (length m) (length u) then Some (c25_select m u) else Some [[c0]] | None => None end))
      (c25_zip qs masks).
Definition c25_fshow (skel : list (nat * text * list text)) (rels : list (list text)) (qs : list c25_qs)
           (c : list (nat * text * option nat) * list (nat * list nat) * list (option (list bool))) : list (res (list text)) :=
  let '(igs, tb, masks) := c in
  let root := c25_build skel igs (length skel) 0 in
  let tbl := c25_table rels tb in
  map (fun q : c25_qs => let '(cwd, path, ine, ign, wp, exts, cnef, u) := q in
                         paths_from_path (tbl_matches tbl) cwd root path ine ign wp exts cnef) qs.
"""


# --------------------------------------------------------------------------------------------------------------------------------
# queries

def spellings(cwd, target, is_dir=True):
    """spellings of `target` (relative to top) from working directory `cwd` (relative to top); ABS is substituted later"""
    c, t = cwd.split("/"), target.split("/")
    out = [("absolute", "ABS")]
    if is_dir:
        out.append(("absolute-trailing-slash", "ABS/"))
    if t[:len(c)] == c:
        rel = "/".join(t[len(c):])
        if rel == "":
            out += [("dot", "."), ("dot-slash", "./")]
        else:
            out += [("relative", rel), ("dot-slash", "./" + rel)]
            if is_dir:
                out.append(("trailing-slash", rel + "/"))
    else:
        i = 0
        while i < len(c) and i < len(t) and c[i] == t[i]:
            i += 1
        out.append(("dotdot", "/".join([".."] * (len(c) - i) + t[i:])))
    return out


def mkq(cwd, target, spelling, path, wp="=", ine=False, ign=True, exts=(".sql",), cnef=False, is_dir=True):
    return {"cwd": cwd, "target": target, "spelling": spelling, "path": path, "wp": cwd if wp == "=" else wp, "ine": ine, "ign": ign,
            "exts": list(exts), "cnef": cnef, "is_dir": is_dir}


def grid_queries(dirs, cwds, file_targets=(), wps=("=",)):
    qs = []
    for cwd in cwds:
        for wp in wps:
            if wp != "=" and wp == cwd:
                continue
            for target in dirs:
                for kind, sp in spellings(cwd, target):
                    qs.append(mkq(cwd, target, kind, sp, wp=wp))
            for target in file_targets:
                for kind, sp in spellings(cwd, target, is_dir=False):
                    qs.append(mkq(cwd, target, kind, sp, wp=wp, is_dir=False))
    return qs


# --------------------------------------------------------------------------------------------------------------------------------
# oracle O2, written from the property text with pathspec only (no sqlfluff code)

def expected_selection(top, q, ignore_specs):
    """ignore_specs: {abs dir: [PathSpec]} for every directory holding ignore patterns.  Returns (set of abs files, {file: abs dir of an
    ignore file that excludes it})."""
    target = os.path.normpath(os.path.join(top, q["target"]))
    wp = os.path.normpath(os.path.join(top, q["wp"])) if q["wp"] is not None else q["abs_wp"]
    exts = tuple(e.lower() for e in q["exts"])
    tdir = target if os.path.isdir(target) else os.path.dirname(target)
    # directories between the working path (its common ancestor with the target) and the target ...
    common = os.path.commonpath([tdir, wp])
    chain = []
    cur = tdir
    while True:
        chain.append(cur)
        if cur == common or cur == "/":
            break
        cur = os.path.dirname(cur)
    if os.path.isdir(target):
        files = [os.path.join(d, f) for d, _s, fs in os.walk(target) for f in fs]
    else:
        files = [target]
    sel, why = set(), {}
    for f in files:
        if not f.lower().endswith(exts) if os.path.isfile(target) else not os.path.basename(f).lower().endswith(exts):
            continue
        # ... plus the directories between the target and the file
        app = list(chain)
        cur = os.path.dirname(f)
        while cur != tdir and len(cur) > len(tdir):
            app.append(cur)
            cur = os.path.dirname(cur)
        hit = None
        if q["ign"]:
            for d in app:
                for spec in ignore_specs.get(d, []):
                    rel = os.path.relpath(f, d)
                    # the file itself, or a directory on the way to it that lies inside the walked tree, is matched
                    if spec.match_file(rel):
                        hit = d
                    parts = rel.split("/")
                    for k in range(1, len(parts)):
                        dd = os.path.join(d, *parts[:k])
                        if len(dd) > len(tdir) and dd.startswith(tdir + "/") and spec.match_file("/".join(parts[:k]) + "/"):
                            hit = d
        if hit is None:
            sel.add(f)
        else:
            why[f] = hit
    return sel, why


# --------------------------------------------------------------------------------------------------------------------------------

def eval_terms_bg(imports, terms, defs="", timeout=900):
    """coq.eval_terms, but safe to call from a background thread while the main thread changes directory: the child gets an explicit cwd"""
    import re
    import subprocess
    src = "From SF Require Import Base.Prelude.\n"
    for imp in imports:
        src += "From SF Require Import %s.\n" % imp
    src += "Set Printing Width 1000000.\nSet Printing Depth 100000000.\nOpen Scope nat_scope.\n" + defs + "\n"
    for i, t in enumerate(terms):
        src += "Definition verif_case_%d := %s.\nEval vm_compute in verif_case_%d.\n" % (i, t, i)
    d = coq.scratch_dir()
    try:
        path = os.path.join(d, "Scratch.v")
        with open(path, "w") as f:
            f.write(src)
        cmd = "ulimit -s unlimited 2>/dev/null; timeout %d coqc -q -w none -Q %s/theories SF -Q %s/generated SFGen %s" % (timeout, coq.COQ, coq.COQ, path)
        pr = subprocess.run(["bash", "-c", cmd], stdout=subprocess.PIPE, stderr=subprocess.PIPE, text=True, cwd=coq.COQ)
        if pr.returncode != 0:
            raise coq.CoqError("coqc failed on scratch file (rc=%d)" % pr.returncode, (pr.stdout + pr.stderr)[-6000:])
        parts = re.split(r"(?m)^\s*= ", pr.stdout)[1:]
        if len(parts) != len(terms):
            raise coq.CoqError("expected %d results, got %d" % (len(terms), len(parts)), pr.stdout[:2000])
        vals = []
        for part in parts:
            idx = part.rfind("\n     : ")
            vals.append(coq.parse_term(part[:idx] if idx >= 0 else part))
        return vals
    finally:
        shutil.rmtree(d, ignore_errors=True)


class Queue:
    """model evaluations queued for a few large coqc runs (one coqc start costs seconds)"""

    def __init__(self, ctx, coq_ok):
        self.ctx, self.coq_ok = ctx, coq_ok
        self.groups, self.split = {}, {}
        self.ncases = 0
        self.done = 0
        self.busy = None    # another thread running one coqc (the helper correspondence)

    def add(self, scan, queries, meta):
        if not self.coq_ok:
            return
        g = Group(scan, queries)
        n = self.split.get(g.key, 0)
        if (g.key, n) in self.groups and len(self.groups[(g.key, n)].cases) >= 48:   # keep the groups small enough to balance 4 coqc runs
            n = self.split[g.key] = n + 1
        g = self.groups.setdefault((g.key, n), g)
        g.add(scan, queries, meta)
        self.ncases += 1

    def flush(self, force=True, threshold=2500):
        """start the model evaluation of the queued cases in the background (the real calls go on meanwhile); force=True also waits"""
        if self.groups and (force or self.ncases >= threshold):
            self.wait()
            import threading
            groups = list(self.groups.values())
            self.groups, self.split, self.ncases = {}, {}, 0
            self.error = None

            def job():
                try:
                    self._evaluate(groups)
                except BaseException as e:  # re-raised in wait()
                    self.error = e

            self.pending = threading.Thread(target=job)
            self.pending.start()
        if force:
            self.wait()

    def wait(self):
        if getattr(self, "pending", None) is not None:
            self.pending.join()
            self.pending = None
            if self.error is not None:
                e, self.error = self.error, None
                raise e

    def _evaluate(self, groups):
        ctx = self.ctx
        from concurrent.futures import ThreadPoolExecutor
        # canary: the first case with a result, again, with one file too many expected; the model comparison must say false
        canary = None
        for g in groups:
            for igs, tbl, reals, meta in g.cases:
                for qi, real in enumerate(reals):
                    if real is not None and canary is None:
                        cg = Group.__new__(Group)
                        cg.skel, cg.statics, cg.key, cg.rels = g.skel, [g.statics[qi]], None, g.rels
                        cg.cases = [(igs, tbl, [sorted(real + ["canary.sql"])], meta)]
                        canary = cg
        # distribute the groups over 4 coqc runs of similar size
        order = sorted(groups, key=lambda g: -len(g.cases) * len(g.statics))
        nb = 3 if (self.busy is not None and self.busy.is_alive()) else 4   # at most 4 coqc processes at a time
        bins = [[] for _ in range(nb)]
        load = [0] * nb
        for g in order:
            k = load.index(min(load))
            bins[k].append(g)
            load[k] += len(g.cases) * len(g.statics) + 200
        if canary is not None:
            bins[load.index(min(load))].append(canary)
        t0 = coq.now()

        def one(gs):
            defs, terms, owners = COQ_DEFS, [], []
            for gi, g in enumerate(gs):
                _it, d, ts = g.coq(gi)
                defs += d
                terms += ts
                owners += [g] * len(ts)
            vals = eval_terms_bg(COQ_IMPORTS, terms, defs=defs) if terms else []
            per = {}
            for g, v in zip(owners, vals):
                per.setdefault(id(g), []).extend(v)
            return [(g, per.get(id(g), [])) for g in gs]

        with ThreadPoolExecutor(max_workers=4) as ex:
            results = [x for part in ex.map(one, [b for b in bins if b]) for x in part]
        ctx.coverage_extra["coq_eval_s"] = round(ctx.coverage_extra.get("coq_eval_s", 0) + coq.now() - t0, 1)
        for g, res in results:
            if g is canary:
                if res != [[False]]:
                    ctx.broken_obligation("canary: the model comparison accepted a wrong expectation", repr(res))
                continue
            if len(res) != len(g.cases):
                raise coq.CoqError("result length mismatch")
            for ci, (bools, (igs, tbl, reals, m)) in enumerate(zip(res, g.cases)):
                if len(bools) != len(reals):
                    raise coq.CoqError("result length mismatch (calls)")
                self.done += len(reals)
                for qi, b in enumerate(bools):
                    if b is not True:
                        sg = Group.__new__(Group)
                        sg.skel, sg.statics, sg.key, sg.rels, sg.cases = g.skel, g.statics, None, g.rels, [g.cases[ci]]
                        _it, d, ts = sg.coq(0)
                        mo = eval_terms_bg(COQ_IMPORTS, [ts[0].replace("c25_fcase", "c25_fshow")], defs=COQ_DEFS + d)[0][0][qi]
                        if isinstance(mo, tuple) and mo[0] == "Ok":
                            mo = ["".join(chr(c) for c in t) for t in mo[1]]
                        q = m["queries"][qi]
                        ctx.broken_obligation(
                            "correspondence Model.Discovery.paths_from_path vs discovery.paths_from_path",
                            json.dumps({"tree": m["desc"], "shape": m["shape"], "files": m["files"], "ignore_files": m["ignores"],
                                        "query": {k: v for k, v in q.items() if k != "ids"}, "model": mo, "impl": q["real"]}, default=repr))
                        return
        ctx.coverage_extra["model_vs_impl_calls"] = self.done
        ctx.coverage_extra["model_groups"] = ctx.coverage_extra.get("model_groups", 0) + len(groups)
        ctx.coverage_extra["model_cases"] = ctx.coverage_extra.get("model_cases", 0) + sum(len(g.cases) for g in groups)


def _rel(top, x):
    return x.replace(top, "<top>")


class Runner:
    def __init__(self, ctx, queue, top):
        self.ctx, self.queue, self.top = ctx, queue, top

    def run_case(self, desc, shape, ignores, queries, files=None):
        """the tree of `shape` is on disk already; write the ignore files, run every query on the real code, evaluate the oracles, queue the
        model evaluation, remove the ignore files"""
        from sqlfluff.core.errors import SQLFluffUserError
        from sqlfluff.core.linter import discovery
        ctx, top = self.ctx, self.top
        write_ignores(top, ignores)
        home = os.getcwd()
        try:
            scan = Scan(top)
            ignore_specs = {}
            for d, _f, spec in scan.records:
                ignore_specs.setdefault(d, []).append(spec)
            default_wp = discovery.paths_from_path.__defaults__[2]
            groups = {}
            for q in queries:
                q["abs_cwd"] = os.path.join(top, q["cwd"])
                q["abs_wp"] = default_wp if q["wp"] is None else os.path.join(top, q["wp"])
                q["path"] = q["path"].replace("ABS", os.path.join(top, q["target"]))
                os.chdir(q["abs_cwd"])
                kw = dict(ignore_non_existent_files=q["ine"], ignore_files=q["ign"], target_file_exts=tuple(q["exts"]),
                          check_non_existent_file=q["cnef"])
                if q["wp"] is not None:
                    kw["working_path"] = q["abs_wp"]
                try:
                    q["real"] = discovery.paths_from_path(q["path"], **kw)
                except SQLFluffUserError:
                    q["real"] = None
                if q["cnef"]:
                    scan.add_candidate(os.path.abspath(q["path"]))
                nt = scan.nmatch > 0
                ctx.case((desc, json.dumps(ignores, sort_keys=True), q["cwd"], q["wp"], q["path"], q["ine"], q["ign"], tuple(q["exts"]), q["cnef"])
                         if nt else None, bucket="spelling=%s" % q["spelling"],
                         sample={"tree": desc, "ignore_files": ignores, "cwd": q["cwd"], "path": _rel(top, q["path"]),
                                 "selected": q["real"] and [_rel(top, x) for x in q["real"]]}
                         if nt and q["spelling"] == "dot" and ctx.evaluations % 97 == 0 else None)
                if q["real"] is not None and q.get("oracle", True):
                    q["ids"] = frozenset(os.path.normpath(os.path.join(q["abs_cwd"], x)) for x in q["real"])
                    groups.setdefault((q["cwd"], q["wp"], q["target"], q["ine"], q["ign"], tuple(q["exts"]), q["cnef"]), []).append(q)
            os.chdir(home)
            self._oracles(desc, shape, ignores, files, groups, ignore_specs)
            self.queue.add(scan, queries, {"desc": desc, "shape": shape, "ignores": ignores, "files": files, "queries": queries})
        finally:
            os.chdir(home)
            remove_ignores(top, ignores)

    def _oracles(self, desc, shape, ignores, files, groups, ignore_specs):
        ctx, top = self.ctx, self.top
        for _key, qs in groups.items():
            ref = next((q for q in qs if q["spelling"] == "absolute"), qs[0])
            exp, why = expected_selection(top, ref, ignore_specs) if not ref["cnef"] else (None, {})
            tdir = os.path.join(top, ref["target"])
            for q in qs:
                rep = {"input": {"shape": shape, "files": files or "a.sql,b.sql,c.txt in every directory", "ignore_files": ignores,
                                 "cwd": q["cwd"], "working_path": q["wp"], "path": _rel(top, q["path"]), "reference_path": _rel(top, ref["path"]),
                                 "ignore_files_flag": q["ign"], "exts": q["exts"]},
                       "selected": sorted(_rel(top, x) for x in q["ids"]),
                       "selected_for_reference_spelling": sorted(_rel(top, x) for x in ref["ids"])}
                extra, missing = q["ids"] - ref["ids"], ref["ids"] - q["ids"]
                # O1: same target, same working directory and working path, different spelling => same selection
                what = ("paths_from_path(%r) and paths_from_path(%r) name the same path from the same working directory but select different "
                        "files" % (rep["input"]["path"], rep["input"]["reference_path"]))
                spelling = "absolute" if q["spelling"].startswith("absolute") else "relative"
                # one report per mechanism: the files are classified by the ignore file that makes the difference
                classes = {}
                for f in extra:
                    # the reference spelling leaves f out: because of which ignore file?
                    d = why.get(f)
                    c = ("?" if d is None else "above the given path" if not (d + "/").startswith(tdir + "/") else
                         "in the given path" if d == tdir else ">=1 below the given path")
                    classes.setdefault(("extra", "ignore_file_depth", c), []).append(f)
                for f in missing:
                    # this spelling leaves f out: because of which ignore file?
                    found = "?"
                    for d, specs in ignore_specs.items():
                        rel = os.path.relpath(f, d)
                        if any(sp.match_file(rel) for sp in specs):
                            if rel.startswith(".."):
                                found = "in a directory that does not contain the file"
                            elif not (d + "/").startswith(tdir + "/") and found == "?":
                                found = "above the given path"
                    classes.setdefault(("missing", "ignore_file_location", found), []).append(f)
                for (direction, attr, c), fs in sorted(classes.items()):
                    ctx.violation("spelling-dependent-selection",
                                  what + (" (more files than the absolute spelling)" if direction == "extra" else " (fewer files than the absolute spelling)"),
                                  dict(rep, **{direction: sorted(_rel(top, x) for x in fs)}),
                                  attrs={"spelling": spelling, "dotdot": q["spelling"] == "dotdot", "direction": direction, attr: c})
                if not extra and not missing and exp is not None and q["ids"] != exp:
                    # O2 (a spelling that deviates from the reference spelling is already reported above)
                    rep["expected"] = sorted(_rel(top, x) for x in exp)
                    ctx.violation("selection-not-exact", "the selected files are not exactly the files with a configured extension that no applicable "
                                  "ignore file matches", rep,
                                  attrs={"direction": "extra" if q["ids"] - exp and not exp - q["ids"] else "missing" if exp - q["ids"] and
                                         not q["ids"] - exp else "both", "spelling": q["spelling"]})


# --------------------------------------------------------------------------------------------------------------------------------
# case streams

def one_pattern_ignores(dirs, loader=".sqlfluffignore"):
    for d in dirs:
        for p in PATTERNS:
            yield {d: {loader: [p] if loader != ".sqlfluff" else p}}


def two_dir_ignores(pairs, second=PATTERNS):
    for d1, d2 in pairs:
        for p1 in PATTERNS:
            for p2 in second:
                yield {d1: {".sqlfluffignore": [p1]}, d2: {".sqlfluffignore": [p2]}}


def two_line_ignores(dirs, second=PATTERNS):
    for d in dirs:
        for p1 in PATTERNS:
            for p2 in second:
                if p1 != p2:
                    yield {d: {".sqlfluffignore": [p1, p2]}}


def ancestor_pairs(dirs):
    return [(a, b) for a in dirs for b in dirs if b.startswith(a + "/")]


HAND_PATHS = ["a/./b/../c", "a//b", "/a/b/../../..", "../../a", "a/../..", "/..", "//..", "///a/./", "a/b/", "./a/", ".a", "a.", "..a", "a..", "...",
              "a/.../b", "/a/./b/", "//a//b", "a/b/../../../c", "./.", "../.", "/./..", "aa/.a/a.", "/c/d/x", "/c/e/y", "/c", "/c/d/../e/z"]


def helper_prepare(ctx):
    """(main thread; patches os.getcwd for a moment) loader names, and the posixpath/pathlib fragments of the model vs the real ones on every
    string over {/ . a} up to length 4 (6) and hand-picked longer ones; the comparison is done in Coq (printing large terms is slow), only the verdicts come back"""
    import posixpath
    from pathlib import PurePosixPath
    alphabet = ["/", ".", "a"]
    strs = [""] + ["".join(t) for n in range(1, 5 if ctx.tier == "quick" else 7) for t in itertools.product(alphabet, repeat=n)] + HAND_PATHS
    cwd = "/c/d"
    it = Intern("h")
    real_getcwd = os.getcwd
    os.getcwd = lambda: cwd   # posixpath.abspath/relpath read os.getcwd()
    rows = []
    try:
        for s in strs:
            pp = PurePosixPath(s)
            parts = [p for p in pp.parts if p != pp.anchor]
            res_parts = []
            for p in parts:
                if p == "..":
                    res_parts = res_parts[:-1]
                else:
                    res_parts.append(p)
            rel = posixpath.relpath(s, "/c/e").split("/") if s else None
            rows.append("(%s, %s, %s, %s, %s, %s, %s, %s, %s)" % (
                it.t(s), it.t(posixpath.normpath(s)), it.t(posixpath.abspath(s)), it.t(posixpath.join("x/", s)), it.t(posixpath.join(s, "y")),
                "None" if rel is None else "Some %s" % it.tl([] if rel == ["."] else rel), coq.cbool(posixpath.isabs(s)), it.tl(parts), it.tl(res_parts)))
    finally:
        os.getcwd = real_getcwd
    body = """
Definition c25_h (r : text * text * text * text * text * option (list text) * bool * list text * list text) : bool :=
  let '(s, np, ap, j1, j2, rel, ia, pp, rp) := r in
  text_eqb (normpath s) np && text_eqb (abspath %s s) ap && text_eqb (join %s s) j1 && text_eqb (join s %s) j2
  && match rel with Some l => parts_eqb (relparts %s s %s) l | None => true end
  && Bool.eqb (isabs s) ia && parts_eqb (pure_parts s) pp && parts_eqb (resolve_parts (pure_parts s)) rp.
""" % (it.t(cwd), it.t("x/"), it.t("y"), it.t(cwd), it.t("/c/e"))
    defs = COQ_CONSTS + it.defs() + body   # the texts are defined before their uses
    terms = ["loader_names"] + ["map c25_h %s" % coq.clist(ch) for ch in coq.chunked(rows, 150)]
    from sqlfluff.core.linter import discovery
    return strs, terms, defs, list(discovery.ignore_file_loaders.keys())


def helper_evaluate(ctx, prepared):
    """(background thread; no imports here: the main thread imports sqlfluff modules meanwhile) one coqc run"""
    strs, terms, defs, loader_keys = prepared
    vals = eval_terms_bg(["Model.Discovery"], terms, defs=defs)
    if ["".join(chr(c) for c in t) for t in vals[0]] != loader_keys:
        ctx.broken_obligation("constant Model.Discovery.loader_names vs discovery.ignore_file_loaders", repr(loader_keys))
    verdicts = [b for v in vals[1:] for b in v]
    ctx.coverage_extra["posixpath_helper_strings"] = len(strs)
    if len(verdicts) != len(strs):
        raise coq.CoqError("helper result length mismatch")
    for sx, ok in zip(strs, verdicts):
        # '//x' keeps its double slash in pathlib's anchor; such spellings are not generated (and Path('//x').parts differ only in the anchor)
        if ok is not True:
            ctx.broken_obligation("correspondence Model.Discovery posixpath fragment (normpath/abspath/join/relpath/isabs/pure_parts/resolve) "
                                  "vs posixpath/pathlib", json.dumps({"input": sx}))
            break


def run(ctx, coq_ok):
    import logging
    logging.getLogger("sqlfluff.linter").setLevel(logging.ERROR)   # the "exact file path ... was ignored" warning is not part of the property
    timing = ctx.coverage_extra.setdefault("phase_s", {})
    t_last = [coq.now()]

    def lap(name):
        timing[name] = round(coq.now() - t_last[0], 1)
        t_last[0] = coq.now()

    lap("before_run(build+audit)")
    timing["before_run(build+audit)"] = round(ctx.elapsed(), 1)
    import threading
    herr = []

    # import everything the real calls need before any thread is started (concurrent first imports deadlock)
    import re
    import subprocess
    import sqlfluff.core.config.file
    import sqlfluff.core.errors
    import sqlfluff.core.linter.discovery
    prepared = helper_prepare(ctx) if coq_ok else None

    def hjob():
        try:
            if prepared is not None:
                helper_evaluate(ctx, prepared)
        except BaseException as e:
            herr.append(e)

    hthread = threading.Thread(target=hjob)
    hthread.start()     # one coqc run, in the background while the real calls of section A are made
    quick = ctx.tier == "quick"
    tmp = os.path.realpath(tempfile.mkdtemp(prefix="verif-c25-", dir=os.environ.get("TMPDIR") or "/var/tmp"))
    assert not tmp.startswith("/repo") and not tmp.startswith("/verif")
    serial = [0]
    queue = Queue(ctx, coq_ok)
    queue.busy = hthread

    def fresh(shape, files=None):
        serial[0] += 1
        top = os.path.join(tmp, "t%d" % serial[0])
        os.makedirs(top)
        build_shape(top, shape, files)
        return Runner(ctx, queue, top)

    R = ROOT
    try:
        # ---- 0. pinned regression scenario for finding F8 (repaired in /repo by 08d2a28): src/.sqlfluffignore = "x.sql", files src/x.sql and
        # src/sub/x.sql; "." used to select src/sub/x.sql, "src" and the absolute spelling did not.  If the defect returns, O1 reports
        # key=spelling-dependent-selection attrs={spelling: relative, direction: extra, ignore_file_depth: ">=1 below the given path"}.
        shape = {"src": {"sub": {}}}
        r = fresh(shape, files={R: [], R + "/src": ["x.sql"], R + "/src/sub": ["x.sql"]})
        r.run_case("F8-pin", shape, {R + "/src": {".sqlfluffignore": ["x.sql"]}}, grid_queries([R, R + "/src", R + "/src/sub"], [R, R + "/src", OUTSIDE]),
                   files={R: [], R + "/src": ["x.sql"], R + "/src/sub": ["x.sql"]})
        r.run_case("F8-pin", shape, {}, grid_queries([R, R + "/src"], [R]), files={R: [], R + "/src": ["x.sql"], R + "/src/sub": ["x.sql"]})
        shutil.rmtree(r.top)

        # ---- A. full tree of depth 2: one ignore file anywhere; two ignore files; two-line files; working paths
        shape = full_shape(2)
        dirs = shape_dirs(shape)
        r = fresh(shape)
        cwds = [R, R + "/sub", OUTSIDE] if quick else [R, R + "/sub", R + "/sub/sub", OUTSIDE]
        ftargets = [R + "/sub/a.sql", R + "/sub/sub/b.sql", R + "/oth/c.txt"]
        for ig in one_pattern_ignores(dirs):
            r.run_case("full2", shape, ig, grid_queries(dirs, cwds, ftargets))
        for ig in one_pattern_ignores([R, R + "/sub"] if quick else dirs, loader=".sqlfluff"):
            r.run_case("full2", shape, ig, grid_queries(dirs, cwds[:2] if quick else cwds, ftargets))
        chain = [(R, R + "/sub"), (R + "/sub", R + "/sub/sub"), (R, R + "/sub/sub"), (R + "/sub", R + "/sub/oth")]
        for ig in two_dir_ignores(chain[:3], ["a.sql", "!a.sql"]) if quick else two_dir_ignores([(a, b) for a in dirs for b in dirs if a < b]):
            r.run_case("full2", shape, ig, grid_queries(dirs, [R] if quick else cwds))
            queue.flush(force=False)
        for ig in two_line_ignores([R + "/sub"], ["!a.sql", "a.sql", "sub/"]) if quick else two_line_ignores([R, R + "/sub", R + "/sub/sub"]):
            r.run_case("full2", shape, ig, grid_queries(dirs, [R]))
        # working path different from the working directory (a process that changed directory), and the import-time default
        for ig in one_pattern_ignores([R, R + "/sub", R + "/oth"]):
            r.run_case("full2", shape, ig, grid_queries([R + "/sub", R + "/sub/sub"], [R + "/sub"], wps=(R, R + "/oth", R + "/sub/sub", OUTSIDE, None))
                       + grid_queries([R + "/oth"], [R + "/sub"], wps=(R + "/oth/sub",)))   # '../oth' with a working path below the target
        shutil.rmtree(r.top)
        lap("A_full2")
        queue.flush(force=False, threshold=0)   # the bulk of the quick tier: evaluate it while the rest runs

        # ---- B. depth 3
        shape = full_shape(3)
        dirs = shape_dirs(shape)
        r = fresh(shape)
        spine = [R, R + "/sub", R + "/sub/sub", R + "/sub/sub/sub"]
        for ig in one_pattern_ignores(spine if quick else dirs):
            r.run_case("full3", shape, ig, grid_queries(spine + [R + "/sub/oth", R + "/oth"] if quick else dirs,
                                                         [R, R + "/sub"] if quick else [R, R + "/sub", R + "/sub/sub", R + "/oth/sub/oth"]))
            queue.flush(force=False)
        if not quick:
            for ig in two_dir_ignores(ancestor_pairs(spine + [R + "/oth", R + "/oth/sub"])):
                r.run_case("full3", shape, ig, grid_queries(dirs, [R, R + "/sub"]))
                queue.flush(force=False)
        shutil.rmtree(r.top)
        lap("B_full3")

        # ---- C. every sub-shape of the full tree (depth 2 quick, depth 3 thorough), one ignore file
        for si, shape in enumerate(all_shapes(2) if quick else all_shapes(3)):
            dirs = shape_dirs(shape)
            if len(dirs) < 2 or (quick and si % 2 == 1 and len(dirs) < 7):   # quick: every second proper sub-shape, and the full tree
                continue
            deep = shape_depth(shape) > 2
            r = fresh(shape)
            inner = [d for d in dirs if d != R]
            for d in ([d for d in inner if d.count("/") == 1] if deep or quick else dirs):
                for p in (["a.sql"] if quick or deep else PATTERNS):
                    r.run_case("shape%d" % si, shape, {d: {".sqlfluffignore": [p]}}, grid_queries(dirs, [R] if deep or quick else [R, inner[0]]))
            queue.flush(force=False)
            shutil.rmtree(r.top)

        lap("C_shapes")
        # ---- D. seeded random trees, ignore files, flags
        for i in range(8 if quick else 200):
            random_case(ctx, fresh, i)
            queue.flush(force=False)

        lap("D_random")
        # ---- E. malformed stream
        shape = full_shape(1)
        r = fresh(shape, files={R: ["a.sql", "B.SQL", "c.txt", "noext"], R + "/sub": ["a.sql", "x.Sql"], R + "/oth": []})
        qs = []
        for cwd in [R, OUTSIDE]:
            for path in ["nope", "nope/x.sql", "", "sub/nope.sql"]:
                for ine in (False, True):
                    for cnef in (False, True):
                        qs.append(dict(mkq(cwd, R, "malformed", path, ine=ine, cnef=cnef, exts=("",) if cnef else (".sql",)), oracle=False))
        for exts in [(".sql",), (".SQL", ".txt"), ("",), (), ("sql",), (".sql", "noext")]:
            for ign in (True, False):
                for target, isd in [(R, True), (R + "/sub", True), (R + "/B.SQL", False), (R + "/noext", False), (R + "/sub/x.Sql", False)]:
                    for kind, sp in spellings(R, target, isd):
                        qs.append(mkq(R, target, kind, sp, ign=ign, exts=exts, is_dir=isd))
        for ig in [{}, {R: {".sqlfluffignore": ["*.sql"]}}, {R: {".sqlfluffignore": ["noext", "x.*"]}},
                   {R: {".sqlfluff": None, "pyproject.toml": ["b.sql", "sub/"]}, R + "/sub": {"pyproject.toml": None, ".sqlfluff": "x.Sql"}}]:
            r.run_case("malformed", shape, ig, [dict(q) for q in qs], files="mixed-case extensions")
        shutil.rmtree(r.top)
        lap("E_malformed")
        queue.flush()
        lap("final_model_wait")
    finally:
        hthread.join()
        shutil.rmtree(tmp, ignore_errors=True)
    if herr:
        raise herr[0]
    ctx.coverage_extra["real_paths_from_path_calls"] = ctx.evaluations
    for _ in range(ctx.coverage_extra.get("posixpath_helper_strings", 0)):
        ctx.case(None, bucket="posixpath-helper")


def random_case(ctx, fresh, i):
    rng = ctx.rng
    names = ["sub", "oth", "a.sql", "Sub"]   # a directory may be called a.sql

    def rshape(depth):
        if depth == 0:
            return {}
        return {n: rshape(depth - 1) for n in rng.sample(names, rng.choice([0, 1, 1, 2, 2, 3]))}

    shape = rshape(3)
    dirs = shape_dirs(shape)
    files = {d: [f for f in FILES + ["A.SQL", "sub"] if rng.random() < 0.6 and f not in shape_sub(shape, d)] for d in dirs}
    r = fresh(shape, files)
    ignores = {}
    for d in dirs:
        if rng.random() < 0.35:
            k = rng.choice([1, 1, 2, 3])
            pats = [rng.choice(PATTERNS + ["Sub/", "/sub/*.sql", "**/b.sql", "oth", "#x", ""]) for _ in range(k)]
            loader = rng.choice([".sqlfluffignore", ".sqlfluffignore", ".sqlfluff", "pyproject.toml"])
            if loader == ".sqlfluff":
                pats = [p for p in pats if p and "#" not in p]
                ignores[d] = {loader: ",".join(pats) if pats else None}
            elif loader == "pyproject.toml":
                ignores[d] = {loader: [p for p in pats if p] or None}
            else:
                ignores[d] = {loader: pats}
    cwds = rng.sample(dirs, min(len(dirs), 2)) + [OUTSIDE]
    exts = rng.choice([(".sql",), (".sql",), (".sql", ".txt"), ("",)])
    flag = {}
    qs = []
    for q in grid_queries(dirs, cwds, wps=("=", rng.choice(dirs))):
        q["exts"] = list(exts)
        q["ign"] = flag.setdefault((q["cwd"], q["wp"], q["target"]), rng.random() < 0.9)   # one flag per group of spellings
        qs.append(q)
    r.run_case("random%d" % i, shape, ignores, qs, files=files)
    shutil.rmtree(r.top)


def shape_sub(shape, d):
    cur = shape
    for n in d.split("/")[1:]:
        cur = cur[n]
    return cur


def replay(ctx, data):
    """./check C25 --replay <file>: rebuild the tree of a violation record and show the selections of the two spellings"""
    import logging
    from sqlfluff.core.linter import discovery
    logging.getLogger("sqlfluff.linter").setLevel(logging.ERROR)
    inp = data["replay"]["input"]
    tmp = os.path.realpath(tempfile.mkdtemp(prefix="verif-c25-", dir=os.environ.get("TMPDIR") or "/var/tmp"))
    home = os.getcwd()
    try:
        build_shape(tmp, inp["shape"], inp["files"] if isinstance(inp["files"], dict) else None)
        write_ignores(tmp, inp["ignore_files"])
        os.chdir(os.path.join(tmp, inp["cwd"]))
        out = {}
        for k in ("path", "reference_path"):
            p = inp[k].replace("<top>", tmp)
            kw = {} if inp["working_path"] is None else {"working_path": os.path.join(tmp, inp["working_path"])}
            res = discovery.paths_from_path(p, ignore_files=inp.get("ignore_files_flag", True), target_file_exts=tuple(inp.get("exts", [".sql"])), **kw)
            out[k] = sorted(os.path.normpath(os.path.join(os.getcwd(), x)).replace(tmp, "<top>") for x in res)
            print("paths_from_path(%r) from cwd <top>/%s selects %s" % (inp[k], inp["cwd"], out[k]))
        same = out["path"] == out["reference_path"]
        print("same selection" if same else "DIFFERENT selections: the violation reproduces")
        return 0 if same else 1
    finally:
        os.chdir(home)
        shutil.rmtree(tmp, ignore_errors=True)
