"""C01 — lexing is lossless, ordered and total."""
from harness import coq, corpus

LEVEL = "proof"
COQ_TARGETS = ["theories/Properties/C01.vo"]
PROPERTY_FILES = ["theories/Properties/C01.v"]
RULE = ("(1) correspondence of Model/Lexer.v (lex_match loop, last resort, map_template_slices) with PyLexer.lex: for sample strings per dialect the real "
        "matcher objects are tabulated at every position (which matcher matches, how its match is subdivided), shipped to the model, and the model's "
        "element sequence is compared with the elements the real lexer produced; (2) monitor on the real lexers: raw / jinja (generated templates "
        "with if/elif/else, for, set, macro, comments, whitespace control, two contexts) / python-format / placeholder (every known style) "
        "sources, fixtures of every dialect + mutations + arbitrary Unicode: tokens concatenate to the rendered SQL at contiguous positions, "
        "source slices in bounds and ordered (backwards only where the templater's slice map loops), identical positions for untemplated "
        "files, every source character covered by a token or placeholder, one LXR error per unlexable token, no exception. "
        "non-trivial = templated source or mutated/unicode text; distinct by (dialect, templater, source)")
ASSUMPTIONS = ["PARTIAL: `regex` is an oracle (tabulated per position); _iter_segments / _handle_zero_length_slice (source-slice assignment, placeholders) "
               "are monitored on real outputs, not modelled", "C29 supplies the progress hypothesis of C01_lex_total for every bundled dialect"]
TRUSTED_BASE = ["hand model Model/Lexer.v", "harness/lexcheck.py oracle of the property text"]


def tabulate(lx, s):
    """per position: per matcher the lengths of the elements it yields; and the last resort"""
    mt, last = [], []
    for p in range(len(s)):
        row = []
        fs = s[p:]
        for m in lx.lexer_matchers:
            r = m.match(fs)
            row.append([len(e.raw) for e in r.elements])
        mt.append(row)
        r = lx.last_resort_lexer.match(fs)
        last.append([len(e.raw) for e in r.elements])
    return mt, last


def nat_list(l):
    return "[" + ";".join(str(x) for x in l) + "]" if l else "[]"


def run(ctx, coq_ok):
    import logging
    logging.disable(logging.CRITICAL)
    from sqlfluff.core.parser.lexer import PyLexer
    from sqlfluff.core.templaters.base import TemplatedFile
    rng = ctx.rng
    # ---------- (1) correspondence
    dls = ["ansi", "tsql", "mysql", "postgres", "bigquery", "snowflake", "sparksql", "oracle"] if ctx.tier == "quick" else corpus.dialects()
    pool = ["select", " ", "\n", "a", "1", "'x y'", "'unterminated", "/* c\n d */", "-- c\n", ",", "(", ")", "\x00", "é", "\U0001F600", "`q`", '"Q"', "$$", "@v", ":p",
            "1.5e3", "<>", "||", "::", "[", "]", "\t", "\r\n", "\r", "x\ry", "#", "\\", "{", "}"]
    cases, impl, terms = [], [], []
    nper = 6 if ctx.tier == "quick" else 20
    for d in dls:
        lx = PyLexer(dialect=d)
        for _ in range(nper):
            s = "".join(rng.choice(pool) for _ in range(rng.randrange(1, 9)))[:40]
            if not s:
                continue
            cap = {}
            orig = PyLexer.map_template_slices

            def spy(elements, template, _cap=cap, _orig=orig):
                _cap["els"] = [len(e.raw) for e in elements]
                return _orig(elements, template)
            PyLexer.map_template_slices = staticmethod(spy)
            try:
                lx.lex(TemplatedFile(source_str=s, fname="x.sql"))
                r = ("Ok", cap.get("els"))
            except Exception as e:  # noqa
                r = ("Err", type(e).__name__)
            finally:
                PyLexer.map_template_slices = staticmethod(orig)
            mt, last = tabulate(lx, s)
            nonempty = [[i for i, l in enumerate(row) if l] for row in mt]
            # ship only non-empty entries, in table order (first_match skips empty ones)
            mt_lit = "[" + ";".join("[" + ";".join(nat_list(l) for l in row if l) + "]" for row in mt) + "]"
            last_lit = "[" + ";".join(nat_list(l) for l in last) + "]"
            terms.append("lex %d (fun p => nth p %s []) (fun p => nth p %s []) %d 0 []" % (len(s), mt_lit, last_lit, len(s) + 1))
            cases.append((d, s))
            impl.append(r)
            ctx.case(("corr", d, s), bucket="corr:%s" % r[0], sample={"dialect": d, "text": s, "element_lengths": r[1]} if len(ctx.samples) < 2 else None)
    if coq_ok and terms:
        vals = []
        for ch in coq.chunked(terms, 40):
            vals += coq.eval_terms(["Model.Lexer"], ["[" + "; ".join("(%s)" % t for t in ch) + "]"])[0]
        for (d, s), mv, r in zip(cases, vals, impl):
            m = ("Ok", list(mv[1])) if mv[0] == "Ok" else ("Err", mv[1])
            if m[0] != r[0] or (m[0] == "Ok" and m[1] != r[1]):
                ctx.broken_obligation("correspondence Model.Lexer.lex vs PyLexer.lex", {"input": {"dialect": d, "text": s}, "model": m, "impl": r})
                break
        ctx.coverage_extra["model_vs_impl_cases"] = len(terms)

    # ---------- (2) monitor
    jobs = []
    per = 2 if ctx.tier == "quick" else 10
    for d, label, sql in corpus.corpus(rng, per, 2, max_chars=900 if ctx.tier == "quick" else 3000):
        jobs.append((d, "raw", None, label, sql))
    uni = ["\x00", "\ud800", "\U0001F600", "é", " ", "\x0b", "\x0c", "\x1c", "\x85", "'", '"', "/*", "--", "\\", "\r", "\n", "a", " ", "(", ";"]
    for d in corpus.dialects():
        for _ in range(2 if ctx.tier == "quick" else 10):
            jobs.append((d, "raw", None, "unicode", "".join(rng.choice(uni) for _ in range(rng.randrange(1, 40)))))
    nt = 40 if ctx.tier == "quick" else 400
    for i in range(nt):
        jobs.append((rng.choice(["ansi", "snowflake", "bigquery", "postgres"]), "jinja", i % 4, "jinja-gen", corpus.gen_jinja(rng)))
    for i in range(nt // 2):
        jobs.append(("ansi", "python", None, "pyformat-gen", corpus.gen_pyformat(rng)))
    # rendered text that contains characters the source normalisation does not touch (a lone CR produced by the template)
    for s_ in ["SELECT {{ 'a\\rb' }} FROM t\n", "SELECT {{ \"x\\r\" }}, 1\n", "{{ '\\r' }}SELECT 1\n", "SELECT {{ '\\x0b\\x0c' }} 1\n"]:
        jobs.append(("ansi", "jinja", 0, "jinja-control-chars", s_))
    for s_ in ["SELECT a {% if false %}, b{% endif %} FROM t\n", "SELECT {% if flag %}a{% else %}b , c{% endif %} FROM t\n", "SELECT 1 {% for i in [] %}, {{ i }}{% endfor %}\n"]:
        for st in (0, 1, 2, 3):
            jobs.append(("ansi", "jinja", st, "jinja-unrendered-branch", s_))
    for style in corpus.PLACEHOLDER_STYLES:
        for _ in range(2 if ctx.tier == "quick" else 8):
            jobs.append(("ansi", "placeholder", style, "placeholder-" + style, corpus.gen_placeholder(rng, style)))
    nloops = 0
    for (d, tpl, style, label, src), st, res in corpus.pmap("harness.lexcheck", "lex_case", jobs):
        if st != "ok":
            ctx.broken_obligation("harness worker crashed on %s/%s" % (d, label), res)
            continue
        nontriv = tpl != "raw" or "~" in label or label == "unicode"
        nloops += 1 if res["loops"] else 0
        ctx.case((d, tpl, style, src) if nontriv else None, bucket="%s:%s" % (tpl, "exc" if res["exc"] else "no-variant" if not res["variants"] else "ok"),
                 sample={"dialect": d, "templater": tpl, "source": src[:120], "variants": res["variants"], "tokens": res["tokens"]} if tpl == "jinja" and res["variants"] > 1 and len(ctx.samples) < 5 else None)
        inp = {"dialect": d, "templater": tpl, "style": style, "label": label, "source": src}
        if res["exc"]:
            e = res["exc"]
            ctx.violation("lex-raises", "rendering/lexing raises %s (%s) in %s [%s, %s]" % (e["exc_type"], e["msg"], e["frame"], d, tpl), {"input": inp, "trace": e["trace"]},
                          attrs={"exc_type": e["exc_type"], "frame": e["frame"]})
        for key, what in res["probs"]:
            ctx.violation("lex-" + key, "%s [%s, %s templater]" % (what, d, tpl), {"input": inp}, attrs={"kind": key, "templater": tpl, "loop": bool(res["loops"])})
    ctx.coverage_extra["lexed_sources"] = len(jobs)
    ctx.coverage_extra["sources_with_loops"] = nloops
