"""C21 — rule selection is exact and rules are independent."""
import fnmatch
import glob
import os

from harness import coq, gen_rules

LEVEL = "proof"
GENERATORS = [gen_rules.generate]
COQ_TARGETS = ["theories/Properties/C21.vo"]
PROPERTY_FILES = ["theories/Properties/C21.v"]
RULE = ("seeded selector lists over the real registry (codes, names, groups, aliases, globs with * ? [set] [!set] [a-b], unknown references, "
        "comma/whitespace noise, allow and deny mixed) -> get_rulepack vs the Coq model over the translated registry; whole reference map "
        "compared key by key; fixture SQL linted with one rule alone vs alongside all others; the same alone-vs-together comparison under "
        "configurations that set ONE rule option (every option name of every rule's config_keywords, value + trigger SQL harvested from the rule's "
        "yaml cases, else first non-default value of the validation range) in the owning rule's section / in another rule's section / at the "
        "generic [sqlfluff:rules] level. "
        "non-trivial = selection using a name/group/alias/glob or a deny list; distinct = distinct (allow, deny) strings")
ASSUMPTIONS = ["fnmatch semantics restricted to * ? [set] [!set] [a-b] (no reversed ranges / escapes)", "str.strip() whitespace restricted to ASCII whitespace, U+0085, U+00A0",
               "rule crawl is a function of (rule, tree) -- monitored by the alone-vs-together runs"]
TRUSTED_BASE = ["translator harness/gen_rules.py (registry -> Gen_rules.v)", "hand models Model/Glob.v, Model/RuleSelect.v"]


def gen_selector(rng, pools):
    codes, names, groups, aliases = pools
    def one():
        k = rng.randrange(10)
        if k < 3:
            return rng.choice(codes)
        if k == 3:
            return rng.choice(names)
        if k == 4:
            return rng.choice(groups)
        if k == 5:
            return rng.choice(aliases)
        if k == 6:
            return rng.choice(["XX99", "nosuch.rule", "", "all "])
        base = rng.choice(codes + names + aliases + groups)
        m = rng.randrange(6)
        if m == 0:
            return base[:rng.randrange(1, len(base))] + "*"
        if m == 1:
            i = rng.randrange(len(base))
            return base[:i] + "?" + base[i + 1:]
        if m == 2:
            return "*" + base[rng.randrange(len(base)):]
        if m == 3:
            i = rng.randrange(len(base))
            return base[:i] + "[" + base[i] + "x]" + base[i + 1:]
        if m == 4:
            i = rng.randrange(len(base))
            return base[:i] + "[!" + ("0" if base[i] != "0" else "1") + "]" + base[i + 1:]
        i = rng.randrange(len(base))
        return base[:i] + "[0-9A-Z]" + base[i + 1:] if (base[i].isdigit() or base[i].isupper()) else base[:i] + "[a-z.]" + base[i + 1:]
    n = rng.choice([1, 1, 2, 3])
    sep = rng.choice([",", ", ", " ,", ",,"])
    return sep.join(one() for _ in range(n))


def run(ctx, coq_ok):
    from sqlfluff.core import FluffConfig, Linter
    from sqlfluff.core.rules import get_ruleset
    reg = get_ruleset()._register
    codes = sorted(reg)
    names = sorted(m.name for m in reg.values() if m.name)
    groups = sorted({g for m in reg.values() for g in m.groups})
    aliases = sorted({a for m in reg.values() for a in m.aliases})
    pools = (codes, names, groups, aliases)
    base_pack = Linter(config=FluffConfig(overrides={"dialect": "ansi"})).get_rulepack()
    refmap = base_pack.reference_map

    n = 250 if ctx.tier == "quick" else 2500
    cases = []
    for i in range(n):
        allow = gen_selector(ctx.rng, pools) if ctx.rng.random() < 0.85 else ""
        deny = gen_selector(ctx.rng, pools) if ctx.rng.random() < 0.5 else ""
        cases.append((allow, deny))
    cases += [("", ""), ("all", ""), ("core", "LT*"), ("L*", "layout.spacing"), ("capitalisation", "CP02"), ("LT01,LT02", "LT0[2-9]")]
    impl = []
    for allow, deny in cases:
        ov = {"dialect": "ansi"}
        if allow:
            ov["rules"] = allow
        if deny:
            ov["exclude_rules"] = deny
        try:
            pack = Linter(config=FluffConfig(overrides=ov)).get_rulepack()
            got = sorted(r.code for r in pack.rules)
        except Exception as e:
            got = "EXC %s" % type(e).__name__
        impl.append(got)
        nt = deny or any(ch in allow for ch in "*?[") or any(x.strip() in names + groups + aliases for x in allow.split(","))
        ctx.case((allow, deny) if nt else None, bucket="allow=%d,deny=%d" % (len([x for x in allow.split(",") if x.strip()]), len([x for x in deny.split(",") if x.strip()])),
                 sample={"rules": allow, "exclude_rules": deny, "selected": got} if nt and len(impl) % 40 == 0 else None)
        # oracle in the property's words, with Python's own fnmatch
        def matched(sel):
            out = set()
            for r in [x.strip() for x in sel.split(",") if x.strip()]:
                if r in refmap:
                    out |= refmap[r]
                else:
                    for k in fnmatch.filter(refmap.keys(), r):
                        out |= refmap[k]
            return out
        a = matched(allow) if [x for x in allow.split(",") if x.strip()] else set(codes)
        want = sorted(c for c in codes if c in a and c not in matched(deny))
        if got != want:
            ctx.violation("selection-differs", "rules that run differ from (selection minus exclusion)",
                          {"input": {"rules": allow, "exclude_rules": deny}, "got": got, "want": want})
    # only selected rules report; rule alone == rule among all
    fixtures = sorted(glob.glob(os.environ.get("VERIF_REPO", "/repo") + "/test/fixtures/dialects/ansi/*.sql"))
    ctx.rng.shuffle(fixtures)
    fx = fixtures[: (6 if ctx.tier == "quick" else 30)]
    sample_rules = ["LT01", "CP01", "AL01", "RF02", "ST06", "LT02", "AM04", "CV03", "LT09", "RF04"] if ctx.tier == "quick" else codes
    lnt_all = Linter(config=FluffConfig(overrides={"dialect": "ansi"}))
    for f in fx:
        sql = open(f).read()
        allv = [v for v in lnt_all.lint_string(sql, fname=f).violations if hasattr(v, "rule")]
        by_rule = {}
        for v in allv:
            by_rule.setdefault(v.rule_code(), []).append((v.line_no, v.line_pos, v.desc()))
        for r in sample_rules:
            alone = Linter(config=FluffConfig(overrides={"dialect": "ansi", "rules": r})).lint_string(sql, fname=f).violations
            alone_l = [(v.line_no, v.line_pos, v.desc()) for v in alone if hasattr(v, "rule")]
            other = sorted({v.rule_code() for v in alone if hasattr(v, "rule")} - {r})
            ctx.case(("indep", f, r) if alone_l else None, bucket="independence")
            if other:
                ctx.violation("unselected-rule-reported", "a rule outside the selection reported a violation", {"input": {"file": f, "rules": r}, "others": other})
            if sorted(alone_l) != sorted(by_rule.get(r, [])):
                ctx.violation("rule-depends-on-others", "violations of rule %s differ when run alone vs with all rules" % r,
                              {"input": {"file": f, "rule": r}, "alone": sorted(alone_l), "together": sorted(by_rule.get(r, []))}, attrs={"rule": r})
    independence_under_rule_options(ctx, reg)
    if not coq_ok:
        return
    # model
    lits = ["(%s, %s)" % (coq.ctext(a), coq.ctext(d)) for a, d in cases]
    res = coq.eval_sharded(["Model.Glob", "Model.RuleSelect", "From SFGen Require Import Gen_rules."],
                           "fun c : text * text => select gen_register (split_commas (fst c)) (split_commas (snd c))", lits, shard=60)
    for (a, d), m, got in zip(cases, res, impl):
        mm = sorted("".join(chr(x) for x in c) for c in m)
        if mm != got:
            ctx.broken_obligation("correspondence Model.RuleSelect.select vs get_rulepack", {"rules": a, "exclude_rules": d, "model": mm, "impl": got})
            break
    # reference map, key by key
    keys = sorted(refmap)
    res2 = coq.eval_sharded(["Model.Glob", "Model.RuleSelect", "From SFGen Require Import Gen_rules."], "lookup gen_register", [coq.ctext(k) for k in keys], shard=120)
    for k, m in zip(keys, res2):
        mm = sorted("".join(chr(x) for x in c) for c in (m[1] if isinstance(m, tuple) and m[0] == "Some" else []))
        if mm != sorted(refmap[k]):
            ctx.broken_obligation("correspondence Model.RuleSelect.lookup vs rule_reference_map", {"key": k, "model": mm, "impl": sorted(refmap[k])})
            break
    ctx.coverage_extra["model_vs_impl_cases"] = len(lits) + len(keys)


# ---- independence under rule-specific configuration: an option written into ONE rule's section (or the generic level) must reach exactly the
# rules the configuration says it reaches, whatever other rules are instantiated in the same pack
def harvest_option_cases(reg):
    """From the rule yaml cases: (rule code, option, value, case configs, dialect, sql) for every case that sets a rule option."""
    import yaml
    from harness.core import REPO
    out = []
    plain = {}
    for f in sorted(glob.glob(REPO + "/test/fixtures/rules/std_rule_cases/*.yml")):
        try:
            d = yaml.safe_load(open(f))
        except Exception:
            continue
        rule = d.get("rule")
        if rule not in reg:
            continue
        for name, c in sorted(d.items()):
            if not isinstance(c, dict):
                continue
            sql = c.get("fail_str") or c.get("pass_str")
            if not isinstance(sql, str):
                continue
            cfg = c.get("configs") or {}
            dialect = (cfg.get("core") or {}).get("dialect") or "ansi"
            if (cfg.get("core") or {}).get("templater") not in (None, "raw", "jinja"):
                continue
            secs = cfg.get("rules") or {}
            n = 0
            for ref, sec in sorted(secs.items()):
                if isinstance(sec, dict):
                    for k, v in sorted(sec.items()):
                        out.append({"rule": rule, "ref": ref, "option": k, "value": v, "configs": cfg, "dialect": dialect, "sql": sql,
                                    "case": "%s:%s" % (os.path.basename(f), name)})
                        n += 1
            if not n and dialect == "ansi" and "fail_str" in c:
                plain.setdefault(rule, []).append(sql)
    return out, plain


def rule_option_table(reg):
    """{option name: [(owner code, owner section ref, default value, validation)]} from config_keywords / config info / the default config."""
    from sqlfluff.core import FluffConfig
    from sqlfluff.core.plugin.host import get_plugin_manager
    info = {}
    for d in get_plugin_manager().hook.get_configs_info():
        info.update(d)
    cfg = FluffConfig(overrides={"dialect": "ansi"})
    generic = cfg.get_section("rules")
    table = {}
    for code in sorted(reg):
        rc = reg[code].rule_class
        sec = cfg.get_section(("rules", rc.get_config_ref())) or {}
        for k in getattr(rc, "config_keywords", None) or []:
            table.setdefault(k, []).append((code, rc.get_config_ref(), sec.get(k, generic.get(k)), (info.get(k) or {}).get("validation")))
    return table


def independence_under_rule_options(ctx, reg):
    import copy
    from sqlfluff.core import FluffConfig, Linter
    rng = ctx.rng
    quick = ctx.tier == "quick"
    harvested, plain = harvest_option_cases(reg)
    table = rule_option_table(reg)
    refs = {code: reg[code].rule_class.get_config_ref() for code in reg}
    by_opt = {}
    for h in harvested:
        by_opt.setdefault(h["option"], []).append(h)
    ctx.coverage_extra["rule_options"] = len(table)
    ctx.coverage_extra["rule_options_with_yaml_cases"] = len([k for k in table if k in by_opt])

    def by_rule(vs):
        out = {}
        for v in vs:
            if hasattr(v, "rule"):
                out.setdefault(v.rule_code(), []).append((v.line_no, v.line_pos, v.desc()))
        return {k: sorted(v) for k, v in out.items()}

    nscen = [0]

    def lint(configs, rules, sql, parsed=None):
        """Linter.lint_string under `configs` (+ rule selection). In 5 scenarios out of 6 the runs of one scenario differ in rule
        selection / rule options alone, which parsing cannot see, so they share one parse and go through the same three public steps
        lint_string is made of (parse_string, get_rulepack, lint_parsed); every 6th scenario calls lint_string throughout."""
        ov = {"rules": rules} if rules else {}
        cfg = FluffConfig(configs=copy.deepcopy(configs), overrides=ov)
        lnt = Linter(config=cfg)
        if rules is None:
            nscen[0] += 1
            parsed = None
            if nscen[0] % 6:
                try:
                    parsed = lnt.parse_string(sql)
                except (AttributeError, TypeError):
                    parsed = None
        if parsed is not None:
            try:
                pack = lnt.get_rulepack(config=cfg)
                return by_rule(lnt.lint_parsed(parsed._replace(config=cfg), pack, fix=False).violations), parsed
            except (AttributeError, TypeError):
                ctx.count("independence-shared-parse-unavailable")
        return by_rule(lnt.lint_string(sql).violations), None

    for k in sorted(table):
        owners = table[k]
        items = []
        cand = by_opt.get(k, [])
        # prefer cases in the default dialect (loading a dialect costs a second) whose value is not the default of that rule
        defaults = {code: dflt for (code, ref, dflt, val) in owners}
        good = [h for h in cand if h["value"] != defaults.get(h["rule"], None)] or cand
        ansi = [h for h in good if h["dialect"] == "ansi"] or good
        # parsing dominates the cost: in the quick tier draw from the shorter half of the trigger statements
        ansi.sort(key=lambda h: (len(h["sql"]), h["case"]))
        if quick:
            ansi = ansi[: max(3, len(ansi) // 2)]
        rng.shuffle(ansi)
        items = ansi[: (1 if quick else 2)]
        if not items:
            # no yaml case sets this option: first non-default value of the validation range, on the owner's failing cases
            for (code, ref, dflt, val) in owners:
                vals = [x for x in (list(val)[:6] if val is not None else []) if x != dflt]
                sqls = plain.get(code, [])
                if vals and sqls:
                    items.append({"rule": code, "ref": ref, "option": k, "value": vals[0], "configs": {}, "dialect": "ansi", "sql": rng.choice(sqls),
                                  "case": "validation-range"})
        for h in items:
            others = [c for c in sorted(reg) if c != h["rule"]]
            places = [("own", h["rule"])] + [("sibling", rng.choice(others)) for _ in range(2)] + [("generic", None)]
            for where, acode in places:
                configs = copy.deepcopy(h["configs"]) if isinstance(h["configs"], dict) else {}
                configs.setdefault("core", {})
                configs["core"]["dialect"] = h["dialect"]
                rules_sec = configs.setdefault("rules", {})
                if isinstance(rules_sec.get(h["ref"]), dict):
                    rules_sec[h["ref"]].pop(k, None)
                if where == "generic":
                    rules_sec[k] = h["value"]
                else:
                    sec = rules_sec.setdefault(refs[acode], {})
                    if not isinstance(sec, dict):
                        continue
                    sec[k] = h["value"]
                inp = {"configs": configs, "sql": h["sql"], "option": k, "value": h["value"], "set_in": where,
                       "section_rule": acode, "from_case": h["case"]}
                try:
                    together, parsed = lint(configs, None, h["sql"])
                except Exception as e:
                    ctx.count("independence-config-rejected:%s" % type(e).__name__)
                    continue
                alone_rules = sorted({c for (c, r, d, v) in owners} | {h["rule"]} | ({acode} if acode else set()) | (set() if quick else {rng.choice(others)}))
                for b in alone_rules:
                    try:
                        alone, _ = lint(configs, b, h["sql"], parsed)
                    except Exception as e:
                        ctx.violation("rule-alone-raises", "a configuration accepted for the whole rule set raises when one rule is selected",
                                      {"input": dict(inp, rule=b), "error": repr(e)}, attrs={"rule": b, "exception": type(e).__name__})
                        continue
                    ctx.case(("indep-opt", k, where, acode, b, h["case"]) if (alone.get(b) or together.get(b)) else None,
                             bucket="independence-option-" + where,
                             sample=dict(inp, rule=b, alone=alone.get(b, [])) if where == "sibling" and alone.get(b) and rng.random() < 0.05 else None)
                    extra = sorted(set(alone) - {b})
                    if extra:
                        ctx.violation("unselected-rule-reported", "a rule outside the selection reported a violation",
                                      {"input": dict(inp, rules=b), "others": extra})
                    if alone.get(b, []) != together.get(b, []):
                        ctx.violation("rule-depends-on-others-config",
                                      "with option %s set %s, violations of rule %s differ when run alone vs with all rules" % (
                                          k, {"own": "in its rule's own section", "sibling": "in another rule's section",
                                              "generic": "at the generic rules level"}[where], b),
                                      {"input": dict(inp, rule=b), "alone": alone.get(b, []), "together": together.get(b, [])},
                                      attrs={"rule": b, "option": k, "set_in": where})
