"""C21 — rule selection is exact and rules are independent."""
import fnmatch
import glob
import os

from harness import coq, gen_rules

LEVEL = "proof"
GENERATORS = [gen_rules.generate]
COQ_TARGETS = ["theories/Properties/C21.vo"]
PROPERTY_FILES = ["theories/Properties/C21.v"]
RULE = ("seeded selector lists over the real registry (codes, names, groups, aliases, globs with * ? [set] [!set] [a-b], unknown references, "
        "comma/whitespace noise, allow and deny mixed) -> get_rulepack vs the Coq model over the translated registry; whole reference map "
        "compared key by key; fixture SQL linted with one rule alone vs alongside all others. "
        "non-trivial = selection using a name/group/alias/glob or a deny list; distinct = distinct (allow, deny) strings")
ASSUMPTIONS = ["fnmatch semantics restricted to * ? [set] [!set] [a-b] (no reversed ranges / escapes)", "str.strip() whitespace restricted to ASCII whitespace, U+0085, U+00A0",
               "rule crawl is a function of (rule, tree) -- monitored by the alone-vs-together runs"]
TRUSTED_BASE = ["translator harness/gen_rules.py (registry -> Gen_rules.v)", "hand models Model/Glob.v, Model/RuleSelect.v"]


def gen_selector(rng, pools):
    codes, names, groups, aliases = pools
    def one():
        k = rng.randrange(10)
        if k < 3:
            return rng.choice(codes)
        if k == 3:
            return rng.choice(names)
        if k == 4:
            return rng.choice(groups)
        if k == 5:
            return rng.choice(aliases)
        if k == 6:
            return rng.choice(["XX99", "nosuch.rule", "", "all "])
        base = rng.choice(codes + names + aliases + groups)
        m = rng.randrange(6)
        if m == 0:
            return base[:rng.randrange(1, len(base))] + "*"
        if m == 1:
            i = rng.randrange(len(base))
            return base[:i] + "?" + base[i + 1:]
        if m == 2:
            return "*" + base[rng.randrange(len(base)):]
        if m == 3:
            i = rng.randrange(len(base))
            return base[:i] + "[" + base[i] + "x]" + base[i + 1:]
        if m == 4:
            i = rng.randrange(len(base))
            return base[:i] + "[!" + ("0" if base[i] != "0" else "1") + "]" + base[i + 1:]
        i = rng.randrange(len(base))
        return base[:i] + "[0-9A-Z]" + base[i + 1:] if (base[i].isdigit() or base[i].isupper()) else base[:i] + "[a-z.]" + base[i + 1:]
    n = rng.choice([1, 1, 2, 3])
    sep = rng.choice([",", ", ", " ,", ",,"])
    return sep.join(one() for _ in range(n))


def run(ctx, coq_ok):
    from sqlfluff.core import FluffConfig, Linter
    from sqlfluff.core.rules import get_ruleset
    reg = get_ruleset()._register
    codes = sorted(reg)
    names = sorted(m.name for m in reg.values() if m.name)
    groups = sorted({g for m in reg.values() for g in m.groups})
    aliases = sorted({a for m in reg.values() for a in m.aliases})
    pools = (codes, names, groups, aliases)
    base_pack = Linter(config=FluffConfig(overrides={"dialect": "ansi"})).get_rulepack()
    refmap = base_pack.reference_map

    n = 250 if ctx.tier == "quick" else 2500
    cases = []
    for i in range(n):
        allow = gen_selector(ctx.rng, pools) if ctx.rng.random() < 0.85 else ""
        deny = gen_selector(ctx.rng, pools) if ctx.rng.random() < 0.5 else ""
        cases.append((allow, deny))
    cases += [("", ""), ("all", ""), ("core", "LT*"), ("L*", "layout.spacing"), ("capitalisation", "CP02"), ("LT01,LT02", "LT0[2-9]")]
    impl = []
    for allow, deny in cases:
        ov = {"dialect": "ansi"}
        if allow:
            ov["rules"] = allow
        if deny:
            ov["exclude_rules"] = deny
        try:
            pack = Linter(config=FluffConfig(overrides=ov)).get_rulepack()
            got = sorted(r.code for r in pack.rules)
        except Exception as e:
            got = "EXC %s" % type(e).__name__
        impl.append(got)
        nt = deny or any(ch in allow for ch in "*?[") or any(x.strip() in names + groups + aliases for x in allow.split(","))
        ctx.case((allow, deny) if nt else None, bucket="allow=%d,deny=%d" % (len([x for x in allow.split(",") if x.strip()]), len([x for x in deny.split(",") if x.strip()])),
                 sample={"rules": allow, "exclude_rules": deny, "selected": got} if nt and len(impl) % 40 == 0 else None)
        # oracle in the property's words, with Python's own fnmatch
        def matched(sel):
            out = set()
            for r in [x.strip() for x in sel.split(",") if x.strip()]:
                if r in refmap:
                    out |= refmap[r]
                else:
                    for k in fnmatch.filter(refmap.keys(), r):
                        out |= refmap[k]
            return out
        a = matched(allow) if [x for x in allow.split(",") if x.strip()] else set(codes)
        want = sorted(c for c in codes if c in a and c not in matched(deny))
        if got != want:
            ctx.violation("selection-differs", "rules that run differ from (selection minus exclusion)",
                          {"input": {"rules": allow, "exclude_rules": deny}, "got": got, "want": want})
    # only selected rules report; rule alone == rule among all
    fixtures = sorted(glob.glob(os.environ.get("VERIF_REPO", "/repo") + "/test/fixtures/dialects/ansi/*.sql"))
    ctx.rng.shuffle(fixtures)
    fx = fixtures[: (6 if ctx.tier == "quick" else 40)]
    sample_rules = ["LT01", "CP01", "AL01", "RF02", "ST06", "LT02", "AM04", "CV03", "LT09", "RF04"] if ctx.tier == "quick" else codes
    lnt_all = Linter(config=FluffConfig(overrides={"dialect": "ansi"}))
    for f in fx:
        sql = open(f).read()
        allv = [v for v in lnt_all.lint_string(sql, fname=f).violations if hasattr(v, "rule")]
        by_rule = {}
        for v in allv:
            by_rule.setdefault(v.rule_code(), []).append((v.line_no, v.line_pos, v.desc()))
        for r in sample_rules:
            alone = Linter(config=FluffConfig(overrides={"dialect": "ansi", "rules": r})).lint_string(sql, fname=f).violations
            alone_l = [(v.line_no, v.line_pos, v.desc()) for v in alone if hasattr(v, "rule")]
            other = sorted({v.rule_code() for v in alone if hasattr(v, "rule")} - {r})
            ctx.case(("indep", f, r) if alone_l else None, bucket="independence")
            if other:
                ctx.violation("unselected-rule-reported", "a rule outside the selection reported a violation", {"input": {"file": f, "rules": r}, "others": other})
            if sorted(alone_l) != sorted(by_rule.get(r, [])):
                ctx.violation("rule-depends-on-others", "violations of rule %s differ when run alone vs with all rules" % r,
                              {"input": {"file": f, "rule": r}, "alone": sorted(alone_l), "together": sorted(by_rule.get(r, []))}, attrs={"rule": r})
    if not coq_ok:
        return
    # model
    lits = ["(%s, %s)" % (coq.ctext(a), coq.ctext(d)) for a, d in cases]
    res = coq.eval_sharded(["Model.Glob", "Model.RuleSelect", "From SFGen Require Import Gen_rules."],
                           "fun c : text * text => select gen_register (split_commas (fst c)) (split_commas (snd c))", lits, shard=60)
    for (a, d), m, got in zip(cases, res, impl):
        mm = sorted("".join(chr(x) for x in c) for c in m)
        if mm != got:
            ctx.broken_obligation("correspondence Model.RuleSelect.select vs get_rulepack", {"rules": a, "exclude_rules": d, "model": mm, "impl": got})
            break
    # reference map, key by key
    keys = sorted(refmap)
    res2 = coq.eval_sharded(["Model.Glob", "Model.RuleSelect", "From SFGen Require Import Gen_rules."], "lookup gen_register", [coq.ctext(k) for k in keys], shard=120)
    for k, m in zip(keys, res2):
        mm = sorted("".join(chr(x) for x in c) for c in (m[1] if isinstance(m, tuple) and m[0] == "Some" else []))
        if mm != sorted(refmap[k]):
            ctx.broken_obligation("correspondence Model.RuleSelect.lookup vs rule_reference_map", {"key": k, "model": mm, "impl": sorted(refmap[k])})
            break
    ctx.coverage_extra["model_vs_impl_cases"] = len(lits) + len(keys)
