"""C33 — violations are reported once and in source order."""
from types import SimpleNamespace

from harness import coq

LEVEL = "proof"
COQ_TARGETS = ["theories/Properties/C33.vo"]
PROPERTY_FILES = ["theories/Properties/C33.v"]
RULE = ("seeded random violation lists (lint/parse/template/lex errors, fixes and source fixes, many repeated signatures, out-of-order "
        "positions) against LintedFile.deduplicate_in_source_space; plus end-to-end lint of generated Jinja templates with loops and "
        "unreached branches (several variants). non-trivial = list with >=1 duplicated signature and >=1 inversion; distinct = distinct list")
ASSUMPTIONS = ["Python sorted() is stable; set membership on signature tuples is structural equality",
               "description / fix raws / source-fix slices are abstracted to an interned id (v_rest)"]
TRUSTED_BASE = ["hand model Model/Dedup.v of deduplicate_in_source_space and source_signature"]

TEMPLATES = [
    "select\n{% for c in ['a','b','c'] %}\n    {{c}}+1  as {{c}}_x ,\n{% endfor %}\n  1 from  t\n",
    "{% for i in range(3) %}select  a,b from t{{i}} ;\n{% endfor %}",
    "select {% if x %}a ,b{% else %}c ,d{% endif %} from t where  1=1\n",
    "{% for t in ['x','y'] %}{% if loop.first %}select  1{% else %}union  all select  2{% endif %}\n{% endfor %}from z\n",
    "SELECT\n{% for n in [1,2] %}{% for m in [1,2] %}   col_{{n}}_{{m}} AS C,\n{% endfor %}{% endfor %}\n 1 FROM T\n",
    "select a from t {% if y %}where  a=1{% elif z %}where  a=2{% else %}where  a=3{% endif %}\n{% for k in [1,2,3] %}-- c {{k}}\n{% endfor %}",
    "{% set cols = ['a', 'b'] %}select {% for c in cols %}{{c}}  ,{% endfor %} 1 as  x from t\n",
]


def mkspec(rng):
    kind = rng.randrange(0, 6)
    fixes = []
    if kind >= 3:
        for _ in range(rng.choice([0, 0, 1, 2])):
            if rng.random() < 0.3:
                fixes.append(None)
            else:
                fixes.append([(rng.choice(["x", "y"]),
                               [(rng.choice(["e", "f"]), rng.randrange(2), 2 + rng.randrange(2)) for _ in range(rng.choice([0, 0, 1]))])
                              for _ in range(rng.choice([1, 2]))])
    return (kind, rng.randrange(1, 4), rng.randrange(1, 4), rng.choice(["d1", "d2"]), rng.randrange(2), fixes)


def mkviols(rng):
    from sqlfluff.core.errors import SQLLexError, SQLLintError, SQLParseError, SQLTemplaterError
    n = rng.randrange(0, 9)
    out = []
    specs = []
    rules = [SimpleNamespace(code="LT01", name="layout.spacing"), SimpleNamespace(code="CP01", name="capitalisation.keywords")]
    for i in range(n):
        spec = rng.choice(specs) if specs and rng.random() < 0.4 else mkspec(rng)
        specs.append(spec)
        kind, line, pos, desc, ridx, fx = spec
        if kind == 0:
            v = SQLParseError(desc, line_no=line, line_pos=pos)
            code, rest = "PRS", ("b", desc)
        elif kind == 1:
            v = SQLTemplaterError(desc, line_no=line, line_pos=pos)
            code, rest = "TMP", ("b", desc)
        elif kind == 2:
            v = SQLLexError(desc, line_no=line, line_pos=pos)
            code, rest = "LXR", ("b", desc)
        else:
            rule = rules[ridx]
            seg = SimpleNamespace(pos_marker=SimpleNamespace(source_position=lambda l=line, p=pos: (l, p)))
            fixes = []
            for f in fx:
                if f is None:
                    fixes.append(SimpleNamespace(edit=None))
                else:
                    # the templated slice differs per pass (index i): it must not influence the signature
                    fixes.append(SimpleNamespace(edit=[SimpleNamespace(raw=raw, source_fixes=[
                        SimpleNamespace(edit=e, source_slice=slice(a, b), templated_slice=slice(i, i + 1)) for (e, a, b) in sfs])
                        for (raw, sfs) in f]))
            v = SQLLintError(desc, seg, rule, fixes=fixes)
            code = rule.code
            fr = tuple(tuple(e.raw for e in f.edit) if f.edit else None for f in fixes)
            sfx = tuple((s.edit, s.source_slice.start, s.source_slice.stop) for f in fixes if f.edit for e in f.edit for s in e.source_fixes)
            rest = ("l", desc, fr, sfx)
        out.append((v, code, line, pos, rest))
    return out


def run(ctx, coq_ok):
    from sqlfluff.core.linter.linted_file import LintedFile
    ncases = 1500 if ctx.tier == "quick" else 15000
    codes = {"PRS": 0, "TMP": 1, "LXR": 2, "LT01": 3, "CP01": 4}
    cases, impl, lits = [], [], []
    for _ in range(ncases):
        vs = mkviols(ctx.rng)
        intern = {}
        rows = []
        for idx, (v, code, line, pos, rest) in enumerate(vs):
            rid = intern.setdefault(rest, len(intern))
            rows.append((codes[code], line, pos, rid, idx))
            v._verif_idx = idx
        res = LintedFile.deduplicate_in_source_space([v for (v, *_r) in vs])
        out_idx = [v._verif_idx for v in res]
        sigs = [r[:4] for r in rows]
        dup = len(set(sigs)) < len(sigs)
        inv = any((rows[i][1], rows[i][2]) > (rows[i + 1][1], rows[i + 1][2]) for i in range(len(rows) - 1))
        ctx.case(repr(rows) if dup and inv else None, sample={"violations(code,line,pos,rest,idx)": rows, "kept_idx": out_idx} if dup and inv else None,
                 bucket="n=%d" % len(rows))
        # monitor: the property on the implementation's output
        keys = [v.source_signature() for v in res]
        if len(set(keys)) != len(keys):
            ctx.violation("dedup-duplicate", "a source signature is reported twice", {"input": rows, "kept_idx": out_idx})
        if any((res[i].line_no, res[i].line_pos) > (res[i + 1].line_no, res[i + 1].line_pos) for i in range(len(res) - 1)):
            ctx.violation("dedup-order", "violations not in source order", {"input": rows, "kept_idx": out_idx})
        if set(keys) != set(v.source_signature() for (v, *_r) in vs):
            ctx.violation("dedup-lost", "a distinct violation was dropped", {"input": rows, "kept_idx": out_idx})
        cases.append(rows)
        impl.append(out_idx)
        lits.append(coq.clist(["(mkViol %d %d %d %d %d)" % r for r in rows]) if rows else "(@nil viol)")
    # end-to-end on templated files with loops / variants
    from sqlfluff.core import FluffConfig, Linter
    for ti, tpl in enumerate(TEMPLATES):
        for ctxvars in ({}, {"x": True, "y": False, "z": True}):
            cfg = FluffConfig(overrides={"dialect": "ansi", "templater": "jinja"},
                              configs={"templater": {"jinja": {"context": ctxvars}}})
            lf = Linter(config=cfg).lint_string(tpl, fname="t%d.sql" % ti)
            vs = lf.violations
            keys = [(v.rule_code(), v.line_no, v.line_pos, v.desc()) for v in vs]
            ctx.case(("e2e", ti, repr(ctxvars)), bucket="e2e-template",
                     sample={"template": tpl, "violations": keys[:6]} if ti == 0 and not ctxvars else None)
            sigs = [v.source_signature() for v in vs]
            if len(set(sigs)) != len(sigs):
                ctx.violation("e2e-duplicate", "templated file reports one violation twice", {"input": {"template": tpl, "context": ctxvars}, "violations": keys})
            if any(keys[i][1:3] > keys[i + 1][1:3] for i in range(len(keys) - 1)):
                ctx.violation("e2e-order", "templated file reports violations out of source order", {"input": {"template": tpl, "context": ctxvars}, "violations": keys})
    if not coq_ok:
        return
    model = coq.eval_sharded(["Model.Dedup"], "fun l => map v_tpos (dedup_sort l)", lits, shard=500)
    for rows, m, r in zip(cases, model, impl):
        if list(m) != r:
            ctx.broken_obligation("correspondence Model.Dedup.dedup_sort vs deduplicate_in_source_space", {"input": rows, "model": m, "impl": r})
            break
    ctx.coverage_extra["model_vs_impl_cases"] = len(lits)
