"""C03 — parse trees are well-formed and indentation markers balance."""
import json
import os

from harness import core, corpus, gen_indentflow

LEVEL = "proof"
GENERATORS = [gen_indentflow.generate]
COQ_TARGETS = ["theories/Properties/C03.vo", "generated/Gen_indent_all.vo"]
PROPERTY_FILES = ["theories/Properties/C03.v", "generated/Gen_indent_all.v"]
RULE = ("STATIC, complete over the bundled dialects: every dialect's grammar objects are translated on every run to an indent-flow abstraction "
        "(harness/gen_indentflow.py) and a kernel-checked certificate per dialect x 64 valuations of the indentation-config keys decides that every "
        "complete derivation from the root has net indent 0 (C03_indent_certificate_sound); dialects for which it cannot be established are "
        "compared with the committed expectations (indentflow_expectations.json). DYNAMIC, end-to-end on real parse trees: fixtures of every bundled dialect + token-level mutations (incl. unbalanced brackets, truncation); per "
        "node: templated span = first child start .. last child stop, source span = hull of children, children in non-decreasing templated "
        "order, no node other than file/unparsable begins or ends with a non-code non-meta segment; over leaves: running indent balance >= 0 and "
        "0 at the end. The theorem (Coq) covers span/order for every tree MatchResult.apply can build from a certified result; C02's check ties "
        "that model to the code. non-trivial = tree with >= 20 tokens or an unparsable node; distinct by (dialect, sql)")
ASSUMPTIONS = ["PositionMarker.from_child_markers is the hull of the children (observed on every node by the monitor)",
               "per-dialect indent flow analysis (DESIGN §7 IndentFlow) is not built: balance is monitored, not proved"]
TRUSTED_BASE = ["hand model Model/MatchResult.v (tied to the code by C02's correspondence)", "harness/treecheck.py tree walker"]


LOOP_TEMPLATES = [
    "SELECT\n{% for col in ['a', 'b', 'c'] %}\n    {{ col }}{% if not loop.last %},{% endif %}\n{% endfor %}\nFROM tbl\n",
    # a construct that starts in one iteration and is finished by text the NEXT iteration emits (earlier in the source)
    "SELECT\n{% for col in ['a', 'b'] %}\n    {% if not loop.first %}AS alias_{{ loop.index - 1 }},{% endif %}\n    {{ col }}\n{% endfor %}\nAS last_alias FROM tbl\n",
    "SELECT * FROM tbl WHERE\n{% for v in [1, 2, 3] %}{% if not loop.first %} {{ v }} {% endif %}{% if not loop.last %}{% if not loop.first %}AND {% endif %}col_{{ v }} <{% endif %}{% endfor %}\n",
    "SELECT {% for c in ['a', 'b', 'c'] %}{% if not loop.first %}) + {% endif %}f({{ c }}{% endfor %}) AS x FROM t\n",
    "SELECT {% for c in ['a', 'b'] %}{{ c }} + {% endfor %}0 AS total FROM t\n",
    "SELECT 1 FROM t WHERE {% for c in ['a', 'b'] %}{% if not loop.first %}1 AND {% endif %}{{ c }} ={% endfor %} 2\n",
    "SELECT a FROM {% for t in ['x', 'y'] %}{% if not loop.first %}ON x.id = y.id {% endif %}{{ t }} {% if loop.first %}JOIN {% endif %}{% endfor %}\n",
    "{% for s in [1, 2] %}{% if not loop.first %}b FROM t{{ s }};\n{% endif %}SELECT a{{ s }}, {% endfor %}c FROM u\n",
    "SELECT CASE {% for v in [1, 2] %}{% if not loop.first %}THEN {{ v }} {% endif %}WHEN x = {{ v }} {% endfor %}THEN 0 END FROM t\n",
]

# bracketed forms of every kind of content (the bracket handling of the parser adds its own Indent/Dedent pair around the content's)
BRACKETED = [
    "SELECT * FROM (tbl_a JOIN tbl_b ON tbl_a.x = tbl_b.x)\n",
    "SELECT * FROM ((a JOIN b ON a.x = b.x) JOIN c ON c.y = a.y)\n",
    "SELECT * FROM (tbl_a)\n",
    "SELECT * FROM (tbl_a AS a JOIN tbl_b AS b USING (x)) WHERE (a.x > 1)\n",
    "(SELECT 1) UNION (SELECT 2 FROM (t JOIN u ON t.a = u.a))\n",
    "SELECT (a + b) * (c - d), f(x, (y)), CASE WHEN (a) THEN (b) ELSE (c) END FROM (SELECT 1 AS a) AS t\n",
    "INSERT INTO t (a, b) VALUES (1, 2), (3, (4))\n",
    "WITH x AS (SELECT 1 AS a) SELECT a FROM (x) WHERE a IN (1, 2) AND EXISTS (SELECT 1 FROM (x JOIN x AS y ON x.a = y.a))\n",
    "CREATE TABLE t (a INT, b VARCHAR(10), PRIMARY KEY (a))\n",
    "SELECT a FROM t GROUP BY (a), (b) ORDER BY (a) DESC\n",
]


def static_balance(ctx):
    dump = getattr(ctx, "indent_dump", None)
    if dump is None:
        dump, failures = gen_indentflow.generate()
    exp = json.load(open(os.path.join(core.VERIF, "indentflow_expectations.json")))
    nb = 0
    for name, info in sorted(dump.items()):
        ctx.case(("static", name), bucket="static:%s" % ("balanced" if info["balanced"] else "not-established"))
        ctx.programs += 1
        if info["balanced"]:
            nb += 1
            continue
        a = gen_indentflow.analyse(name)
        local = sorted(n for i, (n, t) in a["defs"].items() if gen_indentflow.nets(t, {}, frozenset()) != {0})
        e = exp.get(name)
        if e and e.get("local") == local and e.get("status") == "inconclusive":
            ctx.count("static:inconclusive-as-recorded:%s" % name)
            continue
        ctx.violation("grammar-indent-unbalanced", "dialect %s: indent markers of the grammar do not balance statically; locally unbalanced definitions: %s" % (name, ", ".join(local)),
                      {"input": {"dialect": name, "locally_unbalanced": local, "fixpoint_nonzero": info["culprits"]}}, attrs={"dialect": name, "local": ",".join(local)})
    ctx.coverage_extra["dialects_statically_balanced"] = nb
    ctx.coverage_extra["dialects_translated"] = len(dump)


def run(ctx, coq_ok):
    static_balance(ctx)
    rng = ctx.rng
    per = 4 if ctx.tier == "quick" else 30
    muts = 3 if ctx.tier == "quick" else 5
    items = corpus.corpus(rng, per, muts, max_chars=1500 if ctx.tier == "quick" else 5000)
    jobs = [(d, label, sql, False) for (d, label, sql) in items]
    for (d, label, sql, _w), st, res in corpus.pmap("harness.treecheck", "parse_case", jobs):
        if st != "ok":
            ctx.broken_obligation("harness worker crashed on %s/%s" % (d, label), res)
            continue
        nontriv = (res["unparsable"] or 0) > 0 or res["ntokens"] >= 20
        ctx.case(("tree", d, sql) if nontriv else None,
                 bucket="tree:%s" % ("exc" if res["exc"] else "fatal" if res["fatal_prs"] else "unparsable" if res["unparsable"] else "clean"),
                 sample={"dialect": d, "file": label, "tokens": res["ntokens"], "unparsable_nodes": res["unparsable"]} if nontriv and "~" in label else None)
        for key, what in res["c03"]:
            ctx.violation("tree-" + key, "%s (dialect %s)" % (what, d), {"input": {"dialect": d, "label": label, "sql": sql}},
                          attrs={"kind": key, "unparsable": bool(res["unparsable"])})
    # templated sources: source positions are not monotone in the templated file (loops), so "source span = hull of the children" is checked
    # on trees whose nodes straddle loop iterations, and on generated templates
    tjobs = [("jinja", 0, "loop-%d" % i, t) for i, t in enumerate(LOOP_TEMPLATES)] + [("raw", None, "bracketed-%d" % i, t) for i, t in enumerate(BRACKETED)]
    for i in range(60 if ctx.tier == "quick" else 600):
        tjobs.append(("jinja", i % 2, "jinja-gen", corpus.gen_jinja(rng)))
    for i in range(10 if ctx.tier == "quick" else 60):
        tjobs.append(("python", None, "py-gen", corpus.gen_pyformat(rng)))
    for (tpl, style, label, src), st, res in corpus.pmap("harness.treecheck", "tparse_case", tjobs):
        if st != "ok":
            ctx.broken_obligation("harness worker crashed on %s" % label, res)
            continue
        nontriv = bool(res.get("templated")) or label.startswith("bracketed")
        ctx.case(("ttree", tpl, src) if nontriv else None,
                 bucket="ttree:%s" % ("exc" if res["exc"] else "no-tree" if res["unparsable"] is None else "loop" if res.get("loops") else "templated" if res.get("templated") else "plain"),
                 sample={"templater": tpl, "source": src[:120], "tokens": res["ntokens"]} if res.get("loops") and len(ctx.samples) < 6 else None)
        for key, what in res["c03"]:
            ctx.violation("tree-" + key, "%s (templater %s)" % (what, tpl), {"input": {"dialect": "ansi", "templater": tpl, "style": style, "label": label, "source": src}},
                          attrs={"kind": key, "unparsable": bool(res["unparsable"]), "templater": tpl, "tmp": bool(res.get("tmp"))})
    ctx.coverage_extra["parsed_files"] = len(items)
    ctx.coverage_extra["parsed_templated"] = len(tjobs)
